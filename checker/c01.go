package main

// C01 — transfers conserve tokens (structural necessary conditions).

import (
	"fmt"
	"go/types"
	"sort"
	"strings"

	"golang.org/x/tools/go/ssa"
)

func init() {
	register(&Property{
		ID:    "C01",
		Level: "other",
		Explanation: "Conservation itself is arithmetic over histories and is not decided. Decided are eight structural necessary conditions. R1: every save of a foreign entry (one not read from the account being written) and every read-modify-write with a delta is " +
			"preceded on every path by the addition of the current holding / the delta to the saved Value (must-pass-through, recognised by the save, not by the Add). R2: the nonce-parametrised reader relates the stored metadata nonce to the requested one, so " +
			"that read key = write key (KNOWN FINDING on this tree). R3: the destination side accepts what the sender side emits — the number of arguments the emitter appends, as a linear form pre + n·iter obtained by counting appends along the def-use chain, " +
			"equals the destination's own length requirement and is >= the shared pre-guard for n = 1 (NFT: 3 forwarded + payload = 4). R4: the quantity debited, the quantity the shipped/credited entry is set to, and (ESDTTransfer) the credited delta are one term; " +
			"the Set(quantity) lies on every path from the debit to any use of the entry. R5: an account obtained from LoadAccount and modified is handed to SaveAccount on every path to a success return. R6: after the sender's debit every path to a success " +
			"return passes a local credit of the destination, the construction of an output transfer, or (ESDTTransfer only) the edge `caller is not a contract`. R7: every debit below a transfer entry point is exact — the subtraction is guarded by holding >= " +
			"quantity evaluated on the value subtracted from (an overdrawn NFT entry is deleted, not stored negative, so the excess would be created). R8: tokens are delivered once — for every pair of a local credit of a non-sender account and a message " +
			"that carries tokens on under the function's own name, the guards of the one contradict the guards of the other (destination account present / same shard vs absent / other shard) or no control-flow path joins them. R9 (shared with C10-R5): the continuing side of the transfers has no error exit decided by the content of a forwarded argument. R10 (shared with C04-R1): every credit below the transfers passes the freeze/pause gate bound to the input's own return-after-error flag, so a bounced transfer is credited back. R11: below the transfer functions the pause handler is consulted only when the input's return-after-error flag is unset (a refund is never refused for a pause). R12: a reader of token entries hands back an empty holding only when nothing is stored under the key; a message is built in memory the call owns. Does NOT decide: the sums, delivery/refund histories, undelivered messages.",
		Trusted: []string{"math/big semantics", "A-deps", "A-protomsg"},
		Rules:   []func(*Ctx){c01r1, c01r2, c01r3, c01r4, c01r5, c01r6, c01r7, c01r8, c01r9, c01r10, c01r11, c01r12},
	})
}

func c01r2(c *Ctx) { nonceReaderRule(c, "C01-R2") }

// ---------------------------------------------------------------- R1

func c01r1(c *Ctx) {
	const rule = "C01-R1"
	c.Rule(rule, "a credit saves transferred + existing: the addition of the current holding (or of the delta) lies on every path to the save", 8)
	bal := balancePrefix(c.P)
	done := map[string]bool{}
	crediting := map[string]bool{}
	for _, sp := range loadRegSpec() {
		if sp.Supply == "+" || sp.Supply == "transfer" {
			crediting[sp.Name] = true
		}
	}
	credits := map[*ssa.Function]int{}
	defer func() {
		// semantic anchor instead of a raw site count: every function that credits must show a save recognised as a credit
		for _, r := range c.P.Registrations() {
			if r.Entry != nil && crediting[r.Key] && credits[r.Entry] == 0 {
				c.Fail(rule, "floor", FuncName(r.Entry), r.Key+": a credit (Add before the save) below the entry point", c.P.Pos(r.Entry.Pos()),
					"no balance save below "+r.Key+" is recognised as a credit: the addition of the transferred amount to the holding has disappeared")
			}
		}
	}()
	for _, r := range c.P.Registrations() {
		if r.Entry == nil {
			continue
		}
		for _, s := range c.P.EffectSites(r.Entry, "save", isBalanceSave(c.P)) {
			call := s.In.(ssa.CallInstruction)
			ks := keyShape(s.Env, call.Common().Args[0], 0)
			v := call.Common().Args[1]
			if ks == nil || ks.Prefix != bal || isNilConst(v) {
				continue
			}
			obj := marshalledObject(v)
			if obj == nil || !strings.HasSuffix(obj.Type().String(), "esdt.ESDigitalToken") {
				continue
			}
			acct := s.Env.Term(writtenAccount(call))
			org := entryOrigin(s.Env, obj, 0)
			class := ""
			switch {
			case org == "literal":
				continue // creation: C07
			case strings.HasPrefix(org, "read:") && strings.TrimPrefix(org, "read:") == acct:
				class = "read-modify-write"
			default:
				class = "foreign entry (" + org + ")"
			}
			key := FuncName(r.Entry) + "|" + s.Chain() + "|" + s.Env.Term(obj) + "|" + acct
			if done[key] {
				continue
			}
			done[key] = true
			// walk up the call chain while the saved object is a parameter: the addition may live in any of these functions
			owner := s.Env
			var at ssa.Instruction = s.In
			objV := obj
			okAt, whyAll := "", []string{}
			skip := false
			for {
				// a parameter kept in a variable cell (captured by a function literal) is still that parameter
				if u, isLoad := objV.(*ssa.UnOp); isLoad {
					if f := forwarded(u); f != nil {
						objV = f
					}
				}
				res, why, notApplicable := creditAddInLevel(c.P, owner, objV, at, acct, class)
				if notApplicable {
					skip = true
					break
				}
				if res != "" {
					okAt = res
					break
				}
				whyAll = append(whyAll, owner.Fn.Name()+": "+why)
				p, isPar := objV.(*ssa.Parameter)
				if !isPar || owner.Parent == nil {
					break
				}
				a2, pe := owner.actual(p)
				if a2 == nil {
					break
				}
				objV, at, owner = a2, owner.Call, pe
			}
			if skip {
				continue
			}
			construct := "save of " + class + " " + s.Env.Term(obj) + " into " + acct + " via " + s.Chain()
			credits[r.Entry]++
			if okAt != "" {
				c.OK(rule, FuncName(s.In.Parent()), construct, c.P.InstrPos(s.In), okAt)
			} else {
				c.FailX(Oblig{Rule: rule, Func: FuncName(s.In.Parent()), Construct: construct, Pos: c.P.InstrPos(s.In), Kind: "violation",
					Detail:   "the saved entry overwrites what the account holds under that key: " + strings.Join(whyAll, " | "),
					Expected: "X.Value.Add(X.Value, current.Value) (resp. Value.Add(Value, delta)) on every path before the save"})
			}
		}
	}
}

// creditAddInLevel looks, in one function of the call chain, for the addition that makes the save a credit. Returns a description when found,
// else the reason; notApplicable for in-place debits (governed by C02).
func creditAddInLevel(p *Prog, owner *Env, objV ssa.Value, at ssa.Instruction, acct, class string) (string, string, bool) {
	ot := owner.Term(objV)
	// an addition (or subtraction) on the saved entry's Value: in this function, or inside a helper / function literal this
	// function hands the Value to (its position is then the call made here)
	type addSite struct {
		pos    *ssa.Call // the instruction of owner.Fn at which the addition happens
		env    *Env      // where the Add itself is
		ac     *ssa.Call // the Add
		always bool      // inside a helper: the Add lies on every successful path of the helper
	}
	var adds []addSite
	hasSub := false
	var scan func(env *Env, pos *ssa.Call, depth int)
	scan = func(env *Env, pos *ssa.Call, depth int) {
		for _, b := range env.Fn.Blocks {
			for _, in := range b.Instrs {
				ac, ok := in.(*ssa.Call)
				if !ok {
					continue
				}
				if m := bigMethod(ac); m != "" {
					if env.Term(firstArg(ac)) == "*"+ot+".Value" {
						switch m {
						case "Add":
							here := pos
							if here == nil {
								here = ac
							}
							always := true
							if pos != nil {
								// inside the helper the Add must cut every success return
								cutB := map[edge]bool{}
								for _, sb := range ac.Block().Succs {
									cutB[edge{ac.Block(), sb}] = true
								}
								for ed := range errorEdgesOfFn(env.Fn) {
									cutB[ed] = true
								}
								for _, r := range returnsOf(env.Fn) {
									if (!lastIsError(env.Fn) || isSuccessReturn(r)) && r.Block() != ac.Block() && reachableAvoiding(env.Fn.Blocks[0], r.Block(), cutB) {
										always = false
									}
								}
							}
							adds = append(adds, addSite{here, env, ac, always})
						case "Sub":
							hasSub = true
						}
					}
					continue
				}
				if depth >= 2 {
					continue
				}
				passes := false
				for _, a := range ac.Call.Args {
					if isBigIntPtr(a.Type()) && env.Term(a) == "*"+ot+".Value" {
						passes = true
					}
				}
				if !passes {
					continue
				}
				for _, callee := range env.CalleesIn(ac) {
					if len(callee.Blocks) == 0 || callee.Pkg == nil || !strings.HasPrefix(callee.Pkg.Pkg.Path(), modPath) {
						continue
					}
					outer := pos
					if outer == nil {
						outer = ac
					}
					scan(env.Sub(ac, callee), outer, depth+1)
				}
			}
		}
	}
	scan(owner, nil, 0)
	if class == "read-modify-write" {
		if hasSub && len(adds) == 0 {
			return "", "", true // a debit of the account's own entry: overdraft guard and direction are C02's
		}
		if len(adds) == 0 {
			if _, isPar := objV.(*ssa.Parameter); !isPar {
				return "", "", true // metadata rewrite / flag toggle of an own entry: no amount involved (C02-R3, C08-R1)
			}
		}
	}
	why := "no Add onto the saved Value"
	var good *ssa.Call
	for _, as := range adds {
		ac, ae := as.ac, as.env
		x, y := ae.Term(ac.Call.Args[1]), ae.Term(ac.Call.Args[2])
		other, otherV := y, ac.Call.Args[2]
		if x != "*"+ot+".Value" {
			other, otherV = x, ac.Call.Args[1]
			if y != "*"+ot+".Value" {
				why = "the Add does not keep the saved Value as an operand: " + x + " + " + y
				continue
			}
		}
		if !as.always {
			why = "the Add inside " + ae.Fn.Name() + " is conditional there"
			continue
		}
		if class == "read-modify-write" {
			if strings.Contains(other, "bigBytes(") || isParamValue(otherV) && ae == owner {
				good = as.pos
			} else {
				why = "the Add's other operand is " + other + ", not the stated amount"
			}
			continue
		}
		if oo := entryOriginOfValue(ae, otherV, 0); oo == "read:"+acct {
			good = as.pos
		} else {
			why = "the value added is " + other + " (" + oo + "), not the current holding of the credited account"
		}
	}
	if good == nil {
		return "", why, false
	}
	cut := map[edge]bool{}
	for _, sblk := range good.Block().Succs {
		cut[edge{good.Block(), sblk}] = true
	}
	if good.Block() != at.Block() && reachableAvoiding(owner.Fn.Blocks[0], at.Block(), cut) {
		return "", "the addition at " + p.InstrPos(good) + " is conditional: path " + strings.Join(pathAvoiding(owner.Fn.Blocks[0], at.Block(), cut), ">") + " reaches the save without it", false
	}
	if good.Block() == at.Block() && indexIn(good) > indexIn(at) {
		return "", "the addition comes after the save", false
	}
	return "Add at " + p.InstrPos(good) + " in " + owner.Fn.Name() + " lies on every path to the save", "", false
}

func firstArg(c *ssa.Call) ssa.Value {
	if len(c.Call.Args) == 0 {
		return c
	}
	return c.Call.Args[0]
}

func isParamValue(v ssa.Value) bool {
	_, ok := v.(*ssa.Parameter)
	return ok
}

// ---------------------------------------------------------------- R3

// appendCount: minimal number of elements a slice value holds, following append chains; rel = φ to treat as the zero point.
func appendCount(e *Env, v ssa.Value, rel *ssa.Phi, seen map[ssa.Value]bool, depth int) (int64, bool) {
	if depth > 40 {
		return 0, false
	}
	if rel != nil && v == ssa.Value(rel) {
		return 0, true
	}
	if seen[v] {
		return 1 << 40, true // cycle: ignored by min
	}
	seen[v] = true
	defer delete(seen, v)
	switch x := v.(type) {
	case *ssa.MakeSlice:
		if k, ok := constInt(x.Len); ok {
			return k, true
		}
	case *ssa.Slice:
		if x.Low == nil && x.High != nil {
			if k, ok := constInt(x.High); ok {
				return k, true // x[:k] holds k elements whatever x is
			}
		}
		if _, ok := x.X.(*ssa.Alloc); ok && x.Low == nil {
			return 0, true
		}
	case *ssa.Call:
		if bi, ok := x.Call.Value.(*ssa.Builtin); ok && bi.Name() == "append" {
			base, ok := appendCount(e, x.Call.Args[0], rel, seen, depth+1)
			if !ok {
				return 0, false
			}
			return base + spreadLen(e, x.Call.Args[1]), true
		}
	case *ssa.Phi:
		best := int64(1 << 40)
		for _, ed := range x.Edges {
			if n, ok := appendCount(e, ed, rel, seen, depth+1); ok && n < best {
				best = n
			}
		}
		return best, best < 1<<40
	case *ssa.Parameter:
		if a, pe := e.actual(x); a != nil {
			return appendCount(pe, a, rel, seen, depth+1)
		}
	case *ssa.Extract:
		if call, ok := x.Tuple.(*ssa.Call); ok {
			return appendCountCall(e, call, x.Index, rel, seen, depth)
		}
	}
	if call, ok := v.(*ssa.Call); ok {
		return appendCountCall(e, call, 0, rel, seen, depth)
	}
	return 0, false
}

// appendCountCall: the list is result idx of a module helper that appends to a list it was handed (`args, err = h(args, …)`):
// the least count over its successful returns.
func appendCountCall(e *Env, call *ssa.Call, idx int, rel *ssa.Phi, seen map[ssa.Value]bool, depth int) (int64, bool) {
	sc := call.Call.StaticCallee()
	if sc == nil || len(sc.Blocks) == 0 || sc.Pkg == nil || !strings.HasPrefix(sc.Pkg.Pkg.Path(), modPath) || e.depth >= maxDepth {
		return 0, false
	}
	sub := e.Sub(call, sc)
	best := int64(1 << 40)
	for _, r := range returnsOf(sc) {
		if idx >= len(r.Results) {
			return 0, false
		}
		if lastIsError(sc) && !isSuccessReturn(r) {
			continue
		}
		n, ok := appendCount(sub, liveRetval(r, idx), rel, seen, depth+1)
		if !ok {
			return 0, false
		}
		if n < best {
			best = n
		}
	}
	return best, best < 1<<40
}

// spreadLen: lower bound of the number of elements appended by `append(x, v...)`.
func spreadLen(e *Env, v ssa.Value) int64 {
	sl, ok := v.(*ssa.Slice)
	if !ok {
		return 0
	}
	if al, ok := sl.X.(*ssa.Alloc); ok { // literal [k]T{…}[:]
		_ = al
		n := int64(0)
		for _, r := range *sl.X.Referrers() {
			if _, ok := r.(*ssa.IndexAddr); ok {
				n++
			}
		}
		return n
	}
	if sl.High != nil && sl.Low == nil {
		if k, ok := constInt(sl.High); ok {
			return k
		}
	}
	return 0 // x[k:] — unknown tail, lower bound 0
}

func c01r3(c *Ctx) {
	const rule = "C01-R3"
	c.Rule(rule, "the destination side accepts the number of arguments the sender side emits", 3)
	regs := c.P.RegByName()
	for _, name := range []string{"ESDTNFTTransfer", "MultiESDTNFTTransfer"} {
		r, ok := regs[name]
		if !ok || r.Entry == nil {
			c.Anchor(rule, "registration of "+name)
			continue
		}
		x, _ := entryContext(r.Entry)
		// the emitter: the call to the encoder whose head is the constant protocol name
		var emitted string
		var pre, iter int64 = -1, 0
		var where ssa.Instruction
		for fn := range c.P.ReachableFrom([]*ssa.Function{r.Entry}) {
			if !c.P.InPkgs(fn, "builtInFunctions") {
				continue
			}
			e := c.P.Env(fn)
			for _, b := range fn.Blocks {
				for _, in := range b.Instrs {
					call, ok := in.(*ssa.Call)
					if !ok || call.Call.StaticCallee() == nil {
						continue
					}
					var argsV ssa.Value
					isHead := false
					for _, a := range call.Call.Args {
						if k, ok := a.(*ssa.Const); ok {
							if s, _ := constStringVal(k.Value); s == name {
								isHead = true
							}
						}
						if a.Type().String() == "[][]byte" {
							argsV = a
						}
					}
					if !isHead || argsV == nil {
						continue
					}
					where = call
					n, ok := appendCount(e, argsV, nil, map[ssa.Value]bool{}, 0)
					if !ok {
						emitted = "?"
						continue
					}
					pre = n
					// per-iteration count: a loop φ on the chain
					var loopPhi *ssa.Phi
					var find func(v ssa.Value, d int)
					seen := map[ssa.Value]bool{}
					find = func(v ssa.Value, d int) {
						if d > 40 || seen[v] || loopPhi != nil {
							return
						}
						seen[v] = true
						switch y := v.(type) {
						case *ssa.Phi:
							for _, ed := range y.Edges {
								if dependsOn(ed, y, map[ssa.Value]bool{}, 0) {
									loopPhi = y
									return
								}
							}
							for _, ed := range y.Edges {
								find(ed, d+1)
							}
						case *ssa.Call:
							if _, isBuiltin := y.Call.Value.(*ssa.Builtin); isBuiltin {
								if len(y.Call.Args) > 0 {
									find(y.Call.Args[0], d+1)
								}
							} else {
								for _, a := range y.Call.Args {
									if a.Type().String() == "[][]byte" {
										find(a, d+1)
									}
								}
							}
						case *ssa.Extract:
							find(y.Tuple, d+1)
						}
					}
					find(argsV, 0)
					if loopPhi != nil {
						best := int64(1 << 40)
						for _, ed := range loopPhi.Edges {
							if dependsOn(ed, loopPhi, map[ssa.Value]bool{}, 0) {
								if k, ok := appendCount(e, ed, loopPhi, map[ssa.Value]bool{}, 0); ok && k < best {
									best = k
								}
							}
						}
						if best < 1<<40 {
							iter = best
						}
					}
					emitted = fmt.Sprintf("%d + %d·n", pre, iter)
				}
			}
		}
		if where == nil || pre < 0 {
			c.Fail(rule, "undecided", FuncName(r.Entry), name+": emitted argument count", c.P.Pos(r.Entry.Pos()), "cannot count the arguments the emitter appends ("+emitted+")")
			continue
		}
		if iter > 0 {
			announcedCountRule(c, rule, name, where.(*ssa.Call))
		}
		// destination requirement: facts at destination-side success returns: len(Arguments) - a·n - b >= 0  (or a constant)
		e := c.P.Env(r.Entry)
		nAtom := "Uint64(bigBytes(" + x.arg(0) + "))"
		lenA := "len(" + x.args() + ")"
		var reqA, reqB int64 = 0, -1
		var preGuard int64 = -1
		for _, ret := range returnsOf(r.Entry) {
			if !isSuccessReturn(ret) {
				continue
			}
			if _, ok := e.CutAt(ret, nilPred(x.snd), nil); !ok {
				continue // sender-side tail call
			}
			for _, f := range e.factsAt(ret.Block(), ret, nil) {
				if !f.Lin || f.arith && false {
					continue
				}
				if f.LE.c[lenA] != 1 {
					continue
				}
				switch len(f.LE.c) {
				case 1:
					if -f.LE.k > preGuard {
						preGuard = -f.LE.k
					}
				case 2:
					if a := -f.LE.c[nAtom]; a > 0 && -f.LE.k > reqB {
						reqA, reqB = a, -f.LE.k
					}
				}
			}
		}
		construct := name + ": emitted " + emitted + " arguments vs destination requirement"
		switch {
		case preGuard < 0:
			c.Fail(rule, "undecided", FuncName(r.Entry), construct, c.P.InstrPos(where), "no argument-count guard found on the destination side")
		case iter > 0 && (reqA != iter || reqB != pre):
			c.FailX(Oblig{Rule: rule, Func: FuncName(r.Entry), Construct: construct, Pos: c.P.InstrPos(where), Kind: "violation",
				Detail: fmt.Sprintf("the sender side emits %s arguments, the destination side requires %d·n + %d", emitted, reqA, reqB)})
		case pre+iter < preGuard:
			c.FailX(Oblig{Rule: rule, Func: FuncName(r.Entry), Construct: construct, Pos: c.P.InstrPos(where), Kind: "violation",
				Detail:   fmt.Sprintf("a transfer of one token emits %d arguments but the destination side rejects calls with fewer than %d: the tokens are debited and never credited", pre+iter, preGuard),
				Expected: fmt.Sprintf("pre-guard <= %d", pre+iter)})
		default:
			req := fmt.Sprintf("pre-guard %d", preGuard)
			if iter > 0 {
				req += fmt.Sprintf(", requirement %d·n + %d", reqA, reqB)
			}
			c.OK(rule, FuncName(r.Entry), construct, c.P.InstrPos(where), req)
		}
	}
}

// announcedCountRule: the first argument the multi-transfer emitter appends announces how many (token, nonce, value) triples follow; it must be the
// full-width encoding of the length of the list the loop walks — big.NewInt(int64(len(list))).Bytes() — not a narrowed or otherwise derived number.
func announcedCountRule(c *Ctx, rule, name string, enc *ssa.Call) {
	fn := enc.Parent()
	e := c.P.Env(fn)
	var argsV ssa.Value
	for _, a := range enc.Call.Args {
		if a.Type().String() == "[][]byte" {
			argsV = a
		}
	}
	// first append on the chain: the one whose base is the make
	var first *ssa.Call
	seen := map[ssa.Value]bool{}
	var walk func(v ssa.Value, d int)
	walk = func(v ssa.Value, d int) {
		if d > 60 || seen[v] {
			return
		}
		seen[v] = true
		switch x := v.(type) {
		case *ssa.Phi:
			for _, ed := range x.Edges {
				walk(ed, d+1)
			}
		case *ssa.Call:
			if bi, ok := x.Call.Value.(*ssa.Builtin); ok && bi.Name() == "append" {
				if _, isMake := x.Call.Args[0].(*ssa.MakeSlice); isMake {
					first = x
					return
				}
				if sl, ok := x.Call.Args[0].(*ssa.Slice); ok {
					if _, isAlloc := sl.X.(*ssa.Alloc); isAlloc {
						first = x
						return
					}
				}
				walk(x.Call.Args[0], d+1)
			}
		}
	}
	walk(argsV, 0)
	construct := name + ": announced count = number of triples emitted"
	if first == nil {
		c.Fail(rule, "undecided", FuncName(fn), construct, c.P.InstrPos(enc), "cannot find the first appended argument")
		return
	}
	got := appendedElems(e, first.Call.Args[1])
	// the list walked by the loop: a slice parameter indexed inside a loop of this function
	lists := map[string]bool{}
	for _, b := range fn.Blocks {
		for _, in := range b.Instrs {
			if ia, ok := in.(*ssa.IndexAddr); ok {
				if p, ok := ia.X.(*ssa.Parameter); ok {
					if _, isPhi := ia.Index.(*ssa.BinOp); isPhi || true {
						lists["Bytes(bigI(len(P:"+paramName(p)+")))"] = true
						lists["Bytes(bigU(len(P:"+paramName(p)+")))"] = true // SetUint64(uint64(len(list))): the same full-width bytes
					}
				}
			}
		}
	}
	if lists[got] {
		c.OK(rule, FuncName(fn), construct, c.P.InstrPos(first), got)
	} else {
		c.FailX(Oblig{Rule: rule, Func: FuncName(fn), Construct: construct, Pos: c.P.InstrPos(first), Kind: "violation",
			Detail:   "the count announced in the cross-shard message is " + got + ", not the full-width encoding of the number of entries emitted: for some list lengths the destination credits fewer tokens than were debited (or rejects the message)",
			Expected: "big.NewInt(int64(len(<list of debited entries>))).Bytes()"})
	}
}

func dependsOn(v ssa.Value, target ssa.Value, seen map[ssa.Value]bool, d int) bool {
	if v == target {
		return true
	}
	if d > 40 || seen[v] {
		return false
	}
	seen[v] = true
	switch y := v.(type) {
	case *ssa.Phi:
		for _, ed := range y.Edges {
			if dependsOn(ed, target, seen, d+1) {
				return true
			}
		}
	case *ssa.Call:
		if bi, ok := y.Call.Value.(*ssa.Builtin); ok && bi.Name() == "append" {
			return dependsOn(y.Call.Args[0], target, seen, d+1)
		}
		// a module helper that is handed the list and returns it grown
		if _, isBuiltin := y.Call.Value.(*ssa.Builtin); !isBuiltin {
			for _, a := range y.Call.Args {
				if types.Identical(a.Type(), target.Type()) && dependsOn(a, target, seen, d+1) {
					return true
				}
			}
		}
	case *ssa.Extract:
		return dependsOn(y.Tuple, target, seen, d+1)
	}
	return false
}

// ---------------------------------------------------------------- R4

func c01r4(c *Ctx) {
	const rule = "C01-R4"
	c.Rule(rule, "the quantity debited, shipped and credited is one term", 3)
	// (a) routines that subtract a quantity from a read entry and then reuse the entry as the thing that moves
	for _, fn := range c.P.Funcs {
		if !c.P.InPkgs(fn, "builtInFunctions") {
			continue
		}
		e := c.P.Env(fn)
		for _, b := range fn.Blocks {
			for _, in := range b.Instrs {
				sub, ok := in.(*ssa.Call)
				if !ok || bigMethod(sub) != "Sub" || !isValueTerm(e.Term(sub.Call.Args[0])) {
					continue
				}
				ent := valueOwner(sub.Call.Args[0])
				et := e.Term(ent)
				q := e.Term(sub.Call.Args[2])
				// later uses of the entry as an argument (credit, emitter) or as a return value
				var uses []ssa.Instruction
				var sets []ssa.Instruction
				savers := 0
				for _, bb := range fn.Blocks {
					for _, i2 := range bb.Instrs {
						switch u := i2.(type) {
						case *ssa.Call:
							if bigMethod(u) == "Set" && e.Term(u.Call.Args[0]) == "*"+et+".Value" {
								if e.Term(u.Call.Args[1]) == q {
									sets = append(sets, u)
								} else {
									uses = append(uses, u) // a Set to something else counts as a wrong use
								}
								continue
							}
							if bigMethod(u) != "" || u == sub {
								continue
							}
							for _, a := range u.Call.Args {
								if e.Term(a) == et && instrReaches(fn, sub, u, nil) {
									if savers == 0 && reachesInvoke(c.P, u.Call.StaticCallee(), "AccountDataHandler.SaveKeyValue", 0) && passesSameAccountAsRead(e, u, ent) {
										savers++ // the save of the sender's remainder
										continue
									}
									uses = append(uses, u)
								}
							}
						case *ssa.Return:
							for _, rv := range u.Results {
								if e.Term(rv) == et && instrReaches(fn, sub, u, nil) {
									uses = append(uses, u)
								}
							}
						}
					}
				}
				if len(uses) == 0 {
					continue // a burn: the entry does not move on
				}
				construct := "after debit Sub(" + et + ".Value, " + q + "): entry set to the same quantity before it moves on"
				barriers := map[ssa.Instruction]bool{}
				for _, s := range sets {
					barriers[s] = true
				}
				bad := ""
				for _, u := range uses {
					if instrReaches(fn, sub, u, barriers) {
						bad = "the entry reaches " + c.P.InstrPos(u) + " still holding the sender's remainder (or another value), not the debited quantity " + q
					}
				}
				if bad == "" && len(sets) > 0 {
					c.OK(rule, FuncName(fn), construct, c.P.InstrPos(sub), fmt.Sprintf("Value.Set(%s) lies on every path to the %d later uses", q, len(uses)))
				} else {
					if bad == "" {
						bad = "the entry moves on without being set to the debited quantity"
					}
					c.FailX(Oblig{Rule: rule, Func: FuncName(fn), Construct: construct, Pos: c.P.InstrPos(sub), Kind: "violation", Detail: bad,
						Expected: "esdtData.Value.Set(<the quantity subtracted>) between the sender's save and the credit / shipment"})
				}
			}
		}
	}
	// (b) ESDTTransfer: debit delta = Neg(credit delta), same key
	r, ok := c.P.RegByName()["ESDTTransfer"]
	if !ok || r.Entry == nil {
		c.Anchor(rule, "registration of ESDTTransfer")
		return
	}
	x, _ := entryContext(r.Entry)
	type bc struct {
		acct, key, delta string
		pos              string
	}
	// The amount applied to each side is read where it is applied (the Add onto an entry's Value, in whatever helper), the
	// key where the entry is saved; both in the entry point's terms.
	var debit, credit *bc
	isAdd := func(in ssa.Instruction) (string, bool) {
		if call, ok := in.(*ssa.Call); ok && bigMethod(call) == "Add" {
			return "Add", true
		}
		return "", false
	}
	sideOf := func(org string) string {
		switch org {
		case "read:" + x.snd:
			return "snd"
		case "read:" + x.dst:
			return "dst"
		}
		return ""
	}
	for _, s := range c.P.EffectSites(r.Entry, "valueadd", isAdd) {
		call := s.In.(*ssa.Call)
		ld, ok := call.Call.Args[0].(*ssa.UnOp)
		if !ok {
			continue
		}
		fa, ok := ld.X.(*ssa.FieldAddr)
		if !ok || !isFieldOf(fa, "esdt.ESDigitalToken", "Value") {
			continue
		}
		side := sideOf(entryOrigin(s.Env, fa.X, 0))
		if side == "" {
			continue
		}
		// the addend that is not the Value itself
		delta := ""
		for _, a := range call.Call.Args[1:] {
			if t := s.Env.Term(a); t != s.Env.Term(call.Call.Args[0]) {
				delta = t
			}
		}
		y := &bc{delta: delta, pos: c.P.InstrPos(call)}
		if side == "snd" {
			debit = y
		} else {
			credit = y
		}
	}
	bal := balancePrefix(c.P)
	for _, s := range c.P.EffectSites(r.Entry, "save", isBalanceSave(c.P)) {
		call := s.In.(ssa.CallInstruction)
		ks := keyShape(s.Env, call.Common().Args[0], 0)
		if ks == nil || ks.Prefix != bal {
			continue
		}
		org := accountOrigin(s.Env, writtenAccount(call), 0)
		if len(org) != 1 {
			continue
		}
		switch {
		case org[0] == "param:"+x.snd && debit != nil:
			debit.key = ks.String()
		case org[0] == "param:"+x.dst && credit != nil:
			credit.key = ks.String()
		}
	}
	construct := "ESDTTransfer: debit and credit use one quantity and one key"
	switch {
	case debit == nil || credit == nil:
		c.Fail(rule, "violation", FuncName(r.Entry), construct, c.P.Pos(r.Entry.Pos()), "cannot find both the sender debit and the destination credit")
	case debit.delta == "neg("+credit.delta+")" && debit.key == credit.key && debit.key != "" && credit.delta == "bigBytes("+x.arg(1)+")":
		c.OK(rule, FuncName(r.Entry), construct, credit.pos, "debit "+debit.delta+", credit "+credit.delta+", key "+credit.key)
	default:
		c.FailX(Oblig{Rule: rule, Func: FuncName(r.Entry), Construct: construct, Pos: credit.pos, Kind: "violation",
			Detail: "the sender is debited " + debit.delta + " under " + debit.key + " but the destination is credited " + credit.delta + " under " + credit.key})
	}
}

// passesSameAccountAsRead: call u passes the account the entry was read from.
func passesSameAccountAsRead(e *Env, u *ssa.Call, ent ssa.Value) bool {
	org := entryOrigin(e, ent, 0)
	if strings.HasPrefix(org, "param:") && e.Parent == nil && !isExportedAPI(e.Fn) && len(e.P.Callers[e.Fn]) > 0 {
		// the entry is handed in by the caller (a debit step that receives what a sibling step has read): judge in every
		// calling context
		n := 0
		for _, ce := range e.P.contextsOf(e.Fn, 2) {
			if ce.Parent == nil || !passesSameAccountAsRead(ce, u, ent) {
				return false
			}
			n++
		}
		return n > 0
	}
	if !strings.HasPrefix(org, "read:") {
		return false
	}
	at := strings.TrimPrefix(org, "read:")
	for _, a := range u.Call.Args {
		if e.Term(a) == at {
			return true
		}
	}
	return false
}

// ---------------------------------------------------------------- R5

func c01r5(c *Ctx) {
	const rule = "C01-R5"
	c.Rule(rule, "a loaded account that is modified is saved on every path to success", 2)
	loadedAccountSaved(c, rule, "", nil)
}

// loadedAccountSaved: in every function of builtInFunctions (restricted to `only` when given) an account obtained by a
// load and then written is passed to SaveAccount on every path to a success return.
func loadedAccountSaved(c *Ctx, rule, tag string, only map[*ssa.Function]bool) {
	for _, fn := range c.P.Funcs {
		if !c.P.InPkgs(fn, "builtInFunctions") || only != nil && !only[fn] {
			continue
		}
		e := c.P.Env(fn)
		// account values in this function whose origin is a load (directly or through a helper that returns a loaded account)
		type acc struct {
			v ssa.Value
			t string
		}
		var accts []acc
		seen := map[string]bool{}
		for _, b := range fn.Blocks {
			for _, in := range b.Instrs {
				v, ok := in.(ssa.Value)
				if !ok || !strings.HasSuffix(v.Type().String(), modPath+".UserAccountHandler") {
					continue
				}
				org := accountOrigin(e, v, 0)
				isLoad := false
				for _, o := range org {
					if strings.HasPrefix(o, "load(") {
						isLoad = true
					}
				}
				// the function must be the one that obtained it (not a parameter)
				if !isLoad || seen[e.Term(v)] {
					continue
				}
				seen[e.Term(v)] = true
				accts = append(accts, acc{v, e.Term(v)})
			}
		}
		for _, a := range accts {
			// effects on it: calls passing it to something that reaches a storage write, or a write on it directly
			var effects, saves []ssa.Instruction
			for _, b := range fn.Blocks {
				for _, in := range b.Instrs {
					ci, ok := in.(ssa.CallInstruction)
					if !ok {
						continue
					}
					if InvokeName(ci) == "AccountsAdapter.SaveAccount" && e.Term(ci.Common().Args[0]) == a.t {
						saves = append(saves, in)
						continue
					}
					if InvokeName(ci) == "AccountDataHandler.SaveKeyValue" {
						if w := writtenAccount(ci); w != nil && e.Term(w) == a.t {
							effects = append(effects, in)
						}
						continue
					}
					for _, callee := range c.P.Callees(ci) {
						if !reachesInvoke(c.P, callee, "AccountDataHandler.SaveKeyValue", 0) {
							continue
						}
						for _, arg := range ci.Common().Args {
							if e.Term(arg) == a.t {
								effects = append(effects, in)
							}
						}
					}
				}
			}
			if len(effects) == 0 {
				continue
			}
			construct := tag + "account " + a.t + " loaded and modified in " + fn.Name()
			barriers := map[ssa.Instruction]bool{}
			for _, s := range saves {
				barriers[s] = true
			}
			// edges on which the account is known to be nil: nothing was modified
			nilCut := errorEdgesOfFn(fn)
			for ed, fs := range e.EdgeFacts() {
				for _, f := range fs {
					if !f.Lin && f.Pos && f.Atom == nilAtom(a.t) {
						nilCut[ed] = true
					}
				}
			}
			bad := ""
			for _, eff := range effects {
				for _, r := range returnsOf(fn) {
					if !isSuccessReturn(r) {
						continue
					}
					if reachesAvoiding(fn, eff, r, barriers, nilCut) {
						bad = "success return at " + c.P.InstrPos(r) + " is reachable after the modification at " + c.P.InstrPos(eff) + " without SaveAccount(" + a.t + ")"
					}
				}
			}
			if bad == "" {
				c.OK(rule, FuncName(fn), construct, c.P.InstrPos(effects[0]), fmt.Sprintf("SaveAccount on every path from the %d modifications to success", len(effects)))
			} else {
				c.FailX(Oblig{Rule: rule, Func: FuncName(fn), Construct: construct, Pos: c.P.InstrPos(effects[0]), Kind: "violation",
					Detail: "the credit / role hand-over / flag is computed on a loaded account and thrown away: " + bad, Expected: "accounts.SaveAccount(<that account>) before every success return"})
			}
		}
	}
}

// reachesAvoiding: `to` reachable from just after `from` without executing a barrier instruction and without crossing a cut edge.
func reachesAvoiding(fn *ssa.Function, from, to ssa.Instruction, barriers map[ssa.Instruction]bool, cut map[edge]bool) bool {
	seen := map[*ssa.BasicBlock]bool{}
	var scan func(b *ssa.BasicBlock, i int) bool
	scan = func(b *ssa.BasicBlock, i int) bool {
		for ; i < len(b.Instrs); i++ {
			if b.Instrs[i] == to {
				return true
			}
			if barriers[b.Instrs[i]] {
				return false
			}
		}
		for _, s := range b.Succs {
			if cut[edge{b, s}] || seen[s] {
				continue
			}
			seen[s] = true
			if scan(s, 0) {
				return true
			}
		}
		return false
	}
	return scan(from.Block(), indexIn(from)+1)
}

// ---------------------------------------------------------------- R6

func c01r6(c *Ctx) {
	const rule = "C01-R6"
	c.Rule(rule, "a debit is followed by a credit or a shipment on every successful path", 3)
	regs := c.P.RegByName()
	bal := balancePrefix(c.P)
	_ = bal
	for _, name := range []string{"ESDTTransfer", "ESDTNFTTransfer", "MultiESDTNFTTransfer"} {
		r, ok := regs[name]
		if !ok || r.Entry == nil {
			c.Anchor(rule, "registration of "+name)
			continue
		}
		x, _ := entryContext(r.Entry)
		// the sender routine: the function (entry or the sender-side helper) that contains the debit call on the sender account
		var routine *Env
		var debit ssa.Instruction
		var walk func(e *Env, d int)
		walk = func(e *Env, d int) {
			if d > 3 || routine != nil {
				return
			}
			for _, b := range e.Fn.Blocks {
				for _, in := range b.Instrs {
					call, ok := in.(*ssa.Call)
					if !ok || call.Call.StaticCallee() == nil {
						continue
					}
					sc := call.Call.StaticCallee()
					if PkgOf(sc) != "builtInFunctions" {
						continue
					}
					passesSnd, hasBig := false, false
					for _, a := range call.Call.Args {
						if e.Term(a) == x.snd {
							passesSnd = true
						}
						if isBigIntPtr(a.Type()) {
							hasBig = true
						}
					}
					isDebit := passesSnd && reachesInvoke(c.P, sc, "AccountDataHandler.SaveKeyValue", 0) && !strings.HasSuffix(sc.Signature.Results().String(), "VMOutput, error)")
					if isDebit && (hasBig || name != "ESDTTransfer") && routine == nil {
						// multi: the debit happens one level further down (per token) — descend if the callee also receives the destination account
						if name == "MultiESDTNFTTransfer" && strings.Contains(sc.Signature.Params().String(), "dstAddress") {
							routine, debit = e, in // the per-token routine does debit and local credit: treat the call as debit+credit; shipment is checked here
							return
						}
						routine, debit = e, in
						return
					}
				}
			}
			for _, b := range e.Fn.Blocks {
				for _, in := range b.Instrs {
					if call, ok := in.(*ssa.Call); ok && call.Call.StaticCallee() != nil && PkgOf(call.Call.StaticCallee()) == "builtInFunctions" &&
						strings.HasSuffix(call.Call.StaticCallee().Signature.Results().String(), "VMOutput, error)") {
						walk(e.Sub(call, call.Call.StaticCallee()), d+1)
					}
				}
			}
		}
		walk(c.P.Env(r.Entry), 0)
		if routine == nil {
			c.Fail(rule, "anchor", FuncName(r.Entry), name+": sender routine with the debit", c.P.Pos(r.Entry.Pos()), "cannot find the call that debits the sender account")
			continue
		}
		fn := routine.Fn
		// blocks that credit the destination or build an output transfer (directly or below a call)
		reachOT := c.P.reachesEffect("world", worldEffect)
		passBlocks := map[*ssa.BasicBlock]string{}
		var conditional []condEmit
		for _, b := range fn.Blocks {
			for _, in := range b.Instrs {
				if in == debit {
					continue
				}
				if _, ok := worldEffectOT(in); ok {
					passBlocks[b] = "output transfer built at " + c.P.InstrPos(in)
				}
				call, ok := in.(*ssa.Call)
				if !ok || call.Call.StaticCallee() == nil || !instrReaches(fn, debit, in, nil) {
					continue
				}
				sc := call.Call.StaticCallee()
				if !reachOT[sc] {
					continue
				}
				// credit: passes a non-sender account to something that writes storage
				credits := false
				for _, a := range call.Call.Args {
					if strings.HasSuffix(a.Type().String(), modPath+".UserAccountHandler") && routine.Term(a) != x.snd && reachesInvoke(c.P, sc, "AccountDataHandler.SaveKeyValue", 0) {
						credits = true
					}
				}
				if !credits && len(sc.Blocks) > 0 && reachesInvoke(c.P, sc, "AccountDataHandler.SaveKeyValue", 0) {
					// a helper that obtains the destination account itself: it credits if it writes a balance key of an
					// account that is not the sender's
					for _, cs := range c.P.EffectSitesBelow(routine.Sub(call, sc), "save", isBalanceSave(c.P)) {
						cc := cs.In.(ssa.CallInstruction)
						ks := keyShape(cs.Env, cc.Common().Args[0], 0)
						if ks == nil || ks.Prefix != balancePrefix(c.P) {
							continue
						}
						if org := accountOrigin(cs.Env, writtenAccount(cc), 0); len(org) > 0 && !(len(org) == 1 && org[0] == "param:"+x.snd) {
							credits = true
						}
					}
				}
				if credits {
					passBlocks[b] = "credit at " + c.P.InstrPos(in)
					continue
				}
				if emitsAlways(c.P, sc, 0) {
					passBlocks[b] = "shipment inside " + sc.Name()
				} else if emitsSomewhere(c.P, sc, 0) {
					conditional = append(conditional, condEmit{call, routine.Sub(call, sc)})
				}
			}
		}
		cut := errorEdgesOfFn(fn)
		for b := range passBlocks {
			for _, s := range b.Succs {
				cut[edge{b, s}] = true
			}
		}
		if name == "ESDTTransfer" {
			for ed, fs := range routine.EdgeFacts() {
				for _, f := range fs {
					if !f.Lin && !f.Pos && f.Atom == "call:vmcommon.IsSmartContractAddress("+x.caller+")" {
						cut[ed] = true // a user's own transaction continues to the destination shard by itself
					}
				}
			}
		}
		bad := ""
		for _, ret := range returnsOf(fn) {
			if !isSuccessReturn(ret) {
				continue
			}
			if _, in := passBlocks[ret.Block()]; in {
				continue
			}
			if !reachesAvoidingEdges(fn, debit, ret, cut) {
				continue
			}
			// paths that avoid every credit: they must go through a conditional emitter that ships under what is known on those paths
			okVia := false
			for _, cd := range conditional {
				if !reachesAvoidingEdges(fn, debit, cd.call, cut) {
					continue
				}
				assume := factsOnPathsAvoiding(routine, cd.call, cut)
				if name == "ESDTTransfer" {
					// a user's own transaction continues to the destination shard by itself: only a contract's call needs the shipment
					assume = append(assume, Fact{Atom: "call:vmcommon.IsSmartContractAddress(" + x.caller + ")", Pos: true})
				}
				if shipsUnder(c.P, cd.sub, assume) {
					okVia = true
					c.Note("%s: on paths without a local credit the emitter %s ships, given %s", name, cd.sub.Fn.Name(), strings.Join(factStrings(assume), " ; "))
				}
			}
			if !okVia {
				if ok3, why3 := creditsInsideDebitOrShips(c, routine, debit, x, conditional2(conditional)); ok3 {
					okVia = true
					c.Note("%s: %s", name, why3)
				}
			}
			if !okVia {
				bad = "success return at " + c.P.InstrPos(ret) + " is reachable after the debit at " + c.P.InstrPos(debit) + " without a credit of the destination or an output transfer"
			}
		}
		construct := name + ": debit in " + fn.Name() + " is followed by credit or shipment"
		if bad == "" {
			var by []string
			for _, w := range passBlocks {
				by = append(by, w)
			}
			sort.Strings(by)
			c.OK(rule, FuncName(fn), construct, c.P.InstrPos(debit), strings.Join(uniq(by), " ; "))
		} else {
			c.FailX(Oblig{Rule: rule, Func: FuncName(fn), Construct: construct, Pos: c.P.InstrPos(debit), Kind: "violation", Detail: "tokens are debited and go nowhere: " + bad})
		}
	}
}

type condEmit struct {
	call *ssa.Call
	sub  *Env
}

func conditional2(in interface{}) []condEmit {
	var out []condEmit
	switch v := in.(type) {
	case []condEmit:
		return v
	default:
		_ = v
	}
	return out
}

// creditsInsideDebitOrShips handles the per-token routine of the multi-transfer: the debit call also receives the (possibly absent) destination
// account A; it must credit whenever A is present, and when A is absent (which, by the loader's nil-returning success paths, implies what the
// loader established there) the emitter must ship.
func creditsInsideDebitOrShips(c *Ctx, routine *Env, debit ssa.Instruction, x entryCtx, conds []condEmit) (bool, string) {
	call, ok := debit.(*ssa.Call)
	if !ok || call.Call.StaticCallee() == nil {
		return false, ""
	}
	g := call.Call.StaticCallee()
	var acctArg ssa.Value
	for _, a := range call.Call.Args {
		if strings.HasSuffix(a.Type().String(), modPath+".UserAccountHandler") && routine.Term(a) != x.snd {
			acctArg = a
		}
	}
	if acctArg == nil {
		return false, ""
	}
	at := routine.Term(acctArg)
	// (a) inside g: every success return after g's own debit is cut by a credit into A or by the edge `A is nil`
	sub := routine.Sub(call, g)
	creditBlocks := map[*ssa.BasicBlock]bool{}
	var gDebit ssa.Instruction
	for _, b := range g.Blocks {
		for _, in := range b.Instrs {
			c2, ok := in.(*ssa.Call)
			if !ok || c2.Call.StaticCallee() == nil || !reachesInvoke(c.P, c2.Call.StaticCallee(), "AccountDataHandler.SaveKeyValue", 0) {
				continue
			}
			for _, a := range c2.Call.Args {
				if !strings.HasSuffix(a.Type().String(), modPath+".UserAccountHandler") {
					continue
				}
				if sub.Term(a) == at {
					creditBlocks[b] = true
				} else if sub.Term(a) == x.snd && gDebit == nil {
					gDebit = in
				}
			}
		}
	}
	if gDebit == nil || len(creditBlocks) == 0 {
		return false, ""
	}
	cut := map[edge]bool{}
	for b := range creditBlocks {
		for _, s := range b.Succs {
			cut[edge{b, s}] = true
		}
	}
	for ed, fs := range sub.EdgeFacts() {
		for _, f := range fs {
			if !f.Lin && f.Pos && f.Atom == nilAtom(at) {
				cut[ed] = true
			}
		}
	}
	for _, r := range returnsOf(g) {
		if isSuccessReturn(r) && !creditBlocks[r.Block()] && reachesAvoiding(g, gDebit, r, nil, cut) {
			return false, ""
		}
	}
	// (b) A absent: what the loader guarantees on its nil-returning success paths
	ex, ok := acctArg.(*ssa.Extract)
	if !ok {
		return false, ""
	}
	lc, ok := ex.Tuple.(*ssa.Call)
	if !ok || lc.Call.StaticCallee() == nil || len(lc.Call.StaticCallee().Blocks) == 0 {
		return false, ""
	}
	ls := routine.Sub(lc, lc.Call.StaticCallee())
	assume := ls.returnFacts(func(r *ssa.Return) bool { return isSuccessReturn(r) && isNilConst(retval(r, 0)) }, "account absent")
	assume = ls.rewriteResults(lc, assume)
	if len(assume) == 0 {
		return false, ""
	}
	for _, cd := range conds {
		if shipsUnder(c.P, cd.sub, assume) {
			return true, "the per-token routine " + g.Name() + " credits whenever the destination account is present; when it is absent (" + strings.Join(factStrings(assume), " ; ") + ") the emitter " + cd.sub.Fn.Name() + " ships"
		}
	}
	return false, ""
}

func worldEffectOT(in ssa.Instruction) (string, bool) {
	if n, ok := worldEffect(in); ok && strings.HasPrefix(n, "OutputTransfer") {
		return n, true
	}
	return "", false
}

func reachesAvoidingEdges(fn *ssa.Function, from, to ssa.Instruction, cut map[edge]bool) bool {
	return reachesAvoiding(fn, from, to, nil, cut)
}

// emitsAlways: every success path of fn builds an output transfer; emitsSomewhere: some path does.
func emitsAlways(p *Prog, fn *ssa.Function, depth int) bool {
	if depth > 3 || len(fn.Blocks) == 0 {
		return false
	}
	pass := map[*ssa.BasicBlock]bool{}
	for _, b := range fn.Blocks {
		for _, in := range b.Instrs {
			if _, ok := worldEffectOT(in); ok {
				pass[b] = true
			}
			if call, ok := in.(*ssa.Call); ok && call.Call.StaticCallee() != nil && emitsAlways(p, call.Call.StaticCallee(), depth+1) {
				pass[b] = true
			}
		}
	}
	cut := map[edge]bool{}
	for b := range pass {
		for _, s := range b.Succs {
			cut[edge{b, s}] = true
		}
	}
	n := 0
	for _, r := range returnsOf(fn) {
		if lastIsError(fn) && !isSuccessReturn(r) {
			continue
		}
		n++
		if !pass[r.Block()] && reachableAvoiding(fn.Blocks[0], r.Block(), cut) {
			return false
		}
	}
	return n > 0
}

func emitsSomewhere(p *Prog, fn *ssa.Function, depth int) bool {
	if depth > 3 {
		return false
	}
	for _, b := range fn.Blocks {
		for _, in := range b.Instrs {
			if _, ok := worldEffectOT(in); ok {
				return true
			}
			if call, ok := in.(*ssa.Call); ok && call.Call.StaticCallee() != nil && emitsSomewhere(p, call.Call.StaticCallee(), depth+1) {
				return true
			}
		}
	}
	return false
}

// factsOnPathsAvoiding: literals that hold at `at` on every path from the entry that avoids the cut edges (i.e. given that no credit happened).
func factsOnPathsAvoiding(e *Env, at ssa.Instruction, cut map[edge]bool) []Fact {
	groups := map[string][]edge{}
	rep := map[string]Fact{}
	for ed, fs := range e.EdgeFacts() {
		for _, f := range fs {
			groups[f.Key()] = append(groups[f.Key()], ed)
			rep[f.Key()] = f
		}
	}
	var out []Fact
	for k, eds := range groups {
		c2 := map[edge]bool{}
		for ed := range cut {
			c2[ed] = true
		}
		for _, ed := range eds {
			c2[ed] = true
		}
		if !reachableAvoiding(e.Fn.Blocks[0], at.Block(), c2) && reachableAvoiding(e.Fn.Blocks[0], at.Block(), cut) {
			out = append(out, rep[k])
		}
	}
	sort.Slice(out, func(i, j int) bool { return out[i].Key() < out[j].Key() })
	return out
}

// shipsUnder: in the emitter (analysed in the caller's terms) every success return that builds no output transfer is unreachable under assume.
func shipsUnder(p *Prog, sub *Env, assume []Fact) bool {
	fn := sub.Fn
	pass := map[*ssa.BasicBlock]bool{}
	for _, b := range fn.Blocks {
		for _, in := range b.Instrs {
			if _, ok := worldEffectOT(in); ok {
				pass[b] = true
			}
			if call, ok := in.(*ssa.Call); ok && call.Call.StaticCallee() != nil && emitsAlways(p, call.Call.StaticCallee(), 0) {
				pass[b] = true
			}
		}
	}
	cut := map[edge]bool{}
	for b := range pass {
		for _, s := range b.Succs {
			cut[edge{b, s}] = true
		}
	}
	for ed, fs := range sub.EdgeFacts() {
		for _, f := range fs {
			for _, a := range assume {
				if contradicts(f, a) {
					cut[ed] = true
				}
			}
		}
	}
	for _, r := range returnsOf(fn) {
		if lastIsError(fn) && !isSuccessReturn(r) {
			continue
		}
		if !pass[r.Block()] && reachableAvoiding(fn.Blocks[0], r.Block(), cut) {
			return false
		}
	}
	return true
}

// c01r9: what the sender side has debited and shipped is credited only if the destination side accepts the message: the
// continuing side of the three transfer functions has no error exit that is decided by the bytes of a forwarded argument
// (shared with C10-R5). A "well-formedness" test that only the destination side makes strands the tokens: debited, refused,
// and — the refund runs through the same code — refused again.
// c01r10: a bounced transfer gives the tokens back: the credit of the three transfer functions is gated by the freeze / pause
// test bound to the input's own return-after-error flag (shared with C04-R1). With the flag bound to something else — two bools
// passed in the wrong order at one call site — the refund of a token that was paused or frozen in the meantime is refused, and
// what the sender shard debited is never restored.
func c01r10(c *Ctx) {
	c.shareRule(c04r1, "C04-R1", "C01-R10", "the credit below the transfer functions passes the freeze/pause gate bound to the input's return-after-error flag (a bounced transfer is credited back)", func(o Oblig) bool {
		return strings.HasPrefix(o.Construct, "ESDTTransfer:") || strings.HasPrefix(o.Construct, "ESDTNFTTransfer:") || strings.HasPrefix(o.Construct, "MultiESDTNFTTransfer:") || o.Kind == "anchor"
	})
}

func c01r9(c *Ctx) {
	c.shareRule(c10r5, "C10-R5", "C01-R9", "the destination side refuses nothing the sender side ships (no destination-only rejection by argument content)", func(o Oblig) bool {
		return !strings.HasPrefix(o.Construct, "SetUserName") || o.Kind == "anchor"
	})
}
