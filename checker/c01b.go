package main

// C01-R7 (exact debits) and C01-R8 (single delivery).

import (
	"fmt"
	"strings"

	"golang.org/x/tools/go/ssa"
)

var transferNames = []string{"ESDTTransfer", "ESDTNFTTransfer", "MultiESDTNFTTransfer"}

func c01r7(c *Ctx) {
	const rule = "C01-R7"
	c.Rule(rule, "debits below the transfer entry points are exact: holding >= quantity is established on the value subtracted from", 1)
	var entries []*ssa.Function
	regs := c.P.RegByName()
	for _, n := range transferNames {
		if r, ok := regs[n]; ok && r.Entry != nil {
			entries = append(entries, r.Entry)
		} else {
			c.Anchor(rule, "registration of "+n)
		}
	}
	balanceArithmeticGuarded(c, rule, c.P.ReachableFrom(entries))
}

type siteLevel struct {
	env *Env
	at  ssa.Instruction
}

// levelsOf: the (function-in-context, instruction) pairs of an effect site, outermost first.
func levelsOf(s EffectSite) []siteLevel {
	var out []siteLevel
	at := s.In
	for x := s.Env; x != nil; x = x.Parent {
		out = append([]siteLevel{{x, at}}, out...)
		if x.Call == nil {
			break
		}
		at = x.Call
	}
	return out
}

// factsAlong: everything known when the site executes: the facts holding at each level of its call chain, plus, for an
// account known to be present that was obtained from a module loader, what the loader guarantees when it returns one.
func factsAlong(p *Prog, s EffectSite) []Fact {
	var out []Fact
	seen := map[string]bool{}
	add := func(fs []Fact) {
		for _, f := range fs {
			if !seen[f.Key()] {
				seen[f.Key()] = true
				out = append(out, f)
			}
		}
	}
	for _, l := range levelsOf(s) {
		fs := l.env.factsAt(l.at.Block(), l.at, nil)
		add(fs)
		present := map[string]bool{}
		for _, f := range fs {
			if !f.Lin && !f.Pos && strings.HasPrefix(f.Atom, "nil(") {
				present[strings.TrimSuffix(strings.TrimPrefix(f.Atom, "nil("), ")")] = true
			}
		}
		if len(present) == 0 {
			continue
		}
		for _, b := range l.env.Fn.Blocks {
			for _, in := range b.Instrs {
				lc, ok := in.(*ssa.Call)
				if !ok || lc.Call.StaticCallee() == nil || len(lc.Call.StaticCallee().Blocks) == 0 || l.env.depth >= maxDepth {
					continue
				}
				sc := lc.Call.StaticCallee()
				res := sc.Signature.Results()
				if res.Len() != 2 || !strings.HasSuffix(res.At(0).Type().String(), modPath+".UserAccountHandler") {
					continue
				}
				if !present[l.env.Term(lc)+"#0"] {
					continue
				}
				ls := l.env.Sub(lc, sc)
				fs := ls.returnFacts(func(r *ssa.Return) bool { return isSuccessReturn(r) && !isNilConst(retval(r, 0)) }, "account returned by "+sc.Name())
				add(ls.rewriteResults(lc, fs))
			}
		}
	}
	return out
}

func c01r8(c *Ctx) {
	const rule = "C01-R8"
	c.Rule(rule, "tokens are delivered once: a local credit and a token-carrying message exclude each other", 3)
	sep, ok := c.P.ConstString("parsers", "atSeparator")
	if !ok {
		c.Anchor(rule, "parsers.atSeparator")
		return
	}
	bal := balancePrefix(c.P)
	regs := c.P.RegByName()
	isData := func(in ssa.Instruction) (string, bool) {
		if st, ok := in.(*ssa.Store); ok {
			if fa, ok := st.Addr.(*ssa.FieldAddr); ok && isFieldOf(fa, "OutputTransfer", "Data") {
				return "OutputTransfer.Data", true
			}
		}
		return "", false
	}
	for _, name := range transferNames {
		r, ok := regs[name]
		if !ok || r.Entry == nil {
			c.Anchor(rule, "registration of "+name)
			continue
		}
		x, _ := entryContext(r.Entry)
		// token-carrying messages: Data whose constant head is the function's own protocol name
		var ships []EffectSite
		for _, s := range c.P.EffectSites(r.Entry, "otdata", isData) {
			st := s.In.(*ssa.Store)
			ds := dataStringOf(c.P, st)
			// a message that is the content of a buffer the call does not own (taken from a pool, a field, a parameter): it is
			// still referenced by whoever owns the buffer — the next message written into it replaces this one while it is in
			// flight, and the tokens debited for it are credited according to another message
			if bc, ok := st.Val.(*ssa.Call); ok && CalleeName(bc) == "(*bytes.Buffer).Bytes" {
				private := false
				switch rb := bc.Call.Args[0].(type) {
				case *ssa.Alloc:
					private = true
				case *ssa.Call:
					private = CalleeName(rb) == "bytes.NewBuffer" || CalleeName(rb) == "bytes.NewBufferString"
				}
				if !private {
					c.FailX(Oblig{Rule: rule, Func: FuncName(st.Parent()), Construct: name + ": the emitted message is the call's own memory in " + s.Chain(), Pos: c.P.InstrPos(st), Kind: "violation",
						Detail:   "OutputTransfer.Data is the content of a buffer that is not private to the call (" + s.Env.Term(bc.Call.Args[0]) + "): the message stays aliased to that buffer after the call returns — the next message built in it overwrites this one while it is in flight, so what the destination credits is not what the sender debited",
						Expected: "Data built in memory allocated by the call (or copied out of the shared buffer before it is handed back)"})
				}
			}
			if ds == nil {
				continue
			}
			var heads []string
			flattenString(s.Env, ds, sep, &heads, 0, map[*ssa.Phi]bool{})
			if len(heads) == 1 && heads[0] == name {
				ships = append(ships, s)
			}
		}
		if len(ships) == 0 {
			c.Fail(rule, "floor", FuncName(r.Entry), name+": message that carries the tokens to another shard", c.P.Pos(r.Entry.Pos()), "no output transfer whose data starts with "+name+" is built below the entry point")
			continue
		}
		// local credits of a non-sender account
		var credits []EffectSite
		for _, s := range c.P.EffectSites(r.Entry, "save", isBalanceSave(c.P)) {
			call := s.In.(ssa.CallInstruction)
			ks := keyShape(s.Env, call.Common().Args[0], 0)
			if ks == nil || ks.Prefix != bal || isNilConst(call.Common().Args[1]) {
				continue
			}
			acct := writtenAccount(call)
			if acct == nil {
				continue
			}
			origins := accountOrigin(s.Env, acct, 0)
			if len(origins) == 1 && origins[0] == "param:"+x.snd {
				continue
			}
			credits = append(credits, s)
		}
		if len(credits) == 0 {
			c.Fail(rule, "floor", FuncName(r.Entry), name+": local credit sites", c.P.Pos(r.Entry.Pos()), "no credit of a non-sender account found below the entry point")
			continue
		}
		seen := map[string]bool{}
		for _, cs := range credits {
			known := factsAlong(c.P, cs)
			for _, ss := range ships {
				construct := name + ": credit in " + cs.Chain() + " vs message in " + ss.Chain()
				if seen[construct] {
					continue
				}
				// (a) the guards exclude each other
				if ss.UnreachableUnder(known) {
					seen[construct] = true
					c.OK(rule, FuncName(cs.In.Parent()), construct, c.P.InstrPos(cs.In), "what holds at the credit makes the message unreachable")
					continue
				}
				// (b) no control-flow path joins them in the function where their call chains part
				lc, ls := levelsOf(cs), levelsOf(ss)
				k := 0
				for k < len(lc) && k < len(ls) && lc[k].at == ls[k].at {
					k++
				}
				if k < len(lc) && k < len(ls) && lc[k].env.Fn == ls[k].env.Fn {
					fn := lc[k].env.Fn
					a, b := lc[k].at, ls[k].at
					if !instrReaches(fn, a, b, nil) && !instrReaches(fn, b, a, nil) {
						seen[construct] = true
						c.OK(rule, FuncName(cs.In.Parent()), construct, c.P.InstrPos(cs.In), "no path of "+fn.Name()+" passes both")
						continue
					}
				}
				seen[construct] = true
				c.FailX(Oblig{Rule: rule, Func: FuncName(cs.In.Parent()), Construct: construct, Pos: c.P.InstrPos(cs.In), Kind: "violation",
					Detail: fmt.Sprintf("the same tokens can be credited locally (at %s) and sent on in a %s message (built at %s) on one execution path: nothing known at the credit excludes the message and a control-flow path joins them",
						c.P.InstrPos(cs.In), name, c.P.InstrPos(ss.In)),
					Facts:    factStrings(known),
					Expected: "the message is built only when the destination account is absent / in another shard, the credit only when it is present / in this shard"})
			}
		}
	}
}

// c01r11: "a return-after-error refund restores the sender": besides the gate at every write (R10), nothing else below the
// transfer functions may refuse a refund because the token is paused — every consultation of the pause handler is made only
// when the input's return-after-error flag is not set. A pause test hoisted in front of the credit loop ("fail fast") has no
// such exemption: the refund of a transfer bounced by a paused token is refused while the token is still paused, and what
// the sender shard debited is never restored.
func c01r11(c *Ctx) {
	const rule = "C01-R11"
	c.Rule(rule, "below the transfer functions the pause handler is consulted only when the input's return-after-error flag is not set (a refund is never refused for a pause)", 1)
	regs := c.P.RegByName()
	isPausedCall := func(in ssa.Instruction) (string, bool) {
		if ci, ok := in.(ssa.CallInstruction); ok && InvokeName(ci) == "ESDTPauseHandler.IsPaused" {
			return "IsPaused", true
		}
		return "", false
	}
	n := 0
	for _, name := range []string{"ESDTTransfer", "ESDTNFTTransfer", "MultiESDTNFTTransfer"} {
		r, ok := regs[name]
		if !ok || r.Entry == nil {
			c.Anchor(rule, "entry point of "+name)
			continue
		}
		x, _ := entryContext(r.Entry)
		flagTerm := "*" + x.in + ".VMInput.ReturnCallAfterError"
		notFlag := func(f Fact) bool { return !f.Lin && !f.Pos && f.Atom == "cond:"+flagTerm }
		seen := map[string]int{}
		for _, s := range c.P.EffectSites(r.Entry, "ispaused", isPausedCall) {
			n++
			construct := name + ": IsPaused consulted in " + s.Chain()
			seen[construct]++
			if k := seen[construct]; k > 1 {
				construct += fmt.Sprintf(" #%d", k)
			}
			if _, where, ok := s.CutInContext(notFlag, nil); ok {
				c.OK(rule, FuncName(s.In.Parent()), construct, c.P.InstrPos(s.In), "only reached with the return-after-error flag unset (tested in "+where+")")
			} else {
				c.FailX(Oblig{Rule: rule, Func: FuncName(s.In.Parent()), Construct: construct, Pos: c.P.InstrPos(s.In), Kind: "violation",
					Detail:   "the pause handler is consulted on a path on which the input's return-after-error flag may be set: a refund delivered while the token is (still) paused can be refused here, so a transfer that was debited on the sender shard and bounced at the destination is never credited back",
					Path:     s.witnessPath(notFlag),
					Expected: "every pause test below the transfer functions sits behind `if ReturnCallAfterError { skip }` (the freeze/pause gate does that)"})
			}
		}
	}
	if n == 0 {
		c.Anchor(rule, "a consultation of the pause handler below the transfer functions")
	}
}

// c01r12: "credits exactly that quantity": the existing holding a credit adds is the *stored* one. A reader of token entries
// may hand back a fresh, empty entry ("nothing held yet") only on paths on which nothing was found under the key (the
// storage read failed or returned no bytes); an empty entry returned although bytes are stored — under a sentinel error
// the credit path tolerates, say — makes the credit overwrite the holding instead of adding to it.
func c01r12(c *Ctx) {
	const rule = "C01-R12"
	c.Rule(rule, "a reader of token entries reports an empty holding only when nothing is stored under the key", 1)
	n := 0
	for _, fn := range c.P.Funcs {
		if !c.P.InPkgs(fn, "builtInFunctions") || len(fn.Blocks) == 0 {
			continue
		}
		res := fn.Signature.Results()
		if res.Len() == 0 || !strings.HasSuffix(res.At(0).Type().String(), "esdt.ESDigitalToken") {
			continue
		}
		// the storage read made by this function itself
		var read *ssa.Call
		for _, b := range fn.Blocks {
			for _, in := range b.Instrs {
				if call, ok := in.(*ssa.Call); ok && InvokeName(call) == "AccountDataHandler.RetrieveValue" {
					read = call
				}
			}
		}
		if read == nil {
			continue
		}
		e := c.P.Env(fn)
		dataT := e.Term(read) + "#0"
		nothingStored := func(f Fact) bool {
			if f.Lin {
				// len(data) <= 0
				return len(f.LE.c) == 1 && f.LE.k == 0 && f.LE.c["len("+dataT+")"] == -1
			}
			if !f.Pos && strings.HasPrefix(f.Atom, "ok:AccountDataHandler.RetrieveValue(") {
				return true // the function's own storage read failed (it makes exactly one kind of read)
			}
			if !f.Pos && f.Atom == nilAtom(e.Term(read)+"#1") {
				return true
			}
			return f.Pos && f.Atom == "zero(len("+dataT+"))"
		}
		for _, r := range returnsOf(fn) {
			if len(r.Results) == 0 {
				continue
			}
			al, ok := retval(r, 0).(*ssa.Alloc)
			if !ok {
				continue // nil, or an entry obtained elsewhere
			}
			// filled by a decode that lies on every path to this return?
			filled := false
			if al.Referrers() != nil {
				for _, ref := range *al.Referrers() {
					mi, ok := ref.(*ssa.MakeInterface)
					if !ok || mi.Referrers() == nil {
						continue
					}
					for _, rr := range *mi.Referrers() {
						ci, ok := rr.(ssa.CallInstruction)
						if !ok || !ci.Common().IsInvoke() || ci.Common().Method.Name() != "Unmarshal" {
							continue
						}
						ub := ci.(ssa.Instruction).Block()
						if ub == r.Block() || ub.Dominates(r.Block()) {
							filled = true
						}
					}
				}
			}
			if filled {
				continue
			}
			n++
			construct := fn.Name() + ": empty entry returned @b" + fmt.Sprint(r.Block().Index)
			if fs, ok := e.CutAt(r, nothingStored, nil); ok {
				c.OK(rule, FuncName(fn), construct, c.P.InstrPos(r), "only when nothing is stored: "+fs[0].String())
			} else {
				c.FailX(Oblig{Rule: rule, Func: FuncName(fn), Construct: construct, Pos: c.P.InstrPos(r), Kind: "violation",
					Detail:   "the reader can hand back a fresh, empty entry although bytes are stored under the key: a credit that adds \"the existing holding\" then adds nothing and saves over what the account held (the quantity stored there is destroyed)",
					Path:     pathAvoidingPred(e, r.Block(), nothingStored),
					Expected: "an empty entry only behind `err != nil || len(data) == 0` of the storage read"})
			}
		}
	}
	if n == 0 {
		c.Anchor(rule, "a reader that returns a fresh entry when nothing is stored")
	}
}
