package main

// C01-R7 (exact debits) and C01-R8 (single delivery).

import (
	"fmt"
	"strings"

	"golang.org/x/tools/go/ssa"
)

var transferNames = []string{"ESDTTransfer", "ESDTNFTTransfer", "MultiESDTNFTTransfer"}

func c01r7(c *Ctx) {
	const rule = "C01-R7"
	c.Rule(rule, "debits below the transfer entry points are exact: holding >= quantity is established on the value subtracted from", 1)
	var entries []*ssa.Function
	regs := c.P.RegByName()
	for _, n := range transferNames {
		if r, ok := regs[n]; ok && r.Entry != nil {
			entries = append(entries, r.Entry)
		} else {
			c.Anchor(rule, "registration of "+n)
		}
	}
	balanceArithmeticGuarded(c, rule, c.P.ReachableFrom(entries))
}

type siteLevel struct {
	env *Env
	at  ssa.Instruction
}

// levelsOf: the (function-in-context, instruction) pairs of an effect site, outermost first.
func levelsOf(s EffectSite) []siteLevel {
	var out []siteLevel
	at := s.In
	for x := s.Env; x != nil; x = x.Parent {
		out = append([]siteLevel{{x, at}}, out...)
		if x.Call == nil {
			break
		}
		at = x.Call
	}
	return out
}

// factsAlong: everything known when the site executes: the facts holding at each level of its call chain, plus, for an
// account known to be present that was obtained from a module loader, what the loader guarantees when it returns one.
func factsAlong(p *Prog, s EffectSite) []Fact {
	var out []Fact
	seen := map[string]bool{}
	add := func(fs []Fact) {
		for _, f := range fs {
			if !seen[f.Key()] {
				seen[f.Key()] = true
				out = append(out, f)
			}
		}
	}
	for _, l := range levelsOf(s) {
		fs := l.env.factsAt(l.at.Block(), l.at, nil)
		add(fs)
		present := map[string]bool{}
		for _, f := range fs {
			if !f.Lin && !f.Pos && strings.HasPrefix(f.Atom, "nil(") {
				present[strings.TrimSuffix(strings.TrimPrefix(f.Atom, "nil("), ")")] = true
			}
		}
		if len(present) == 0 {
			continue
		}
		for _, b := range l.env.Fn.Blocks {
			for _, in := range b.Instrs {
				lc, ok := in.(*ssa.Call)
				if !ok || lc.Call.StaticCallee() == nil || len(lc.Call.StaticCallee().Blocks) == 0 || l.env.depth >= maxDepth {
					continue
				}
				sc := lc.Call.StaticCallee()
				res := sc.Signature.Results()
				if res.Len() != 2 || !strings.HasSuffix(res.At(0).Type().String(), modPath+".UserAccountHandler") {
					continue
				}
				if !present[l.env.Term(lc)+"#0"] {
					continue
				}
				ls := l.env.Sub(lc, sc)
				fs := ls.returnFacts(func(r *ssa.Return) bool { return isSuccessReturn(r) && !isNilConst(retval(r, 0)) }, "account returned by "+sc.Name())
				add(ls.rewriteResults(lc, fs))
			}
		}
	}
	return out
}

func c01r8(c *Ctx) {
	const rule = "C01-R8"
	c.Rule(rule, "tokens are delivered once: a local credit and a token-carrying message exclude each other", 3)
	sep, ok := c.P.ConstString("parsers", "atSeparator")
	if !ok {
		c.Anchor(rule, "parsers.atSeparator")
		return
	}
	bal := balancePrefix(c.P)
	regs := c.P.RegByName()
	isData := func(in ssa.Instruction) (string, bool) {
		if st, ok := in.(*ssa.Store); ok {
			if fa, ok := st.Addr.(*ssa.FieldAddr); ok && isFieldOf(fa, "OutputTransfer", "Data") {
				return "OutputTransfer.Data", true
			}
		}
		return "", false
	}
	for _, name := range transferNames {
		r, ok := regs[name]
		if !ok || r.Entry == nil {
			c.Anchor(rule, "registration of "+name)
			continue
		}
		x, _ := entryContext(r.Entry)
		// token-carrying messages: Data whose constant head is the function's own protocol name
		var ships []EffectSite
		for _, s := range c.P.EffectSites(r.Entry, "otdata", isData) {
			st := s.In.(*ssa.Store)
			cv, ok := st.Val.(*ssa.Convert)
			if !ok {
				continue
			}
			var heads []string
			flattenString(s.Env, cv.X, sep, &heads, 0, map[*ssa.Phi]bool{})
			if len(heads) == 1 && heads[0] == name {
				ships = append(ships, s)
			}
		}
		if len(ships) == 0 {
			c.Fail(rule, "floor", FuncName(r.Entry), name+": message that carries the tokens to another shard", c.P.Pos(r.Entry.Pos()), "no output transfer whose data starts with "+name+" is built below the entry point")
			continue
		}
		// local credits of a non-sender account
		var credits []EffectSite
		for _, s := range c.P.EffectSites(r.Entry, "save", isBalanceSave(c.P)) {
			call := s.In.(ssa.CallInstruction)
			ks := keyShape(s.Env, call.Common().Args[0], 0)
			if ks == nil || ks.Prefix != bal || isNilConst(call.Common().Args[1]) {
				continue
			}
			acct := writtenAccount(call)
			if acct == nil {
				continue
			}
			origins := accountOrigin(s.Env, acct, 0)
			if len(origins) == 1 && origins[0] == "param:"+x.snd {
				continue
			}
			credits = append(credits, s)
		}
		if len(credits) == 0 {
			c.Fail(rule, "floor", FuncName(r.Entry), name+": local credit sites", c.P.Pos(r.Entry.Pos()), "no credit of a non-sender account found below the entry point")
			continue
		}
		seen := map[string]bool{}
		for _, cs := range credits {
			known := factsAlong(c.P, cs)
			for _, ss := range ships {
				construct := name + ": credit in " + cs.Chain() + " vs message in " + ss.Chain()
				if seen[construct] {
					continue
				}
				// (a) the guards exclude each other
				if ss.UnreachableUnder(known) {
					seen[construct] = true
					c.OK(rule, FuncName(cs.In.Parent()), construct, c.P.InstrPos(cs.In), "what holds at the credit makes the message unreachable")
					continue
				}
				// (b) no control-flow path joins them in the function where their call chains part
				lc, ls := levelsOf(cs), levelsOf(ss)
				k := 0
				for k < len(lc) && k < len(ls) && lc[k].at == ls[k].at {
					k++
				}
				if k < len(lc) && k < len(ls) && lc[k].env.Fn == ls[k].env.Fn {
					fn := lc[k].env.Fn
					a, b := lc[k].at, ls[k].at
					if !instrReaches(fn, a, b, nil) && !instrReaches(fn, b, a, nil) {
						seen[construct] = true
						c.OK(rule, FuncName(cs.In.Parent()), construct, c.P.InstrPos(cs.In), "no path of "+fn.Name()+" passes both")
						continue
					}
				}
				seen[construct] = true
				c.FailX(Oblig{Rule: rule, Func: FuncName(cs.In.Parent()), Construct: construct, Pos: c.P.InstrPos(cs.In), Kind: "violation",
					Detail: fmt.Sprintf("the same tokens can be credited locally (at %s) and sent on in a %s message (built at %s) on one execution path: nothing known at the credit excludes the message and a control-flow path joins them",
						c.P.InstrPos(cs.In), name, c.P.InstrPos(ss.In)),
					Facts:    factStrings(known),
					Expected: "the message is built only when the destination account is absent / in another shard, the credit only when it is present / in this shard"})
			}
		}
	}
}
