package main

// C02 — supply changes only by the stated amount; no overdraft; never negative (structural clauses).

import (
	"fmt"
	"regexp"
	"sort"
	"strings"

	"golang.org/x/tools/go/ssa"
)

func init() {
	register(&Property{
		ID:    "C02",
		Level: "other",
		Explanation: "R1 (overdraft guard, exact): every (*big.Int).Sub applied to a token Value is dominated by the edge establishing exactly Cmp(minuend, subtrahend) >= 0 for the same versions of both operands (a stricter `<=` guard, which rejects the exact " +
			"balance, or a missing guard are reported); every Add to a Value whose addend can be a negated amount is followed, on every path to a success return, by the edge establishing exactly Cmp(Value, 0) >= 0 evaluated after that Add. " +
			"R2 (direction and amount source): below each registered entry point the mutators applied to a Value and the sign of the delta handed to the shared balance helper match the table's supply column (+, -, transfer, none), and every amount is " +
			"SetBytes(Arguments[k]) (non-negative by construction), its negation, or the current holding of the credited entry. R3: entry points whose supply column is 0 (and the toggles) contain no Value mutation and no store to ESDigitalToken.Value of a read entry. " +
			"R4: the delete performed by ESDTWipe is cut by Frozen == true of the entry read from the same account and key. R5/R6/R7/R8 are shared obligations re-derived under this property: the nonce counter travels with the create role (C07-R2/R3), a credit adds to the holding (C01-R1), a balance key names the token and nonce of the input (C05-R3), and SaveKeyValue cannot write a balance entry (C03-R6). R9: the nonce counter is read with the codec it is written with. Does NOT decide: that the stored number equals old ± amount (arithmetic of math/big).",
		Trusted: []string{"math/big Add/Sub/Neg/Cmp semantics", "T-REG supply column restating the property"},
		Rules:   []func(*Ctx){c02r1, c02r2, c02r4, c02r5, c02r6, c02r7, c02r8, c02r9},
	})
}

func isValueTerm(t string) bool { return strings.HasSuffix(t, ".Value") }

// c02r5: "creates … under a fresh nonce" — the counter the next create starts from moves intact with the create role
// (the obligations of C07-R2/R3, claimed here as the freshness clause of the creation statement).
func c02r5(c *Ctx) { handOverRules(c, "C02-R5", "C02-R5b") }

func c02r1(c *Ctx) {
	const rule = "C02-R1"
	c.Rule(rule, "every subtraction from a balance is guarded by exactly Cmp >= 0; every signed addition is followed by exactly Cmp(Value, 0) >= 0", 4)
	balanceArithmeticGuarded(c, rule, nil)
}

// balanceArithmeticGuarded: the overdraft guards of every Value.Sub / signed Value.Add in builtInFunctions (restricted to
// the functions of `only` when given). Shared by C02-R1 and C01-R7.
func balanceArithmeticGuarded(c *Ctx, rule string, only map[*ssa.Function]bool) {
	for _, fn := range c.P.Funcs {
		if !c.P.InPkgs(fn, "builtInFunctions") || only != nil && !only[fn] {
			continue
		}
		e := c.P.Env(fn)
		for _, b := range fn.Blocks {
			for _, in := range b.Instrs {
				call, ok := in.(*ssa.Call)
				if !ok {
					continue
				}
				switch bigMethod(call) {
				case "Sub":
					a := call.Call.Args
					if !isValueTerm(e.Term(a[0])) {
						continue
					}
					x, y := e.bigRef(a[1], call), e.bigRef(a[2], call)
					want1 := leAtom("cmp(" + x + "," + y + ")").String()           // cmp(x,y) >= 0
					want2 := leAtom("cmp(" + y + "," + x + ")").scale(-1).String() // cmp(y,x) <= 0
					construct := "Sub(" + e.Term(a[0]) + ", " + e.Term(a[1]) + ", " + e.Term(a[2]) + ")"
					// a guard established inside a helper that handed the entry back names its Value without a version (the helper
					// has returned; had it changed the number after testing it, its own version would show): that is this
					// function's version 0 — nothing here has touched the number yet
					x0, y0 := strings.TrimSuffix(x, "@v{0}"), strings.TrimSuffix(y, "@v{0}")
					want3, want4 := want1, want2
					if x0 != x || y0 != y {
						want3 = leAtom("cmp(" + x0 + "," + y0 + ")").String()
						want4 = leAtom("cmp(" + y0 + "," + x0 + ")").scale(-1).String()
					}
					pred := func(f Fact) bool {
						if !f.Lin {
							return false
						}
						ls := f.LE.String()
						if ls == want1 || ls == want2 {
							return true
						}
						return (ls == want3 || ls == want4) && strings.Contains(f.Why, " via ")
					}
					if fs, ok := e.CutAt(call, pred, nil); ok {
						c.OK(rule, FuncName(fn), construct, c.P.InstrPos(call), "guarded by "+fs[0].String())
						continue
					}
					// the debit sits in a step that is handed the entry a sibling step has read and verified: judge it in every
					// calling context (the guard is then a fact of the caller about the very object it passes down)
					if !isExportedAPI(fn) && len(c.P.Callers[fn]) > 0 {
						mk := func(ce *Env) func(Fact) bool {
							cx, cy := ce.bigRef(a[1], call), ce.bigRef(a[2], call)
							if ce.Fn != fn {
								return func(Fact) bool { return false }
							}
							cx0, cy0 := strings.TrimSuffix(cx, "@v{0}"), strings.TrimSuffix(cy, "@v{0}")
							w := map[string]bool{
								leAtom("cmp(" + cx + "," + cy + ")").String():             true,
								leAtom("cmp(" + cy + "," + cx + ")").scale(-1).String():   true,
								leAtom("cmp(" + cx0 + "," + cy0 + ")").String():           true,
								leAtom("cmp(" + cy0 + "," + cx0 + ")").scale(-1).String(): true,
							}
							return func(f Fact) bool { return f.Lin && w[f.LE.String()] }
						}
						if by, ok, _ := c.P.CutInAllContexts(fn, call, mk); ok && e.versionZeroAt(a[1], call) {
							c.OK(rule, FuncName(fn), construct, c.P.InstrPos(call), by)
							continue
						}
					}
					// a stricter guard exists? (cmp - 1 >= 0): exact balance rejected
					strict := leAtom("cmp(" + x + "," + y + ")").addK(-1).String()
					d := "the subtraction is not dominated by a guard establishing minuend >= subtrahend: the balance can go negative (and a non-positive NFT balance is silently deleted)"
					if _, ok := e.CutAt(call, func(f Fact) bool { return f.Lin && f.LE.String() == strict }, nil); ok {
						d = "the guard is strict (minuend > subtrahend): spending the exact balance is rejected"
					}
					c.FailX(Oblig{Rule: rule, Func: FuncName(fn), Construct: construct, Pos: c.P.InstrPos(call), Kind: "violation", Detail: d,
						Facts: factStrings(e.LinFactsAt(call, nil)), Expected: "if " + e.Term(a[1]) + ".Cmp(" + e.Term(a[2]) + ") < 0 { return error } on every path before the Sub, with no mutation of either operand in between"})
				case "Add":
					a := call.Call.Args
					rt := e.Term(a[0])
					if !isValueTerm(rt) {
						continue
					}
					// can an addend be negative? (a parameter that some call site binds to Neg(…), or a neg term directly)
					mayNeg := false
					for _, ad := range a[1:] {
						if addendMayBeNegative(c.P, e, ad, 0) {
							mayNeg = true
						}
					}
					if !mayNeg {
						continue
					}
					construct := "signed Add(" + rt + ", " + e.Term(a[1]) + ", " + e.Term(a[2]) + ")"
					zero := "*G:builtInFunctions.zero"
					pred := func(f Fact) bool {
						if !f.Lin || len(f.LE.c) != 1 || f.LE.k != 0 {
							return false
						}
						for at, k := range f.LE.c {
							// cmp(<Value>@v{…this Add…}, zero) >= 0
							if k == 1 && strings.HasPrefix(at, "cmp("+rt+"@v{") && strings.HasSuffix(at, ","+zero+")") && strings.Contains(at[:strings.Index(at, "}")+1], valueName(call)) {
								return true
							}
						}
						return false
					}
					okAll, n := true, 0
					for _, r := range returnsOf(fn) {
						if !isSuccessReturn(r) || !instrReaches(fn, call, r, nil) {
							continue
						}
						n++
						if _, ok := e.CutAt(r, pred, nil); !ok {
							okAll = false
						}
					}
					if okAll && n > 0 {
						c.OK(rule, FuncName(fn), construct, c.P.InstrPos(call), "every success return after the Add is cut by Cmp(Value, zero) >= 0 evaluated after it")
					} else {
						c.FailX(Oblig{Rule: rule, Func: FuncName(fn), Construct: construct, Pos: c.P.InstrPos(call), Kind: "violation",
							Detail:   "a possibly negative delta is added and the result is not checked with exactly `Cmp(zero) < 0 -> error` before success: overdraft, or (with `<=`) the exact balance is rejected",
							Expected: "if " + rt + ".Cmp(zero) < 0 { return ErrInsufficientFunds } after the Add on every path"})
					}
				}
			}
		}
	}
}

// addendMayBeNegative: the *big.Int is (or may be bound to, at some call site) a negated amount.
func addendMayBeNegative(p *Prog, e *Env, v ssa.Value, depth int) bool {
	if depth > 3 {
		return true
	}
	switch x := v.(type) {
	case *ssa.Call:
		if bigMethod(x) == "Neg" {
			return true
		}
		return false
	case *ssa.Parameter:
		if a, pe := e.actual(x); a != nil {
			return addendMayBeNegative(p, pe, a, depth+1)
		}
		if isExportedAPI(e.Fn) {
			return true
		}
		idx := -1
		for i, q := range e.Fn.Params {
			if q == x {
				idx = i
			}
		}
		for _, cs := range p.Callers[e.Fn] {
			if !p.Src(cs.Parent()) {
				continue
			}
			args := cs.Common().Args
			if idx < len(args) && addendMayBeNegative(p, p.Env(cs.Parent()), args[idx], depth+1) {
				return true
			}
		}
		return false
	case *ssa.UnOp:
		return false // a stored Value (holdings are non-negative: C15)
	case *ssa.Phi:
		for _, ed := range x.Edges {
			if addendMayBeNegative(p, e, ed, depth+1) {
				return true
			}
		}
	}
	return false
}

var amountRe = regexp.MustCompile(`^(bigv\()?bigBytes\(\*\*P:[A-Za-z_0-9]+\.VMInput\.Arguments\[[^\]]*\]\)\)?$`)

// c02r2 (with R3): direction of every Value mutation below each entry point.
func c02r2(c *Ctx) {
	const rule = "C02-R2"
	c.Rule(rule, "below each entry point the Value mutations have the direction of the table's supply column and argument-derived amounts", 15)
	c.Rule("C02-R3", "functions that do not change supply contain no Value mutation", 10)
	isMut := func(in ssa.Instruction) (string, bool) {
		if call, ok := in.(*ssa.Call); ok {
			if m := bigMethod(call); m == "Add" || m == "Sub" || (m != "" && bigMutators[m]) {
				return m, true
			}
		}
		if st, ok := in.(*ssa.Store); ok {
			if fa, ok := st.Addr.(*ssa.FieldAddr); ok && isFieldOf(fa, "esdt.ESDigitalToken", "Value") {
				if _, isAlloc := fa.X.(*ssa.Alloc); !isAlloc {
					return "store Value", true
				}
			}
		}
		return "", false
	}
	regs := c.P.RegByName()
	for _, sp := range loadRegSpec() {
		r, ok := regs[sp.Name]
		if !ok || r.Entry == nil {
			continue
		}
		x, _ := entryContext(r.Entry)
		var dirs []string
		nmut := 0
		seen := map[string]int{}
		for _, s := range c.P.EffectSites(r.Entry, "valuemut", isMut) {
			var recvT string
			call, isCall := s.In.(*ssa.Call)
			if isCall {
				recvT = s.Env.Term(call.Call.Args[0])
			}
			if isCall && !isValueTerm(recvT) {
				continue // fresh big.Int constructions (NewInt(0).SetBytes, Neg into a fresh value, log amounts)
			}
			nmut++
			construct := sp.Name + ": " + s.Name
			if isCall {
				construct += "(" + recvT + ", …) in " + s.Chain()
			} else {
				construct += " in " + s.Chain()
			}
			seen[construct]++
			if k := seen[construct]; k > 1 {
				construct += fmt.Sprintf(" #%d", k)
			}
			pos := c.P.InstrPos(s.In)
			fnn := FuncName(s.In.Parent())
			if sp.Supply == "0" || sp.Supply == "delete" {
				c.FailX(Oblig{Rule: "C02-R3", Func: fnn, Construct: construct, Pos: pos, Kind: "violation",
					Detail: sp.Name + " must leave every balance unchanged but mutates a Value"})
				continue
			}
			if !isCall {
				c.FailX(Oblig{Rule: rule, Func: fnn, Construct: construct, Pos: pos, Kind: "violation", Detail: "a read entry's Value pointer is replaced instead of being updated by Add/Sub of the stated amount"})
				continue
			}
			// which account's entry?
			acctSide := "?"
			if org := entryOriginOfValue(s.Env, call.Call.Args[0], 0); strings.HasPrefix(org, "read:") {
				at := strings.TrimPrefix(org, "read:")
				switch {
				case at == x.snd:
					acctSide = "sender"
				default:
					acctSide = "other"
				}
			} else {
				acctSide = "incoming" // the entry being credited (transferred / decoded)
			}
			dir, amt := "", ""
			switch s.Name {
			case "Sub":
				dir, amt = "-", s.Env.Term(call.Call.Args[2])
			case "Add":
				amt = s.Env.Term(call.Call.Args[2])
				if amt == recvT {
					amt = s.Env.Term(call.Call.Args[1])
				} else if !amountRe.MatchString(amt) && !strings.HasPrefix(amt, "neg(") {
					// a number prepared in a local and possibly negated in place under a flag of the calling context
					if v, ok := s.Env.bigValueAt(call.Call.Args[2], call, 0); ok {
						amt = v
					}
				}
				dir = "+"
				if strings.HasPrefix(amt, "neg(") {
					dir, amt = "-", strings.TrimSuffix(strings.TrimPrefix(amt, "neg("), ")")
				}
			case "Set":
				// Value.Set(q) after the debit: the entry now carries the shipped quantity (C01-R4); not a supply change of a stored balance
				dir, amt = "=", s.Env.Term(call.Call.Args[1])
			default:
				dir, amt = s.Name, "?"
			}
			class := ""
			switch {
			case amountRe.MatchString(amt):
				class = "amount from the arguments"
			case isValueTerm(amt) && dir == "+":
				class = "existing holding of the credited account"
			default:
				class = "other: " + amt
			}
			if class == "existing holding of the credited account" {
				// E.Value.Add(E.Value, current.Value): E is the entry being credited into the account that holds `current`
				if org := entryOriginOfValue(s.Env, call.Call.Args[2], 0); strings.HasPrefix(org, "read:") && strings.TrimPrefix(org, "read:") != x.snd {
					acctSide = "incoming"
				} else if org2 := entryOriginOfValue(s.Env, call.Call.Args[1], 0); amt == s.Env.Term(call.Call.Args[1]) && strings.HasPrefix(org2, "read:") && strings.TrimPrefix(org2, "read:") != x.snd {
					acctSide = "incoming"
				}
			}
			dirs = append(dirs, acctSide+dir)
			good := false
			switch sp.Supply {
			case "+":
				good = dir == "+" && class == "amount from the arguments" && acctSide == "sender"
			case "-":
				good = dir == "-" && class == "amount from the arguments" && acctSide == "sender"
			case "transfer":
				good = (dir == "-" && acctSide == "sender" && class == "amount from the arguments") ||
					(dir == "+" && acctSide != "sender" && class != "" && !strings.HasPrefix(class, "other")) ||
					(dir == "=" && class == "amount from the arguments")
			case "create":
				good = false
			}
			if good {
				c.OK(rule, fnn, construct, pos, fmt.Sprintf("%s %s (%s) on the %s entry; table: %s", dir, amt, class, acctSide, sp.Supply))
			} else {
				c.FailX(Oblig{Rule: rule, Func: fnn, Construct: construct, Pos: pos, Kind: "violation",
					Detail:   fmt.Sprintf("%s applies %s %s (%s) to the %s entry, but the protocol says its supply effect is %q", sp.Name, dir, amt, class, acctSide, sp.Supply),
					Expected: "direction and amount of the table"})
			}
		}
		sort.Strings(dirs)
		switch {
		case (sp.Supply == "0" || sp.Supply == "delete" || sp.Supply == "create") && nmut == 0:
			c.OK("C02-R3", FuncName(r.Entry), sp.Name+": no Value mutation", c.P.Pos(r.Entry.Pos()), "supply column "+sp.Supply)
		case (sp.Supply == "+" || sp.Supply == "-") && nmut == 0:
			c.Fail(rule, "violation", FuncName(r.Entry), sp.Name+": applies its amount", c.P.Pos(r.Entry.Pos()), "the function never changes a Value although the protocol says "+sp.Supply)
		case sp.Supply == "transfer":
			joined := strings.Join(uniq(dirs), " ")
			if strings.Contains(joined, "sender-") && (strings.Contains(joined, "other+") || strings.Contains(joined, "incoming+")) {
				c.OK(rule, FuncName(r.Entry), sp.Name+": debit and credit present", c.P.Pos(r.Entry.Pos()), joined)
			} else {
				c.Fail(rule, "violation", FuncName(r.Entry), sp.Name+": debit and credit present", c.P.Pos(r.Entry.Pos()), "a transfer must debit the sender and credit the destination; found {"+joined+"}")
			}
		}
	}
}

// valueOwner: for a load of X.Value returns X.
// entryOriginOfValue: the origin of the entry whose Value the big.Int v is — following parameters to the call site (a
// number handed to a helper or a function literal as `entry.Value`).
func entryOriginOfValue(e *Env, v ssa.Value, depth int) string {
	if depth > 6 {
		return "?"
	}
	if par, ok := v.(*ssa.Parameter); ok {
		if a, pe := e.actual(par); a != nil {
			return entryOriginOfValue(pe, a, depth+1)
		}
	}
	return entryOrigin(e, valueOwner(v), 0)
}

func valueOwner(v ssa.Value) ssa.Value {
	if ld, ok := v.(*ssa.UnOp); ok {
		if fa, ok := ld.X.(*ssa.FieldAddr); ok {
			return fa.X
		}
	}
	return v
}

func c02r4(c *Ctx) {
	const rule = "C02-R4"
	c.Rule(rule, "wipe deletes the entry only when it is frozen", 1)
	r, ok := c.P.RegByName()["ESDTWipe"]
	if !ok || r.Entry == nil {
		c.Anchor(rule, "registration of ESDTWipe")
		return
	}
	n := 0
	for _, s := range c.P.EffectSites(r.Entry, "save", isBalanceSave(c.P)) {
		call := s.In.(ssa.CallInstruction)
		if !isNilConst(call.Common().Args[1]) {
			continue
		}
		if s.UnreachableUnder(regFlagAssumptions(c.P, r)) {
			continue // code of the shared type that runs only for the sibling registrations (constant constructor flags)
		}
		// the delete: must be cut by Frozen == true of the entry read from the same account under the same key
		n++
		acct := s.Env.Term(writtenAccount(call))
		key := s.Env.Term(call.Common().Args[0])
		construct := "ESDTWipe: delete SaveKeyValue(" + key + ", nil) in " + s.Chain()
		why := ""
		pred := func(f Fact) bool {
			if f.Lin || !f.Pos || !strings.HasPrefix(f.Atom, "cond:") || !strings.HasSuffix(f.Atom, ".Frozen") {
				return false
			}
			// cond:<FromBytes>(*<entry>.Properties).Frozen with <entry> read from (acct, key)
			if !strings.Contains(f.Atom, ".Properties).Frozen") {
				return false
			}
			// find the reader call in the site's function
			for _, b := range s.In.Parent().Blocks {
				for _, in := range b.Instrs {
					rc, ok := in.(*ssa.Call)
					if !ok || rc.Call.StaticCallee() == nil || !strings.HasSuffix(rc.Call.Signature().Results().String(), "error)") {
						continue
					}
					et := s.Env.Term(rc) + "#0"
					if strings.Contains(f.Atom, "*"+et+".Properties") {
						hasAcct, hasKey := false, false
						for _, a := range rc.Call.Args {
							if s.Env.Term(a) == acct {
								hasAcct = true
							}
							if s.Env.Term(a) == key {
								hasKey = true
							}
						}
						if hasAcct && hasKey {
							return true
						}
						why = "the Frozen flag tested belongs to an entry read from another account or key"
					}
				}
			}
			return false
		}
		if fs, where, ok := s.CutInContext(pred, nil); ok {
			c.OK(rule, FuncName(s.In.Parent()), construct, c.P.InstrPos(s.In), "cut in "+where+" by "+fs[0].String())
		} else {
			d := "the holding can be wiped without the account being frozen for the token"
			if why != "" {
				d += " (" + why + ")"
			}
			c.FailX(Oblig{Rule: rule, Func: FuncName(s.In.Parent()), Construct: construct, Pos: c.P.InstrPos(s.In), Kind: "violation", Detail: d, Path: s.witnessPath(pred)})
		}
	}
	if n == 0 {
		c.Anchor(rule, "the delete performed by ESDTWipe")
	}
}

// c02r6 / c02r7: clauses of the statement that sibling properties decide, claimed here as well so that C02 stands on its
// own: a credit raises the balance by exactly the amount only if the existing holding is added (C01-R1), and "creates under a
// fresh nonce / lowers the caller's balance" presupposes that (token, nonce) determines the storage key (C05-R3 key layout).
func c02r6(c *Ctx) {
	c.shareRule(c01r1, "C01-R1", "C02-R6", "a credit saves amount + existing holding (no overwrite)", nil)
}
func c02r7(c *Ctx) {
	c.shareRule(c05r3, "C05-R3", "C02-R7", "balance keys are prefix‖token‖Bytes(nonce): distinct (token, nonce) never share an entry", nil)
}

// c02r8: the one function that writes what the user lists cannot reach a balance entry (shared with C03-R6): a forged
// ELRONDesdt… value is a supply change by an amount nobody stated.
func c02r8(c *Ctx) {
	c.shareRule(c03r6, "C03-R6", "C02-R8", "SaveKeyValue cannot write a balance entry: its write is cut by the protected-prefix test on the very key written", nil)
}

// c02r9: "ESDTNFTCreate creates exactly the given quantity under a fresh nonce": the counter that makes the nonce fresh is
// read with the codec it is written with (shared with C15-R2, restricted to the counter key): a reader that decodes the
// stored bytes in another byte order or width continues below nonces already issued once the counter needs a second byte,
// and the new entry lands on an existing holding.
func c02r9(c *Ctx) {
	c.shareRule(c15r2, "C15-R2", "C02-R9", "the nonce counter is read with the codec it is written with (a fresh nonce stays fresh beyond one byte)", func(o Oblig) bool {
		return strings.Contains(o.Construct, "nonce key") || o.Kind == "anchor"
	})
}
