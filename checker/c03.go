package main

// C03 — privileged operations require the right authority.
// Every world-state effect below a privileged entry point is cut by that entry point's authority guard.

import (
	"fmt"
	"go/token"
	"go/types"
	"strings"

	"golang.org/x/tools/go/ssa"
)

func init() {
	register(&Property{
		ID:    "C03",
		Level: "other",
		Explanation: "For each of the 14 privileged protocol names (resolved through the factory's Add calls, oracle = T-REG spec/registry.json) the checker enumerates every world-state effect below the entry point " +
			"(SaveKeyValue, SaveAccount, AddToBalance, ChangeOwnerAddress, ClaimDeveloperRewards, SetUserName, … and every OutputTransfer literal, in every calling context) and decides that it is cut, on all CFG paths, " +
			"by the success edge of the authority guard: CheckAllowedToExecute(sender account, Arguments[0], <the role constant of the table>) for the 7 role-gated names (NFT create with quantity > 1 additionally by the " +
			"add-quantity role, decided under the assumption quantity > 1), caller == ESDTSCAddress for the system-only names, sender-account-absent for the hand-over and the destination side of NFT/multi transfers, " +
			"caller == owner of the destination account, caller ∈ DNS set. R2 checks the in-module role handler: success only under an element equal to the requested action, list read from the given account and token. " +
			"R6: the one function that writes user-chosen keys (SaveKeyValue) refuses the protocol's key space — its write is cut by IsAllowedToSaveUnderKey(<the very key written>) and by the self-call guard — so role lists and " +
			"frozen flags change only through the system-contract functions. R7: a revocation removes what it was asked to: a list is never shrunk at the induction index of a forward loop that keeps iterating over it (the element sliding " +
			"into the freed slot would be skipped and a revoked role would survive). R2 also: every role list the reader hands to the check is allocated by it in the call (a list remembered on the handler is shared with the set-role function, which appends to what it reads). Does NOT decide: histories of set/unset, semantics of bytes.Equal, behaviour of an externally supplied role handler.",
		Trusted: []string{"T-REG (spec/registry.json): role constants and authority kind per protocol name, restating the property", "A-presence"},
		Rules:   []func(*Ctx){c03r1, c03r2, c03r3, c03r5, c03r6, c03r7, c03r8, c03r9},
	})
}

type entryCtx struct {
	fn     *ssa.Function
	snd    string // term of the sender account parameter
	dst    string
	in     string // term of the *ContractCallInput parameter
	caller string
	rcpt   string
}

func (x entryCtx) arg(i int) string { return fmt.Sprintf("**%s.VMInput.Arguments[%d]", x.in, i) }
func (x entryCtx) args() string     { return "*" + x.in + ".VMInput.Arguments" }

func entryContext(fn *ssa.Function) (entryCtx, bool) {
	x := entryCtx{fn: fn}
	n := 0
	for _, p := range fn.Params {
		ts := p.Type().String()
		switch {
		case strings.HasSuffix(ts, modPath+".UserAccountHandler"):
			if n == 0 {
				x.snd = "P:" + paramName(p)
			} else {
				x.dst = "P:" + paramName(p)
			}
			n++
		case strings.HasSuffix(ts, modPath+".ContractCallInput"):
			x.in = "P:" + paramName(p)
		}
	}
	if x.in == "" || n != 2 {
		return x, false
	}
	x.caller = "*" + x.in + ".VMInput.CallerAddr"
	x.rcpt = "*" + x.in + ".RecipientAddr"
	return x, true
}

const esdtSCAddrTerm = "*G:.ESDTSCAddress"

func effectConstruct(s EffectSite) string {
	return s.Name + " in " + s.Chain()
}

func checkEffectsCut(c *Ctx, rule string, regName string, entry *ssa.Function, pred func(Fact) bool, assume []Fact, guardDesc string, filter func(EffectSite) bool) int {
	sites := c.P.EffectSites(entry, "world", worldEffect)
	n := 0
	seen := map[string]int{}
	for _, s := range sites {
		if filter != nil && !filter(s) {
			continue
		}
		n++
		construct := regName + ": " + effectConstruct(s)
		seen[construct]++
		if k := seen[construct]; k > 1 {
			construct += fmt.Sprintf(" #%d", k)
		}
		fs, where, ok := s.CutInContext(pred, assume)
		if ok {
			c.OK(rule, FuncName(s.In.Parent()), construct, c.P.InstrPos(s.In), "cut in "+where+" by "+fs[0].String())
		} else {
			c.FailX(Oblig{Rule: rule, Func: FuncName(s.In.Parent()), Construct: construct, Pos: c.P.InstrPos(s.In), Kind: "violation",
				Detail:   "effect " + s.Name + " is reachable from the entry point of " + regName + " without passing " + guardDesc,
				Path:     s.witnessPath(pred),
				Expected: guardDesc + " on every path from the entry point (call chain: " + s.Chain() + ")"})
		}
	}
	return n
}

func okCall(f Fact, invoke string) (ssa.CallInstruction, *Env, bool) {
	if f.Lin || !f.Pos || f.Call == nil || !strings.HasPrefix(f.Atom, "ok:") {
		return nil, nil, false
	}
	if InvokeName(f.Call) != invoke {
		return nil, nil, false
	}
	return f.Call, f.Env, true
}

// ---------------------------------------------------------------- R1 role gate

func rolePred(x entryCtx, role string) func(Fact) bool {
	return func(f Fact) bool {
		call, env, ok := okCall(f, "ESDTRoleHandler.CheckAllowedToExecute")
		if !ok {
			return false
		}
		a := call.Common().Args
		return len(a) == 3 && env.Term(a[0]) == x.snd && env.Term(a[1]) == x.arg(0) && env.Term(a[2]) == fmt.Sprintf("%q", role)
	}
}

func c03r1(c *Ctx) {
	const rule = "C03-R1"
	c.Rule(rule, "every effect of a role-gated function is cut by CheckAllowedToExecute(sender, Arguments[0], its role)", 7)
	regs := c.P.RegByName()
	for _, sp := range loadRegSpec() {
		if sp.Authority.Kind != "role" {
			continue
		}
		r, ok := regs[sp.Name]
		if !ok || r.Entry == nil {
			c.Anchor(rule, "registration of "+sp.Name+" in the factory")
			continue
		}
		x, ok := entryContext(r.Entry)
		if !ok {
			c.Anchor(rule, "parameters of "+FuncName(r.Entry))
			continue
		}
		for _, roleConst := range sp.Authority.Roles {
			role, ok := c.P.ConstString("", roleConst)
			if !ok {
				c.Anchor(rule, "constant vmcommon."+roleConst)
				continue
			}
			n := checkEffectsCut(c, rule, sp.Name, r.Entry, rolePred(x, role), nil,
				fmt.Sprintf("the success edge of CheckAllowedToExecute(%s, Arguments[0], %q)", x.snd, role), nil)
			if n == 0 {
				c.Fail(rule, "floor", FuncName(r.Entry), sp.Name+": effects", "-", "no effect found below a role-gated entry point")
			}
		}
		if q := sp.Authority.IfQuantityAboveOne; q != "" {
			role, ok := c.P.ConstString("", q)
			if !ok {
				c.Anchor(rule, "constant vmcommon."+q)
				continue
			}
			// quantity = the value stored into the Value field of the token literal built by the entry point
			var qty string
			isValueStore := func(in ssa.Instruction) (string, bool) {
				if st, ok := in.(*ssa.Store); ok {
					if fa, ok := st.Addr.(*ssa.FieldAddr); ok && isFieldOf(fa, "esdt.ESDigitalToken", "Value") {
						if _, isAlloc := fa.X.(*ssa.Alloc); isAlloc {
							return "Value", true
						}
					}
				}
				return "", false
			}
			// in the entry point or in a phase function below it; readers that build a default entry do not count (their
			// literal is not what gets its quantity from the arguments)
			for _, vs := range c.P.EffectSites(r.Entry, "c03qty", isValueStore) {
				t := vs.Env.Term(vs.In.(*ssa.Store).Val)
				if strings.Contains(t, ".VMInput.Arguments[") {
					qty = t
				}
			}
			if qty == "" {
				c.Anchor(rule, sp.Name+": quantity stored into the created entry")
				continue
			}
			atom := "cmp(" + qty + ",big(1))"
			assume := []Fact{{Lin: true, LE: leAtom(atom).addK(-1), Why: "assumption: quantity > 1"}}
			checkEffectsCut(c, rule, sp.Name+" [quantity > 1]", r.Entry, rolePred(x, role), assume,
				fmt.Sprintf("the success edge of CheckAllowedToExecute(%s, Arguments[0], %q) when %s > 1", x.snd, role, qty), nil)
		}
	}
}

// ---------------------------------------------------------------- R2 the in-module role handler

func c03r2(c *Ctx) {
	const rule = "C03-R2"
	c.Rule(rule, "the role handler returns success only under an element of the account's role list equal to the requested action", 1)
	n := c.P.NamedType("", "ESDTRoleHandler")
	if n == nil {
		c.Anchor(rule, "interface vmcommon.ESDTRoleHandler")
		return
	}
	impls := c.P.Implementations(n.Underlying().(*types.Interface), "CheckAllowedToExecute")
	if len(impls) == 0 {
		c.Anchor(rule, "module implementation of ESDTRoleHandler.CheckAllowedToExecute")
		return
	}
	for _, fn := range impls {
		e := c.P.Env(fn)
		if len(fn.Params) != 4 {
			c.Anchor(rule, "signature of "+FuncName(fn))
			continue
		}
		acct, tok, action := "P:"+paramName(fn.Params[1]), "P:"+paramName(fn.Params[2]), "P:"+paramName(fn.Params[3])
		// the list that is searched must be read from the given account under role-prefix ‖ given token
		listOK := ""
		var listTerm string
		for _, b := range fn.Blocks {
			for _, in := range b.Instrs {
				call, ok := in.(*ssa.Call)
				if !ok {
					continue
				}
				sc := call.Call.StaticCallee()
				if sc == nil || !strings.Contains(sc.Signature.Results().String(), "ESDTRoles") {
					continue
				}
				var hasAcct bool
				var key *KeyShape
				for _, a := range call.Call.Args {
					if e.Term(a) == acct {
						hasAcct = true
					}
					if ks := keyShape(e, a, 0); ks != nil {
						key = ks
					}
				}
				want, _ := c.P.ConstString("", "ElrondProtectedKeyPrefix")
				r1, _ := c.P.ConstString("", "ESDTRoleIdentifier")
				r2, _ := c.P.ConstString("", "ESDTKeyIdentifier")
				if hasAcct && key != nil && key.Prefix == want+r1+r2 && len(key.Parts) == 1 && key.Parts[0] == tok {
					listOK = "list read by " + sc.Name() + "(" + acct + ", " + key.String() + ")"
					listTerm = e.Term(call) + "#0"
					// "currently holds": what is searched is decoded in this call — every list the reader hands out is an object
					// it allocated itself, never one kept across calls on the handler (the set-role function appends to the
					// object it reads: a remembered list grows roles its account never received)
					if fresh, why := freshResult(c.P, sc, 0, 0); fresh {
						c.OK(rule, FuncName(fn), "role list is decoded afresh", c.P.InstrPos(call), "every list "+sc.Name()+" returns is allocated by it")
					} else {
						c.FailX(Oblig{Rule: rule, Func: FuncName(fn), Construct: "role list is decoded afresh", Pos: c.P.InstrPos(call), Kind: "violation",
							Detail:   "the role list the check searches can be an object that outlives the call (" + why + "): a list remembered on the handler is shared with whoever read it before — a later set-role on another account or token adds roles to it that this account never received",
							Expected: "a list allocated and decoded from the account's stored bytes in this call"})
					}
				}
			}
		}
		if listOK == "" {
			c.FailX(Oblig{Rule: rule, Func: FuncName(fn), Construct: "role list source", Pos: c.P.Pos(fn.Pos()), Kind: "violation",
				Detail: "the role list is not read from the given account under ELRONDroleesdt ‖ given token", Expected: "getRoles(account, append(rolePrefix, tokenID...))"})
		} else {
			c.OK(rule, FuncName(fn), "role list source", c.P.Pos(fn.Pos()), listOK)
		}
		for _, r := range returnsOf(fn) {
			if !isSuccessReturn(r) {
				continue
			}
			pred := func(f Fact) bool {
				if f.Lin || !f.Pos || !strings.HasPrefix(f.Atom, "eq(") {
					return false
				}
				return strings.Contains(f.Atom, action) && strings.Contains(f.Atom, listTerm+".Roles")
			}
			construct := "return nil @b" + fmt.Sprint(r.Block().Index)
			if fs, ok := e.CutAt(r, pred, nil); ok {
				c.OK(rule, FuncName(fn), construct, c.P.InstrPos(r), "cut by "+fs[0].String())
			} else {
				c.FailX(Oblig{Rule: rule, Func: FuncName(fn), Construct: construct, Pos: c.P.InstrPos(r), Kind: "violation",
					Detail: "the role handler can return success without having found the requested action in the account's role list",
					Path:   pathAvoidingPred(e, r.Block(), pred), Expected: "return nil only under bytes.Equal(role, action) for a role of the list"})
			}
		}
	}
}

// freshResult: every value fn returns at result position idx is nil or an object allocated below fn in that call.
func freshResult(p *Prog, fn *ssa.Function, idx, depth int) (bool, string) {
	if fn == nil || len(fn.Blocks) == 0 || depth > 3 {
		return false, "a result that cannot be followed"
	}
	var judge func(v ssa.Value, seen map[ssa.Value]bool) (bool, string)
	judge = func(v ssa.Value, seen map[ssa.Value]bool) (bool, string) {
		if seen[v] {
			return true, ""
		}
		seen[v] = true
		switch x := v.(type) {
		case *ssa.Const:
			return x.Value == nil, "a constant"
		case *ssa.Alloc:
			return true, ""
		case *ssa.Phi:
			for _, ed := range x.Edges {
				if ok, why := judge(ed, seen); !ok {
					return false, why
				}
			}
			return true, ""
		case *ssa.ChangeType:
			return judge(x.X, seen)
		case *ssa.Call:
			if sc := x.Call.StaticCallee(); sc != nil && sc.Pkg != nil && strings.HasPrefix(sc.Pkg.Pkg.Path(), modPath) && x.Call.Signature().Results().Len() == 1 {
				return freshResult(p, sc, 0, depth+1)
			}
		case *ssa.Extract:
			if call, ok := x.Tuple.(*ssa.Call); ok {
				if sc := call.Call.StaticCallee(); sc != nil && sc.Pkg != nil && strings.HasPrefix(sc.Pkg.Pkg.Path(), modPath) {
					return freshResult(p, sc, x.Index, depth+1)
				}
			}
		case *ssa.UnOp:
			if x.Op == token.MUL {
				if f := forwarded(x); f != nil {
					return judge(f, seen)
				}
				return false, "loaded from " + p.Env(fn).Term(x.X) + " at " + p.InstrPos(x)
			}
		}
		return false, p.Env(fn).Term(v) + " in " + fn.Name()
	}
	for _, r := range returnsOf(fn) {
		if idx >= len(r.Results) {
			return false, "result shape"
		}
		if ok, why := judge(retval(r, idx), map[ssa.Value]bool{}); !ok {
			return false, why
		}
	}
	return true, ""
}

func pathAvoidingPred(e *Env, target *ssa.BasicBlock, pred func(Fact) bool) []string {
	cut := map[edge]bool{}
	for ed, fs := range e.EdgeFacts() {
		for _, f := range fs {
			if sat(pred, f) {
				cut[ed] = true
			}
		}
	}
	return pathAvoiding(e.Fn.Blocks[0], target, cut)
}

// ---------------------------------------------------------------- R3 / R4 system contract and absent-sender guards

func eqPred(a, b string) func(Fact) bool {
	atom := eqAtom(a, b)
	return func(f Fact) bool { return !f.Lin && f.Pos && f.Atom == atom }
}

func nilPred(t string) func(Fact) bool {
	atom := nilAtom(t)
	return func(f Fact) bool { return !f.Lin && f.Pos && f.Atom == atom }
}

func orPred(ps ...func(Fact) bool) func(Fact) bool {
	return func(f Fact) bool {
		for _, p := range ps {
			if p(f) {
				return true
			}
		}
		return false
	}
}

func c03r3(c *Ctx) {
	const rule = "C03-R3"
	c.Rule(rule, "system-only functions: every effect cut by caller == ESDTSCAddress; hand-over: cut by absent sender account", 8)
	c.Rule("C03-R4", "destination-side credit paths of the NFT and multi transfer are cut by `sender account absent`", 8)
	regs := c.P.RegByName()
	if c.P.Obj("", "ESDTSCAddress") == nil {
		c.Anchor(rule, "vmcommon.ESDTSCAddress")
		return
	}
	for _, sp := range loadRegSpec() {
		r, ok := regs[sp.Name]
		if !ok || r.Entry == nil {
			if sp.Authority.Kind == "system" || sp.Authority.Kind == "handover" {
				c.Anchor(rule, "registration of "+sp.Name+" in the factory")
			}
			continue
		}
		x, ok := entryContext(r.Entry)
		if !ok {
			c.Anchor(rule, "parameters of "+FuncName(r.Entry))
			continue
		}
		switch {
		case sp.Authority.Kind == "system":
			checkEffectsCut(c, rule, sp.Name, r.Entry, eqPred(x.caller, esdtSCAddrTerm), nil, "the guard CallerAddr == ESDTSCAddress", nil)
		case sp.Authority.Kind == "handover":
			checkEffectsCut(c, rule, sp.Name, r.Entry, nilPred(x.snd), nil, "the guard `sender account is absent` (the hand-over runs only as a system-contract call or as the message it triggers)", nil)
			// the part executed for the current owner (everything that zeroes the counter, removes the role, ships the message):
			// cut by caller == ESDTSCAddress or by its negation (the next-owner part) — the latter only ever adds.
		case sp.Supply == "transfer" && sp.Name != "ESDTTransfer":
			// R4: destination-side credit (caller != recipient) refuses to run when the sender account is local
			checkEffectsCut(c, "C03-R4", sp.Name, r.Entry, orPred(eqPred(x.caller, x.rcpt), nilPred(x.snd)), nil,
				"either CallerAddr == RecipientAddr (sender-side execution) or the guard `sender account is absent`", nil)
		}
	}
}

// ---------------------------------------------------------------- R5 owner / DNS

func c03r5(c *Ctx) {
	const rule = "C03-R5"
	c.Rule(rule, "owner-only and DNS-only functions: every effect cut by caller == owner(destination) resp. caller ∈ DNS set", 3)
	regs := c.P.RegByName()
	for _, sp := range loadRegSpec() {
		if sp.Authority.Kind != "owner" && sp.Authority.Kind != "dns" {
			continue
		}
		r, ok := regs[sp.Name]
		if !ok || r.Entry == nil {
			c.Anchor(rule, "registration of "+sp.Name+" in the factory")
			continue
		}
		x, ok := entryContext(r.Entry)
		if !ok {
			c.Anchor(rule, "parameters of "+FuncName(r.Entry))
			continue
		}
		if sp.Authority.Kind == "owner" {
			owner := "UserAccountHandler.GetOwnerAddress(" + x.dst + ",)"
			checkEffectsCut(c, rule, sp.Name, r.Entry, eqPred(x.caller, owner), nil, "the guard CallerAddr == destination.GetOwnerAddress()", nil)
			continue
		}
		// DNS: membership of string(CallerAddr) in a map held by the receiver
		recv := "P:" + paramName(r.Entry.Params[0])
		var mapField string
		pred := func(f Fact) bool {
			if f.Lin || !f.Pos || !strings.HasPrefix(f.Atom, "cond:lookup(*"+recv+".") || !strings.HasSuffix(f.Atom, ","+x.caller+")#1") {
				return false
			}
			mapField = strings.TrimSuffix(strings.TrimPrefix(f.Atom, "cond:lookup(*"+recv+"."), ","+x.caller+")#1")
			return true
		}
		checkEffectsCut(c, rule, sp.Name, r.Entry, pred, nil, "the guard `string(CallerAddr) is a key of the receiver's DNS-address map`", nil)
		if mapField == "" {
			continue
		}
		// the set is written only while the object is constructed
		bad := ""
		for _, fn := range c.P.Funcs {
			if !c.P.InPkgs(fn, "builtInFunctions") || fn == r.Ctor {
				continue
			}
			for _, b := range fn.Blocks {
				for _, in := range b.Instrs {
					switch in := in.(type) {
					case *ssa.Store:
						if fa, ok := in.Addr.(*ssa.FieldAddr); ok && fieldName(fa.X.Type(), fa.Field) == mapField && types.Identical(fa.X.Type(), r.Type) {
							bad = "field " + mapField + " stored in " + FuncName(fn) + " at " + c.P.InstrPos(in)
						}
					case *ssa.MapUpdate:
						if strings.HasSuffix(c.P.Env(fn).Term(in.Map), "."+mapField) {
							bad = "DNS set updated in " + FuncName(fn) + " at " + c.P.InstrPos(in)
						}
					}
				}
			}
		}
		// the constructor must fill its own copy, not keep the caller's map
		if r.Ctor != nil {
			for _, b := range r.Ctor.Blocks {
				for _, in := range b.Instrs {
					if st, ok := in.(*ssa.Store); ok {
						if fa, ok := st.Addr.(*ssa.FieldAddr); ok && fieldName(fa.X.Type(), fa.Field) == mapField {
							if _, isMake := st.Val.(*ssa.MakeMap); !isMake {
								bad = "constructor keeps a caller-owned map in " + mapField + " (" + c.P.InstrPos(st) + "): the caller can extend the DNS set later"
							}
						}
					}
				}
			}
		}
		if bad == "" {
			c.OK(rule, FuncName(r.Entry), sp.Name+": DNS set is written only in the constructor, into a fresh map", c.P.Pos(r.Entry.Pos()), "no store/update of ."+mapField+" outside "+r.Ctor.Name())
		} else {
			c.FailX(Oblig{Rule: rule, Func: FuncName(r.Entry), Construct: sp.Name + ": DNS set is written only in the constructor, into a fresh map", Pos: c.P.Pos(r.Entry.Pos()), Kind: "violation", Detail: bad})
		}
	}
}
