package main

// C03-R6 (the user-key writer refuses the protocol's key space), C03-R7 (revocation removes what it was asked to),
// C04-R5 (who may write the frozen flag).

import (
	"fmt"
	"go/token"
	"go/types"
	"sort"
	"strings"

	"golang.org/x/tools/go/ssa"
)

func c03r6(c *Ctx) {
	const rule = "C03-R6"
	c.Rule(rule, "SaveKeyValue cannot reach role lists or frozen flags: its write is cut by the protected-prefix test on the very key written and by the self-call guard", 2)
	r, ok := c.P.RegByName()["SaveKeyValue"]
	if !ok || r.Entry == nil {
		c.Anchor(rule, "registration of SaveKeyValue")
		return
	}
	x, _ := entryContext(r.Entry)
	sites := c.P.EffectSites(r.Entry, "save", isBalanceSave(c.P))
	if len(sites) == 0 {
		c.Anchor(rule, "the storage write of the SaveKeyValue function")
	}
	for i, s := range sites {
		call := s.In.(ssa.CallInstruction)
		key := s.Env.Term(call.Common().Args[0])
		tag := fmt.Sprintf("write #%d SaveKeyValue(%s, …)", i+1, key)
		pos := c.P.InstrPos(s.In)
		fnn := FuncName(s.In.Parent())
		check := func(what string, pred func(Fact) bool, expected string) {
			if fs, where, ok := s.CutInContext(pred, nil); ok {
				c.OK(rule, fnn, tag+" ["+what+"]", pos, "cut in "+where+" by "+fs[0].String())
			} else {
				c.FailX(Oblig{Rule: rule, Func: fnn, Construct: tag + " [" + what + "]", Pos: pos, Kind: "violation",
					Detail: "a user can write under a key without " + expected + ": role lists (ELRONDroleesdt…) and balance entries with their frozen flag (ELRONDesdt…) can be rewritten without the ESDT system contract", Path: s.witnessPath(pred), Expected: expected})
			}
		}
		check("protected prefix", func(f Fact) bool {
			return !f.Lin && f.Pos && f.Atom == "call:vmcommon.IsAllowedToSaveUnderKey("+key+")"
		}, "IsAllowedToSaveUnderKey(<the key written>) == true")
		check("self call", eqPred(x.caller, x.rcpt), "CallerAddr == RecipientAddr")
	}
}

// forwardInduction: v is the induction value of a forward loop that is incremented unconditionally: v == P or v == P + k
// for a φ P with an incoming edge P + k, k > 0. Returns the φ.
func forwardInduction(v ssa.Value) *ssa.Phi {
	for i := 0; i < 4; i++ {
		switch x := v.(type) {
		case *ssa.Convert:
			v = x.X
			continue
		case *ssa.ChangeType:
			v = x.X
			continue
		}
		break
	}
	isInc := func(e ssa.Value, p *ssa.Phi) bool {
		bo, ok := e.(*ssa.BinOp)
		if !ok || bo.Op != token.ADD {
			return false
		}
		if k, ok := constInt(bo.Y); ok && k > 0 && bo.X == ssa.Value(p) {
			return true
		}
		if k, ok := constInt(bo.X); ok && k > 0 && bo.Y == ssa.Value(p) {
			return true
		}
		return false
	}
	if p, ok := v.(*ssa.Phi); ok {
		for _, e := range p.Edges {
			if isInc(e, p) {
				return p
			}
		}
	}
	if bo, ok := v.(*ssa.BinOp); ok && bo.Op == token.ADD {
		for _, side := range []ssa.Value{bo.X, bo.Y} {
			if p, ok := side.(*ssa.Phi); ok && isInc(bo, p) {
				for _, e := range p.Edges {
					if e == ssa.Value(bo) {
						return p // range form: t = φ[-1, t'] ; t' = t + 1 ; body uses t'
					}
				}
			}
		}
	}
	return nil
}

func c03r7(c *Ctx) {
	const rule = "C03-R7"
	c.Rule(rule, "a list is not shrunk at the induction index of a forward loop that keeps iterating over it", 1)
	n := 0
	for _, fn := range c.P.Funcs {
		if !c.P.InPkgs(fn, "builtInFunctions") {
			continue
		}
		e := c.P.Env(fn)
		for _, b := range fn.Blocks {
			for _, in := range b.Instrs {
				call, ok := in.(*ssa.Call)
				if !ok {
					continue
				}
				bi, ok := call.Call.Value.(*ssa.Builtin)
				if !ok || bi.Name() != "copy" {
					continue
				}
				dst, ok1 := call.Call.Args[0].(*ssa.Slice)
				src, ok2 := call.Call.Args[1].(*ssa.Slice)
				if !ok1 || !ok2 || dst.Low == nil || src.Low == nil {
					continue
				}
				// the shift `copy(x[i:], x[i+1:])` of a removal
				if e.Term(dst.X) != e.Term(src.X) || e.LE(src.Low).minus(e.LE(dst.Low)).String() != "1" {
					continue
				}
				n++
				list := e.Term(dst.X)
				construct := "removal copy(" + list + "[i:], " + list + "[i+1:]) with i = " + e.Term(dst.Low)
				phi := forwardInduction(dst.Low)
				if phi == nil {
					c.OK(rule, FuncName(fn), construct, c.P.InstrPos(call), "the index is the result of a search of the list, not the counter of a loop over it")
					continue
				}
				// does the loop go on after the removal?
				goesOn := false
				if len(phi.Block().Instrs) > 0 && instrReaches(fn, call, phi.Block().Instrs[0], nil) {
					goesOn = true
				}
				if !goesOn {
					c.OK(rule, FuncName(fn), construct, c.P.InstrPos(call), "the loop is left after the removal")
					continue
				}
				c.FailX(Oblig{Rule: rule, Func: FuncName(fn), Construct: construct, Pos: c.P.InstrPos(call), Kind: "violation",
					Detail:   "the list is shrunk at the loop's own index and the loop continues with index+1: the element that slides into the freed slot is never examined, so of two adjacent roles to revoke the second survives and still authorises",
					Expected: "search the (current) list for each role to remove, or step back / iterate backwards after a removal"})
			}
		}
	}
	if n == 0 {
		c.Anchor(rule, "the shift of a list removal (copy(x[i:], x[i+1:])) in builtInFunctions")
	}
}

func c04r5(c *Ctx) {
	const rule = "C04-R5"
	c.Rule(rule, "the frozen flag of a stored entry is written only below ESDTFreeze / ESDTUnFreeze / ESDTWipe", 1)
	allowed := map[string]bool{"ESDTFreeze": true, "ESDTUnFreeze": true, "ESDTWipe": true}
	reach := map[string]map[*ssa.Function]bool{}
	for _, r := range c.P.Registrations() {
		if r.Entry != nil {
			reach[r.Key] = c.P.ReachableFrom([]*ssa.Function{r.Entry})
		}
	}
	n := 0
	for _, fn := range c.P.Funcs {
		if !c.P.InPkgs(fn, "builtInFunctions") {
			continue
		}
		e := c.P.Env(fn)
		for _, b := range fn.Blocks {
			for _, in := range b.Instrs {
				st, ok := in.(*ssa.Store)
				if !ok {
					continue
				}
				fa, ok := st.Addr.(*ssa.FieldAddr)
				if !ok || !isFieldOf(fa, "esdt.ESDigitalToken", "Properties") {
					continue
				}
				if _, fresh := fa.X.(*ssa.Alloc); fresh {
					continue // field of an entry being built
				}
				n++
				var others []string
				for k, m := range reach {
					if m[fn] && !allowed[k] {
						others = append(others, k)
					}
				}
				sort.Strings(others)
				construct := "store " + e.Term(fa) + " = " + e.Term(st.Val) + " in " + fn.Name()
				if len(others) == 0 {
					c.OK(rule, FuncName(fn), construct, c.P.InstrPos(st), "reached only from the freeze / unfreeze / wipe entry points")
				} else {
					c.FailX(Oblig{Rule: rule, Func: FuncName(fn), Construct: construct, Pos: c.P.InstrPos(st), Kind: "violation",
						Detail:   "the frozen flag of an entry is rewritten below " + strings.Join(others, ", ") + ": the gate that follows tests a flag that was just overwritten, and the stored flag is lost",
						Expected: "Properties is assigned only by the freeze toggle"})
				}
			}
		}
	}
	if n == 0 {
		c.Anchor(rule, "the store of ESDigitalToken.Properties by the freeze toggle")
	}
	// what is stored, judged in the calling context of the freeze entry point: the flag encoder's bytes with Frozen := the
	// function object's own freeze flag — a constant of the registration, independent of what the entry said before (a toggle
	// would un-freeze on a repeated freeze)
	if r, ok := c.P.RegByName()["ESDTFreeze"]; ok && r.Entry != nil {
		isPropStore := func(in ssa.Instruction) (string, bool) {
			if st, ok := in.(*ssa.Store); ok {
				if fa, ok := st.Addr.(*ssa.FieldAddr); ok && isFieldOf(fa, "esdt.ESDigitalToken", "Properties") {
					if _, fresh := fa.X.(*ssa.Alloc); !fresh {
						return "Properties", true
					}
				}
			}
			return "", false
		}
		nv := 0
		for _, s := range c.P.EffectSites(r.Entry, "propstore", isPropStore) {
			st := s.In.(*ssa.Store)
			nv++
			construct := "store " + s.Env.Term(st.Addr) + " [value] in " + s.Chain()
			if why, ok := frozenSetFromOwnFlag(c, s.Env, st, r); ok {
				c.OK(rule, FuncName(st.Parent()), construct, c.P.InstrPos(st), why)
			} else {
				c.FailX(Oblig{Rule: rule, Func: FuncName(st.Parent()), Construct: construct, Pos: c.P.InstrPos(st), Kind: "violation",
					Detail:   "the frozen flag that is stored is not the freeze function's own constant: " + why + " — a repeated freeze can leave the account un-frozen, an un-freeze can freeze it",
					Expected: "Properties = encode(flags with Frozen := the flag the function was registered with)"})
			}
		}
		if nv == 0 {
			c.Anchor(rule, "a store of Properties below ESDTFreeze")
		}
	}
}

// frozenSetFromOwnFlag: the value stored into Properties is the result of the flag encoder (a function that allocates bytes
// and ORs masks in) called on a local flags object whose Frozen field is assigned, on the way, a boolean field of the
// executing function object — the field that the constructor fills from the argument which is true for ESDTFreeze and false
// for ESDTUnFreeze in the factory.
func frozenSetFromOwnFlag(c *Ctx, e *Env, st *ssa.Store, entryReg Registration) (string, bool) {
	call, ok := st.Val.(*ssa.Call)
	if !ok || !writesFlagBytes(c.P, call.Call.StaticCallee(), 0) || len(call.Call.Args) == 0 {
		return "the stored bytes are not produced by the flag encoder (" + e.Term(st.Val) + ")", false
	}
	obj, ok := call.Call.Args[0].(*ssa.Alloc)
	if !ok || obj.Referrers() == nil {
		return "the encoder is not applied to a local flags object", false
	}
	// the field of the receiver that holds the freeze flag
	regs := c.P.RegByName()
	fr, okF := regs["ESDTFreeze"]
	un, okU := regs["ESDTUnFreeze"]
	if !okF || !okU || fr.Ctor == nil || fr.Ctor != un.Ctor {
		return "registrations of ESDTFreeze / ESDTUnFreeze not resolved", false
	}
	stores, _ := ctorStores(c.P, fr)
	flagField := ""
	for i, t := range fr.ArgTerms {
		if i < len(un.ArgTerms) && t == "true" && un.ArgTerms[i] == "false" && stores[i] != "" {
			flagField = stores[i]
		}
	}
	if flagField == "" {
		return "no constructor argument is true for ESDTFreeze and false for ESDTUnFreeze", false
	}
	want := "*P:" + paramName(entryReg.Entry.Params[0]) + "." + flagField
	n := 0
	for _, ref := range *obj.Referrers() {
		fa, ok := ref.(*ssa.FieldAddr)
		if !ok || fieldName(fa.X.Type(), fa.Field) != "Frozen" || fa.Referrers() == nil {
			continue
		}
		for _, r2 := range *fa.Referrers() {
			fs, ok := r2.(*ssa.Store)
			if !ok || fs.Addr != ssa.Value(fa) {
				continue
			}
			n++
			if got := e.Term(fs.Val); got != want {
				return "Frozen is set to " + got + ", not to " + want, false
			}
			if !fs.Block().Dominates(call.Block()) || fs.Block() == call.Block() && indexIn(fs) > indexIn(call) {
				return "the assignment of Frozen does not precede the encoding on every path", false
			}
			// the decoded flags are loaded before the assignment, not after it
			for _, ref3 := range *obj.Referrers() {
				if ws, ok := ref3.(*ssa.Store); ok && ws.Addr == ssa.Value(obj) && instrReaches(st.Parent(), fs, ws, map[ssa.Instruction]bool{call: true}) {
					return "the flags object is overwritten as a whole after Frozen was assigned", false
				}
			}
		}
	}
	if n == 0 {
		return "the Frozen field of the encoded flags is never assigned", false
	}
	return "Frozen := " + want + " (true for ESDTFreeze, false for ESDTUnFreeze in the factory), then encoded", true
}

// c03r8: "roles … change only through calls whose caller is the system contract" — and they do change then: a role list
// that was marshalled for storage is written on every successful path (a writer that skips the write for a list that
// serialises to nothing leaves the revoked roles in storage: with the production encoder the empty list is zero bytes).
func c03r8(c *Ctx) {
	const rule = "C03-R8"
	c.Rule(rule, "a role list marshalled for storage is written on every successful path (a revocation that empties the list is persisted)", 1)
	n := 0
	for _, fn := range c.P.Funcs {
		if !c.P.InPkgs(fn, "builtInFunctions") || len(fn.Blocks) == 0 {
			continue
		}
		for _, b := range fn.Blocks {
			for _, in := range b.Instrs {
				call, ok := in.(*ssa.Call)
				if !ok || InvokeName(call) != "Marshalizer.Marshal" {
					continue
				}
				mi, ok := call.Call.Args[0].(*ssa.MakeInterface)
				if !ok || !strings.HasSuffix(mi.X.Type().String(), "esdt.ESDTRoles") {
					continue
				}
				n++
				// the writes of the marshalled bytes
				bar := map[ssa.Instruction]bool{}
				for _, b2 := range fn.Blocks {
					for _, in2 := range b2.Instrs {
						ci, ok := in2.(ssa.CallInstruction)
						if !ok || InvokeName(ci) != "AccountDataHandler.SaveKeyValue" {
							continue
						}
						if ex, ok := ci.Common().Args[1].(*ssa.Extract); ok && ex.Tuple == ssa.Value(call) && ex.Index == 0 {
							bar[in2] = true
						}
					}
				}
				construct := fn.Name() + ": Marshal(" + c.P.Env(fn).Term(mi.X) + ") is followed by its SaveKeyValue"
				escaped := ""
				for _, r := range returnsOf(fn) {
					if lastIsError(fn) && !isSuccessReturn(r) {
						continue
					}
					if reachesAvoiding(fn, call, r, bar, nil) {
						escaped = c.P.InstrPos(r)
					}
				}
				if len(bar) > 0 && escaped == "" {
					c.OK(rule, FuncName(fn), construct, c.P.InstrPos(call), "every successful path from the encoding passes the write of the encoded list")
				} else {
					c.FailX(Oblig{Rule: rule, Func: FuncName(fn), Construct: construct, Pos: c.P.InstrPos(call), Kind: "violation",
						Detail:   "the function can return success (" + escaped + ") after encoding the role list without writing it: the list in storage stays what it was — roles the system contract revoked (or handed over) keep working",
						Expected: "SaveKeyValue(roleKey, encoded list) on every successful path, whatever the encoded length"})
				}
			}
		}
	}
	if n == 0 {
		c.Anchor(rule, "an encoding of a role list for storage")
	}
}

// c03r9: positions looked up in a role list are used before anything is removed from it. A removal inside a loop at a
// position that was collected in an earlier pass (a list of indexes filled before the loop) hits the wrong element as
// soon as an earlier turn has shortened the list: a revoked role stays and an unrelated one is dropped.
func c03r9(c *Ctx) {
	const rule = "C03-R9"
	c.Rule(rule, "a role is not removed at a position that was computed before an earlier removal of the same pass", 1)
	n := 0
	for _, fn := range c.P.Funcs {
		if !c.P.InPkgs(fn, "builtInFunctions") || len(fn.Blocks) == 0 {
			continue
		}
		for _, b := range fn.Blocks {
			for _, in := range b.Instrs {
				st, ok := in.(*ssa.Store)
				if !ok {
					continue
				}
				fa, ok := st.Addr.(*ssa.FieldAddr)
				if !ok || fieldName(fa.X.Type(), fa.Field) != "Roles" {
					continue
				}
				// a removal: the stored list is computed from the list itself and an index (re-slice, or a remover helper)
				var idx ssa.Value
				switch v := st.Val.(type) {
				case *ssa.Call:
					if sc := v.Call.StaticCallee(); sc != nil && len(sc.Blocks) > 0 && c.P.InPkgs(sc, "builtInFunctions") {
						for _, a := range v.Call.Args {
							if isInteger(a.Type()) {
								idx = a
							}
						}
					} else if bi, ok := v.Call.Value.(*ssa.Builtin); ok && bi.Name() == "append" {
						if sl, ok := v.Call.Args[0].(*ssa.Slice); ok && sl.High != nil {
							idx = sl.High
						}
					}
				}
				if idx == nil {
					continue
				}
				// inside a loop?
				inLoop := blockReaches2(st.Block(), st.Block())
				if !inLoop {
					continue
				}
				n++
				construct := fn.Name() + ": removal from .Roles at " + c.P.Env(fn).Term(idx)
				// where the index comes from: an element of a local list of positions that the loop does not write
				stale := ""
				if ld, ok := idx.(*ssa.UnOp); ok && ld.Op == token.MUL {
					if ia, ok := ld.X.(*ssa.IndexAddr); ok {
						if _, isInt := ia.X.Type().Underlying().(*types.Slice); isInt {
							stale = "the position is read from the list " + c.P.Env(fn).Term(ia.X) + " that was filled before the removals began"
						}
					}
				}
				if ex, ok := idx.(*ssa.Extract); ok {
					if nx, ok := ex.Tuple.(*ssa.Next); ok && !nx.IsString {
						stale = "the position is an element of a list of positions ranged over while removing"
					}
				}
				if stale == "" {
					c.OK(rule, FuncName(fn), construct, c.P.InstrPos(st), "the position is computed in the same turn as the removal")
				} else {
					c.FailX(Oblig{Rule: rule, Func: FuncName(fn), Construct: construct, Pos: c.P.InstrPos(st), Kind: "violation",
						Detail:   stale + ": after the first removal every later position is one too far — a role the system contract revoked stays in the list, and a role it did not name is dropped",
						Expected: "look the role up again after each removal (or remove from the back)"})
				}
			}
		}
	}
	if n == 0 {
		c.Triv(rule, "-", "no removal from a role list inside a loop at a precomputed position", "-", "nothing to judge")
	}
}

// blockReaches2: to is reachable from one of from's successors.
func blockReaches2(from, to *ssa.BasicBlock) bool {
	for _, s := range from.Succs {
		if s == to || blockReaches(s, to, nil) {
			return true
		}
	}
	return false
}
