package main

// C04 — frozen accounts and paused tokens cannot move funds.

import (
	"fmt"
	"go/token"
	"go/types"
	"os"
	"sort"
	"strings"

	"golang.org/x/tools/go/ssa"
)

func init() {
	register(&Property{
		ID:    "C04",
		Level: "other",
		Explanation: "R1: for every registered entry point, every SaveKeyValue whose key has the balance shape ELRONDesdt‖token[‖nonce] (decided by key provenance) — in every calling context — is cut by the success edge of the " +
			"freeze/pause gate called with the address of the very account being written, the token-level key ELRONDesdt‖<same token>, the type's own pause handler and the input's ReturnCallAfterError flag; the only exemptions are " +
			"the entry points registered as ESDTWipe/ESDTFreeze/ESDTUnFreeze/ESDTPause/ESDTUnPause (the property's own list). R2: the gate (discovered by role: the error-returning function that queries IsPaused) succeeds only under " +
			"return-after-error, address == ESDTSCAddress, or Frozen == false ∧ IsPaused(key) == false. R3: IsPaused and the pause toggle use the account loaded from SystemAccountAddress and the caller's key unchanged; the factory hands " +
			"the same pause object over its own accounts adapter to every constructor that takes a pause handler. R4: freeze toggling does not touch Value. R5: the frozen flag of a stored entry (ESDigitalToken.Properties) is written only below ESDTFreeze / ESDTUnFreeze / ESDTWipe: no other function can clear it on the entry the gate is about to test. Does NOT decide: histories of freeze/pause as observed behaviour.",
		Trusted: []string{"T-EXEMPT: the five protocol names exempted by the property statement", "A-presence: acntSnd/acntDst are the accounts at CallerAddr/RecipientAddr; LoadAccount(a) is the account at a", "flag byte tables: C20"},
		Rules:   []func(*Ctx){c04r1, c04r2, c04r3, c04r4, c04r5},
	})
}

var gateExempt = map[string]bool{"ESDTWipe": true, "ESDTFreeze": true, "ESDTUnFreeze": true, "ESDTPause": true, "ESDTUnPause": true}

// findGate: module functions returning error that query ESDTPauseHandler.IsPaused on a parameter.
func findGates(p *Prog) []*ssa.Function {
	var out []*ssa.Function
	for _, fn := range p.Funcs {
		if !p.InPkgs(fn, "builtInFunctions") || !lastIsError(fn) {
			continue
		}
		for _, b := range fn.Blocks {
			for _, in := range b.Instrs {
				if c, ok := in.(ssa.CallInstruction); ok && InvokeName(c) == "ESDTPauseHandler.IsPaused" {
					if _, isPar := c.Common().Value.(*ssa.Parameter); isPar {
						out = append(out, fn)
					}
				}
			}
		}
	}
	return out
}

type gateParams struct{ addr, key, data, pause, flag int }

func gateParamIdx(fn *ssa.Function) (gateParams, bool) {
	g := gateParams{-1, -1, -1, -1, -1}
	nbytes := 0
	for i, p := range fn.Params {
		ts := p.Type().String()
		switch {
		case ts == "[]byte":
			if nbytes == 0 {
				g.addr = i
			} else if nbytes == 1 {
				g.key = i
			}
			nbytes++
		case strings.HasSuffix(ts, "esdt.ESDigitalToken"):
			g.data = i
		case strings.HasSuffix(ts, ".ESDTPauseHandler"):
			g.pause = i
		case ts == "bool":
			g.flag = i
		}
	}
	// which []byte is the key: the one handed to IsPaused
	for _, b := range fn.Blocks {
		for _, in := range b.Instrs {
			if c, ok := in.(ssa.CallInstruction); ok && InvokeName(c) == "ESDTPauseHandler.IsPaused" {
				for i, p := range fn.Params {
					if c.Common().Args[0] == ssa.Value(p) && i != g.key && p.Type().String() == "[]byte" {
						g.addr, g.key = g.key, i
					}
				}
			}
		}
	}
	return g, g.addr >= 0 && g.key >= 0 && g.pause >= 0 && g.flag >= 0
}

// addressesOf: the terms that denote the address of an account with the given origins (A-presence).
func addressesOf(x entryCtx, origins []string, acctTerm string) map[string]bool {
	m := map[string]bool{"UserAccountHandler.AddressBytes(" + acctTerm + ",)": true}
	for _, o := range origins {
		switch {
		case o == "param:"+x.snd:
			m[x.caller] = true
			m["UserAccountHandler.AddressBytes("+x.snd+",)"] = true
		case o == "param:"+x.dst:
			m[x.rcpt] = true
			m["UserAccountHandler.AddressBytes("+x.dst+",)"] = true
		case strings.HasPrefix(o, "load("):
			m[strings.TrimSuffix(strings.TrimPrefix(o, "load("), ")")] = true
		}
	}
	return m
}

func balancePrefix(p *Prog) string {
	a, _ := p.ConstString("", "ElrondProtectedKeyPrefix")
	b, _ := p.ConstString("", "ESDTKeyIdentifier")
	return a + b
}

func c04r1(c *Ctx) {
	const rule = "C04-R1"
	c.Rule(rule, "every balance write below a non-exempt entry point is cut by the freeze/pause gate bound to the written account, token key, own pause handler and the return-after-error flag", 25)
	c.Axiom("A-presence")
	bal := balancePrefix(c.P)
	isSave := func(in ssa.Instruction) (string, bool) {
		if ci, ok := in.(ssa.CallInstruction); ok && InvokeName(ci) == "AccountDataHandler.SaveKeyValue" {
			return "SaveKeyValue", true
		}
		return "", false
	}
	regs := c.P.Registrations()
	if len(regs) < 20 {
		c.Anchor(rule, fmt.Sprintf("factory registrations (found %d)", len(regs)))
	}
	nbal := 0
	for _, r := range regs {
		if r.Entry == nil {
			c.Anchor(rule, "entry point of "+r.Key)
			continue
		}
		x, ok := entryContext(r.Entry)
		if !ok {
			c.Anchor(rule, "parameters of "+FuncName(r.Entry))
			continue
		}
		recv := "P:" + paramName(r.Entry.Params[0])
		seen := map[string]int{}
		for _, s := range c.P.EffectSites(r.Entry, "save", isSave) {
			call := s.In.(ssa.CallInstruction)
			ks := keyShape(s.Env, call.Common().Args[0], 0)
			keyTerm := s.Env.Term(call.Common().Args[0])
			construct := r.Key + ": SaveKeyValue(" + ks.String() + ") in " + s.Chain()
			if ks == nil {
				construct = r.Key + ": SaveKeyValue(" + keyTerm + ") in " + s.Chain()
			}
			seen[construct]++
			if k := seen[construct]; k > 1 {
				construct += fmt.Sprintf(" #%d", k)
			}
			pos := c.P.InstrPos(s.In)
			if ks == nil {
				// a key that is an element of the call's arguments is a user key (SaveKeyValue function): C05's business
				if strings.HasPrefix(keyTerm, "**"+x.in+".VMInput.Arguments[") {
					continue
				}
				// a value that is neither a delete nor a marshalled token entry is not a balance (counter, role list, flag bytes): key layout is C05's business
				if v := call.Common().Args[1]; !isNilConst(v) {
					if obj := marshalledObject(v); obj == nil || !strings.HasSuffix(obj.Type().String(), "esdt.ESDigitalToken") {
						continue
					}
				}
				c.FailX(Oblig{Rule: rule, Func: FuncName(s.In.Parent()), Construct: construct, Pos: pos, Kind: "undecided",
					Detail: "the class of the storage key written here cannot be determined (not an append chain on a constant prefix)"})
				continue
			}
			if ks.Prefix != bal {
				continue // nonce / role class
			}
			nbal++
			if gateExempt[r.Key] {
				c.Triv(rule, FuncName(s.In.Parent()), construct, pos, "exempt by the property: "+r.Key+" (system-contract wipe / freeze / pause toggling)")
				continue
			}
			acct := writtenAccount(call)
			if acct == nil {
				c.FailX(Oblig{Rule: rule, Func: FuncName(s.In.Parent()), Construct: construct, Pos: pos, Kind: "undecided", Detail: "cannot identify the account whose storage is written"})
				continue
			}
			origins := accountOrigin(s.Env, acct, 0)
			addrs := addressesOf(x, origins, s.Env.Term(acct))
			token := ks.Parts[0]
			// The write must be cut — in its own function or at a call above it — by
			//   (return-after-error flag | the account is the system contract's | entry of that account not Frozen)   and by
			//   (return-after-error flag | the account is the system contract's | IsPaused(own handler, ELRONDesdt‖token) == false).
			// The facts may come from inlined tests, from the gate function (whose success returns are summarised as a
			// disjunction of what each guarantees) or from a wrapper around it: no function is recognised by name or shape.
			why := ""
			flagTerm := "*" + x.in + ".VMInput.ReturnCallAfterError"
			flagTrue := func(f Fact) bool { return !f.Lin && f.Pos && f.Atom == "cond:"+flagTerm }
			scAddr := func(f Fact) bool {
				if f.Lin || !f.Pos || !strings.HasPrefix(f.Atom, "eq(") {
					return false
				}
				for a := range addrs {
					if f.Atom == eqAtom(a, esdtSCAddrTerm) {
						return true
					}
				}
				if strings.Contains(f.Atom, esdtSCAddrTerm) && why == "" {
					why = "the system-contract exemption is tested on " + f.Atom + ", not on the address of the written account (" + strings.Join(origins, ",") + ")"
				}
				return false
			}
			// entries whose Frozen flag counts: the one read from the written account, or a fresh literal (nothing held yet)
			entryTerms := map[string]string{}
			for _, l := range levelsOf(s) {
				note := func(v ssa.Value) {
					if strings.HasSuffix(v.Type().String(), "esdt.ESDigitalToken") {
						entryTerms[l.env.Term(v)] = entryOrigin(l.env, v, 0)
					}
				}
				for _, par := range l.env.Fn.Params {
					note(par)
				}
				// … and inside helpers of that level that hand an entry back (a helper that reads the entry, runs the gate on
				// it and returns it: the gate's facts name the entry in the helper's terms)
				var inside func(he *Env, d int)
				inside = func(he *Env, d int) {
					for _, bb := range he.Fn.Blocks {
						for _, in := range bb.Instrs {
							if v, ok := in.(ssa.Value); ok && strings.HasSuffix(v.Type().String(), "esdt.ESDigitalToken") {
								entryTerms[he.Term(v)] = entryOrigin(he, v, 0)
							}
							call, ok := in.(*ssa.Call)
							if !ok || d >= 2 || he.depth >= maxDepth {
								continue
							}
							sc := call.Call.StaticCallee()
							if sc == nil || len(sc.Blocks) == 0 || PkgOf(sc) != "builtInFunctions" {
								continue
							}
							res := sc.Signature.Results()
							for i := 0; i < res.Len(); i++ {
								if strings.HasSuffix(res.At(i).Type().String(), "esdt.ESDigitalToken") {
									inside(he.Sub(call, sc), d+1)
									break
								}
							}
						}
					}
				}
				inside(l.env, 0)
			}
			acctT := s.Env.Term(acct)
			notFrozen := func(f Fact) bool {
				if f.Lin || f.Pos || !strings.HasPrefix(f.Atom, "cond:") || !strings.HasSuffix(f.Atom, ".Frozen") {
					return false
				}
				i := strings.Index(f.Atom, "(*")
				j := strings.Index(f.Atom, ".Properties")
				if i < 0 || j < i {
					return false
				}
				t := f.Atom[i+2 : j]
				org, known := entryTerms[t]
				if !known && f.Env != nil {
					// an entry named in the terms of a helper that has returned (the gate sits in a helper that reads the entry,
					// tests it and hands it back): its origin is decided where the helper obtained it
					for fe := f.Env; fe != nil && !known; fe = fe.Parent {
						for _, bb := range fe.Fn.Blocks {
							for _, in := range bb.Instrs {
								if v, ok := in.(ssa.Value); ok && !known && strings.HasSuffix(v.Type().String(), "esdt.ESDigitalToken") && fe.Term(v) == t {
									org, known = entryOrigin(fe, v, 0), true
								}
							}
						}
					}
				}
				if os.Getenv("VDEBUG") == "c04" {
					ch := "nil"
					if f.Env != nil {
						ch = ""
						for fe := f.Env; fe != nil; fe = fe.Parent {
							ch += fe.Fn.Name() + "<"
						}
					}
					fmt.Println("DEBUG c04 notFrozen atom", f.Atom, "t", t, "org", org, known, "acctT", acctT, "env", ch)
				}
				if known && (org == "literal" || org == "read:"+acctT) {
					return true
				}
				for a := range addrs { // the entry was read from an account denoted by one of the written account's other names
					if org == "read:"+strings.TrimSuffix(strings.TrimPrefix(a, "UserAccountHandler.AddressBytes("), ",)") {
						return true
					}
				}
				if why == "" {
					why = "the only gates on the way test the Frozen flag of an entry that is " + org + ", not the entry held by the written account"
				}
				return false
			}
			notPaused := func(f Fact) bool {
				if f.Lin || f.Pos || f.Call == nil || !strings.HasPrefix(f.Atom, "call:") || InvokeName(f.Call) != "ESDTPauseHandler.IsPaused" || f.Env == nil {
					return false
				}
				cc := f.Call.Common()
				if pt := f.Env.Term(cc.Value); !strings.HasPrefix(pt, "*"+recv+".") {
					why = "pause asked of " + pt + ", not a field of the executing function object"
					return false
				}
				gk := keyShape(f.Env, cc.Args[0], 0)
				if gk == nil || gk.Prefix != bal || len(gk.Parts) != 1 || gk.Parts[0] != token {
					if why == "" {
						why = "gate called with key " + gk.String() + ", not the token-level key \"" + bal + "\"‖" + token
					}
					return false
				}
				return true
			}
			predA := orPred(flagTrue, scAddr, notFrozen)
			predB := orPred(flagTrue, scAddr, notPaused)
			fa, whereA, okA := s.CutInContext(predA, nil)
			fb, whereB, okB := s.CutInContext(predB, nil)
			if okA && okB {
				c.OK(rule, FuncName(s.In.Parent()), construct, pos, "cut in "+whereA+" by "+fa[0].Key()+" and in "+whereB+" by "+fb[0].Key())
			} else {
				d := "balance write is reachable without passing the freeze/pause gate for the written account and token"
				switch {
				case !okA && !okB:
				case !okA:
					d += ": the Frozen flag of the account's entry is not tested on some path"
				default:
					d += ": IsPaused(token) is not asked on some path"
				}
				if why != "" {
					d += " (" + why + ")"
				}
				pw := predA
				if okA {
					pw = predB
				}
				c.FailX(Oblig{Rule: rule, Func: FuncName(s.In.Parent()), Construct: construct, Pos: pos, Kind: "violation", Detail: d, Path: s.witnessPath(pw),
					Expected: "on every path: ReturnCallAfterError, or address == ESDTSCAddress, or (entry of " + strings.Join(origins, "/") + " not Frozen and IsPaused(own handler, \"" + bal + "\"‖" + token + ") == false)"})
			}
		}
	}
	c.Count("balance-class write sites (with contexts)", nbal)
}

func c04r2(c *Ctx) {
	const rule = "C04-R2"
	c.Rule(rule, "the gate succeeds only under return-after-error, address == ESDTSCAddress, or not frozen and not paused", 3)
	ngates := 0
	defer func() {
		if ngates == 0 {
			c.Triv(rule, "-", "no separate gate function", "-", "the freeze / pause tests are inlined where the balance is written; R1 checks them there")
		}
	}()
	for _, g := range findGates(c.P) {
		idx, ok := gateParamIdx(g)
		if !ok || idx.data < 0 || reachesInvoke(c.P, g, "AccountDataHandler.SaveKeyValue", 0) {
			continue // not a pure gate (the tests are inlined into a function that also writes): R1 checks the tests where they are
		}
		ngates++
		e := c.P.Env(g)
		par := func(i int) string { return "P:" + paramName(g.Params[i]) }
		flagPred := func(f Fact) bool { return !f.Lin && f.Pos && f.Atom == "cond:"+par(idx.flag) }
		scPred := eqPred(par(idx.addr), esdtSCAddrTerm)
		frozenPred := func(f Fact) bool {
			return !f.Lin && !f.Pos && strings.HasPrefix(f.Atom, "cond:") && strings.HasSuffix(f.Atom, ".Frozen") && strings.Contains(f.Atom, "*"+par(idx.data)+".Properties")
		}
		pausedPred := func(f Fact) bool {
			return !f.Lin && !f.Pos && f.Atom == "call:ESDTPauseHandler.IsPaused("+par(idx.pause)+","+par(idx.key)+")"
		}
		for _, r := range returnsOf(g) {
			if !isSuccessReturn(r) {
				continue
			}
			construct := fmt.Sprintf("success return @b%d", r.Block().Index)
			// every path to the success return passes (flag | system account | not frozen) and (flag | system account |
			// not paused): merged or split guards, in any order, are the same obligation
			f1, c1 := e.CutAt(r, orPred(flagPred, scPred, frozenPred), nil)
			f2, c2 := e.CutAt(r, orPred(flagPred, scPred, pausedPred), nil)
			switch {
			case c1 && c2:
				var by []string
				for _, f := range append(f1, f2...) {
					by = append(by, f.Key())
				}
				c.OK(rule, FuncName(g), construct, c.P.InstrPos(r), "only under {"+strings.Join(uniq(by), " ; ")+"}")
			default:
				d := "the gate can succeed"
				if !c1 {
					d += " without having tested the Frozen flag of the entry"
				}
				if !c2 {
					if !c1 {
						d += " and"
					}
					d += " without IsPaused(key) having returned false"
				}
				c.FailX(Oblig{Rule: rule, Func: FuncName(g), Construct: construct, Pos: c.P.InstrPos(r), Kind: "violation", Detail: d,
					Expected: "success only under: flag, address == ESDTSCAddress, or (Frozen == false and IsPaused(key) == false)"})
			}
		}
	}
}

func c04r3(c *Ctx) {
	const rule = "C04-R3"
	c.Rule(rule, "pause lookup and pause store use the system account and the caller's key; one pause object serves every function", 12)
	sysAddr := "load(*G:.SystemAccountAddress)"
	n := c.P.NamedType("", "ESDTPauseHandler")
	if n == nil {
		c.Anchor(rule, "interface vmcommon.ESDTPauseHandler")
		return
	}
	impls := c.P.Implementations(n.Underlying().(*types.Interface), "IsPaused")
	if len(impls) != 1 {
		c.Anchor(rule, fmt.Sprintf("exactly one module implementation of ESDTPauseHandler.IsPaused (found %d)", len(impls)))
		return
	}
	isPaused := impls[0]
	e := c.P.Env(isPaused)
	keyPar := "P:" + paramName(isPaused.Params[1])
	// (a) the read
	nread := 0
	isRead := func(in ssa.Instruction) (string, bool) {
		if call, ok := in.(*ssa.Call); ok && InvokeName(call) == "AccountDataHandler.RetrieveValue" {
			return "RetrieveValue", true
		}
		return "", false
	}
	var readSites []EffectSite
	for _, rs := range c.P.EffectSitesBelow(e, "pauseread", isRead) {
		readSites = append(readSites, rs)
	}
	for _, rs := range readSites {
		{
			call := rs.In.(*ssa.Call)
			e := rs.Env
			nread++
			org := accountOrigin(e, writtenAccount(call), 0)
			if len(org) == 1 && org[0] == sysAddr && e.Term(call.Call.Args[0]) == keyPar {
				c.OK(rule, FuncName(isPaused), "lookup: RetrieveValue("+keyPar+") on "+org[0], c.P.InstrPos(call), "system account, caller's key unchanged")
			} else {
				c.FailX(Oblig{Rule: rule, Func: FuncName(isPaused), Construct: "lookup: RetrieveValue(" + e.Term(call.Call.Args[0]) + ") on " + strings.Join(org, ","), Pos: c.P.InstrPos(call), Kind: "violation",
					Detail: "the pause flag is not looked up in the account loaded from SystemAccountAddress under the caller's key", Expected: "LoadAccount(SystemAccountAddress) … RetrieveValue(" + keyPar + ")"})
			}
		}
	}
	if nread == 0 {
		c.Anchor(rule, "RetrieveValue in "+FuncName(isPaused))
	}
	// (b) what IsPaused returns: false, or the bit of the stored bytes that the encoder of the global flags writes for its
	// field Paused — read directly (`(val[i] & mask) != 0`, possibly in a helper) or through the decoder's field of that bit
	var wantBit *flagTriple
	var encName string
	for _, fn := range c.P.Funcs {
		if !c.P.InPkgs(fn, "builtInFunctions") || fn.Signature.Recv() == nil || !writesFlagBytes(c.P, fn, 0) {
			continue
		}
		ts, _, _ := toBytesTriples(c.P, fn)
		for i := range ts {
			if ts[i].field == "Paused" {
				wantBit, encName = &ts[i], FuncName(fn)
			}
		}
	}
	if wantBit == nil {
		c.Anchor(rule, "the encoder that writes the Paused flag into the stored bytes")
		return
	}
	var valTerm string
	for _, b := range isPaused.Blocks {
		for _, in := range b.Instrs {
			ex, ok := in.(*ssa.Extract)
			if !ok {
				continue
			}
			call, ok := ex.Tuple.(*ssa.Call)
			if !ok {
				continue
			}
			if ex.Index == 0 && InvokeName(call) == "AccountDataHandler.RetrieveValue" {
				valTerm = e.Term(ex)
			}
			// the stored bytes handed up by a helper that reads them: result idx of the helper is what RetrieveValue returned
			if sc := call.Call.StaticCallee(); sc != nil && len(sc.Blocks) > 0 && c.P.InPkgs(sc, "builtInFunctions") {
				all, n := true, 0
				for _, r := range returnsOf(sc) {
					if ex.Index >= len(r.Results) || lastIsError(sc) && !isSuccessReturn(r) {
						continue
					}
					n++
					rx, ok := liveRetval(r, ex.Index).(*ssa.Extract)
					if !ok || rx.Index != 0 {
						all = false
						continue
					}
					if rc, ok := rx.Tuple.(*ssa.Call); !ok || InvokeName(rc) != "AccountDataHandler.RetrieveValue" {
						all = false
					}
				}
				if all && n > 0 {
					valTerm = e.Term(ex)
				}
			}
		}
	}
	for _, r := range returnsOf(isPaused) {
		rv := retval(r, 0)
		t := e.Term(rv)
		construct := fmt.Sprintf("return @b%d", r.Block().Index)
		if k, ok := boolConst(rv); ok && !k {
			c.Triv(rule, FuncName(isPaused), construct, c.P.InstrPos(r), "false")
			continue
		}
		bi, bm, why := int64(-1), int64(-1), ""
		if i, m, _, w := flagRead(e, rv, valTerm); w == "" {
			bi, bm = i, m
		} else {
			why = w
			// decoder field: field F of the object returned by a module decoder that was handed the stored bytes
			if fv, ok := rv.(*ssa.Field); ok {
				if dc, ok := fv.X.(*ssa.Call); ok && dc.Call.StaticCallee() != nil && len(dc.Call.Args) == 1 && e.Term(dc.Call.Args[0]) == valTerm {
					ts, _, derr := fromBytesTriples(c.P, dc.Call.StaticCallee())
					why = derr
					for _, tr := range ts {
						if tr.field == fieldName(fv.X.Type(), fv.Field) {
							bi, bm, why = tr.idx, tr.mask, ""
						}
					}
				}
			}
			if ld, ok := rv.(*ssa.UnOp); ok && ld.Op == token.MUL {
				if fa, ok := ld.X.(*ssa.FieldAddr); ok {
					dc, _ := fa.X.(*ssa.Call)
					if al, isAl := fa.X.(*ssa.Alloc); isAl && al.Referrers() != nil {
						// a decoder returning the struct by value: the local it is stored into, once
						n := 0
						for _, ref := range *al.Referrers() {
							if st, ok := ref.(*ssa.Store); ok && st.Addr == ssa.Value(al) {
								n++
								dc, _ = st.Val.(*ssa.Call)
							}
						}
						if n != 1 {
							dc = nil
						}
					}
					if dc != nil && dc.Call.StaticCallee() != nil && len(dc.Call.Args) == 1 && e.Term(dc.Call.Args[0]) == valTerm {
						ts, _, derr := fromBytesTriples(c.P, dc.Call.StaticCallee())
						why = derr
						for _, tr := range ts {
							if tr.field == fieldName(fa.X.Type(), fa.Field) {
								bi, bm, why = tr.idx, tr.mask, ""
							}
						}
					}
				}
			}
		}
		switch {
		case bi == wantBit.idx && bm == wantBit.mask:
			c.OK(rule, FuncName(isPaused), construct, c.P.InstrPos(r), fmt.Sprintf("byte[%d]&%#x of the stored bytes, the bit %s writes for Paused: %s", bi, bm, encName, t))
		case bi >= 0:
			c.FailX(Oblig{Rule: rule, Func: FuncName(isPaused), Construct: construct, Pos: c.P.InstrPos(r), Kind: "violation",
				Detail: fmt.Sprintf("IsPaused returns byte[%d]&%#x of the stored bytes, but %s writes the Paused flag as byte[%d]&%#x", bi, bm, encName, wantBit.idx, wantBit.mask)})
		default:
			c.FailX(Oblig{Rule: rule, Func: FuncName(isPaused), Construct: construct, Pos: c.P.InstrPos(r), Kind: "violation", Detail: "IsPaused returns " + t + ", not the Paused flag decoded from the stored value (" + why + ")"})
		}
	}
	// (c) the toggle: entry points registered as pause/unpause write the system account under ELRONDesdt‖Arguments[0]
	bal := balancePrefix(c.P)
	isSave := func(in ssa.Instruction) (string, bool) {
		if ci, ok := in.(ssa.CallInstruction); ok && InvokeName(ci) == "AccountDataHandler.SaveKeyValue" {
			return "SaveKeyValue", true
		}
		return "", false
	}
	for _, r := range c.P.Registrations() {
		if r.Key != "ESDTPause" && r.Key != "ESDTUnPause" || r.Entry == nil {
			continue
		}
		x, _ := entryContext(r.Entry)
		sites := c.P.EffectSites(r.Entry, "save", isSave)
		if len(sites) == 0 {
			c.Anchor(rule, r.Key+": the write of the pause flag")
		}
		for _, s := range sites {
			call := s.In.(ssa.CallInstruction)
			ks := keyShape(s.Env, call.Common().Args[0], 0)
			org := accountOrigin(s.Env, writtenAccount(call), 0)
			construct := r.Key + ": store SaveKeyValue(" + ks.String() + ") on " + strings.Join(org, ",")
			if ks != nil && ks.Prefix == bal && len(ks.Parts) == 1 && ks.Parts[0] == x.arg(0) && len(org) == 1 && org[0] == sysAddr {
				c.OK(rule, FuncName(s.In.Parent()), construct, c.P.InstrPos(s.In), "system account, key ELRONDesdt‖Arguments[0] — the key the gate hands to IsPaused")
			} else {
				c.FailX(Oblig{Rule: rule, Func: FuncName(s.In.Parent()), Construct: construct, Pos: c.P.InstrPos(s.In), Kind: "violation",
					Detail: "the pause flag is not stored in the system account under ELRONDesdt‖token", Expected: "SaveKeyValue(\"" + bal + "\"‖Arguments[0]) on LoadAccount(SystemAccountAddress)"})
			}
		}
	}
	// (c2) the account the flag is written into is saved: without SaveAccount the pause never takes effect
	var toggles []*ssa.Function
	for _, r := range c.P.Registrations() {
		if (r.Key == "ESDTPause" || r.Key == "ESDTUnPause") && r.Entry != nil {
			toggles = append(toggles, r.Entry)
		}
	}
	n0 := len(c.obs)
	loadedAccountSaved(c, rule, "pause toggle: ", c.P.ReachableFrom(toggles))
	if len(c.obs) == n0 {
		c.Anchor(rule, "pause toggle: a loaded account that is written below ESDTPause / ESDTUnPause")
	}
	// (d) the factory hands one pause object, built over its own accounts adapter, to every constructor that takes one
	fac := c.P.FactoryFunc()
	if fac == nil {
		c.Anchor(rule, "factory")
		return
	}
	_ = fac
	var pauseObj string
	for _, r := range c.P.Registrations() {
		if r.Key == "ESDTPause" && r.CtorCall != nil {
			pauseObj = r.Env.Term(r.CtorCall) + "#0"
			if len(r.ArgTerms) == 0 || !strings.HasSuffix(r.ArgTerms[0], ".accounts") {
				c.FailX(Oblig{Rule: rule, Func: FuncName(fac), Construct: "pause object built over the factory's accounts adapter", Pos: c.P.InstrPos(r.CtorCall), Kind: "violation", Detail: "constructed with " + strings.Join(r.ArgTerms, ", ")})
			}
		}
	}
	if pauseObj == "" {
		c.Anchor(rule, "the object registered as ESDTPause")
		return
	}
	var keys []string
	for _, r := range c.P.Registrations() {
		if r.Ctor == nil {
			continue
		}
		for i, par := range r.Ctor.Params {
			if strings.HasSuffix(par.Type().String(), ".ESDTPauseHandler") {
				got := r.ArgTerms[i]
				construct := r.Key + ": pause handler argument of " + r.Ctor.Name()
				keys = append(keys, r.Key)
				if got == pauseObj {
					c.OK(rule, FuncName(fac), construct, c.P.InstrPos(r.CtorCall), "the object registered as ESDTPause")
				} else {
					c.FailX(Oblig{Rule: rule, Func: FuncName(fac), Construct: construct, Pos: c.P.InstrPos(r.CtorCall), Kind: "violation",
						Detail: "constructor receives " + got + " as pause handler, not the pause object over the factory's accounts", Expected: pauseObj})
				}
			}
		}
	}
	sort.Strings(keys)
	c.Note("constructors taking a pause handler: %s", strings.Join(keys, ", "))
}

// R4: freeze toggling rewrites only Properties: below ESDTFreeze/ESDTUnFreeze no big.Int mutator is applied to a Value and no store
// to ESDigitalToken.Value occurs.
func c04r4(c *Ctx) {
	const rule = "C04-R4"
	c.Rule(rule, "freeze / unfreeze do not touch the balance", 2)
	for _, r := range c.P.Registrations() {
		if r.Key != "ESDTFreeze" && r.Key != "ESDTUnFreeze" || r.Entry == nil {
			continue
		}
		bad := ""
		for fn := range c.P.ReachableFrom([]*ssa.Function{r.Entry}) {
			if !c.P.InPkgs(fn, "builtInFunctions") {
				continue
			}
			e := c.P.Env(fn)
			for _, b := range fn.Blocks {
				for _, in := range b.Instrs {
					switch in := in.(type) {
					case *ssa.Store:
						if fa, ok := in.Addr.(*ssa.FieldAddr); ok && isFieldOf(fa, "esdt.ESDigitalToken", "Value") {
							if _, isAlloc := fa.X.(*ssa.Alloc); !isAlloc {
								bad = "store to Value at " + c.P.InstrPos(in)
							}
						}
					case ssa.CallInstruction:
						if m := bigMethod(in); m != "" && bigMutators[m] {
							if rt := e.Term(in.Common().Args[0]); strings.HasSuffix(rt, ".Value") {
								bad = m + " on " + rt + " at " + c.P.InstrPos(in)
							}
						}
					}
				}
			}
		}
		if bad == "" {
			c.OK(rule, FuncName(r.Entry), r.Key+": no balance mutation below the entry point", c.P.Pos(r.Entry.Pos()), "no store to ESDigitalToken.Value of a read entry and no big.Int mutator on a .Value")
		} else {
			c.FailX(Oblig{Rule: rule, Func: FuncName(r.Entry), Construct: r.Key + ": no balance mutation below the entry point", Pos: c.P.Pos(r.Entry.Pos()), Kind: "violation", Detail: "freeze toggling changes the balance: " + bad})
		}
	}
}
