package main

// C05 — protocol storage namespace is protected; every function has a bounded footprint.

import (
	"fmt"
	"go/constant"
	"go/token"
	"regexp"
	"sort"
	"strings"

	"golang.org/x/tools/go/ssa"
)

func init() {
	register(&Property{
		ID:    "C05",
		Level: "other",
		Explanation: "R1: the write of the SaveKeyValue function is cut by IsAllowedToSaveUnderKey(k) == true for the very key written, by CallerAddr == RecipientAddr and by IsSmartContractAddress(CallerAddr) == false; key and value are " +
			"Arguments[i] and Arguments[i+1] of one induction variable running 0,2,4,… R2: IsAllowedToSaveUnderKey accepts only under len(key) < len(prefix) or !Equal(key[:len(prefix)], prefix) with the constant ELROND. R3: every other " +
			"storage write below any of the 23 entry points uses a key append(P, token…[, nonce bytes…]) whose prefix object P is initialised only from the constants ELRONDesdt / ELRONDroleesdt / ELRONDnonce and whose token part is an " +
			"element of the call's own Arguments. R4: the account written is the sender or destination parameter or LoadAccount(a) with a the protocol's destination argument or SystemAccountAddress. R5: account-level mutators are called " +
			"only by the function that owns them (who-may-call table); RemoveAccount/Commit/RevertToSnapshot/RecreateTrie/SetOwnerAddress/IncreaseNonce by nobody. R6: the classifier behind the non-contract guard reads exactly bytes [0,8) of the address (shared with C20-R5). Does NOT decide: the frame condition as an observed world diff, stored values.",
		Trusted: []string{"the interfaces of interface.go are the only way to reach world state (no reflection/unsafe: C13-R3)", "protocol argument layout for destination addresses"},
		Rules:   []func(*Ctx){c05r1, c05r2, c05r3, c05r5, c05r6, c05r7},
	})
}

// c05r6: "a non-contract account": the guard's classifier must mean what the address layout says — bytes [0,8) zero, never
// the VM-type bytes (shared with C20-R5; a classifier that demands zero VM-type bytes calls every deployed contract a user).
func c05r6(c *Ctx) {
	c.shareRule(c20r5, "C20-R5", "C05-R6", "the non-contract guard's classifier reads exactly the documented byte range of the address", func(o Oblig) bool {
		return strings.Contains(o.Func, "IsSmartContractAddress") || o.Kind == "anchor"
	})
}

var argElemRe = regexp.MustCompile(`^\*\*P:[A-Za-z_0-9]+\.VMInput\.Arguments\[(.*)\]$`)

func c05r1(c *Ctx) {
	const rule = "C05-R1"
	c.Rule(rule, "SaveKeyValue: the user-key write is cut by the protected-prefix test on that key, the self-call guard and the non-contract guard; pairs are Arguments[i], Arguments[i+1]", 5)
	r, ok := c.P.RegByName()["SaveKeyValue"]
	if !ok || r.Entry == nil {
		c.Anchor(rule, "registration of SaveKeyValue")
		return
	}
	x, _ := entryContext(r.Entry)
	sites := c.P.EffectSites(r.Entry, "save", isBalanceSave(c.P))
	if len(sites) == 0 {
		c.Anchor(rule, "the storage write of the SaveKeyValue function")
	}
	for i, s := range sites {
		call := s.In.(ssa.CallInstruction)
		key, val := s.Env.Term(call.Common().Args[0]), s.Env.Term(call.Common().Args[1])
		tag := fmt.Sprintf("write #%d SaveKeyValue(%s, %s)", i+1, key, val)
		pos := c.P.InstrPos(s.In)
		fnn := FuncName(s.In.Parent())
		check := func(what string, pred func(Fact) bool, expected string) {
			if fs, where, ok := s.CutInContext(pred, nil); ok {
				c.OK(rule, fnn, tag+" ["+what+"]", pos, "cut in "+where+" by "+fs[0].String())
			} else {
				c.FailX(Oblig{Rule: rule, Func: fnn, Construct: tag + " [" + what + "]", Pos: pos, Kind: "violation",
					Detail: "the user-key write is reachable without " + expected, Path: s.witnessPath(pred), Expected: expected})
			}
		}
		check("protected prefix", func(f Fact) bool {
			return !f.Lin && f.Pos && f.Atom == "call:vmcommon.IsAllowedToSaveUnderKey("+key+")"
		},
			"IsAllowedToSaveUnderKey(<the key written>) == true")
		check("self call", eqPred(x.caller, x.rcpt), "CallerAddr == RecipientAddr")
		check("not a contract", func(f Fact) bool {
			return !f.Lin && !f.Pos && f.Atom == "call:vmcommon.IsSmartContractAddress("+x.caller+")"
		},
			"IsSmartContractAddress(CallerAddr) == false")
		// account written = the sender parameter
		org := accountOrigin(s.Env, writtenAccount(call), 0)
		if len(org) == 1 && org[0] == "param:"+x.snd {
			c.OK(rule, fnn, tag+" [own account]", pos, "written account is the sender parameter (= recipient under the self-call guard)")
		} else {
			c.FailX(Oblig{Rule: rule, Func: fnn, Construct: tag + " [own account]", Pos: pos, Kind: "violation", Detail: "writes into " + strings.Join(org, ",") + " instead of the caller's own account"})
		}
		// pairs: key = Arguments[i], value = Arguments[i+1], i = 0, 2, 4, …
		km := argElemRe.FindStringSubmatch(key)
		vm := argElemRe.FindStringSubmatch(val)
		// a private copy of the listed value is the listed value — if it is a copy of its own: `append([]byte(nil), v...)` or a
		// buffer made inside the turn; one buffer carried around the loop is overwritten by the next pair while the account's
		// storage still holds the slice it was given for the previous one
		copyNote := ""
		if vm == nil {
			if ap, ok := call.Common().Args[1].(*ssa.Call); ok {
				if bi, ok := ap.Call.Value.(*ssa.Builtin); ok && bi.Name() == "append" && len(ap.Call.Args) == 2 {
					if m2 := argElemRe.FindStringSubmatch(s.Env.Term(ap.Call.Args[1])); m2 != nil {
						base := ap.Call.Args[0]
						if sl, ok := base.(*ssa.Slice); ok {
							base = sl.X
						}
						switch b := base.(type) {
						case *ssa.Const:
							if b.Value == nil {
								vm = m2
							}
						case *ssa.MakeSlice:
							vm = m2
						case *ssa.Phi:
							copyNote = "the value stored is a copy made in one buffer that is carried around the loop (" + s.Env.Term(b) + "): the account keeps the slice it is given, so the value stored for one pair is overwritten in place when the next pair is copied"
						}
					}
				}
			}
		}
		pairOK := km != nil && vm != nil && vm[1] == km[1]+" + 1"
		stride := false
		// the key as the caller sees it when the write sits in a per-pair helper that is handed key and value
		keyArg, keyEnv := call.Common().Args[0], s.Env
		for d := 0; d < 4; d++ {
			par, isPar := keyArg.(*ssa.Parameter)
			if !isPar {
				break
			}
			a, pe := keyEnv.actual(par)
			if a == nil {
				break
			}
			keyArg, keyEnv = a, pe
		}
		if ld, ok := keyArg.(*ssa.UnOp); ok {
			if ia, ok := ld.X.(*ssa.IndexAddr); ok {
				if ph, ok := ia.Index.(*ssa.Phi); ok {
					zero, step := false, false
					for _, ed := range ph.Edges {
						if k, ok := constInt(ed); ok && k == 0 {
							zero = true
						} else if bo, ok := ed.(*ssa.BinOp); ok && bo.Op == token.ADD && bo.X == ssa.Value(ph) {
							if k, ok := constInt(bo.Y); ok && k == 2 {
								step = true
							}
						}
					}
					stride = zero && step && len(ph.Edges) == 2
				}
				// the list consumed two at a time from its start: `for rest := Arguments; …; rest = rest[2:] { rest[0], rest[1] }`
				if ph, ok := ia.X.(*ssa.Phi); ok {
					if init, adv, ok := keyEnv.sliceInduction(ph); ok && strings.HasSuffix(keyEnv.Term(init), ".VMInput.Arguments") {
						two := false
						for _, k := range adv.c {
							two = k == 2
						}
						if k0, isK := constInt(ia.Index); isK && k0 == 0 && two && len(adv.c) == 1 && adv.k == 0 {
							stride = true
						}
					}
				}
			}
		}
		// every listed pair is written: within one turn of the loop the write is skipped only when the stored value already
		// equals the listed one (a pair dropped for another reason — the key was seen before, the value is empty — is reported
		// as success without being stored)
		var header *ssa.BasicBlock
		if ld, ok := call.Common().Args[0].(*ssa.UnOp); ok {
			if ia, ok := ld.X.(*ssa.IndexAddr); ok {
				if ph, ok := ia.Index.(*ssa.Phi); ok {
					header = ph.Block()
				} else if ph, ok := ia.X.(*ssa.Phi); ok {
					header = ph.Block()
				}
			}
		}
		if header != nil && header.Parent() == s.In.Parent() {
			wb := s.In.Block()
			cut := map[edge]bool{}
			for _, p := range wb.Preds {
				cut[edge{p, wb}] = true
			}
			// a branch decided by what is stored under the key (the result of a storage read of it, directly or through a
			// helper that is handed the key and reads the storage) is the unchanged-value test: nothing to write
			var dependsOnStored func(v ssa.Value, d int) bool
			dependsOnStored = func(v ssa.Value, d int) bool {
				if d > 10 {
					return false
				}
				switch x := v.(type) {
				case *ssa.Call:
					if InvokeName(x) == "AccountDataHandler.RetrieveValue" {
						return s.Env.Term(x.Call.Args[0]) == key
					}
					if sc := x.Call.StaticCallee(); sc != nil && len(sc.Blocks) > 0 && reachesInvoke(c.P, sc, "AccountDataHandler.RetrieveValue", 0) {
						for _, a := range x.Call.Args {
							if s.Env.Term(a) == key {
								return true
							}
						}
					}
					for _, a := range x.Call.Args {
						if dependsOnStored(a, d+1) {
							return true
						}
					}
				case *ssa.Extract:
					return dependsOnStored(x.Tuple, d+1)
				case *ssa.Field:
					return dependsOnStored(x.X, d+1)
				case *ssa.FieldAddr:
					return dependsOnStored(x.X, d+1)
				case *ssa.UnOp:
					if x.Op == token.MUL {
						if f := forwarded(x); f != nil {
							return dependsOnStored(f, d+1)
						}
						// a local struct filled from a helper's result
						if fa, ok := x.X.(*ssa.FieldAddr); ok {
							if al, ok := fa.X.(*ssa.Alloc); ok && al.Referrers() != nil {
								for _, ref := range *al.Referrers() {
									if st, ok := ref.(*ssa.Store); ok && st.Addr == ssa.Value(al) && dependsOnStored(st.Val, d+1) {
										return true
									}
								}
							}
						}
					}
					return dependsOnStored(x.X, d+1)
				case *ssa.BinOp:
					return dependsOnStored(x.X, d+1) || dependsOnStored(x.Y, d+1)
				case *ssa.Phi:
					for _, ed := range x.Edges {
						if dependsOnStored(ed, d+1) {
							return true
						}
					}
				case *ssa.Convert:
					return dependsOnStored(x.X, d+1)
				}
				return false
			}
			for _, bb := range s.In.Parent().Blocks {
				if len(bb.Instrs) == 0 {
					continue
				}
				if iff, ok := bb.Instrs[len(bb.Instrs)-1].(*ssa.If); ok && dependsOnStored(iff.Cond, 0) {
					for _, sc := range bb.Succs {
						cut[edge{bb, sc}] = true
					}
				}
			}
			for ed, fs := range s.Env.EdgeFacts() {
				for _, f := range fs {
					if f.Lin && f.LE.isConst() && f.LE.k < 0 {
						cut[ed] = true
					}
				}
			}
			skipped := ""
			for _, p := range header.Preds {
				if cut[edge{p, header}] || !reachableAvoiding(header, p, nil) || p == header {
					continue // not a back edge
				}
				if wb != header && reachableAvoiding(header, p, cut) {
					skipped = strings.Join(pathAvoiding(header, p, cut), "→")
				}
			}
			if skipped == "" {
				c.OK(rule, fnn, tag+" [every pair]", pos, "a turn of the loop reaches the next one only through the write or through a branch decided by what is stored under the key")
			} else {
				c.FailX(Oblig{Rule: rule, Func: fnn, Construct: tag + " [every pair]", Pos: pos, Kind: "violation",
					Detail:   "a turn of the loop can go on to the next pair without the write and without a test of what is stored under the key (" + skipped + "): a listed pair is dropped while the call reports success",
					Expected: "every listed pair is stored (or already is what is stored)"})
			}
		}
		// … or the pairs counted one by one: key = Arguments[2*j], j = 0,1,2,… (the write may sit in a per-pair helper)
		if !stride && km != nil && strings.HasPrefix(km[1], "2*") {
			atom := strings.TrimPrefix(km[1], "2*")
			for ye := s.Env; ye != nil && !stride; ye = ye.Parent {
				for _, bb := range ye.Fn.Blocks {
					for _, in2 := range bb.Instrs {
						ph, ok := in2.(*ssa.Phi)
						if !ok || len(ph.Edges) != 2 || ye.Term(ph) != atom {
							continue
						}
						zero, step := false, false
						for _, ed := range ph.Edges {
							if k, ok := constInt(ed); ok && k == 0 {
								zero = true
							} else if bo, ok := ed.(*ssa.BinOp); ok && bo.Op == token.ADD && bo.X == ssa.Value(ph) {
								if k, ok := constInt(bo.Y); ok && k == 1 {
									step = true
								}
							}
						}
						if zero && step {
							stride = true
						}
					}
				}
			}
		}
		if pairOK && stride {
			c.OK(rule, fnn, tag+" [listed pairs]", pos, "key = Arguments[i], value = Arguments[i+1], i = 0,2,4,…")
		} else {
			c.FailX(Oblig{Rule: rule, Func: fnn, Construct: tag + " [listed pairs]", Pos: pos, Kind: "violation",
				Detail: map[bool]string{true: copyNote, false: "the written (key, value) is not (Arguments[i], Arguments[i+1]) for i = 0,2,4,…"}[copyNote != ""], Expected: "SaveKeyValue(Arguments[i], Arguments[i+1]) — or a copy of the value that is private to the pair"})
		}
	}
}

func c05r2(c *Ctx) {
	const rule = "C05-R2"
	c.Rule(rule, "IsAllowedToSaveUnderKey accepts only keys shorter than the prefix or not starting with it", 2)
	fn := c.P.FuncByName("vmcommon.IsAllowedToSaveUnderKey")
	prefix, ok := c.P.ConstString("", "ElrondProtectedKeyPrefix")
	if fn == nil || !ok || len(fn.Params) != 1 {
		c.Anchor(rule, "vmcommon.IsAllowedToSaveUnderKey / ElrondProtectedKeyPrefix")
		return
	}
	key := "P:" + paramName(fn.Params[0])
	n := int64(len(prefix))
	shortFact := leConst(n).minus(leAtom("len(" + key + ")")).addK(-1).String() // len(key) < n
	want := eqAtom(fmt.Sprintf("%s[:%d]", key, n), fmt.Sprintf("%q", prefix))
	// The verdict may be delegated to (the negation of) a boolean helper: its returns are judged with the polarity under
	// which they become the verdict; parameters are substituted along the way, so every fact is about the key given.
	var judge func(e *Env, pol bool, depth int)
	judge = func(e *Env, pol bool, depth int) {
		g := e.Fn
		for _, r := range returnsOf(g) {
			rv := retval(r, 0)
			shown := e.Term(rv)
			if !pol {
				shown = "!(" + shown + ")"
			}
			construct := fmt.Sprintf("return %s @b%d", shown, r.Block().Index)
			if g != fn {
				construct = g.Name() + ": " + construct
			}
			if k, isC := boolConst(rv); isC {
				if k != pol {
					c.Triv(rule, FuncName(g), construct, c.P.InstrPos(r), "refuses")
					continue
				}
				// … or under a mismatch of one of the first n bytes, compared one by one (`key[i] != prefix[i]` with i < n)
				mismatch := func(f Fact) bool {
					if f.Lin || f.Pos || !strings.HasPrefix(f.Atom, "zero(") {
						return false
					}
					body := strings.TrimSuffix(strings.TrimPrefix(f.Atom, "zero("), ")")
					q := fmt.Sprintf("%q", prefix)
					for _, pat := range [][2]string{{q + "[", "*" + key + "["}, {"*" + key + "[", q + "["}} {
						if !strings.HasPrefix(body, pat[0]) {
							continue
						}
						parts := strings.SplitN(strings.TrimPrefix(body, pat[0]), "] - "+pat[1], 2)
						if len(parts) == 2 && strings.HasSuffix(parts[1], "]") && parts[0] == strings.TrimSuffix(parts[1], "]") {
							return Proves(e.LinFactsAt(r, nil), leConst(n-1).minus(leAtom(parts[0])))
						}
					}
					return false
				}
				if fs, ok := e.CutAt(r, func(f Fact) bool { return f.Lin && f.LE.String() == shortFact || mismatch(f) }, nil); ok {
					c.OK(rule, FuncName(g), construct, c.P.InstrPos(r), "only under "+fs[0].String())
				} else {
					c.FailX(Oblig{Rule: rule, Func: FuncName(g), Construct: construct, Pos: c.P.InstrPos(r), Kind: "violation",
						Detail: "accepts a key without it being strictly shorter than the protected prefix", Path: pathAvoidingPred(e, r.Block(), func(f Fact) bool { return f.Lin && f.LE.String() == shortFact }),
						Expected: fmt.Sprintf("return true only under len(key) < %d", n)})
				}
				continue
			}
			// delegation
			inner, ipol := rv, pol
			if u, ok := inner.(*ssa.UnOp); ok && u.Op == token.NOT {
				inner, ipol = u.X, !pol
			}
			if call, ok := inner.(*ssa.Call); ok && depth < 3 {
				if sc := call.Call.StaticCallee(); sc != nil && len(sc.Blocks) > 0 && sc.Pkg != nil && strings.HasPrefix(sc.Pkg.Pkg.Path(), modPath) && sc != g {
					judge(e.Sub(call, sc), ipol, depth+1)
					continue
				}
			}
			// bytes.HasPrefix(key, prefix) is `len(key) >= n && key[:n] == prefix`: its negation is the verdict as a whole
			if call, ok := inner.(*ssa.Call); ok && CalleeName(call) == "bytes.HasPrefix" && len(call.Call.Args) == 2 && !ipol == true {
				pc, isC := constBytesContent(call.Call.Args[1], false)
				if e.Term(call.Call.Args[0]) == key && isC && pc == prefix {
					c.OK(rule, FuncName(g), construct, c.P.InstrPos(r), "accepts exactly when the key does not have the prefix "+prefix+" (shorter, or different first bytes)")
					continue
				}
			}
			// the verdict is exactly "the first n bytes differ from the prefix", in whichever comparison idiom it is written
			fs := e.decode(rv, pol, "")
			if len(fs) == 1 && !fs[0].Lin && !fs[0].Pos && fs[0].Atom == want {
				c.OK(rule, FuncName(g), construct, c.P.InstrPos(r), "accepts exactly when the first "+fmt.Sprint(n)+" bytes differ from "+prefix)
			} else {
				c.FailX(Oblig{Rule: rule, Func: FuncName(g), Construct: construct, Pos: c.P.InstrPos(r), Kind: "violation",
					Detail: "the non-constant verdict is " + shown, Expected: "!" + want})
			}
		}
	}
	judge(c.P.Env(fn), true, 0)
}

// c05r3 also implements R4 (account provenance) on the same sites.
func c05r3(c *Ctx) {
	const rule = "C05-R3"
	c.Rule(rule, "protocol storage writes use keys prefix‖token[‖nonce] with a constant protocol prefix and a token named in the input", 40)
	c.Rule("C05-R4", "the account written is the sender, the destination, the protocol's destination argument or the system account", 40)
	p1, _ := c.P.ConstString("", "ElrondProtectedKeyPrefix")
	esdtID, _ := c.P.ConstString("", "ESDTKeyIdentifier")
	roleID, _ := c.P.ConstString("", "ESDTRoleIdentifier")
	nonceID, _ := c.P.ConstString("", "ESDTNFTLatestNonceIdentifier")
	allowed := map[string]string{p1 + esdtID: "balance", p1 + roleID + esdtID: "role", p1 + nonceID: "nonce"}
	if p1 == "" || esdtID == "" || roleID == "" || nonceID == "" {
		c.Anchor(rule, "key-prefix constants of the root package")
		return
	}
	dstArg := map[string]int{"ESDTNFTTransfer": 3, "MultiESDTNFTTransfer": 0, "ESDTNFTCreateRoleTransfer": 1}
	for _, r := range c.P.Registrations() {
		if r.Entry == nil {
			c.Anchor(rule, "entry point of "+r.Key)
			continue
		}
		if r.Key == "SaveKeyValue" {
			continue // user keys: R1
		}
		x, _ := entryContext(r.Entry)
		seen := map[string]int{}
		for _, s := range c.P.EffectSites(r.Entry, "save", isBalanceSave(c.P)) {
			call := s.In.(ssa.CallInstruction)
			ks := keyShape(s.Env, call.Common().Args[0], 0)
			construct := r.Key + ": SaveKeyValue(" + ks.String() + ") in " + s.Chain()
			if ks == nil {
				construct = r.Key + ": SaveKeyValue(" + s.Env.Term(call.Common().Args[0]) + ") in " + s.Chain()
			}
			seen[construct]++
			if k := seen[construct]; k > 1 {
				construct += fmt.Sprintf(" #%d", k)
			}
			pos := c.P.InstrPos(s.In)
			fnn := FuncName(s.In.Parent())
			switch {
			case ks == nil:
				c.FailX(Oblig{Rule: rule, Func: fnn, Construct: construct, Pos: pos, Kind: "violation",
					Detail: "the key written is not built by append on a constant protocol prefix", Expected: "append(<ELRONDesdt|ELRONDroleesdt|ELRONDnonce>, token…)"})
			case allowed[ks.Prefix] == "":
				c.FailX(Oblig{Rule: rule, Func: fnn, Construct: construct, Pos: pos, Kind: "violation", Detail: "key prefix " + fmt.Sprintf("%q", ks.Prefix) + " is not one of the three protocol prefixes"})
			case len(ks.Parts) == 0 || argElemRe.FindStringSubmatch(ks.Parts[0]) == nil || !strings.Contains(ks.Parts[0], x.in+"."):
				c.FailX(Oblig{Rule: rule, Func: fnn, Construct: construct, Pos: pos, Kind: "violation", Detail: "the token part of the key is not an element of the call's Arguments"})
			case len(ks.Parts) > 2 || len(ks.Parts) == 2 && (allowed[ks.Prefix] != "balance" || !strings.HasPrefix(ks.Parts[1], "Bytes(bigU(")):
				c.FailX(Oblig{Rule: rule, Func: fnn, Construct: construct, Pos: pos, Kind: "violation", Detail: "unexpected key layout: " + ks.String(), Expected: "prefix‖token or ELRONDesdt‖token‖nonce bytes"})
			default:
				c.OK(rule, fnn, construct, pos, allowed[ks.Prefix]+" key of a token named in the input")
			}
			// R4
			org := accountOrigin(s.Env, writtenAccount(call), 0)
			okAll := len(org) > 0
			for _, o := range org {
				if o == "nil" {
					// an account that may be absent (destination on another shard): the write must be cut by its presence test
					at := s.Env.Term(writtenAccount(call))
					if _, _, ok := s.CutInContext(func(f Fact) bool { return !f.Lin && !f.Pos && f.Atom == nilAtom(at) }, nil); ok {
						continue
					}
				}
				good := o == "param:"+x.snd || o == "param:"+x.dst || o == "load(*G:.SystemAccountAddress)"
				if i, has := dstArg[r.Key]; has && o == "load("+x.arg(i)+")" {
					good = true
				}
				if !good {
					okAll = false
				}
			}
			if okAll {
				c.OK("C05-R4", fnn, construct+" [account]", pos, "account: "+strings.Join(org, ","))
			} else {
				c.FailX(Oblig{Rule: "C05-R4", Func: fnn, Construct: construct + " [account]", Pos: pos, Kind: "violation",
					Detail: "writes the storage of an account that is neither sender, destination, the destination argument nor the system account: " + strings.Join(org, ",")})
			}
		}
	}
}

func c05r5(c *Ctx) {
	const rule = "C05-R5"
	c.Rule(rule, "account-level mutators are called only by the function that owns them", 8)
	owner := map[string][]string{
		"AddToBalance": {"ClaimDeveloperRewards"}, "ClaimDeveloperRewards": {"ClaimDeveloperRewards"}, "ChangeOwnerAddress": {"ChangeOwnerAddress"}, "SetUserName": {"SetUserName"},
		"SaveAccount":     {"ESDTNFTTransfer", "MultiESDTNFTTransfer", "ESDTNFTCreateRoleTransfer", "ESDTPause", "ESDTUnPause"},
		"SetOwnerAddress": {}, "IncreaseNonce": {}, "RemoveAccount": {}, "Commit": {}, "RevertToSnapshot": {}, "RecreateTrie": {},
	}
	isMut := func(in ssa.Instruction) (string, bool) {
		if ci, ok := in.(ssa.CallInstruction); ok {
			if _, m, ok := depInvoke(ci); ok && mutatingDeps[m] && m != "SaveKeyValue" {
				return m, true
			}
		}
		return "", false
	}
	covered := map[ssa.Instruction]bool{}
	for _, r := range c.P.Registrations() {
		if r.Entry == nil {
			continue
		}
		seen := map[string]bool{}
		for _, s := range c.P.EffectSites(r.Entry, "acctmut", isMut) {
			covered[s.In] = true
			construct := r.Key + " calls " + s.Name + " (" + s.Chain() + ")"
			if seen[construct] {
				continue
			}
			seen[construct] = true
			good := false
			for _, o := range owner[s.Name] {
				if o == r.Key {
					good = true
				}
			}
			if good {
				c.OK(rule, FuncName(s.In.Parent()), construct, c.P.InstrPos(s.In), "allowed by the who-may-call table")
			} else {
				c.FailX(Oblig{Rule: rule, Func: FuncName(s.In.Parent()), Construct: construct, Pos: c.P.InstrPos(s.In), Kind: "violation",
					Detail: s.Name + " is reachable from the entry point of " + r.Key + ", which must not change that part of an account", Expected: s.Name + " only from {" + strings.Join(owner[s.Name], ", ") + "}"})
			}
		}
	}
	// anything in the library packages that is not below an entry point
	var stray []string
	for _, fn := range c.P.Funcs {
		if !c.P.InPkgs(fn, "builtInFunctions", "", "parsers", "container", "data", "txDataBuilder") {
			continue
		}
		for _, b := range fn.Blocks {
			for _, in := range b.Instrs {
				if m, ok := isMut(in); ok && !covered[in] {
					stray = append(stray, m+" in "+FuncName(fn)+" at "+c.P.InstrPos(in))
				}
			}
		}
	}
	sort.Strings(stray)
	if len(stray) == 0 {
		c.OK(rule, "-", "no account-level mutator outside the entry points' call trees", "-", "all call sites are below a registered entry point")
	} else {
		for _, s := range stray {
			c.FailX(Oblig{Rule: rule, Func: "-", Construct: "stray: " + s, Pos: "-", Kind: "violation", Detail: "account-level mutator called from code that no registered entry point reaches: " + s})
		}
	}
	_ = constant.MakeBool
}

// c05r7: "changes only the protocol entries of the tokens named in its input": the key that names the token is the
// function's own — built by append on a prefix without spare capacity, so that two executions running under the read lock
// cannot write their token identifiers into one shared backing array (shared with C13-R2).
func c05r7(c *Ctx) {
	c.shareRule(c13r2, "C13-R2", "C05-R7", "storage keys are built on prefixes without spare capacity (an execution's key cannot be overwritten by a concurrent one)", nil)
}
