package main

// C06 — built-in functions never create gas.
//   R1 every unsigned subtraction is guarded (a >= b holds at the site)
//   R2 every value stored to VMOutput.GasRemaining is non-inflating
//   R3 gas forwarded into an OutputTransfer is moved, not copied
//   R4 no unbounded decoded count takes part in gas arithmetic (shared taint engine, see taint.go)

import (
	"fmt"
	"go/token"
	"go/types"
	"strings"

	"golang.org/x/tools/go/ssa"
)

func init() {
	register(&Property{
		ID:    "C06",
		Level: "other",
		Explanation: "Decides, for all inputs and schedules at once, the structural clauses the gas bound rests on: (R1) every unsigned subtraction in builtInFunctions and gasCost.go is " +
			"dominated by guards that entail minuend >= subtrahend (linear entailment over CFG edge facts, validator summaries and call-site preconditions); (R2) every value stored to " +
			"VMOutput.GasRemaining is 0, GasProvided, a guarded subtraction from GasProvided or from the field itself, or the result of a helper proved to return <= its first argument; " +
			"(R3) a non-constant OutputTransfer.GasLimit is a load of GasRemaining that is zeroed on every path to the exit (moved, not copied), or GasProvided with GasRemaining left 0; " +
			"(R4) no attacker-chosen 64-bit count enters gas arithmetic unbounded. Does NOT decide: the consumed amount as a number, GasRefund, behaviour of dependencies.",
		Trusted: []string{"A-cost: schedule costs are non-zero and < 2^32", "A-argbytes: argument bytes of one call sum to < 2^31 (size*price arithmetic cannot wrap)"},
		Rules:   []func(*Ctx){c06r1, c06r2, c06r3, c06r4},
	})
}

func gasScope(p *Prog, fn *ssa.Function) bool {
	if !p.Src(fn) {
		return false
	}
	if PkgOf(fn) == "builtInFunctions" {
		return true
	}
	return PkgOf(fn) == "" && strings.HasSuffix(p.Fset.Position(fn.Pos()).Filename, "gasCost.go")
}

// ---------------------------------------------------------------- R1

func c06r1(c *Ctx) {
	const rule = "C06-R1"
	c.Rule(rule, "every unsigned subtraction is guarded: minuend >= subtrahend on every path", 15)
	c.Axiom("A-cost", "A-argbytes")
	for _, fn := range c.P.Funcs {
		if !gasScope(c.P, fn) {
			continue
		}
		for _, b := range fn.Blocks {
			for _, in := range b.Instrs {
				bo, ok := in.(*ssa.BinOp)
				if !ok || bo.Op != token.SUB || !isUnsignedT(bo.Type()) {
					continue
				}
				// gas is uint64 throughout the module; narrower unsigned arithmetic (epochs, byte masks) is not this property's
				if bt, isB := bo.Type().Underlying().(*types.Basic); !isB || bt.Kind() != types.Uint64 {
					continue
				}
				e := c.P.Env(fn)
				construct := "(" + e.LE(bo.X).String() + ") - (" + e.LE(bo.Y).String() + ")"
				r := c.P.ProveLin(fn, bo, func(e *Env) []LE { return []LE{e.LE(bo.X).minus(e.LE(bo.Y))} }, nil)
				if r.OK {
					c.OK(rule, FuncName(fn), construct, c.P.InstrPos(bo), r.By)
				} else {
					c.FailX(Oblig{Rule: rule, Func: FuncName(fn), Construct: construct, Pos: c.P.InstrPos(bo), Kind: "violation",
						Detail:   "unsigned subtraction is not dominated by a guard entailing minuend >= subtrahend: it can wrap around",
						Facts:    r.Facts,
						Expected: "a guard `if minuend < subtrahend { return … }` (or equivalent, possibly in a validator or at every call site) on every path to the subtraction"})
				}
			}
		}
	}
}

// ---------------------------------------------------------------- R2

func isFieldOf(fa *ssa.FieldAddr, typeSuffix, field string) bool {
	t := fa.X.Type()
	if p, ok := t.Underlying().(*types.Pointer); ok {
		t = p.Elem()
	}
	return strings.HasSuffix(t.String(), typeSuffix) && fieldName(fa.X.Type(), fa.Field) == field
}

func isGasProvidedTerm(t string) bool {
	return strings.HasPrefix(t, "*P:") && strings.HasSuffix(t, ".GasProvided")
}

// nonInflating classifies a value stored to GasRemaining. self is the term of the field being stored to ("" if n/a).
func nonInflating(p *Prog, e *Env, v ssa.Value, self string, depth int) (string, bool) {
	if i, ok := constInt(v); ok && i == 0 {
		return "constant 0", true
	}
	switch x := v.(type) {
	case *ssa.Phi:
		var cls []string
		for _, ed := range x.Edges {
			s, ok := nonInflating(p, e, ed, self, depth)
			if !ok {
				return s, false
			}
			cls = append(cls, s)
		}
		return "φ[" + strings.Join(uniq(cls), " | ") + "]", true
	case *ssa.Extract:
		if call, ok := x.Tuple.(*ssa.Call); ok && x.Index == 0 {
			return saturatingCall(p, e, call, self, depth)
		}
	case *ssa.Call:
		return saturatingCall(p, e, x, self, depth)
	case *ssa.Parameter:
		if a, pe := e.actual(x); a != nil {
			return nonInflating(p, pe, a, self, depth)
		}
		// an output-building helper that is handed the gas: every call site must hand it a non-inflating value
		if e.Parent == nil && isUnsignedT(x.Type()) && !isExportedAPI(e.Fn) && depth <= 2 && len(p.Callers[e.Fn]) > 0 {
			var cls []string
			for _, cs := range p.Callers[e.Fn] {
				if !p.Src(cs.Parent()) {
					continue
				}
				sub := p.Env(cs.Parent()).Sub(cs, e.Fn)
				a, pe := sub.actual(x)
				if a == nil {
					return "cannot bind parameter " + x.Name() + " at " + p.InstrPos(cs), false
				}
				s, ok := nonInflating(p, pe, a, "", depth+1)
				if !ok {
					return "passed by " + FuncName(cs.Parent()) + ": " + s, false
				}
				cls = append(cls, s)
			}
			if len(cls) > 0 {
				return "supplied by every caller as {" + strings.Join(uniq(cls), " | ") + "}", true
			}
		}
	}
	l := e.LE(v)
	// base - Σ non-negative atoms, base ∈ {GasProvided, the field itself}
	base := ""
	for a, k := range l.c {
		if k > 0 {
			if k != 1 || base != "" {
				return "not of the form base - charges: " + l.String(), false
			}
			base = a
		} else if !nonNegAtom(a) {
			return "subtracts a possibly negative quantity: " + l.String(), false
		}
	}
	if l.k > 0 {
		return "adds a constant: " + l.String(), false
	}
	if base == "" {
		return "no gas base in " + l.String(), false
	}
	if isGasProvidedTerm(base) {
		if len(l.c) == 1 && l.k == 0 {
			return "GasProvided", true
		}
		return "GasProvided - charges (guard: R1)", true
	}
	if self != "" && base == self {
		return "field - charges (guard: R1)", true
	}
	if strings.HasPrefix(base, "satarg:") {
		return "first argument - charges", true
	}
	return "base of the stored value is neither GasProvided nor the field itself: " + base, false
}

// saturatingCall: call to a module function whose every return is <= its gas argument (classified recursively with the
// argument as base), applied to a non-inflating argument.
func saturatingCall(p *Prog, e *Env, call *ssa.Call, self string, depth int) (string, bool) {
	sc := call.Call.StaticCallee()
	if sc == nil || len(sc.Blocks) == 0 || depth > 2 {
		return "result of a call that cannot be classified: " + CalleeName(call), false
	}
	// find the uint64 parameters; the result must be bounded by one of them on every return
	for pi, par := range sc.Params {
		if !isUnsignedT(par.Type()) {
			continue
		}
		okAll := true
		se := p.Env(sc)
		for _, r := range returnsOf(sc) {
			rv := retval(r, 0)
			if i, ok := constInt(rv); ok && i == 0 {
				continue
			}
			l := se.LE(rv)
			pos := 0
			good := true
			for a, k := range l.c {
				if k > 0 {
					pos++
					if k != 1 || a != "P:"+paramName(par) {
						good = false
					}
				} else if !nonNegAtom(a) {
					good = false
				}
			}
			if !good || pos != 1 || l.k > 0 {
				okAll = false
			}
		}
		if okAll && pi < len(call.Call.Args) {
			s, ok := nonInflating(p, e, call.Call.Args[pi], self, depth+1)
			if ok {
				return fmt.Sprintf("%s(…) returns <= its argument %q, which is %s", sc.Name(), par.Name(), s), true
			}
		}
	}
	return "call to " + sc.Name() + " is not a saturating helper over a non-inflating argument", false
}

// contextsOf: the environments of fn in each of its calling contexts, up to `levels` call levels above it (an exported
// function, or one without callers in the library, is its own context).
func (p *Prog) contextsOf(fn *ssa.Function, levels int) []*Env {
	if levels == 0 || isExportedAPI(fn) {
		return []*Env{p.Env(fn)}
	}
	var out []*Env
	for _, cs := range p.Callers[fn] {
		if !p.Src(cs.Parent()) || cs.Parent() == fn {
			continue
		}
		for _, ce := range p.contextsOf(cs.Parent(), levels-1) {
			out = append(out, ce.Sub(cs, fn))
		}
	}
	if len(out) == 0 {
		return []*Env{p.Env(fn)}
	}
	return out
}

// nonInflatingInCallers: v (a value of the unexported step fn) is non-inflating in every calling context of fn.
func nonInflatingInCallers(p *Prog, fn *ssa.Function, v ssa.Value, self string) (string, bool) {
	var cls []string
	for _, ce := range p.contextsOf(fn, 2) {
		if ce.Parent == nil {
			return "", false
		}
		s, ok := nonInflating(p, ce, v, self, 1)
		if !ok {
			return "in the context " + ce.Parent.Fn.Name() + ": " + s, false
		}
		cls = append(cls, s)
	}
	return "in every calling context {" + strings.Join(uniq(cls), " | ") + "}", len(cls) > 0
}

func c06r2(c *Ctx) {
	const rule = "C06-R2"
	c.Rule(rule, "every value stored to VMOutput.GasRemaining is 0, GasProvided, a guarded subtraction from those, or a saturating helper result", 20)
	for _, fn := range c.P.Funcs {
		if !gasScope(c.P, fn) {
			continue
		}
		e := c.P.Env(fn)
		for _, b := range fn.Blocks {
			for _, in := range b.Instrs {
				st, ok := in.(*ssa.Store)
				if !ok {
					continue
				}
				fa, ok := st.Addr.(*ssa.FieldAddr)
				if !ok || !isFieldOf(fa, "VMOutput", "GasRemaining") {
					continue
				}
				self := "*" + e.Term(fa)
				construct := "GasRemaining = " + e.Term(st.Val)
				cls, ok := nonInflating(c.P, e, st.Val, self, 0)
				if !ok && !isExportedAPI(fn) && len(c.P.Callers[fn]) > 0 {
					// a step that is handed a per-call context object: judge the stored value in every calling context (two levels up)
					if cls2, ok2 := nonInflatingInCallers(c.P, fn, st.Val, self); ok2 {
						cls, ok = cls2, true
					}
				}
				if ok {
					if cls == "constant 0" {
						c.Triv(rule, FuncName(fn), construct, c.P.InstrPos(st), cls)
					} else {
						c.OK(rule, FuncName(fn), construct, c.P.InstrPos(st), cls)
					}
				} else {
					c.FailX(Oblig{Rule: rule, Func: FuncName(fn), Construct: construct, Pos: c.P.InstrPos(st), Kind: "violation",
						Detail:   "value stored to GasRemaining may exceed the gas provided: " + cls,
						Expected: "0, GasProvided, GasProvided/GasRemaining minus non-negative charges, or a helper returning <= its gas argument"})
				}
			}
		}
	}
}

// ---------------------------------------------------------------- R3

// gasRemainingLoad: v is a load of <X>.GasRemaining (X *VMOutput); returns the address term.
func gasRemainingLoad(e *Env, v ssa.Value) (string, *ssa.UnOp, bool) {
	u, ok := v.(*ssa.UnOp)
	if !ok || u.Op != token.MUL {
		return "", nil, false
	}
	fa, ok := u.X.(*ssa.FieldAddr)
	if !ok || !isFieldOf(fa, "VMOutput", "GasRemaining") {
		return "", nil, false
	}
	return e.Term(fa), u, true
}

// zeroedAfter: on every path from instruction `from` to a return of its function a store of constant 0 to the address
// term addr is passed, and after it no non-zero store to addr follows. Returns a witness description on failure.
func zeroedAfter(e *Env, from ssa.Instruction, addr string) (bool, string) {
	fn := from.Parent()
	type state struct {
		b      *ssa.BasicBlock
		zeroed bool
	}
	start := indexIn(from) + 1
	seen := map[state]bool{}
	var walk func(b *ssa.BasicBlock, i int, zeroed bool) (bool, string)
	walk = func(b *ssa.BasicBlock, i int, zeroed bool) (bool, string) {
		for ; i < len(b.Instrs); i++ {
			switch in := b.Instrs[i].(type) {
			case *ssa.Store:
				if fa, ok := in.Addr.(*ssa.FieldAddr); ok && e.Term(fa) == addr {
					if k, ok := constInt(in.Val); ok && k == 0 {
						zeroed = true
					} else if zeroed {
						return false, "GasRemaining is stored again (" + e.Term(in.Val) + ") at " + e.P.InstrPos(in) + " after it was moved into the transfer"
					}
				}
			case *ssa.Return:
				if !zeroed {
					return false, "return at " + e.P.InstrPos(in) + " is reachable without GasRemaining = 0"
				}
				return true, ""
			}
		}
		for _, s := range b.Succs {
			st := state{s, zeroed}
			if seen[st] {
				continue
			}
			seen[st] = true
			if ok, w := walk(s, 0, zeroed); !ok {
				return false, w
			}
		}
		return true, ""
	}
	_ = fn
	return walk(from.Block(), start, false)
}

// gasLimitSource checks one value flowing into OutputTransfer.GasLimit.
func gasLimitSource(c *Ctx, e *Env, v ssa.Value, site ssa.Instruction, depth int) (string, bool) {
	if k, ok := constInt(v); ok && k == 0 {
		return "constant 0", true
	}
	switch x := v.(type) {
	case *ssa.Phi:
		var cls []string
		for _, ed := range x.Edges {
			s, ok := gasLimitSource(c, e, ed, site, depth)
			if !ok {
				return s, false
			}
			cls = append(cls, s)
		}
		return "φ[" + strings.Join(uniq(cls), " | ") + "]", true
	case *ssa.Parameter:
		// the caller supplies the gas: every call site must move it
		if e.Parent != nil {
			if a, pe := e.actual(x); a != nil {
				return gasLimitSource(c, pe, a, e.Call, depth)
			}
		}
		if depth > 2 || isExportedAPI(e.Fn) || len(c.P.Callers[e.Fn]) == 0 {
			return "gas limit comes from parameter " + x.Name() + " of a function whose callers cannot be enumerated", false
		}
		var cls []string
		for _, cs := range c.P.Callers[e.Fn] {
			if !c.P.Src(cs.Parent()) {
				continue
			}
			sub := c.P.Env(cs.Parent()).Sub(cs, e.Fn)
			a, pe := sub.actual(x)
			if a == nil {
				return "cannot bind parameter at " + c.P.InstrPos(cs), false
			}
			s, ok := gasLimitSource(c, pe, a, cs, depth+1)
			if !ok {
				return FuncName(cs.Parent()) + ": " + s, false
			}
			cls = append(cls, FuncName(cs.Parent())+": "+s)
		}
		return "supplied by callers {" + strings.Join(cls, " ; ") + "}", true
	}
	if addr, load, ok := gasRemainingLoad(e, v); ok {
		if good, w := zeroedAfter(e, load, addr); !good {
			return "forwarded gas is copied, not moved: " + w, false
		}
		// callers: after a call that moved the gas of a parameter's VMOutput, nobody may refill it
		return "moved: load of " + addr + " followed by " + addr + " = 0 on every path to the exit", true
	}
	if isGasProvidedTerm(e.Term(v)) {
		// everything is forwarded: the function's VMOutput must keep GasRemaining 0 on the paths through this site
		for _, b := range e.Fn.Blocks {
			if !(reachableAvoiding(b, site.Block(), nil) || reachableAvoiding(site.Block(), b, nil)) {
				continue
			}
			for _, in := range b.Instrs {
				if st, ok := in.(*ssa.Store); ok {
					if fa, ok := st.Addr.(*ssa.FieldAddr); ok && isFieldOf(fa, "VMOutput", "GasRemaining") {
						if k, ok := constInt(st.Val); !ok || k != 0 {
							return "GasProvided is forwarded while GasRemaining is also set at " + c.P.InstrPos(st), false
						}
					}
				}
			}
		}
		return "all of GasProvided forwarded, GasRemaining left 0", true
	}
	// the remaining gas kept in a local until the output is built (`limit, remaining = remaining, 0`): the value is
	// non-inflating by provenance, and on every path through this site what is finally stored as GasRemaining is 0
	if why, ok := nonInflating(c.P, e, v, "", 0); ok {
		fn := e.Fn
		bad := ""
		nstores := 0
		for _, b := range fn.Blocks {
			for _, in := range b.Instrs {
				st, ok := in.(*ssa.Store)
				if !ok {
					continue
				}
				fa, ok := st.Addr.(*ssa.FieldAddr)
				if !ok || !isFieldOf(fa, "VMOutput", "GasRemaining") {
					continue
				}
				before := instrReaches(fn, site, st, nil)
				after := instrReaches(fn, st, site, nil)
				if !before && !after {
					continue
				}
				nstores++
				if k, isK := constInt(st.Val); isK && k == 0 {
					continue
				}
				ph, isPhi := st.Val.(*ssa.Phi)
				if !isPhi || !before {
					bad = "the forwarded amount is also kept: GasRemaining = " + e.Term(st.Val) + " at " + c.P.InstrPos(st)
					continue
				}
				for i, ed := range ph.Edges {
					pb := ph.Block().Preds[i]
					through := pb == site.Block() || reachableAvoiding(site.Block(), pb, nil)
					if !through {
						continue
					}
					if k, isK := constInt(ed); !isK || k != 0 {
						bad = "on a path through the hand-over GasRemaining becomes " + e.Term(ed) + " at " + c.P.InstrPos(st)
					}
				}
			}
		}
		if bad != "" {
			return "forwarded gas is copied, not moved: " + bad, false
		}
		if nstores > 0 {
			return "moved on a local: " + why + "; GasRemaining is 0 on every path through the hand-over", true
		}
	}
	return "gas limit " + e.Term(v) + " is neither 0, a moved GasRemaining nor GasProvided", false
}

func c06r3(c *Ctx) {
	const rule = "C06-R3"
	c.Rule(rule, "gas put into an OutputTransfer is moved out of GasRemaining, not copied", 5)
	emitters := map[*ssa.Function]bool{}
	for _, fn := range c.P.Funcs {
		if !gasScope(c.P, fn) {
			continue
		}
		e := c.P.Env(fn)
		for _, b := range fn.Blocks {
			for _, in := range b.Instrs {
				st, ok := in.(*ssa.Store)
				if !ok {
					continue
				}
				fa, ok := st.Addr.(*ssa.FieldAddr)
				if !ok || !isFieldOf(fa, "OutputTransfer", "GasLimit") {
					continue
				}
				construct := "OutputTransfer.GasLimit = " + e.Term(st.Val)
				cls, ok := gasLimitSource(c, e, st.Val, st, 0)
				if ok {
					if cls == "constant 0" {
						c.Triv(rule, FuncName(fn), construct, c.P.InstrPos(st), cls)
					} else {
						c.OK(rule, FuncName(fn), construct, c.P.InstrPos(st), cls)
						emitters[fn] = true
					}
				} else {
					c.FailX(Oblig{Rule: rule, Func: FuncName(fn), Construct: construct, Pos: c.P.InstrPos(st), Kind: "violation", Detail: cls,
						Expected: "GasLimit: X.GasRemaining followed by X.GasRemaining = 0 on every path, or GasProvided with GasRemaining left 0"})
				}
			}
		}
	}
	// after a call to an emitter that zeroes the VMOutput it is given, the caller must not refill GasRemaining
	changed := true
	for changed { // emitters closed under "passes its VMOutput on to an emitter"
		changed = false
		for fn := range emitters {
			for _, cs := range c.P.Callers[fn] {
				if c.P.Src(cs.Parent()) && gasScope(c.P, cs.Parent()) && !emitters[cs.Parent()] && passesVMOutputParam(cs) {
					emitters[cs.Parent()] = true
					changed = true
				}
			}
		}
	}
	for fn := range emitters {
		for _, cs := range c.P.Callers[fn] {
			caller := cs.Parent()
			if !c.P.Src(caller) || !gasScope(c.P, caller) {
				continue
			}
			e := c.P.Env(caller)
			var outArg ssa.Value
			for _, a := range cs.Common().Args {
				if strings.HasSuffix(a.Type().String(), "VMOutput") {
					outArg = a
				}
			}
			if outArg == nil {
				continue
			}
			construct := "after " + fn.Name() + "(…, " + e.Term(outArg) + ")"
			bad := ""
			// any non-zero store to <outArg>.GasRemaining reachable after the call
			for _, b := range caller.Blocks {
				for i, in := range b.Instrs {
					st, ok := in.(*ssa.Store)
					if !ok {
						continue
					}
					fa, ok := st.Addr.(*ssa.FieldAddr)
					if !ok || !isFieldOf(fa, "VMOutput", "GasRemaining") || e.Term(fa.X) != e.Term(outArg) {
						continue
					}
					if k, ok := constInt(st.Val); ok && k == 0 {
						continue
					}
					after := false
					if b == cs.Block() {
						after = i > indexIn(cs)
						if !after {
							// reachable again through a loop?
							for _, s := range b.Succs {
								if reachableAvoiding(s, b, nil) {
									after = true
								}
							}
						}
					} else {
						after = reachableAvoiding(cs.Block(), b, nil)
					}
					if after {
						bad = "GasRemaining refilled with " + e.Term(st.Val) + " at " + c.P.InstrPos(st) + " after the gas was forwarded"
					}
				}
			}
			if bad == "" {
				c.OK(rule, FuncName(caller), construct, c.P.InstrPos(cs), "no store to GasRemaining can follow the forwarding call")
			} else {
				c.FailX(Oblig{Rule: rule, Func: FuncName(caller), Construct: construct, Pos: c.P.InstrPos(cs), Kind: "violation", Detail: bad})
			}
		}
	}
}

func passesVMOutputParam(cs ssa.CallInstruction) bool {
	for _, a := range cs.Common().Args {
		if _, ok := a.(*ssa.Parameter); ok && strings.HasSuffix(a.Type().String(), "VMOutput") {
			return true
		}
	}
	return false
}

func c06r4(c *Ctx) {
	taintRule(c, "C06-R4", "no unbounded decoded count takes part in gas arithmetic", gasScope, taintGas, 1)
}
