package main

// C07 — NFT nonces are unique and strictly increasing per token (structural clauses).

import (
	"fmt"
	"go/token"
	"go/types"
	"sort"
	"strings"

	"golang.org/x/tools/go/ssa"
)

func init() {
	register(&Property{
		ID:    "C07",
		Level: "other",
		Explanation: "R1 (create): in the ESDTNFTCreate entry point the counter is read from the sender account under ELRONDnonce‖Arguments[0]; the value `read + 1` (one SSA value, constant step 1) is the metadata nonce of the created entry, the value " +
			"persisted under the same account and key, the returned datum and the log topic; the counter write's success edge cuts every success return. R2 (hand-over, current owner): the counter read from the current holder is the value put in the message " +
			"(second hex argument, first is the token) and, on the same shard, the value written to the new holder; every success return is cut by the write of constant 0 to the old counter and by the call that removes the create role from the old holder's list; " +
			"the new holder gets the role. The routine may read the counter more than once and reset it in several branches: a read whose value goes to the new holder or into the message must not be able to follow the reset, the resets (removals) together lie on every successful path at every call level, and with the new holder in the same shard counter write and role addition lie on every successful path. R3 (next owner): the counter is set to the number decoded from Arguments[1] and the create role is added. R5: the counter key is written only below ESDTNFTCreate and ESDTNFTCreateRoleTransfer (no other function can lower the record of the highest nonce issued). Does NOT decide: uniqueness over histories (late or duplicated delivery), wrap-around at 2^64.",
		Trusted: []string{"A-deps", "single-creator discipline of the protocol"},
		Rules:   []func(*Ctx){c07r1, c07r2, c07r4, c07r5, c07r6, c07r7},
	})
}

type nonceSite struct {
	s     EffectSite
	write bool
	acct  string
	token string
	val   string // written value term (writes)
	res   string // term of the read bytes (reads)
}

func noncePrefixStr(p *Prog) string {
	a, _ := p.ConstString("", "ElrondProtectedKeyPrefix")
	b, _ := p.ConstString("", "ESDTNFTLatestNonceIdentifier")
	return a + b
}

func nonceSites(p *Prog, entry *ssa.Function) []nonceSite {
	pre := noncePrefixStr(p)
	isRW := func(in ssa.Instruction) (string, bool) {
		if ci, ok := in.(ssa.CallInstruction); ok {
			switch InvokeName(ci) {
			case "AccountDataHandler.SaveKeyValue":
				return "write", true
			case "AccountDataHandler.RetrieveValue":
				return "read", true
			}
		}
		return "", false
	}
	var out []nonceSite
	for _, s := range p.EffectSites(entry, "noncerw", isRW) {
		call := s.In.(ssa.CallInstruction)
		ks := keyShape(s.Env, call.Common().Args[0], 0)
		if ks == nil || ks.Prefix != pre || len(ks.Parts) != 1 {
			continue
		}
		ns := nonceSite{s: s, write: s.Name == "write", acct: s.Env.Term(writtenAccount(call)), token: ks.Parts[0]}
		if ns.write {
			ns.val = s.Env.Term(call.Common().Args[1])
		}
		out = append(out, ns)
	}
	return out
}

// counterReadResult: in the entry function, the uint64 result of the call chain that performed the nonce-class read.
func counterReadCall(entry *ssa.Function, rs nonceSite) *ssa.Call {
	// the outermost call in the entry function leading to the read site
	x := rs.s.Env
	var call ssa.CallInstruction
	for x != nil && x.Parent != nil {
		call = x.Call
		x = x.Parent
	}
	if c, ok := call.(*ssa.Call); ok {
		return c
	}
	return nil
}

// counterReadNotFailSoft: in the function that reads the counter, a failed read must not be reported as "no counter yet": every success
// return is cut by the success edge of the RetrieveValue call.
func counterReadNotFailSoft(c *Ctx, rule string, rd nonceSite, who string) {
	call := rd.s.In.(ssa.CallInstruction)
	fn := rd.s.In.Parent()
	e := rd.s.Env
	pred := func(f Fact) bool { return !f.Lin && f.Pos && f.Call == call && strings.HasPrefix(f.Atom, "ok:") }
	okAll, n := true, 0
	for _, r := range returnsOf(fn) {
		if !isSuccessReturn(r) {
			continue
		}
		n++
		if _, ok := e.CutAt(r, pred, nil); !ok {
			okAll = false
		}
	}
	construct := who + ": a failed counter read is an error, not counter 0"
	if okAll && n > 0 {
		c.OK(rule, FuncName(fn), construct, c.P.InstrPos(call), "every success return of "+fn.Name()+" is cut by the read having succeeded")
	} else {
		c.FailX(Oblig{Rule: rule, Func: FuncName(fn), Construct: construct, Pos: c.P.InstrPos(call), Kind: "violation",
			Detail:   "when the storage read of the counter fails the reader reports success (counter 0): the next create re-issues nonce 1 and overwrites an existing NFT, a hand-over ships counter 0",
			Expected: "if err != nil { return 0, err } before interpreting the bytes"})
	}
}

// inlinedCounterValue: the term of the uint64 decoded from the result of the given RetrieveValue call in its own function:
// Uint64(SetBytes(<bytes read>)), possibly merged with the constant 0 of the "nothing stored" branch.
func inlinedCounterValue(e *Env, read *ssa.Call) string {
	rt := e.Term(read) + "#0"
	derives := func(v ssa.Value) bool {
		call, ok := v.(*ssa.Call)
		return ok && bigMethod(call) == "Uint64" && strings.Contains(e.Term(call), rt)
	}
	for _, b := range e.Fn.Blocks {
		for _, in := range b.Instrs {
			switch v := in.(type) {
			case *ssa.Phi:
				n, ok := 0, true
				for _, ed := range v.Edges {
					if k, isK := constInt(ed); isK && k == 0 {
						continue
					}
					if derives(ed) {
						n++
						continue
					}
					ok = false
				}
				if ok && n > 0 && isInteger(v.Type()) {
					return e.Term(v)
				}
			}
		}
	}
	for _, b := range e.Fn.Blocks {
		for _, in := range b.Instrs {
			if v, ok := in.(*ssa.Call); ok && derives(v) {
				return e.Term(v)
			}
		}
	}
	return ""
}

func c07r1(c *Ctx) {
	const rule = "C07-R1"
	c.Rule(rule, "create: nonce = stored counter + 1 is the metadata nonce, the persisted counter, the return datum and the log topic", 7)
	r, ok := c.P.RegByName()["ESDTNFTCreate"]
	if !ok || r.Entry == nil {
		c.Anchor(rule, "registration of ESDTNFTCreate")
		return
	}
	x, _ := entryContext(r.Entry)
	e := c.P.Env(r.Entry)
	var reads, writes []nonceSite
	for _, ns := range nonceSites(c.P, r.Entry) {
		if ns.write {
			writes = append(writes, ns)
		} else {
			reads = append(reads, ns)
		}
	}
	if len(reads) != 1 || len(writes) != 1 {
		c.Fail(rule, "violation", FuncName(r.Entry), "one counter read and one counter write", c.P.Pos(r.Entry.Pos()),
			fmt.Sprintf("found %d reads and %d writes of an ELRONDnonce key below ESDTNFTCreate", len(reads), len(writes)))
		return
	}
	rd, wr := reads[0], writes[0]
	pos := c.P.InstrPos(wr.s.In)
	counterReadNotFailSoft(c, rule, rd, "create")
	// same account, same token, token = Arguments[0]
	if rd.acct == x.snd && wr.acct == x.snd && rd.token == wr.token && rd.token == x.arg(0) {
		c.OK(rule, FuncName(r.Entry), "counter read and written under one key of the sender account", pos, "ELRONDnonce‖"+rd.token+" on "+rd.acct)
	} else {
		c.FailX(Oblig{Rule: rule, Func: FuncName(r.Entry), Construct: "counter read and written under one key of the sender account", Pos: pos, Kind: "violation",
			Detail: fmt.Sprintf("read (%s, %s) but write (%s, %s); expected sender account and Arguments[0] on both", rd.acct, rd.token, wr.acct, wr.token)})
	}
	// the value of the counter where it is used: the result of the outermost reader helper (a function returning the number
	// and an error) on the way from the read up — in the entry point itself, or in a phase function below it
	readRes, nextAlias := "", ""
	{
		y := rd.s.Env
		var inner ssa.Value // the call one level below whose result is the counter
		for y != nil && y.Parent != nil && y.Call != nil {
			res := y.Fn.Signature.Results()
			if res.Len() == 2 && isInteger(res.At(0).Type()) && res.At(1).Type().String() == "error" {
				// a helper above the reader counts only while it hands the number on unchanged (`getNextNonce` = reader + 1 does not)
				if inner != nil {
					passes := true
					for _, ret := range returnsOf(y.Fn) {
						if !isSuccessReturn(ret) {
							continue
						}
						ex, isEx := retval(ret, 0).(*ssa.Extract)
						if !isEx || ex.Index != 0 || ex.Tuple != inner {
							passes = false
						}
					}
					if !passes {
						// … unless it hands on the reader's number plus one: its result is then another name of the next nonce
						plusOne := true
						innerT := leAtom(y.Term(inner) + "#0").addK(1).String()
						for _, ret := range returnsOf(y.Fn) {
							if isSuccessReturn(ret) && y.LE(retval(ret, 0)).String() != innerT {
								plusOne = false
							}
						}
						if cv, ok := y.Call.(ssa.Value); ok && plusOne {
							nextAlias = y.Parent.Term(cv) + "#0"
						}
						break
					}
				}
				if cv, ok := y.Call.(ssa.Value); ok {
					readRes = y.Parent.Term(cv) + "#0"
					inner = cv
				}
			} else {
				break
			}
			y = y.Parent
		}
	}
	if readRes != "" {
	} else if rd.s.In.Parent() == r.Entry {
		// the read is inlined into the entry point: the counter is the number decoded from the bytes read (0 when there are none)
		readRes = inlinedCounterValue(e, rd.s.In.(*ssa.Call))
	}
	if readRes == "" {
		c.Fail(rule, "undecided", FuncName(r.Entry), "counter read result", pos, "cannot identify the value returned by the counter read")
		return
	}
	next := leAtom(readRes).addK(1).String()
	want := "Bytes(bigU(" + next + "))"
	norm := func(t string) string {
		if nextAlias != "" {
			return strings.ReplaceAll(t, nextAlias, next)
		}
		return t
	}
	wr.val = norm(wr.val)
	if wr.val == want {
		c.OK(rule, FuncName(r.Entry), "persisted counter = read + 1", pos, wr.val)
	} else {
		c.FailX(Oblig{Rule: rule, Func: FuncName(r.Entry), Construct: "persisted counter = read + 1", Pos: pos, Kind: "violation",
			Detail: "the counter persisted is " + wr.val + ", not the counter read plus one: nonces repeat or skip", Expected: want})
	}
	// the write cuts every success return — at every level of the chain that leads to it (phase functions included)
	wcall := wr.s
	var wtop ssa.CallInstruction = wcall.In.(ssa.CallInstruction)
	okAll := true
	{
		var call ssa.CallInstruction = wcall.In.(ssa.CallInstruction)
		for y := wcall.Env; y != nil; y = y.Parent {
			lv, lc := y, call
			pred := func(f Fact) bool { return !f.Lin && f.Pos && f.Call == lc && strings.HasPrefix(f.Atom, "ok:") }
			for _, ret := range returnsOf(lv.Fn) {
				if isSuccessReturn(ret) {
					if _, ok := lv.CutAt(ret, pred, nil); !ok {
						okAll = false
					}
				}
			}
			wtop = call
			if y.Parent == nil || y.Call == nil {
				break
			}
			call = y.Call
		}
	}
	if okAll {
		c.OK(rule, FuncName(r.Entry), "counter write on every successful path", c.P.InstrPos(wtop), "its success edge cuts every success return")
	} else {
		c.Fail(rule, "violation", FuncName(r.Entry), "counter write on every successful path", c.P.InstrPos(wtop), "ESDTNFTCreate can succeed without persisting the advanced counter: the next create reuses the nonce")
	}
	// the counter is advanced last: once its write has succeeded nothing can make the call fail any more (a create that is
	// refused after the counter was written — the token paused, the holding frozen, the entry not storable — has burnt a nonce)
	{
		wfn := wtop.Parent()
		we := e
		for y := wcall.Env; y != nil; y = y.Parent {
			if y.Fn == wfn {
				we = y
			}
		}
		cut := map[edge]bool{}
		for ed, fs := range we.EdgeFacts() {
			for _, f := range fs {
				if !f.Lin && !f.Pos && f.Call == wtop && strings.HasPrefix(f.Atom, "ok:") {
					cut[ed] = true // the write itself failed
				}
			}
		}
		late := ""
		for _, ret := range returnsOf(wfn) {
			if len(ret.Results) == 0 {
				continue
			}
			rv := retval(ret, len(ret.Results)-1)
			if !isErrorType(rv.Type()) || !definitelyError(rv, ret.Block(), map[ssa.Value]bool{}) {
				continue
			}
			if reachesAvoidingEdges(wfn, wtop.(ssa.Instruction), ret, cut) {
				late = c.P.InstrPos(ret)
			}
		}
		construct := "nothing can fail after the counter was advanced"
		if late == "" {
			c.OK(rule, FuncName(r.Entry), construct, c.P.InstrPos(wtop), "no error exit is reachable from the successful counter write")
		} else {
			c.FailX(Oblig{Rule: rule, Func: FuncName(r.Entry), Construct: construct, Pos: c.P.InstrPos(wtop), Kind: "violation",
				Detail:   "the error exit at " + late + " is reachable after the counter write has succeeded: a create that is refused there has already advanced the counter, so the next successful create is not the previous nonce plus one",
				Expected: "the counter is written after everything that can refuse the create (in particular after the entry is saved)"})
		}
	}
	// the same value is the metadata nonce, the return datum and the log topic
	uses := map[string]string{}
	isUse := func(in ssa.Instruction) (string, bool) {
		if st, ok := in.(*ssa.Store); ok {
			if fa, ok := st.Addr.(*ssa.FieldAddr); ok {
				if isFieldOf(fa, "esdt.MetaData", "Nonce") {
					return "metadata nonce", true
				}
				if isFieldOf(fa, "VMOutput", "ReturnData") {
					return "return datum", true
				}
			}
		}
		return "", false
	}
	for _, us := range c.P.EffectSites(r.Entry, "c07uses", isUse) {
		v := us.In.(*ssa.Store)
		switch us.Name {
		case "metadata nonce":
			uses["metadata nonce"] = us.Env.LE(v.Val).String()
		case "return datum":
			uses["return datum"] = sliceLiteralElem(us.Env, v.Val)
		}
	}
	{
		// the log entry, built in place or in a helper at any depth: the Topics literal carries Bytes(counter) as an element
		isTopics := func(in ssa.Instruction) (string, bool) {
			if st, ok := in.(*ssa.Store); ok {
				if fa, ok := st.Addr.(*ssa.FieldAddr); ok && isFieldOf(fa, "LogEntry", "Topics") {
					return "Topics", true
				}
			}
			return "", false
		}
		for _, s := range c.P.EffectSites(r.Entry, "logtopics", isTopics) {
			for _, el := range sliceLiteralElems(s.Env, s.In.(*ssa.Store).Val) {
				if strings.HasPrefix(el, "Bytes(bigU(") {
					uses["log topic"] = strings.TrimSuffix(strings.TrimPrefix(el, "Bytes(bigU("), "))")
				}
			}
		}
	}
	for _, what := range []string{"metadata nonce", "return datum", "log topic"} {
		got, ok := uses[what]
		got = norm(got)
		wantV := next
		if what == "return datum" {
			wantV = want
		}
		switch {
		case !ok:
			c.Fail(rule, "violation", FuncName(r.Entry), what+" = read + 1", c.P.Pos(r.Entry.Pos()), "the created NFT's "+what+" could not be found")
		case got == wantV:
			c.OK(rule, FuncName(r.Entry), what+" = read + 1", c.P.Pos(r.Entry.Pos()), got)
		default:
			c.FailX(Oblig{Rule: rule, Func: FuncName(r.Entry), Construct: what + " = read + 1", Pos: c.P.Pos(r.Entry.Pos()), Kind: "violation",
				Detail: "the " + what + " is " + got + ", not the value persisted as the new counter (" + wantV + ")"})
		}
	}
}

// sliceLiteralElems: the terms of the elements of a slice literal (in index order of the stores found).
func sliceLiteralElems(e *Env, v ssa.Value) []string {
	if par, ok := v.(*ssa.Parameter); ok {
		// a (variadic) list handed down by the caller
		if a, pe := e.actual(par); a != nil {
			return sliceLiteralElems(pe, a)
		}
		return nil
	}
	sl, ok := v.(*ssa.Slice)
	if !ok {
		return nil
	}
	al, ok := sl.X.(*ssa.Alloc)
	if !ok {
		return nil
	}
	var out []string
	for _, r := range *al.Referrers() {
		if ia, ok := r.(*ssa.IndexAddr); ok {
			for _, rr := range *ia.Referrers() {
				if st, ok := rr.(*ssa.Store); ok {
					out = append(out, e.Term(st.Val))
				}
			}
		}
	}
	return out
}

// sliceLiteralElem: the term of the single element of a one-element slice literal.
func sliceLiteralElem(e *Env, v ssa.Value) string {
	sl, ok := v.(*ssa.Slice)
	if !ok {
		return e.Term(v)
	}
	al, ok := sl.X.(*ssa.Alloc)
	if !ok {
		return e.Term(v)
	}
	for _, r := range *al.Referrers() {
		if ia, ok := r.(*ssa.IndexAddr); ok {
			for _, rr := range *ia.Referrers() {
				if st, ok := rr.(*ssa.Store); ok {
					return e.Term(st.Val)
				}
			}
		}
	}
	return e.Term(v)
}

func c07r2(c *Ctx) { handOverRules(c, "C07-R2", "C07-R3") }

// handOverRules: the counter moves with the create role (shared by C07-R2/R3 and, as the freshness clause of creation, C02-R5).
func handOverRules(c *Ctx, rule, rule3 string) {
	c.Rule(rule, "hand-over: the counter moves with the role (old holder zeroed and stripped, value shipped / written to the new holder)", 7)
	c.Rule(rule3, "hand-over, next owner: counter from the message, role added", 2)
	r, ok := c.P.RegByName()["ESDTNFTCreateRoleTransfer"]
	if !ok || r.Entry == nil {
		c.Anchor(rule, "registration of ESDTNFTCreateRoleTransfer")
		return
	}
	x, _ := entryContext(r.Entry)
	roleStr, _ := c.P.ConstString("", "ESDTRoleNFTCreate")
	sites := nonceSites(c.P, r.Entry)
	// group by the function two levels below the entry (current-owner routine / next-owner routine)
	type group struct {
		fn     *ssa.Function
		env    *Env
		reads  []nonceSite
		writes []nonceSite
	}
	groups := map[*ssa.Function]*group{}
	for _, ns := range sites {
		y := ns.s.Env
		for y.Parent != nil && y.Parent.Parent != nil {
			y = y.Parent
		}
		if y.Parent == nil {
			continue
		}
		g := groups[y.Fn]
		if g == nil {
			g = &group{fn: y.Fn, env: y}
			groups[y.Fn] = g
		}
		if ns.write {
			g.writes = append(g.writes, ns)
		} else {
			g.reads = append(g.reads, ns)
		}
	}
	if len(groups) != 2 {
		c.Fail(rule, "anchor", FuncName(r.Entry), "current-owner and next-owner routines", c.P.Pos(r.Entry.Pos()), fmt.Sprintf("expected two routines touching the counter, found %d", len(groups)))
		return
	}
	for _, g := range groups {
		ge := g.env
		topCall := func(ns nonceSite) ssa.CallInstruction {
			var call ssa.CallInstruction = ns.s.In.(ssa.CallInstruction)
			for y := ns.s.Env; y != nil && y != ge && y.Parent != nil; y = y.Parent {
				call = y.Call
			}
			return call
		}
		cutsSuccessIn := func(env *Env, call ssa.CallInstruction) bool {
			pred := func(f Fact) bool { return !f.Lin && f.Pos && f.Call == call && strings.HasPrefix(f.Atom, "ok:") }
			for _, ret := range returnsOf(env.Fn) {
				if isSuccessReturn(ret) {
					if _, ok := env.CutAt(ret, pred, nil); !ok {
						return false
					}
				}
			}
			return true
		}
		cutsSuccess := func(call ssa.CallInstruction) bool { return cutsSuccessIn(ge, call) }
		// a role operation inside nested helpers lies on every successful path when each call of its chain does, in its own function
		chainCutsSuccess := func(rc roleCall) bool {
			for _, l := range rc.chain {
				if !cutsSuccessIn(l.env, l.call.(ssa.CallInstruction)) {
					return false
				}
			}
			return true
		}
		// role-list writes in this routine: calls reaching SaveKeyValue under the role prefix, with the create-role constant involved
		roleOps := roleCalls(c.P, ge, roleStr)
		if len(g.reads) >= 1 {
			// ---- current owner: the routine that reads the stored counter (the next owner takes it from the message)
			rd := g.reads[0]
			rc := topCall(rd)
			pos := c.P.InstrPos(rc)
			// what a read hands to the routine: the result of the call that performs it, at any level of its chain
			// (getLatestNonce called here, or inside a helper of the routine)
			chainOf := func(ns nonceSite) []callLevel {
				var ch []callLevel
				var call ssa.CallInstruction = ns.s.In.(ssa.CallInstruction)
				for y := ns.s.Env; y != nil; y = y.Parent {
					ch = append([]callLevel{{y, call}}, ch...)
					if y == ge || y.Parent == nil {
						break
					}
					call = y.Call
				}
				return ch
			}
			// mayFollow: b can execute after a (decided at the first level at which their call chains part)
			mayFollow := func(a, b nonceSite) bool {
				ca, cb := chainOf(a), chainOf(b)
				for i := 0; i < len(ca) && i < len(cb); i++ {
					if ca[i].env.Fn != cb[i].env.Fn {
						return true
					}
					if ca[i].call != cb[i].call {
						return instrReaches(ca[i].env.Fn, ca[i].call, cb[i].call, nil)
					}
				}
				return true
			}
			readTerms := map[string]nonceSite{}
			for _, r := range g.reads {
				counterReadNotFailSoft(c, rule, r, "hand-over")
				for _, l := range chainOf(r) {
					if v, ok := l.call.(ssa.Value); ok {
						readTerms["Bytes(bigU("+l.env.Term(v)+"#0))"] = r
					}
				}
				rpos := c.P.InstrPos(topCall(r))
				if r.acct == x.dst && r.token == x.arg(0) {
					c.OK(rule, FuncName(g.fn), "current owner: counter read from the holder under Arguments[0]", rpos, r.acct)
				} else {
					c.Fail(rule, "violation", FuncName(g.fn), "current owner: counter read from the holder under Arguments[0]", rpos, "read ("+r.acct+", "+r.token+")")
				}
			}
			// a read that can run after the reset sees the 0 that was just written, not the counter
			staleRead := func(r nonceSite) (string, bool) {
				for _, w := range g.writes {
					if w.acct == x.dst && w.token == r.token && w.val == "Bytes(bigU(0))" && mayFollow(w, r) {
						return c.P.InstrPos(w.s.In), true
					}
				}
				return "", false
			}
			zeroed, moved := false, false
			var zeroChains [][]callLevel
			for _, w := range g.writes {
				switch {
				case w.acct == x.dst && w.token == rd.token && (w.val == "Bytes(bigU(0))"):
					zeroChains = append(zeroChains, chainOf(w))
				case w.acct != x.dst && w.token == rd.token:
					if r, ok := readTerms[w.val]; ok {
						if at, stale := staleRead(r); stale {
							c.Fail(rule, "violation", FuncName(g.fn), "current owner: new holder receives the counter read", c.P.InstrPos(w.s.In), "the value written to the new holder is read after the old holder's counter was reset (at "+at+"): the new holder restarts at 0")
						} else {
							moved = true
						}
					} else {
						c.Fail(rule, "violation", FuncName(g.fn), "current owner: new holder receives the counter read", c.P.InstrPos(w.s.In), "the new holder's counter is set to "+w.val+", not the value read from the old holder")
					}
				}
			}
			// the resets may sit in different branches (one per kind of next owner): together they lie on every successful path
			zeroed = len(zeroChains) > 0 && passesOneOf(ge, 0, zeroChains, nil)
			if zeroed {
				c.OK(rule, FuncName(g.fn), "current owner: old counter overwritten with 0 on every successful path", pos, "write of constant 0 cuts every success return")
			} else {
				c.Fail(rule, "violation", FuncName(g.fn), "current owner: old counter overwritten with 0 on every successful path", pos, "the old holder keeps a live counter after handing the role over: two accounts can issue the same nonce")
			}
			if moved {
				c.OK(rule, FuncName(g.fn), "current owner: new holder receives the counter read", pos, "the value of a read that precedes the reset")
			} else {
				c.Fail(rule, "violation", FuncName(g.fn), "current owner: new holder receives the counter read", pos, "on the same shard the new holder's counter is not written with the value read")
			}
			// role removed from the old holder on every successful path; added to the new one
			removed, added := false, false
			var removeChains [][]callLevel
			for _, rcall := range roleOps {
				switch {
				case rcall.acct == x.dst && rcall.deletes:
					if rcall.removalSaved {
						removeChains = append(removeChains, rcall.chain)
					}
				case rcall.acct != x.dst && rcall.adds:
					added = true
				}
			}
			removed = len(removeChains) > 0 && passesOneOf(ge, 0, removeChains, nil)
			if removed {
				c.OK(rule, FuncName(g.fn), "current owner: create role removed from the old holder on every successful path", pos, "role removal cuts every success return")
			} else {
				c.Fail(rule, "violation", FuncName(g.fn), "current owner: create role removed from the old holder on every successful path", pos, "the old holder keeps the create role")
			}
			if added {
				c.OK(rule, FuncName(g.fn), "current owner: create role added to the new holder (same shard)", pos, "role added")
			} else {
				c.Fail(rule, "violation", FuncName(g.fn), "current owner: create role added to the new holder (same shard)", pos, "the new holder gets the counter but not the role")
			}
			// on the same shard the install is not optional: with the new holder in this shard every successful path has passed
			// the counter write and the role addition (by then the old holder is zeroed and stripped; nothing else delivers them)
			var sameShard []Fact
			findSameShard := func(env *Env) {
				for _, fs := range env.EdgeFacts() {
					for _, f := range fs {
						if f.Pos && len(f.Or) == 0 && len(sameShard) == 0 && strings.HasPrefix(f.Key(), "B:zero(") && strings.Contains(f.Key(), "Coordinator.ComputeId(") && strings.Contains(f.Key(), "Coordinator.SelfId(") {
							sameShard = []Fact{f}
						}
					}
				}
			}
			findSameShard(ge)
			for _, rcall := range roleOps {
				for _, l := range rcall.chain {
					findSameShard(l.env)
				}
			}
			if moved && added && len(sameShard) > 0 {
				// at every level of the chain that leads to the operation: given the same shard, the call cuts every success return
				cutUnderIn := func(env *Env, call ssa.CallInstruction) bool {
					pred := func(f Fact) bool { return !f.Lin && f.Pos && f.Call == call && strings.HasPrefix(f.Atom, "ok:") }
					for _, ret := range returnsOf(env.Fn) {
						if !isSuccessReturn(ret) || env.unreachableUnder(ret.Block(), sameShard) {
							continue
						}
						if _, ok := env.CutAt(ret, pred, sameShard); !ok {
							return false
						}
					}
					return true
				}
				okAll, what := true, ""
				for _, w := range g.writes {
					if w.acct != x.dst && w.token == rd.token {
						var call ssa.CallInstruction = w.s.In.(ssa.CallInstruction)
						for y := w.s.Env; y != nil; y = y.Parent {
							if !cutUnderIn(y, call) {
								okAll, what = false, "the counter write"
							}
							if y == ge || y.Parent == nil {
								break
							}
							call = y.Call
						}
					}
				}
				for _, rcall := range roleOps {
					if rcall.acct != x.dst && rcall.adds {
						for _, l := range rcall.chain {
							if !cutUnderIn(l.env, l.call.(ssa.CallInstruction)) {
								okAll, what = false, "the role addition"
							}
						}
					}
				}
				construct := "current owner: same-shard install on every successful path"
				if okAll {
					c.OK(rule, FuncName(g.fn), construct, pos, "given "+sameShard[0].Key()+", counter write and role addition cut every success return")
				} else {
					c.FailX(Oblig{Rule: rule, Func: FuncName(g.fn), Construct: construct, Pos: pos, Kind: "violation",
						Detail:   "with the new holder in the same shard the hand-over can succeed without " + what + ": the old holder is already zeroed and stripped, so the role and the counter are lost (or the new holder restarts at 0)",
						Expected: "counter write and role addition on every successful same-shard path"})
				}
			}
			// the message ships token and counter
			shipped := false
			isData := func(in ssa.Instruction) (string, bool) {
				if st, ok := in.(*ssa.Store); ok {
					if fa, ok := st.Addr.(*ssa.FieldAddr); ok && isFieldOf(fa, "OutputTransfer", "Data") {
						return "Data", true
					}
				}
				return "", false
			}
			// the message is built here or in a helper below
			for _, ms := range c.P.EffectSitesBelow(ge, "otdata", isData) {
				st := ms.In.(*ssa.Store)
				var hexArgs []string
				collectHexArgs(ms.Env, st.Val, &hexArgs, 0)
				construct := "current owner: message carries (token, counter read)"
				shipRead, isRead := nonceSite{}, false
				if len(hexArgs) == 2 {
					shipRead, isRead = readTerms[hexArgs[1]]
				}
				if at, stale := staleRead(shipRead); isRead && hexArgs[0] == rd.token && stale {
					shipped = true
					c.FailX(Oblig{Rule: rule, Func: FuncName(g.fn), Construct: construct, Pos: c.P.InstrPos(st), Kind: "violation",
						Detail: "the counter put into the hand-over message is read after the old holder's counter was reset (at " + at + "): the message carries 0 and the new holder restarts below nonces already issued"})
				} else if isRead && hexArgs[0] == rd.token {
					shipped = true
					c.OK(rule, FuncName(g.fn), construct, c.P.InstrPos(st), strings.Join(hexArgs, ", "))
				} else {
					c.FailX(Oblig{Rule: rule, Func: FuncName(g.fn), Construct: construct, Pos: c.P.InstrPos(st), Kind: "violation",
						Detail: "the hand-over message ships (" + strings.Join(hexArgs, ", ") + "), not the token and the counter read from the old holder: the new holder restarts below nonces already issued"})
				}
			}
			if !shipped {
				c.Fail(rule, "violation", FuncName(g.fn), "current owner: message emitted", pos, "no hand-over message carrying the counter is built")
			}
		} else {
			// ---- next owner: counter <- Arguments[1]; role added
			want := "Bytes(bigU(Uint64(bigBytes(" + x.arg(1) + "))))"
			good := len(g.writes) == 1 && g.writes[0].acct == x.dst && g.writes[0].token == x.arg(0) && g.writes[0].val == want
			pos := c.P.Pos(g.fn.Pos())
			if good && cutsSuccess(topCall(g.writes[0])) {
				c.OK(rule3, FuncName(g.fn), "next owner: counter set from the message", pos, want)
			} else {
				got := "?"
				if len(g.writes) > 0 {
					got = g.writes[0].val
				}
				c.Fail(rule3, "violation", FuncName(g.fn), "next owner: counter set from the message", pos, "the new holder's counter is "+got+", expected the number decoded from Arguments[1] written on every successful path")
			}
			added := false
			for _, rcall := range roleOps {
				if rcall.acct == x.dst && rcall.adds && chainCutsSuccess(rcall) {
					added = true
				}
			}
			if added {
				c.OK(rule3, FuncName(g.fn), "next owner: create role added on every successful path", pos, "role added")
			} else {
				c.Fail(rule3, "violation", FuncName(g.fn), "next owner: create role added on every successful path", pos, "the next owner receives the counter but not the create role")
			}
		}
	}
}

// passesOneOf: every successful return of the routine (level 0 of the chains) has passed one of the operations, each given
// with the calls that lead from the routine down to it: at every level the call lies on every successful path of its function.
func passesOneOf(env *Env, level int, chains [][]callLevel, assume []Fact) bool {
	groups := map[ssa.Instruction][][]callLevel{}
	var order []ssa.Instruction
	for _, ch := range chains {
		if level >= len(ch) || ch[level].env.Fn != env.Fn {
			continue
		}
		if _, seen := groups[ch[level].call]; !seen {
			order = append(order, ch[level].call)
		}
		groups[ch[level].call] = append(groups[ch[level].call], ch)
	}
	var good []ssa.Instruction
	for _, call := range order {
		leaf := false
		var deeper [][]callLevel
		for _, ch := range groups[call] {
			if len(ch) == level+1 {
				leaf = true
			} else {
				deeper = append(deeper, ch)
			}
		}
		if leaf || (len(deeper) > 0 && passesOneOf(deeper[0][level+1].env, level+1, deeper, assume)) {
			good = append(good, call)
		}
	}
	return len(good) > 0 && passesAnyUnder(env, good, assume) == ""
}

type roleCall struct {
	call    ssa.CallInstruction
	acct    string
	deletes bool
	adds    bool
	// for a removal: the shortened list is written back on every successful path of the removing routine
	removalSaved bool
	chain        []callLevel // the calls leading from the routine down to the role operation, outermost first
}

type callLevel struct {
	env  *Env
	call ssa.Instruction // the call that leads one level down; at the last level the operation itself
}

// roleCalls: calls in env's function whose callee rewrites a role list (reaches SaveKeyValue) and deletes resp. appends the given role constant.
func roleCalls(p *Prog, e *Env, role string) []roleCall {
	return roleCallsRec(p, e, role, nil, 0)
}

func roleCallsRec(p *Prog, e *Env, role string, above []callLevel, depth int) []roleCall {
	var out []roleCall
	q := fmt.Sprintf("%q", role)
	for _, b := range e.Fn.Blocks {
		for _, in := range b.Instrs {
			call, ok := in.(*ssa.Call)
			if !ok {
				continue
			}
			sc := call.Call.StaticCallee()
			if sc == nil || len(sc.Blocks) == 0 || PkgOf(sc) != "builtInFunctions" {
				continue
			}
			var acct string
			for _, a := range call.Call.Args {
				if strings.HasSuffix(a.Type().String(), modPath+".UserAccountHandler") {
					acct = e.Term(a)
				}
			}
			sub := e.Sub(call, sc)
			chain := append(append([]callLevel{}, above...), callLevel{e, call})
			if acct == "" {
				// a helper that obtains the account itself (extracted routine): look inside
				if depth < 3 && reachesInvoke(p, sc, "AccountDataHandler.SaveKeyValue", 0) {
					out = append(out, roleCallsRec(p, sub, role, chain, depth+1)...)
				}
				continue
			}
			// the deepest level at which a call both performs the operation and saves the list names the account: a helper that is
			// handed one account may load another one and change that one's list
			if depth < 3 {
				if deeper := roleCallsRec(p, sub, role, chain, depth+1); len(deeper) > 0 {
					out = append(out, deeper...)
					continue
				}
			}
			rc := roleCall{call: call, acct: acct, chain: chain}
			// what happens in the routine and below it (helpers, function literals handed to a generic load-modify-save helper)
			info := roleOpsBelow(p, sub, q, 0)
			rc.adds, rc.deletes, rc.removalSaved = info.adds, info.deletes, info.deletes && info.removalSaved
			savesRoles := info.saves
			if savesRoles && (rc.adds || rc.deletes) {
				out = append(out, rc)
			} else if depth < 3 && reachesInvoke(p, sc, "AccountDataHandler.SaveKeyValue", 0) {
				out = append(out, roleCallsRec(p, sub, role, chain, depth+1)...)
			}
		}
	}
	return out
}

type roleOpInfo struct {
	adds, deletes, saves bool
	removalSaved         bool // after the removal no success return (of the function that contains it, and of every caller up to the routine) is reachable without a storage write
}

// roleOpsBelow: does env's function, or anything it calls (helpers, function literals), append the role to a role list,
// remove it from one, write storage — and is a removal always followed by a write.
func roleOpsBelow(p *Prog, env *Env, q string, depth int) roleOpInfo {
	var info roleOpInfo
	if depth > 4 {
		return info
	}
	fn := env.Fn
	removers := map[ssa.Instruction]bool{} // calls that remove (here or below) and are not known to save below
	savers := map[ssa.Instruction]bool{}
	savedBelow := true
	for _, bb := range fn.Blocks {
		for _, i2 := range bb.Instrs {
			c2, ok := i2.(*ssa.Call)
			if !ok {
				continue
			}
			if bi, ok := c2.Call.Value.(*ssa.Builtin); ok {
				if bi.Name() == "append" && strings.HasSuffix(env.Term(c2.Call.Args[0]), ".Roles") && strings.Contains(appendedElems(env, c2.Call.Args[1]), q) {
					info.adds = true
				}
				continue
			}
			if InvokeName(c2) == "AccountDataHandler.SaveKeyValue" {
				info.saves = true
				savers[i2] = true
				continue
			}
			var callees []*ssa.Function
			if sc := env.singleCallee(c2); sc != nil {
				callees = []*ssa.Function{sc}
			}
			for _, s2 := range callees {
				if len(s2.Blocks) == 0 || s2.Pkg == nil || !strings.HasPrefix(s2.Pkg.Pkg.Path(), modPath) {
					continue
				}
				if isRoleRemover(s2) && strings.Contains(env.termList(c2.Call.Args)+appendedElemsAll(env, c2.Call.Args), q) {
					info.deletes = true
					removers[i2] = true
					continue
				}
				below := roleOpsBelow(p, env.Sub(c2, s2), q, depth+1)
				if below.adds {
					info.adds = true
				}
				if below.saves {
					info.saves = true
					savers[i2] = true
				}
				if below.deletes {
					info.deletes = true
					if below.saves && below.removalSaved {
						// removed and written inside: nothing more to ask here
					} else {
						removers[i2] = true
						if below.saves && !below.removalSaved {
							savedBelow = false
						}
					}
				}
			}
		}
	}
	info.removalSaved = info.deletes && savedBelow
	if len(removers) > 0 {
		cut := errorEdgesOfFn(fn)
		for ed, fs := range env.EdgeFacts() {
			for _, f := range fs {
				if f.Lin && f.LE.isConst() && f.LE.k < 0 {
					cut[ed] = true // not taken in this calling context (e.g. the literal constantly returns "must save")
				}
			}
		}
		for rm := range removers {
			barriers := map[ssa.Instruction]bool{}
			for sv := range savers {
				if sv != rm {
					barriers[sv] = true
				}
			}
			if len(barriers) == 0 {
				info.removalSaved = false
			}
			for _, r3 := range returnsOf(fn) {
				if !isSuccessReturn(r3) && lastIsError(fn) {
					continue
				}
				if reachesAvoiding(fn, rm, r3, barriers, cut) {
					if lastIsError(fn) {
						ec := errCallOf(retval(r3, len(r3.Results)-1))
						if ec != nil && barriers[ssa.Instruction(ec)] {
							continue // `return save(…)`
						}
					}
					info.removalSaved = false
				}
			}
		}
	}
	return info
}

// isRoleRemover: a module function that shrinks a role list (stores a re-slice into the Roles field of an ESDTRoles).
func isRoleRemover(fn *ssa.Function) bool { return isRoleRemoverRec(fn, 0) }

func isRoleRemoverRec(fn *ssa.Function, depth int) bool {
	for _, b := range fn.Blocks {
		for _, in := range b.Instrs {
			// the removal itself extracted into a helper that is handed the list (`removeRoleAtIndex(roles, index)`)
			if call, ok := in.(*ssa.Call); ok && depth < 2 {
				if sc := call.Call.StaticCallee(); sc != nil && len(sc.Blocks) > 0 && sc != fn && sc.Pkg != nil && strings.HasPrefix(sc.Pkg.Pkg.Path(), modPath) {
					for _, a := range call.Call.Args {
						if strings.HasSuffix(a.Type().String(), "esdt.ESDTRoles") && isRoleRemoverRec(sc, depth+1) {
							return true
						}
					}
				}
			}
			if st, ok := in.(*ssa.Store); ok {
				if fa, ok := st.Addr.(*ssa.FieldAddr); ok && isFieldOf(fa, "esdt.ESDTRoles", "Roles") {
					if rootedAtReslice(st.Val, map[ssa.Value]bool{}) {
						return true
					}
				}
			}
		}
	}
	return false
}

// rootedAtReslice: the stored list is a re-slice, or is grown from one (`kept := xs[:0]; for … { kept = append(kept, x) }`): the
// filter idiom that rebuilds the list in place.
func rootedAtReslice(v ssa.Value, seen map[ssa.Value]bool) bool {
	if seen[v] {
		return false
	}
	seen[v] = true
	switch x := v.(type) {
	case *ssa.Slice:
		return true
	case *ssa.Phi:
		for _, ed := range x.Edges {
			if rootedAtReslice(ed, seen) {
				return true
			}
		}
	case *ssa.Call:
		if bi, ok := x.Call.Value.(*ssa.Builtin); ok && bi.Name() == "append" {
			return rootedAtReslice(x.Call.Args[0], seen)
		}
		// a helper that is handed the list and a position and returns the shortened list (`removeRoleAtIndex(list, i)`):
		// some return of it is a re-slice of its own list parameter
		if sc := x.Call.StaticCallee(); sc != nil && len(sc.Blocks) > 0 && sc.Pkg != nil && strings.HasPrefix(sc.Pkg.Pkg.Path(), modPath) && x.Call.Signature().Results().Len() == 1 {
			takesList := false
			for _, a := range x.Call.Args {
				if _, isSlice := a.Type().Underlying().(*types.Slice); isSlice {
					takesList = true
				}
			}
			if takesList {
				for _, r := range returnsOf(sc) {
					if len(r.Results) == 1 {
						if sl, ok := retval(r, 0).(*ssa.Slice); ok {
							if _, isPar := sl.X.(*ssa.Parameter); isPar && sl.High != nil {
								return true
							}
						}
					}
				}
			}
		}
	}
	return false
}

func appendedElemsAll(e *Env, args []ssa.Value) string {
	s := ""
	for _, a := range args {
		s += appendedElems(e, a)
	}
	return s
}

// appendedElems renders the elements of a slice literal (terms joined).
func appendedElems(e *Env, v ssa.Value) string {
	sl, ok := v.(*ssa.Slice)
	if !ok {
		return e.Term(v)
	}
	al, ok := sl.X.(*ssa.Alloc)
	if !ok {
		return e.Term(v)
	}
	var out []string
	for _, r := range *al.Referrers() {
		if ia, ok := r.(*ssa.IndexAddr); ok {
			for _, rr := range *ia.Referrers() {
				if st, ok := rr.(*ssa.Store); ok {
					out = append(out, e.Term(st.Val))
				}
			}
		}
	}
	return strings.Join(out, ",")
}

func reachesInvoke(p *Prog, fn *ssa.Function, invoke string, depth int) bool {
	if depth > 4 || len(fn.Blocks) == 0 {
		return false
	}
	for _, b := range fn.Blocks {
		for _, in := range b.Instrs {
			if ci, ok := in.(ssa.CallInstruction); ok {
				if InvokeName(ci) == invoke {
					return true
				}
				for _, callee := range p.Callees(ci) {
					if callee != fn && reachesInvoke(p, callee, invoke, depth+1) {
						return true
					}
				}
			}
		}
	}
	return false
}

// collectHexArgs: the arguments of the hex.EncodeToString calls in a flattened data string, in order.
func collectHexArgs(e *Env, v ssa.Value, out *[]string, depth int) {
	if depth > 10 {
		return
	}
	switch x := v.(type) {
	case *ssa.Convert:
		collectHexArgs(e, x.X, out, depth+1)
	case *ssa.BinOp:
		collectHexArgs(e, x.X, out, depth+1)
		collectHexArgs(e, x.Y, out, depth+1)
	case *ssa.Call:
		switch CalleeName(x) {
		case "encoding/hex.EncodeToString":
			arg := x.Call.Args[0]
			// the element of a literal list that a loop walks: one argument per element, in order
			if ld, ok := arg.(*ssa.UnOp); ok && ld.Op == token.MUL {
				if ia, ok := ld.X.(*ssa.IndexAddr); ok {
					if _, isConst := ia.Index.(*ssa.Const); !isConst {
						if els := sliceLiteralElems(e, ia.X); len(els) > 0 {
							*out = append(*out, els...)
							return
						}
					}
				}
			}
			*out = append(*out, e.Term(arg))
		case "(*bytes.Buffer).Bytes", "(*bytes.Buffer).String", "(*strings.Builder).String":
			// a local buffer: the arguments written into it, in program order
			al, ok := x.Call.Args[0].(*ssa.Alloc)
			if !ok || al.Referrers() == nil {
				return
			}
			var ws []*ssa.Call
			for _, ref := range *al.Referrers() {
				if wc, ok := ref.(*ssa.Call); ok && len(wc.Call.Args) == 2 && wc.Call.Args[0] == ssa.Value(al) {
					if n := CalleeName(wc); strings.HasSuffix(n, ".WriteString") || strings.HasSuffix(n, ".Write") {
						ws = append(ws, wc)
					}
				}
			}
			sort.Slice(ws, func(i, j int) bool {
				if ws[i].Block().Index != ws[j].Block().Index {
					return ws[i].Block().Index < ws[j].Block().Index
				}
				return indexIn(ws[i]) < indexIn(ws[j])
			})
			for _, wc := range ws {
				collectHexArgs(e, wc.Call.Args[1], out, depth+1)
			}
		}
	}
}

// c07r4: "single creator": ESDTNFTCreate is cut by the create-role check (and, for quantity > 1, the add-quantity check does
// not replace it) — C03-R1's obligations for the create function.
func c07r4(c *Ctx) {
	c.shareRule(c03r1, "C03-R1", "C07-R4", "every effect of ESDTNFTCreate is cut by the create-role check on the sender", func(o Oblig) bool {
		return strings.HasPrefix(o.Construct, "ESDTNFTCreate") || strings.Contains(o.Func, "esdtNFTCreate)")
	})
}

// c07r5: the counter has exactly two kinds of writers — the create function (read + 1) and the role hand-over (reset at
// the old holder, install at the new one). Any other built-in function that stores under ELRONDnonce‖token (a role
// removal that "tidies up" the entry, a wipe, a burn of the last piece) lowers the counter below a nonce already issued:
// when the role comes back, issued nonces are issued again.
func c07r5(c *Ctx) {
	const rule = "C07-R5"
	c.Rule(rule, "the nonce counter is written only below ESDTNFTCreate and ESDTNFTCreateRoleTransfer", 1)
	allowed := map[string]bool{"ESDTNFTCreate": true, "ESDTNFTCreateRoleTransfer": true}
	n := 0
	for _, r := range c.P.Registrations() {
		if r.Entry == nil {
			continue
		}
		seen := map[string]int{}
		for _, ns := range nonceSites(c.P, r.Entry) {
			if !ns.write {
				continue
			}
			n++
			construct := r.Key + ": write of the counter of " + ns.token + " in " + ns.s.Chain()
			seen[construct]++
			if k := seen[construct]; k > 1 {
				construct += fmt.Sprintf(" #%d", k)
			}
			if allowed[r.Key] {
				c.OK(rule, FuncName(ns.s.In.Parent()), construct, c.P.InstrPos(ns.s.In), "one of the two functions that own the counter")
			} else {
				c.FailX(Oblig{Rule: rule, Func: FuncName(ns.s.In.Parent()), Construct: construct, Pos: c.P.InstrPos(ns.s.In), Kind: "violation",
					Detail:   r.Key + " stores " + ns.val + " under the nonce-counter key of " + ns.acct + ": the record of the highest nonce issued is changed by a function that neither creates nor hands the create role over — a later create continues below nonces already issued",
					Expected: "the counter entry is written only by ESDTNFTCreate (previous + 1) and ESDTNFTCreateRoleTransfer (reset / install)"})
			}
		}
	}
	if n == 0 {
		c.Anchor(rule, "a write under the nonce-counter key below an entry point")
	}
}

// c07r6: the counter is read with the codec it is written with (shared with C15-R2 on the counter key).
func c07r6(c *Ctx) {
	c.shareRule(c15r2, "C15-R2", "C07-R6", "the nonce counter is read with the codec it is written with", func(o Oblig) bool {
		return strings.Contains(o.Construct, "nonce key") || o.Kind == "anchor"
	})
}

// c07r7: "the old holder loses both": a role handed over twice must not be stored twice (the remover takes one occurrence
// out; a second one left behind keeps creating from a zeroed counter) — shared with C15-R5: the create role is appended only
// after a search of the whole list found none.
func c07r7(c *Ctx) {
	c.shareRule(c15r5, "C15-R5", "C07-R7", "the create role is added only after a search of the whole role list found none (no duplicate survives a later removal)", nil)
}
