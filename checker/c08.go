package main

// C08 — NFT metadata travels intact with the tokens (structural clauses).

import (
	"fmt"
	"go/types"
	"sort"
	"strings"

	"golang.org/x/tools/go/ssa"
)

func init() {
	register(&Property{
		ID:    "C08",
		Level: "other",
		Explanation: "R1 (who may write metadata): below each registered entry point, stores into a token entry or its metadata that is not freshly built are allowed only as: ESDTNFTAddURI -> URIs := append(same URIs, Arguments[2:]…), ESDTNFTUpdateAttributes -> " +
			"Attributes := Arguments[2], ESDTFreeze/UnFreeze -> Properties; freshly built entries may set only Value and a constant Type (the empty default) except in ESDTNFTCreate. No transfer routine writes any metadata field. R2 (the whole entry moves): the object " +
			"handed to the marshaller for a credit or a shipment is the entry read from the sender resp. decoded from the payload — never the destination's current entry or a fresh literal. R3 (hash check): each NFT credit is cut by {current entry has no " +
			"metadata, Equal(current.Hash, incoming.Hash)}. R4 (creation bindings): the created literal binds Name<-A[2], Creator<-CallerAddr, Royalties<-r, Hash<-A[4], Attributes<-A[5], URIs<-A[6:], with r the number decoded from A[3], and its save is cut by " +
			"not(r > MaxRoyalty). R5 (one entry per nonce): below the NFT functions every balance-class key is prefix‖token‖Bytes(nonce) (shared with C05-R3). R2 also: a credit that saves the destination's own entry back under a key with a nonce part must first take the arriving TokenMetaData over (equal hashes do not mean equal URIs / attributes). Does NOT decide: byte equality across a protobuf hop (C14's tables), chains of transfers as executions.",
		Trusted: []string{"A-deps (the marshaller does not alter the entry)", "T-REG names"},
		Rules:   []func(*Ctx){c08r1, c08r2, c08r4, c08r5, c08r6},
	})
}

// c08r5: one entry per (token, nonce): every NFT entry is stored under prefix‖token‖canonical bytes of the nonce (math/big's
// Bytes of the number — injective), so two nonces never share a key and a create or a credit never lands on another NFT's
// metadata (shared with C05-R3: a hand-rolled nonce suffix that is not injective merges entries).
func c08r5(c *Ctx) {
	c.shareRule(c05r3, "C05-R3", "C08-R5", "an NFT entry is stored under prefix‖token‖canonical nonce bytes: two nonces never share a key", func(o Oblig) bool {
		return strings.Contains(o.Construct, "NFT") || o.Kind == "anchor"
	})
}

func entryOrMetaField(fa *ssa.FieldAddr) (string, string, bool) {
	t := fa.X.Type()
	if p, ok := t.Underlying().(*types.Pointer); ok {
		t = p.Elem()
	}
	ts := t.String()
	switch {
	case strings.HasSuffix(ts, "data/esdt.MetaData"):
		return "MetaData", fieldName(fa.X.Type(), fa.Field), true
	case strings.HasSuffix(ts, "data/esdt.ESDigitalToken"):
		return "ESDigitalToken", fieldName(fa.X.Type(), fa.Field), true
	}
	return "", "", false
}

func c08r1(c *Ctx) {
	const rule = "C08-R1"
	c.Rule(rule, "metadata and entry fields are written only by create, add-URI (append), update-attributes (replace) and the freeze toggles", 25)
	isStore := func(in ssa.Instruction) (string, bool) {
		if st, ok := in.(*ssa.Store); ok {
			if fa, ok := st.Addr.(*ssa.FieldAddr); ok {
				if ty, f, ok := entryOrMetaField(fa); ok {
					return ty + "." + f, true
				}
			}
		}
		return "", false
	}
	for _, r := range c.P.Registrations() {
		if r.Entry == nil {
			continue
		}
		x, _ := entryContext(r.Entry)
		seen := map[string]int{}
		n := 0
		var changeChains [][]callLevel // the stores that perform the function's own change (append of the URIs / replacement of the attributes)
		for _, s := range c.P.EffectSites(r.Entry, "metastore", isStore) {
			st := s.In.(*ssa.Store)
			fa := st.Addr.(*ssa.FieldAddr)
			_, fresh := fa.X.(*ssa.Alloc)
			val := s.Env.Term(st.Val)
			construct := r.Key + ": " + s.Name + " = " + val + " in " + s.Chain()
			seen[construct]++
			if k := seen[construct]; k > 1 {
				construct += fmt.Sprintf(" #%d", k)
			}
			n++
			pos := c.P.InstrPos(st)
			fnn := FuncName(st.Parent())
			ok, why := false, ""
			switch {
			case fresh && r.Key == "ESDTNFTCreate" && (st.Parent() == r.Entry || onlyBelow(c.P, st.Parent(), r)):
				ok, why = true, "the created entry (bindings: R4)"
			case fresh && (s.Name == "ESDigitalToken.Value" || s.Name == "ESDigitalToken.Type"):
				if s.Name == "ESDigitalToken.Type" {
					_, isConst := st.Val.(*ssa.Const)
					ok, why = isConst, "default entry literal (constant type)"
				} else {
					ok, why = true, "default entry literal"
				}
			case fresh:
				why = "a freshly built entry outside ESDTNFTCreate sets " + s.Name
			case s.Name == "MetaData.URIs" && r.Key == "ESDTNFTAddURI":
				want := "append(" + "*" + s.Env.Term(fa) + ", " + x.args() + "[2:])"
				got := renderAppend(s.Env, st.Val)
				ok, why = got == want, "URIs := "+got
			case s.Name == "MetaData.Attributes" && r.Key == "ESDTNFTUpdateAttributes":
				ok, why = val == x.arg(2), "Attributes := "+val
			case s.Name == "ESDigitalToken.Properties" && (r.Key == "ESDTFreeze" || r.Key == "ESDTUnFreeze" || r.Key == "ESDTWipe"):
				ok, why = true, "freeze flag bytes (shared freeze/wipe type)"
			default:
				why = r.Key + " rewrites " + s.Name + " of a stored or transferred entry"
			}
			if ok {
				c.OK(rule, fnn, construct, pos, why)
				if (s.Name == "MetaData.URIs" && r.Key == "ESDTNFTAddURI") || (s.Name == "MetaData.Attributes" && r.Key == "ESDTNFTUpdateAttributes") {
					var ch []callLevel
					var at ssa.Instruction = st
					for y := s.Env; y != nil; y = y.Parent {
						ch = append([]callLevel{{y, at}}, ch...)
						if y.Parent == nil || y.Call == nil {
							break
						}
						at = y.Call.(ssa.Instruction)
					}
					changeChains = append(changeChains, ch)
				}
			} else {
				c.FailX(Oblig{Rule: rule, Func: fnn, Construct: construct, Pos: pos, Kind: "violation",
					Detail: "metadata does not travel intact: " + why, Expected: "only create / add-URI (append the given URIs) / update-attributes (replace by the given attributes) / freeze toggles write these fields"})
			}
		}
		// the change is not optional: a call that succeeds has appended the given URIs / replaced the attributes by the given
		// ones, whatever they are (empty attributes are attributes) — at every call level, given what is known of the arguments
		if r.Key == "ESDTNFTAddURI" || r.Key == "ESDTNFTUpdateAttributes" {
			what := map[string]string{"ESDTNFTAddURI": "the given URIs are appended", "ESDTNFTUpdateAttributes": "the attributes are replaced by the given ones"}[r.Key]
			construct := r.Key + ": " + what + " on every successful path"
			ee := c.P.Env(r.Entry)
			var assume []Fact
			for _, ch := range changeChains {
				if len(ch) > 0 {
					for _, f := range ee.LinFactsAt(ch[0].call, nil) {
						if f.Lin && strings.Contains(f.Key(), "len(") {
							assume = append(assume, f)
						}
					}
					break
				}
			}
			switch {
			case len(changeChains) == 0:
				c.FailX(Oblig{Rule: rule, Func: FuncName(r.Entry), Construct: construct, Pos: c.P.Pos(r.Entry.Pos()), Kind: "violation",
					Detail: "nothing below " + r.Key + " performs the change the function exists for"})
			case passesOneOf(ee, 0, changeChains, assume):
				c.OK(rule, FuncName(r.Entry), construct, c.P.Pos(r.Entry.Pos()), "the store lies on every path to a successful return, at every call level")
			default:
				c.FailX(Oblig{Rule: rule, Func: FuncName(r.Entry), Construct: construct, Pos: c.P.Pos(r.Entry.Pos()), Kind: "violation",
					Detail:   r.Key + " can succeed without having made its change: the store is skipped on some path (a test on the new value — its length, its difference from the old one — decides whether it is written), so a caller that passes such a value is told success while the entry keeps the old metadata",
					Expected: what + " unconditionally"})
			}
		}
		if n == 0 {
			c.Triv(rule, FuncName(r.Entry), r.Key+": no store to entry or metadata fields", c.P.Pos(r.Entry.Pos()), "nothing below the entry point writes them")
		}
	}
}

func renderAppend(e *Env, v ssa.Value) string {
	call, ok := v.(*ssa.Call)
	if !ok {
		return e.Term(v)
	}
	if bi, ok := call.Call.Value.(*ssa.Builtin); !ok || bi.Name() != "append" {
		return e.Term(v)
	}
	return "append(" + e.Term(call.Call.Args[0]) + ", " + e.Term(call.Call.Args[1]) + ")"
}

// marshalledObject: for SaveKeyValue(key, v) / append(args, v): the object that was marshalled into v. A value merged
// from "nil (delete)" and "Marshal(obj)" (single write at the end of a saver) is the marshalled obj.
// metadataTakenOver: before obj (an entry read from the destination) is handed on, its TokenMetaData field is assigned the
// TokenMetaData of an entry that was decoded from the message or read from the sender — in the function that holds obj, by a
// store that dominates every use of obj as a call argument after it.
func metadataTakenOver(e *Env, obj ssa.Value, snd string) (string, bool) {
	for par, ok := obj.(*ssa.Parameter); ok; par, ok = obj.(*ssa.Parameter) {
		a, pe := e.actual(par)
		if a == nil {
			return "", false
		}
		obj, e = a, pe
	}
	in, ok := obj.(ssa.Instruction)
	if !ok || obj.Referrers() == nil {
		return "", false
	}
	fn := in.Parent()
	for x := e; x != nil; x = x.Parent {
		if x.Fn == fn {
			e = x
			break
		}
	}
	for _, r := range *obj.Referrers() {
		fa, ok := r.(*ssa.FieldAddr)
		if !ok || fieldName(fa.X.Type(), fa.Field) != "TokenMetaData" || fa.Referrers() == nil {
			continue
		}
		for _, r2 := range *fa.Referrers() {
			st, ok := r2.(*ssa.Store)
			if !ok || st.Addr != ssa.Value(fa) {
				continue
			}
			ld, ok := st.Val.(*ssa.UnOp)
			if !ok {
				continue
			}
			sfa, ok := ld.X.(*ssa.FieldAddr)
			if !ok || fieldName(sfa.X.Type(), sfa.Field) != "TokenMetaData" {
				continue
			}
			org := entryOrigin(e, sfa.X, 0)
			if org != "decoded" && org != "read:"+snd {
				continue
			}
			// the store lies before every later hand-over of obj
			dominatesAll := true
			for _, u := range *obj.Referrers() {
				ci, isCall := u.(ssa.CallInstruction)
				if !isCall {
					continue
				}
				ub, sb := ci.Block(), st.Block()
				if ub == sb {
					if indexIn(st) > indexIn(ci) {
						dominatesAll = false
					}
				} else if !sb.Dominates(ub) {
					dominatesAll = false
				}
			}
			if dominatesAll {
				return "TokenMetaData <- that of the entry " + org, true
			}
		}
	}
	return "", false
}

func marshalledObject(v ssa.Value) ssa.Value {
	obj, _, _ := writeValue(v, 0)
	return obj
}

// writeValue classifies a value handed to a storage write: the marshalled object and the Marshal call when every non-nil
// way of producing the value is Marshal of one object, and whether the value may be nil (a delete).
func writeValue(v ssa.Value, depth int) (obj ssa.Value, mcall *ssa.Call, mayNil bool) {
	if depth > 4 {
		return nil, nil, false
	}
	if isNilConst(v) {
		return nil, nil, true
	}
	switch x := v.(type) {
	case *ssa.Extract:
		call, ok := x.Tuple.(*ssa.Call)
		if !ok || InvokeName(call) != "Marshalizer.Marshal" {
			return nil, nil, false
		}
		if mi, ok := call.Call.Args[0].(*ssa.MakeInterface); ok {
			return mi.X, call, false
		}
		return call.Call.Args[0], call, false
	case *ssa.Phi:
		for _, ed := range x.Edges {
			o, c, n := writeValue(ed, depth+1)
			if n {
				mayNil = true
			}
			if o == nil {
				if !n {
					return nil, nil, mayNil // some way of producing the value is neither nil nor a Marshal
				}
				continue
			}
			if obj != nil && obj != o {
				return nil, nil, mayNil
			}
			obj, mcall = o, c
		}
		return obj, mcall, mayNil
	}
	return nil, nil, false
}

// onlyDelete: the written value is the nil constant on every path.
func onlyDelete(v ssa.Value) bool {
	obj, _, mayNil := writeValue(v, 0)
	return obj == nil && mayNil && isNilOnly(v, 0)
}

func isNilOnly(v ssa.Value, depth int) bool {
	if isNilConst(v) {
		return true
	}
	if ph, ok := v.(*ssa.Phi); ok && depth < 4 {
		for _, ed := range ph.Edges {
			if !isNilOnly(ed, depth+1) {
				return false
			}
		}
		return true
	}
	return false
}

// c08r2 also implements R3 on the same credit sites.
func c08r2(c *Ctx) {
	const rule = "C08-R2"
	c.Rule(rule, "the entry marshalled for a credit or a shipment is the sender's (or the decoded) entry, not the destination's current one", 6)
	c.Rule("C08-R3", "an NFT credit is cut by {no metadata at the destination, equal hashes}", 4)
	bal := balancePrefix(c.P)
	regs := c.P.RegByName()
	for _, name := range []string{"ESDTNFTTransfer", "MultiESDTNFTTransfer"} {
		r, ok := regs[name]
		if !ok || r.Entry == nil {
			c.Anchor(rule, "registration of "+name)
			continue
		}
		x, _ := entryContext(r.Entry)
		seen := map[string]int{}
		for _, s := range c.P.EffectSites(r.Entry, "save", isBalanceSave(c.P)) {
			call := s.In.(ssa.CallInstruction)
			ks := keyShape(s.Env, call.Common().Args[0], 0)
			if ks == nil || ks.Prefix != bal || isNilConst(call.Common().Args[1]) {
				continue
			}
			acct := writtenAccount(call)
			origins := accountOrigin(s.Env, acct, 0)
			if len(origins) == 1 && origins[0] == "param:"+x.snd {
				continue
			}
			// resolve the marshalled object through the saver's parameters
			obj := marshalledObject(call.Common().Args[1])
			if obj == nil {
				continue
			}
			org := entryOrigin(s.Env, obj, 0)
			at := s.Env.Term(acct)
			construct := name + ": credit of " + s.Env.Term(obj) + " into " + strings.Join(origins, ",") + " in " + s.Chain()
			seen[construct]++
			if k := seen[construct]; k > 1 {
				construct += fmt.Sprintf(" #%d", k)
			}
			pos := c.P.InstrPos(s.In)
			fnn := FuncName(s.In.Parent())
			isFungibleHelper := strings.HasPrefix(org, "read:") && strings.TrimPrefix(org, "read:") == at
			if isFungibleHelper && len(ks.Parts) < 2 {
				// read-modify-write of the destination's own fungible entry (no metadata involved): C01-R1's business
				continue
			}
			if isFungibleHelper {
				// the destination's own entry under a key with a nonce part, topped up and saved back: equal hashes do not mean
				// equal metadata (URIs and attributes change under one hash) — the arriving metadata must be put on it
				if why, ok := metadataTakenOver(s.Env, obj, x.snd); ok {
					c.OK(rule, fnn, construct, pos, "the destination's entry is saved with the arriving metadata: "+why)
				} else {
					c.FailX(Oblig{Rule: rule, Func: fnn, Construct: construct, Pos: pos, Kind: "violation",
						Detail:   "the entry saved under the NFT key is the destination's own current entry (" + org + ") with the balance topped up: the metadata that arrives with the tokens is dropped, the destination keeps its stale URIs / attributes and passes them on",
						Expected: "save the arriving entry (its Value increased by the holding), or take its TokenMetaData over before saving"})
				}
				continue
			}
			if org == "decoded" || (strings.HasPrefix(org, "read:") && strings.TrimPrefix(org, "read:") == x.snd) {
				c.OK(rule, fnn, construct, pos, "saved object is "+org)
			} else {
				c.FailX(Oblig{Rule: rule, Func: fnn, Construct: construct, Pos: pos, Kind: "violation",
					Detail: "the entry saved at the destination is " + org + ": the sender's metadata does not arrive (it is replaced by the destination's or by a rebuilt one)"})
			}
			// R3: hash check between the destination's current entry and the incoming object
			inc := s.Env.Term(obj)
			pred := func(f Fact) bool {
				if f.Lin || !f.Pos {
					return false
				}
				// current entry: any entry read from the written account
				if strings.HasPrefix(f.Atom, "nil(*") && strings.HasSuffix(f.Atom, ".TokenMetaData)") {
					cur := strings.TrimSuffix(strings.TrimPrefix(f.Atom, "nil(*"), ".TokenMetaData)")
					return cur != inc && strings.Contains(cur, "#")
				}
				if strings.HasPrefix(f.Atom, "eq(") && strings.Contains(f.Atom, ".TokenMetaData.Hash") {
					return strings.Contains(f.Atom, "**"+inc+".TokenMetaData.Hash") && strings.Count(f.Atom, ".TokenMetaData.Hash") == 2
				}
				return false
			}
			if fs, where, ok := s.CutInContext(pred, nil); ok {
				var by []string
				for _, f := range fs {
					by = append(by, f.String())
				}
				sort.Strings(by)
				c.OK("C08-R3", fnn, construct, pos, "cut in "+where+" by {"+strings.Join(by, " ; ")+"}")
			} else {
				c.FailX(Oblig{Rule: "C08-R3", Func: fnn, Construct: construct, Pos: pos, Kind: "violation",
					Detail: "an NFT can be credited onto a holding with a different hash under the same token and nonce", Path: s.witnessPath(pred),
					Expected: "if current.TokenMetaData != nil && !bytes.Equal(current.TokenMetaData.Hash, incoming.TokenMetaData.Hash) { return error }"})
			}
		}
		// shipments: Marshal(obj) whose bytes go into the outgoing argument list
		for fn := range c.P.ReachableFrom([]*ssa.Function{r.Entry}) {
			if !c.P.InPkgs(fn, "builtInFunctions") {
				continue
			}
			for _, b := range fn.Blocks {
				for _, in := range b.Instrs {
					call, ok := in.(*ssa.Call)
					if !ok || InvokeName(call) != "Marshalizer.Marshal" || !flowsToOutputTransfer(call) {
						continue
					}
					mi, ok := call.Call.Args[0].(*ssa.MakeInterface)
					if !ok || !strings.HasSuffix(mi.X.Type().String(), "esdt.ESDigitalToken") {
						continue
					}
					// the object must come (through parameters / the list of debited entries) from the sender-side read
					construct := name + ": shipment Marshal(" + c.P.Env(fn).Term(mi.X) + ") in " + fn.Name()
					if shippedFromSenderRead(c.P, fn, mi.X, 0) {
						c.OK(rule, FuncName(fn), construct, c.P.InstrPos(call), "the marshalled entry is the one read (and debited) on the sender side")
					} else {
						c.Fail(rule, "violation", FuncName(fn), construct, c.P.InstrPos(call), "the shipped payload is not the entry read from the sender")
					}
				}
			}
		}
	}
}

// shippedFromSenderRead: v (in fn) derives, through parameters at every call site, range over a list filled from reads, from a module reader result.
func shippedFromSenderRead(p *Prog, fn *ssa.Function, v ssa.Value, depth int) bool {
	if depth > 5 {
		return false
	}
	switch x := v.(type) {
	case *ssa.Extract:
		if call, ok := x.Tuple.(*ssa.Call); ok && x.Index == 0 {
			sc := call.Call.StaticCallee()
			if sc == nil {
				return false
			}
			for _, a := range call.Call.Args {
				if strings.HasSuffix(a.Type().String(), modPath+".UserAccountHandler") {
					return true // a reader given an account
				}
			}
			// a helper returning the debited entry (transferOneToken…): follow its success returns
			for _, r := range returnsOf(sc) {
				if isSuccessReturn(r) && !shippedFromSenderRead(p, sc, retval(r, 0), depth+1) {
					return false
				}
			}
			return len(returnsOf(sc)) > 0
		}
	case *ssa.Parameter:
		idx := -1
		for i, q := range fn.Params {
			if q == x {
				idx = i
			}
		}
		sites := 0
		for _, cs := range p.Callers[fn] {
			if !p.Src(cs.Parent()) {
				continue
			}
			sites++
			if !shippedFromSenderRead(p, cs.Parent(), cs.Common().Args[idx], depth+1) {
				return false
			}
		}
		return sites > 0
	case *ssa.UnOp:
		// element of a list: every store into that list must be a sender read
		if ia, ok := x.X.(*ssa.IndexAddr); ok {
			return shippedFromSenderRead(p, fn, ia.X, depth+1)
		}
	case *ssa.MakeSlice:
		okAll, n := true, 0
		for _, r := range *x.Referrers() {
			if ia, ok := r.(*ssa.IndexAddr); ok {
				for _, rr := range *ia.Referrers() {
					if st, ok := rr.(*ssa.Store); ok {
						n++
						if !shippedFromSenderRead(p, fn, st.Val, depth+1) {
							okAll = false
						}
					}
				}
			}
		}
		return okAll && n > 0
	case *ssa.Phi:
		for _, ed := range x.Edges {
			if !shippedFromSenderRead(p, fn, ed, depth+1) {
				return false
			}
		}
		return true
	case *ssa.Call:
		// range element: `for i, e := range list` lowers to index loads handled above
	}
	return false
}

func c08r4(c *Ctx) {
	const rule = "C08-R4"
	c.Rule(rule, "the created entry binds the arguments to the documented metadata fields and the royalty bound cuts the save", 7)
	r, ok := c.P.RegByName()["ESDTNFTCreate"]
	if !ok || r.Entry == nil {
		c.Anchor(rule, "registration of ESDTNFTCreate")
		return
	}
	x, _ := entryContext(r.Entry)
	e := c.P.Env(r.Entry)
	want := map[string]string{
		"Name": x.arg(2), "Creator": x.caller, "Hash": x.arg(4), "Attributes": x.arg(5), "URIs": x.args() + "[6:]",
	}
	got := map[string]string{}
	var royal ssa.Value
	// the literal is built in the entry point or in a phase function below it
	isMetaStore := func(in ssa.Instruction) (string, bool) {
		if st, ok := in.(*ssa.Store); ok {
			if fa, ok := st.Addr.(*ssa.FieldAddr); ok {
				if ty, f, ok := entryOrMetaField(fa); ok && ty == "MetaData" {
					if _, fresh := fa.X.(*ssa.Alloc); fresh {
						return f, true
					}
				}
			}
		}
		return "", false
	}
	for _, ms := range c.P.EffectSites(r.Entry, "c08meta", isMetaStore) {
		st := ms.In.(*ssa.Store)
		got[ms.Name] = ms.Env.Term(st.Val)
		if ms.Name == "Royalties" {
			royal = st.Val
			e = ms.Env
		}
	}
	var fields []string
	for f := range want {
		fields = append(fields, f)
	}
	sort.Strings(fields)
	for _, f := range fields {
		construct := "created metadata: " + f
		if got[f] == want[f] {
			c.OK(rule, FuncName(r.Entry), construct, c.P.Pos(r.Entry.Pos()), f+" <- "+got[f])
		} else {
			c.FailX(Oblig{Rule: rule, Func: FuncName(r.Entry), Construct: construct, Pos: c.P.Pos(r.Entry.Pos()), Kind: "violation",
				Detail: "the created NFT records " + f + " <- " + got[f] + ", the protocol says " + want[f]})
		}
	}
	// royalties: decoded from A[3]; save cut by not(r > MaxRoyalty)
	if royal == nil {
		c.Fail(rule, "violation", FuncName(r.Entry), "created metadata: Royalties", c.P.Pos(r.Entry.Pos()), "no royalties recorded")
		return
	}
	rt := e.Term(royal)
	if rt == "Uint64(bigBytes("+x.arg(3)+"))" {
		c.OK(rule, FuncName(r.Entry), "created metadata: Royalties", c.P.Pos(r.Entry.Pos()), "Royalties <- "+rt)
	} else {
		c.Fail(rule, "violation", FuncName(r.Entry), "created metadata: Royalties", c.P.Pos(r.Entry.Pos()), "Royalties <- "+rt+", expected the number decoded from Arguments[3]")
	}
	maxR, ok := c.P.Obj("", "MaxRoyalty").(*types.Const)
	if !ok {
		c.Anchor(rule, "constant vmcommon.MaxRoyalty")
		return
	}
	bound := leConst(0).minus(e.LE(royal))
	mv, _ := constantInt64(maxR)
	bound = bound.addK(mv) // MaxRoyalty - r >= 0
	pred := func(f Fact) bool { return f.Lin && f.LE.String() == bound.String() }
	n := 0
	for _, s := range c.P.EffectSites(r.Entry, "save", isBalanceSave(c.P)) {
		call := s.In.(ssa.CallInstruction)
		if ks := keyShape(s.Env, call.Common().Args[0], 0); ks == nil || ks.Prefix != balancePrefix(c.P) || isNilConst(call.Common().Args[1]) {
			continue
		}
		n++
		construct := "royalty bound cuts the save in " + s.Chain()
		if fs, where, ok := s.CutInContext(pred, nil); ok {
			c.OK(rule, FuncName(s.In.Parent()), construct, c.P.InstrPos(s.In), "cut in "+where+" by "+fs[0].String())
		} else {
			c.FailX(Oblig{Rule: rule, Func: FuncName(s.In.Parent()), Construct: construct, Pos: c.P.InstrPos(s.In), Kind: "violation",
				Detail: fmt.Sprintf("an NFT can be created with royalties above %d", mv), Expected: "if royalties > MaxRoyalty { return error } for the value that is recorded"})
		}
	}
	if n == 0 {
		c.Anchor(rule, "the save of the created entry")
	}
}

// onlyBelow: fn is reached from the entry point of registration r and from no other registered entry point (a phase function
// of that built-in function).
func onlyBelow(p *Prog, fn *ssa.Function, r Registration) bool {
	if !p.ReachableFrom([]*ssa.Function{r.Entry})[fn] {
		return false
	}
	for _, o := range p.Registrations() {
		if o.Entry == nil || o.Entry == r.Entry {
			continue
		}
		if p.ReachableFrom([]*ssa.Function{o.Entry})[fn] {
			return false
		}
	}
	return true
}


// c08r6: "the metadata … arrives unchanged at the destination of any chain of … cross-shard … transfers": the metadata message
// is encoded field by field as it is — tags, presence tests and size contributions of the generated encoder agree with the
// documented format for the MetaData message (shared with C14-R1); an encoder that leaves out an empty URI loses it at the
// first storage write.
func c08r6(c *Ctx) {
	c.shareRule(c14r1, "C14-R1", "C08-R6", "the metadata message is encoded field by field as it is (tables and presence tests of the generated encoder)", func(o Oblig) bool {
		return strings.HasPrefix(o.Func, "MetaData") || strings.HasPrefix(o.Construct, "MetaData") || o.Kind == "anchor"
	})
}
