package main

// C09 — tokens are only credited to admissible destinations.

import (
	"fmt"
	"go/types"
	"strings"

	"golang.org/x/tools/go/ssa"
)

func init() {
	register(&Property{
		ID:    "C09",
		Level: "other",
		Explanation: "R1: below the three transfer entry points every balance write into an account other than the sender's (decided by account provenance: the destination parameter or LoadAccount(address)) is cut, in every calling " +
			"context, by the union of {the exemption predicate returned false when called with the input and the function's own minimum argument count (2; 4; 3n+2 sender side, 3n+1 destination side), IsPayable(address of the credited " +
			"account) returned true}. R2: the exemption predicate returns false only under the four exemptions of the statement (callback, transfer-and-execute, system-contract caller, more arguments than the minimum). R3: every effect " +
			"of ESDTTransfer is cut by ComputeId(RecipientAddr) != MetachainShardId; every sender-side effect of the NFT and multi transfer by len(dst) == len(caller), dst != caller and ComputeId(dst) != MetachainShardId for dst = " +
			"the protocol's destination argument. R4: the payable-handler field is written only by the constructor (with the always-refusing default) and by SetPayableHandler after a nil check. Does NOT decide: the oracle's answers.",
		Trusted: []string{"protocol argument layout: ESDTTransfer(token,value), ESDTNFTTransfer(token,nonce,quantity,destination), MultiESDTNFTTransfer(destination,n,3n…) / (n,3n…) on the destination side", "A-presence"},
		Rules:   []func(*Ctx){c09r1, c09r2, c09r3, c09r4},
	})
}

func isBalanceSave(p *Prog) func(in ssa.Instruction) (string, bool) {
	return func(in ssa.Instruction) (string, bool) {
		if ci, ok := in.(ssa.CallInstruction); ok && InvokeName(ci) == "AccountDataHandler.SaveKeyValue" {
			return "SaveKeyValue", true
		}
		return "", false
	}
}

// payablePredicateFn discovers the exemption predicate: the boolean module function taking the input and an int whose
// result guards IsPayable queries.
func payablePredicateFn(p *Prog) *ssa.Function {
	for _, fn := range p.Funcs {
		if !p.InPkgs(fn, "builtInFunctions") || fn.Signature.Results().Len() != 1 || fn.Signature.Results().At(0).Type().String() != "bool" || len(fn.Params) != 2 {
			continue
		}
		if strings.HasSuffix(fn.Params[0].Type().String(), ".ContractCallInput") && isInteger(fn.Params[1].Type()) {
			// must be used: some call site exists in a function that also queries IsPayable or passes the result on
			if len(p.Callers[fn]) > 0 {
				return fn
			}
		}
	}
	return nil
}

func transferMinArgs(name string, x entryCtx, senderSide bool) []string {
	n1 := "Uint64(bigBytes(" + x.arg(1) + "))"
	n0 := "Uint64(bigBytes(" + x.arg(0) + "))"
	switch name {
	case "ESDTTransfer":
		return []string{"2"}
	case "ESDTNFTTransfer":
		return []string{"4"}
	case "MultiESDTNFTTransfer":
		if senderSide {
			return []string{"3*" + n1 + " + 2"}
		}
		return []string{"3*" + n0 + " + 1"}
	}
	return nil
}

func c09r1(c *Ctx) {
	const rule = "C09-R1"
	c.Rule(rule, "every credit of a non-sender account is cut by {must-verify predicate false for the own minimum count, IsPayable(credited address) true}", 8)
	c.Axiom("A-presence")
	mv := payablePredicateFn(c.P)
	if mv == nil {
		c.Anchor(rule, "the exemption predicate (bool function of (input, min argument count))")
		return
	}
	bal := balancePrefix(c.P)
	regs := c.P.RegByName()
	for _, name := range []string{"ESDTTransfer", "ESDTNFTTransfer", "MultiESDTNFTTransfer"} {
		r, ok := regs[name]
		if !ok || r.Entry == nil {
			c.Anchor(rule, "registration of "+name)
			continue
		}
		x, _ := entryContext(r.Entry)
		seen := map[string]int{}
		ncredit := 0
		for _, s := range c.P.EffectSites(r.Entry, "save", isBalanceSave(c.P)) {
			call := s.In.(ssa.CallInstruction)
			ks := keyShape(s.Env, call.Common().Args[0], 0)
			if ks == nil || ks.Prefix != bal {
				continue
			}
			acct := writtenAccount(call)
			if acct == nil {
				continue
			}
			origins := accountOrigin(s.Env, acct, 0)
			if len(origins) == 1 && origins[0] == "param:"+x.snd {
				continue // the sender's own balance
			}
			ncredit++
			construct := name + ": credit SaveKeyValue(" + ks.String() + ") on " + strings.Join(origins, ",") + " in " + s.Chain()
			seen[construct]++
			if k := seen[construct]; k > 1 {
				construct += fmt.Sprintf(" #%d", k)
			}
			addrs := addressesOf(x, origins, s.Env.Term(acct))
			delete(addrs, "UserAccountHandler.AddressBytes("+s.Env.Term(acct)+",)")
			_, _, senderSide := s.CutInContext(eqPred(x.caller, x.rcpt), nil)
			if name == "ESDTTransfer" {
				senderSide = false
			}
			mins := transferMinArgs(name, x, senderSide)
			why := ""
			pred := func(f Fact) bool {
				if f.Lin || f.Call == nil {
					return false
				}
				// (a) exemption predicate returned false
				if sc := f.Call.Common().StaticCallee(); sc == mv && strings.HasPrefix(f.Atom, "call:") {
					if f.Pos {
						return false
					}
					a := f.Call.Common().Args
					if f.Env.Term(a[0]) != x.in {
						return false
					}
					got := f.Env.LE(a[1]).String()
					for _, m := range mins {
						if got == m {
							return true
						}
					}
					why = "exemption predicate called with minimum argument count " + got + ", expected " + strings.Join(mins, " or ")
					return false
				}
				// (b) IsPayable(addr) returned true
				if strings.HasPrefix(f.Atom, "cond:") && f.Pos && InvokeName(f.Call) == "PayableHandler.IsPayable" && strings.HasSuffix(f.Atom, "#0") {
					at := f.Env.Term(f.Call.Common().Args[0])
					if addrs[at] {
						return true
					}
					why = "IsPayable asked about " + at + ", not about the credited account (" + strings.Join(origins, ",") + ")"
				}
				return false
			}
			if fs, where, ok := s.CutInContext(pred, nil); ok {
				var by []string
				for _, f := range fs {
					by = append(by, f.String())
				}
				c.OK(rule, FuncName(s.In.Parent()), construct, c.P.InstrPos(s.In), "cut in "+where+" by {"+strings.Join(by, " ; ")+"}")
			} else {
				d := "tokens can be credited without the payability oracle having been consulted"
				if why != "" {
					d += " (" + why + ")"
				}
				c.FailX(Oblig{Rule: rule, Func: FuncName(s.In.Parent()), Construct: construct, Pos: c.P.InstrPos(s.In), Kind: "violation", Detail: d, Path: s.witnessPath(pred),
					Expected: "on every path: " + mv.Name() + "(input, " + strings.Join(mins, "|") + ") == false, or IsPayable(address of the credited account) == true"})
			}
		}
		if ncredit == 0 {
			c.Fail(rule, "floor", FuncName(r.Entry), name+": credit sites", "-", "no credit site found below a transfer entry point")
		}
	}
}

func c09r2(c *Ctx) {
	const rule = "C09-R2"
	c.Rule(rule, "the exemption predicate returns false only under the four exemptions of the statement", 3)
	mv := payablePredicateFn(c.P)
	if mv == nil {
		c.Anchor(rule, "the exemption predicate")
		return
	}
	e := c.P.Env(mv)
	in := "P:" + paramName(mv.Params[0])
	min := "P:" + paramName(mv.Params[1])
	callType := "*" + in + ".VMInput.CallType"
	caller := "*" + in + ".VMInput.CallerAddr"
	constOf := func(name string) string {
		if k, ok := c.P.Obj("", name).(*types.Const); ok {
			return k.Val().ExactString()
		}
		c.Anchor(rule, "constant vmcommon."+name)
		return "?"
	}
	cb, te := constOf("AsynchronousCallBack"), constOf("ESDTTransferAndExecute")
	wantLen := leAtom("len(*" + in + ".VMInput.Arguments)").minus(leAtom(min)).addK(-1).String()
	accepted := func(f Fact) bool {
		if f.Lin {
			return f.LE.String() == wantLen
		}
		if !f.Pos {
			return false
		}
		return f.Atom == eqAtom(callType, cb) || f.Atom == eqAtom(callType, te) || f.Atom == eqAtom(caller, esdtSCAddrTerm) ||
			f.Atom == eqAtom(cb, callType) || f.Atom == eqAtom(te, callType)
	}
	// integer-typed CallType comparisons decode to linear facts: accept the equality pair too
	ctEq := func(k string) func(Fact) bool {
		return func(f Fact) bool {
			if !f.Lin {
				return false
			}
			s := f.LE.String()
			return s == callType+" - "+k || s == "- "+callType+" + "+k
		}
	}
	pred := orPred(accepted, ctEq(cb), ctEq(te))
	for _, r := range returnsOf(mv) {
		rv := retval(r, 0)
		construct := fmt.Sprintf("return %s @b%d", e.Term(rv), r.Block().Index)
		k, isConst := boolConst(rv)
		if isConst && k {
			c.Triv(rule, FuncName(mv), construct, c.P.InstrPos(r), "returns true: payability will be verified (safe direction)")
			continue
		}
		if !isConst {
			// `return len(args) <= min`: when the returned expression is false, what that means must be an accepted exemption
			okNC := false
			for _, f := range e.decode(rv, false, "returned expression is false") {
				if sat(pred, f) {
					okNC = true
					c.OK(rule, FuncName(mv), construct, c.P.InstrPos(r), "false only under "+f.String())
					break
				}
			}
			if okNC {
				continue
			}
		}
		if fs, ok := e.CutAt(r, pred, nil); ok {
			c.OK(rule, FuncName(mv), construct, c.P.InstrPos(r), "only under "+fs[0].String())
		} else {
			c.FailX(Oblig{Rule: rule, Func: FuncName(mv), Construct: construct, Pos: c.P.InstrPos(r), Kind: "violation",
				Detail:   "the predicate can waive the payability check outside the four exemptions of the statement",
				Path:     pathAvoidingPred(e, r.Block(), pred),
				Expected: "return false only when CallType is AsynchronousCallBack or ESDTTransferAndExecute, CallerAddr == ESDTSCAddress, or len(Arguments) > minimum"})
		}
	}
}

func c09r3(c *Ctx) {
	const rule = "C09-R3"
	c.Rule(rule, "metachain, self and address-length guards cut every effect of the transfer functions", 30)
	regs := c.P.RegByName()
	meta, ok := c.P.Obj("", "MetachainShardId").(*types.Const)
	if !ok {
		c.Anchor(rule, "constant vmcommon.MetachainShardId")
		return
	}
	metaS := meta.Val().ExactString()
	notMeta := func(recv, addr string) func(Fact) bool {
		return func(f Fact) bool {
			if f.Lin || f.Pos || !strings.HasPrefix(f.Atom, "zero(") {
				return false
			}
			return strings.Contains(f.Atom, "Coordinator.ComputeId(*"+recv+".") && strings.Contains(f.Atom, ","+addr+")") && strings.Contains(f.Atom, metaS)
		}
	}
	for _, name := range []string{"ESDTTransfer", "ESDTNFTTransfer", "MultiESDTNFTTransfer"} {
		r, ok := regs[name]
		if !ok || r.Entry == nil {
			c.Anchor(rule, "registration of "+name)
			continue
		}
		x, _ := entryContext(r.Entry)
		recv := "P:" + paramName(r.Entry.Params[0])
		if name == "ESDTTransfer" {
			checkEffectsCut(c, rule, name+" [recipient not on the metachain]", r.Entry, notMeta(recv, x.rcpt), nil, "the guard ComputeId(RecipientAddr) != MetachainShardId", nil)
			continue
		}
		dst := x.arg(3)
		if name == "MultiESDTNFTTransfer" {
			dst = x.arg(0)
		}
		senderSide := func(s EffectSite) bool {
			_, _, ok := s.CutInContext(eqPred(x.caller, x.rcpt), nil)
			return ok
		}
		lenEq := func(f Fact) bool {
			if !f.Lin {
				return false
			}
			s := f.LE.String()
			a, b := "len("+dst+")", "len("+x.caller+")"
			return s == leAtom(a).minus(leAtom(b)).String() || s == leAtom(b).minus(leAtom(a)).String()
		}
		notSelf := func(f Fact) bool { return !f.Lin && !f.Pos && f.Atom == eqAtom(dst, x.caller) }
		checkEffectsCut(c, rule, name+" [len(dst) == len(caller)]", r.Entry, lenEq, nil, "the guard len(destination) == len(CallerAddr)", senderSide)
		checkEffectsCut(c, rule, name+" [dst != caller]", r.Entry, notSelf, nil, "the guard destination != CallerAddr", senderSide)
		checkEffectsCut(c, rule, name+" [dst not on the metachain]", r.Entry, notMeta(recv, dst), nil, "the guard ComputeId(destination) != MetachainShardId", senderSide)
	}
}

func c09r4(c *Ctx) {
	const rule = "C09-R4"
	c.Rule(rule, "the payable handler is set only by the constructor (refusing default) and by SetPayableHandler after a nil check", 6)
	ctors := map[*ssa.Function]bool{}
	for _, r := range c.P.Registrations() {
		if r.Ctor != nil {
			ctors[r.Ctor] = true
		}
	}
	for _, fn := range c.P.Funcs {
		if !c.P.InPkgs(fn, "builtInFunctions") {
			continue
		}
		e := c.P.Env(fn)
		for _, b := range fn.Blocks {
			for _, in := range b.Instrs {
				st, ok := in.(*ssa.Store)
				if !ok {
					continue
				}
				fa, ok := st.Addr.(*ssa.FieldAddr)
				if !ok || !strings.HasSuffix(fa.Type().(*types.Pointer).Elem().String(), modPath+".PayableHandler") {
					continue
				}
				// only the handler fields of the function objects: a local parameter object that copies the handler for a helper
				// is not state
				isObj := false
				for _, r := range c.P.Registrations() {
					if r.Type != nil && sameBase(fa.X.Type(), r.Type) {
						isObj = true
					}
				}
				if !isObj {
					continue
				}
				construct := "store ." + fieldName(fa.X.Type(), fa.Field) + " = " + e.Term(st.Val)
				switch {
				case ctors[fn]:
					// must be the refusing default: a module type whose IsPayable returns (false, non-nil) on every path
					good := false
					if mi, ok := st.Val.(*ssa.MakeInterface); ok {
						ms := c.P.SSA.MethodSets.MethodSet(mi.X.Type())
						if sel := ms.Lookup(nil, "IsPayable"); sel != nil {
							m := c.P.SSA.MethodValue(sel)
							good = m != nil && len(m.Blocks) > 0
							for _, r := range returnsOf(m) {
								k, isC := boolConst(retval(r, 0))
								if !isC || k || isNilConst(retval(r, 1)) {
									good = false
								}
							}
						}
					}
					if good {
						c.OK(rule, FuncName(fn), construct, c.P.InstrPos(st), "constructor installs the default whose IsPayable constantly returns (false, error)")
					} else {
						c.FailX(Oblig{Rule: rule, Func: FuncName(fn), Construct: construct, Pos: c.P.InstrPos(st), Kind: "violation", Detail: "the constructor does not install a handler that refuses every address"})
					}
				case c.P.implementsMethod(fn, "AcceptPayableHandler", "SetPayableHandler"):
					par := "P:" + paramName(fn.Params[1])
					if _, ok := e.CutAt(st, func(f Fact) bool { return !f.Lin && !f.Pos && f.Atom == nilAtom(par) }, nil); ok && e.Term(st.Val) == par {
						c.OK(rule, FuncName(fn), construct, c.P.InstrPos(st), "stored after the nil check of the given handler")
					} else {
						c.FailX(Oblig{Rule: rule, Func: FuncName(fn), Construct: construct, Pos: c.P.InstrPos(st), Kind: "violation", Detail: "SetPayableHandler stores a handler without the nil check (or not the given one)"})
					}
				default:
					c.FailX(Oblig{Rule: rule, Func: FuncName(fn), Construct: construct, Pos: c.P.InstrPos(st), Kind: "violation",
						Detail: "the payable handler is replaced outside the constructor and SetPayableHandler"})
				}
			}
		}
	}
}
