package main

// C10 — cross-shard messages and the transfer parser agree with the ledger.

import (
	"fmt"
	"go/token"
	"go/types"
	"regexp"
	"sort"
	"strings"

	"golang.org/x/tools/go/ssa"
)

func init() {
	register(&Property{
		ID:    "C10",
		Level: "other",
		Explanation: "R1 (encoder grammar): every value stored to OutputTransfer.Data is nil or []byte(s) where the flattened concatenation of s (through loops and helper parameters) matches Head (\"@\" hex)*, hex being hex.EncodeToString results and \"@\" the " +
			"parsers' separator constant — exactly what the call-arguments parser inverts. R2 (continuation names): when the Head is a constant it is the protocol name under which the emitting entry point is registered. R3 (index conventions): the minimum " +
			"argument constants of parser and ledger agree with each other and with the ledger's guards (2; 4; multi pre-guard), the stride constants agree, and for each transfer function and execution side the argument positions the ledger uses for token, " +
			"nonce, value/payload, destination, attached function and attached arguments — extracted as linear forms a·i + b·n + c over loop index and decoded count — equal those the parser binds to ESDTTokenName, ESDTTokenNonce, ESDTValue, RcvAddr, CallFunction " +
			"and CallArgs; given an argument at the position the parser reads the function name from, every successful parser path stores CallFunction (the mirror of the ledger's len(Arguments) > min test). R4: the destination-side guards accept what the sender side emits (emitted argument count as a linear form versus the pre-guard). R5: destination-side rejections are not decided by argument content. R6: below the three transfer functions no error is dropped (shared with C17-R1): an accepted call has moved all it lists. R7: no unsigned 64-bit quantity is encoded through a signed big.Int constructor. Does NOT decide: numeric equality of parsed values and ledger diffs; function names containing '@'.",
		Trusted: []string{"hex.EncodeToString / hex.DecodeString are inverse", "A-protomsg"},
		Rules:   []func(*Ctx){c10r1, c10r3, c10r4, c10r5, c10r6, c10r7},
	})
}

// c10r7: numbers travel as the big-endian bytes of their unsigned value (the other side decodes with SetBytes / Uint64). A
// 64-bit unsigned quantity (nonce, count) that is converted to int64 on its way into a big.Int changes its magnitude above
// 2^63: the message, the parser's report and the log name another number than the ledger used.
func c10r7(c *Ctx) {
	const rule = "C10-R7"
	c.Rule(rule, "unsigned 64-bit quantities are never encoded through a signed big.Int constructor", 1)
	n := 0
	for _, fn := range c.P.Funcs {
		if !c.P.InPkgs(fn, "builtInFunctions") && !c.P.InPkgs(fn, "parsers") {
			continue
		}
		e := c.P.Env(fn)
		for _, b := range fn.Blocks {
			for _, in := range b.Instrs {
				call, ok := in.(*ssa.Call)
				if !ok {
					continue
				}
				name := CalleeName(call)
				if name != "math/big.NewInt" && name != "(*math/big.Int).SetInt64" {
					continue
				}
				arg := call.Call.Args[len(call.Call.Args)-1]
				if _, isConst := arg.(*ssa.Const); isConst {
					continue
				}
				n++
				construct := name[strings.LastIndex(name, ".")+1:] + "(" + e.Term(arg) + ")"
				cv, isConv := arg.(*ssa.Convert)
				unsigned64 := false
				if isConv {
					if bt, ok := cv.X.Type().Underlying().(*types.Basic); ok && (bt.Kind() == types.Uint64 || bt.Kind() == types.Uint || bt.Kind() == types.Uintptr) {
						unsigned64 = true
					}
				}
				if unsigned64 {
					c.FailX(Oblig{Rule: rule, Func: FuncName(fn), Construct: construct, Pos: c.P.InstrPos(call), Kind: "violation",
						Detail:   "a 64-bit unsigned quantity is converted to int64 before it becomes a big.Int: above 2^63 its bytes are those of another number (the magnitude of the negative value), so what is written into the message / key / log is not what the ledger used",
						Expected: "big.NewInt(0).SetUint64(x)"})
				} else {
					c.OK(rule, FuncName(fn), construct, c.P.InstrPos(call), "the operand is not an unsigned 64-bit quantity")
				}
			}
		}
	}
	if n == 0 {
		c.Triv(rule, "-", "no non-constant signed big.Int constructor", "-", "nothing to check")
	}
}

// c10r6: what the parser reports for an accepted transfer is what the ledger moved only if an accepted transfer has moved
// everything: below the three transfer functions no error of a debit, credit or decode step is dropped (shared with C17-R1).
func c10r6(c *Ctx) {
	var roots []*ssa.Function
	for _, name := range []string{"ESDTTransfer", "ESDTNFTTransfer", "MultiESDTNFTTransfer"} {
		if r, ok := c.P.RegByName()[name]; ok && r.Entry != nil {
			roots = append(roots, r.Entry)
		}
	}
	below := map[string]bool{}
	for fn := range c.P.ReachableFrom(roots) {
		below[FuncName(fn)] = true
	}
	c.shareRule(c17r1, "C17-R1", "C10-R6", "an accepted transfer has moved every token it lists: no error below the transfer functions is dropped", func(o Oblig) bool {
		return below[o.Func] || o.Kind == "anchor"
	})
}

// ---------------------------------------------------------------- R1 / R2 encoder grammar

// flattenString renders the shape of a string value: H = head (constant or caller-supplied name), S = the separator constant, X = hex.EncodeToString(…),
// (…)* = loop repetition, ? = anything else.
func flattenString(e *Env, v ssa.Value, sep string, heads *[]string, depth int, loopPhi map[*ssa.Phi]bool) string {
	if depth > 12 {
		return "?"
	}
	switch x := v.(type) {
	case *ssa.Const:
		if s, ok := constStringVal(x.Value); ok {
			// a folded constant such as Name+"@": pieces between separators are head text
			out := ""
			for i, piece := range strings.Split(s, sep) {
				if i > 0 {
					out += "S"
				}
				if piece != "" {
					*heads = append(*heads, piece)
					out += "H"
				}
			}
			return out
		}
	case *ssa.BinOp:
		if x.Op == token.ADD {
			return flattenString(e, x.X, sep, heads, depth+1, loopPhi) + flattenString(e, x.Y, sep, heads, depth+1, loopPhi)
		}
	case *ssa.Call:
		switch CalleeName(x) {
		case "encoding/hex.EncodeToString":
			return "X"
		case "(*bytes.Buffer).Bytes", "(*bytes.Buffer).String", "(*strings.Builder).String":
			return flattenBuffer(e, x.Call.Args[0], sep, heads, depth+1, loopPhi)
		}
		// a module helper that assembles the string (`createTxData(function, arguments)`): what it returns, in its calling context
		if sc := x.Call.StaticCallee(); sc != nil && len(sc.Blocks) > 0 && sc.Pkg != nil && strings.HasPrefix(sc.Pkg.Pkg.Path(), modPath) && x.Call.Signature().Results().Len() == 1 && e.depth < maxDepth {
			sub := e.Sub(x, sc)
			shape := ""
			for i, r := range returnsOf(sc) {
				if len(r.Results) != 1 {
					return "?"
				}
				s2 := flattenString(sub, retval(r, 0), sep, heads, depth+1, loopPhi)
				if i > 0 && s2 != shape {
					// returns of different shapes: acceptable only if each is a prefix form of the same grammar (`if len(args) == 0 { return function }`)
					if encoderShape.MatchString(s2) && encoderShape.MatchString(shape) {
						if len(s2) > len(shape) {
							shape = s2
						}
						continue
					}
					return "?"
				}
				shape = s2
			}
			if shape != "" {
				return shape
			}
		}
	case *ssa.Parameter:
		if a, pe := e.actual(x); a != nil {
			return flattenString(pe, a, sep, heads, depth+1, loopPhi)
		}
		*heads = append(*heads, "<param "+x.Name()+">")
		return "H"
	case *ssa.Convert:
		// string(bytes): a caller-chosen function name taken from the arguments
		if _, isStr := x.Type().Underlying().(*types.Basic); isStr {
			*heads = append(*heads, "<"+e.Term(x.X)+">")
			return "H"
		}
		// []byte("constant"): the constant
		if k, ok := x.X.(*ssa.Const); ok {
			return flattenString(e, k, sep, heads, depth+1, loopPhi)
		}
	case *ssa.UnOp:
		// the bytes of an argument used as they are (a function name handed on as []byte)
		if x.Op == token.MUL {
			if f := forwarded(x); f != nil {
				return flattenString(e, f, sep, heads, depth+1, loopPhi)
			}
			if t := e.Term(x); strings.Contains(t, ".Arguments[") {
				*heads = append(*heads, "<"+t+">")
				return "H"
			}
		}
	case *ssa.Phi:
		if loopPhi[x] {
			return "Φ"
		}
		loopPhi[x] = true
		defer delete(loopPhi, x)
		var init, step []string
		for _, ed := range x.Edges {
			s := flattenString(e, ed, sep, heads, depth+1, loopPhi)
			if strings.HasPrefix(s, "Φ") {
				step = append(step, strings.TrimPrefix(s, "Φ"))
			} else {
				init = append(init, s)
			}
		}
		if len(uniq(init)) == 1 && len(uniq(step)) == 1 {
			return init[0] + "(" + step[0] + ")*"
		}
		if len(step) == 0 && len(uniq(init)) == 1 {
			return init[0]
		}
		return "?"
	}
	return "?"
}

// flattenBuffer: the content of a local bytes.Buffer / strings.Builder is what was written into it, in program order; writes
// inside a loop repeat. Any other use of the buffer (handed to other code) makes the content unknown.
func flattenBuffer(e *Env, buf ssa.Value, sep string, heads *[]string, depth int, loopPhi map[*ssa.Phi]bool) string {
	var al ssa.Value
	initial := ""
	switch b := buf.(type) {
	case *ssa.Alloc:
		al = b
	case *ssa.Call:
		// bytes.NewBuffer(make([]byte, 0, n)) / bytes.NewBuffer(x) / bytes.NewBufferString(s): starts with what it is given
		switch CalleeName(b) {
		case "bytes.NewBuffer", "bytes.NewBufferString":
			al = b
			if ms, ok := b.Call.Args[0].(*ssa.MakeSlice); ok {
				if k, isK := constInt(ms.Len); !isK || k != 0 {
					return "?"
				}
			} else if !isNilConst(b.Call.Args[0]) {
				initial = flattenString(e, b.Call.Args[0], sep, heads, depth+1, loopPhi)
			}
		}
	}
	if al == nil || al.Referrers() == nil {
		return "?"
	}
	type wr struct {
		call  *ssa.Call
		shape string
		loop  bool
	}
	var ws []wr
	inCycle := func(b *ssa.BasicBlock) bool {
		for _, sc := range b.Succs {
			if sc == b || reachableAvoiding(sc, b, nil) {
				return true
			}
		}
		return false
	}
	for _, ref := range *al.Referrers() {
		call, ok := ref.(*ssa.Call)
		if !ok {
			if _, isDbg := ref.(*ssa.DebugRef); isDbg {
				continue
			}
			return "?"
		}
		if len(call.Call.Args) == 0 || call.Call.Args[0] != ssa.Value(al) {
			return "?"
		}
		name := CalleeName(call)
		m := name[strings.LastIndex(name, ".")+1:]
		if !strings.HasPrefix(name, "(*bytes.Buffer).") && !strings.HasPrefix(name, "(*strings.Builder).") {
			return "?"
		}
		shape := ""
		switch m {
		case "WriteString":
			shape = flattenString(e, call.Call.Args[1], sep, heads, depth+1, loopPhi)
		case "WriteByte", "WriteRune":
			shape = "?"
			if k, ok := constInt(call.Call.Args[1]); ok && len(sep) == 1 && k == int64(sep[0]) {
				shape = "S"
			}
		case "Write":
			shape = "?"
			if cv, ok := call.Call.Args[1].(*ssa.Convert); ok {
				if _, isConst := cv.X.(*ssa.Const); !isConst {
					shape = flattenString(e, cv.X, sep, heads, depth+1, loopPhi)
				}
			}
			if shape == "?" {
				shape = flattenString(e, call.Call.Args[1], sep, heads, depth+1, loopPhi)
			}
		case "Bytes", "String", "Len", "Grow", "Cap":
			continue
		default:
			return "?"
		}
		ws = append(ws, wr{call, shape, inCycle(call.Block())})
	}
	sort.Slice(ws, func(i, j int) bool {
		bi, bj := ws[i].call.Block().Index, ws[j].call.Block().Index
		if bi != bj {
			return bi < bj
		}
		return indexIn(ws[i].call) < indexIn(ws[j].call)
	})
	out := initial
	for i := 0; i < len(ws); {
		if !ws[i].loop {
			out += ws[i].shape
			i++
			continue
		}
		grp := ""
		for i < len(ws) && ws[i].loop {
			grp += ws[i].shape
			i++
		}
		out += "(" + grp + ")*"
	}
	return out
}

// dataStringOf: the value whose flattened shape is the data stored by st into OutputTransfer.Data: the string behind
// []byte(s), the bytes of a local buffer, or what a helper of the package returns; nil if it is none of these.
func dataStringOf(p *Prog, st *ssa.Store) ssa.Value {
	if cv, ok := st.Val.(*ssa.Convert); ok {
		return cv.X
	}
	if bc, ok := st.Val.(*ssa.Call); ok {
		if CalleeName(bc) == "(*bytes.Buffer).Bytes" {
			return bc
		}
		if sc := bc.Call.StaticCallee(); sc != nil && p.InPkgs(sc, "builtInFunctions") {
			return bc
		}
	}
	return nil
}

var encoderShape = regexp.MustCompile(`^H(SX|\(SX\)\*)*$`)

func c10r1(c *Ctx) {
	const rule = "C10-R1"
	c.Rule(rule, "every emitted data string has the shape Head (\"@\" hex)*", 5)
	c.Rule("C10-R2", "a constant Head is the protocol name of the emitting function", 5)
	sep, ok := c.P.ConstString("parsers", "atSeparator")
	if !ok {
		c.Anchor(rule, "parsers.atSeparator")
		return
	}
	isData := func(in ssa.Instruction) (string, bool) {
		if st, ok := in.(*ssa.Store); ok {
			if fa, ok := st.Addr.(*ssa.FieldAddr); ok && isFieldOf(fa, "OutputTransfer", "Data") {
				return "OutputTransfer.Data", true
			}
		}
		return "", false
	}
	nsites := 0
	for _, r := range c.P.Registrations() {
		if r.Entry == nil {
			continue
		}
		seen := map[string]bool{}
		for _, s := range c.P.EffectSites(r.Entry, "otdata", isData) {
			st := s.In.(*ssa.Store)
			nsites++
			construct := r.Key + ": Data in " + s.Chain()
			pos := c.P.InstrPos(st)
			if isNilConst(st.Val) {
				if !seen[construct] {
					c.Triv(rule, FuncName(st.Parent()), construct, pos, "nil data")
				}
				seen[construct] = true
				continue
			}
			var dataString ssa.Value
			if cv, ok := st.Val.(*ssa.Convert); ok {
				dataString = cv.X
			} else if bc, ok := st.Val.(*ssa.Call); ok && CalleeName(bc) == "(*bytes.Buffer).Bytes" {
				dataString = bc // the bytes of a local buffer: what was written into it
			} else if bc, ok := st.Val.(*ssa.Call); ok && bc.Call.StaticCallee() != nil && c.P.InPkgs(bc.Call.StaticCallee(), "builtInFunctions") {
				dataString = bc // assembled by a helper of the package: what it returns
			}
			if dataString == nil {
				c.Fail(rule, "violation", FuncName(st.Parent()), construct, pos, "Data is not []byte(<string>) nor the bytes of a local buffer: "+s.Env.Term(st.Val))
				continue
			}
			var heads []string
			shape := flattenString(s.Env, dataString, sep, &heads, 0, map[*ssa.Phi]bool{})
			key := construct + " " + shape + " " + strings.Join(heads, ",")
			if seen[key] {
				continue
			}
			seen[key] = true
			construct += " [" + strings.Join(heads, ",") + "]"
			if encoderShape.MatchString(shape) {
				c.OK(rule, FuncName(st.Parent()), construct, pos, "shape "+shape+" with separator "+fmt.Sprintf("%q", sep))
			} else {
				c.FailX(Oblig{Rule: rule, Func: FuncName(st.Parent()), Construct: construct, Pos: pos, Kind: "violation",
					Detail:   "the emitted data string has shape " + shape + ": an argument is not hex-encoded, or not separated by the parsers' separator, so the call-arguments parser does not return what was encoded",
					Expected: "Head (\"" + sep + "\" hex.EncodeToString(arg))*"})
			}
			// R2
			if len(heads) == 1 && !strings.HasPrefix(heads[0], "<") {
				if heads[0] == r.Key {
					c.OK("C10-R2", FuncName(st.Parent()), construct, pos, "continues under its own protocol name")
				} else {
					c.FailX(Oblig{Rule: "C10-R2", Func: FuncName(st.Parent()), Construct: construct, Pos: pos, Kind: "violation",
						Detail: "the message emitted by " + r.Key + " continues under the name " + fmt.Sprintf("%q", heads[0]) + ": another built-in function (or none) will process it on the destination shard", Expected: r.Key})
				}
			}
		}
	}
	if nsites == 0 {
		c.Anchor(rule, "stores to OutputTransfer.Data below the entry points")
	}
}

// ---------------------------------------------------------------- R3 index conventions

type lin3 struct{ a, b, c int64 } // a*i + b*n + c

func (l lin3) String() string {
	return fmt.Sprintf("%d·i+%d·n+%d", l.a, l.b, l.c)
}

// classifyIndex turns an index LE into a·i + b·n + c [+ d·s]; i = loop induction φ, n = decoded count / list length, s = a φ of two constants (start index).
func classifyIndex(l LE, side string) (lin3, string, bool) {
	out := lin3{c: l.k}
	for a, k := range l.c {
		switch {
		case strings.HasPrefix(a, "Uint64(") || strings.HasPrefix(a, "len(P:list"):
			out.b += k
		case startPhiAtoms[a] != nil:
			sv, known := startPhiAtoms[a][side]
			if !known {
				return out, a, false
			}
			out.c += k * sv
		case loopPhiAtoms[a]:
			out.a += k
			out.c += k * loopPhiInit[a]
		default:
			return out, a, false
		}
	}
	return out, "", true
}

var loopPhiAtoms = map[string]bool{}
var loopPhiInit = map[string]int64{}

// startPhiAtoms: a φ of two constants chosen by the "sender == receiver" test: its value on each side
var startPhiAtoms = map[string]map[string]int64{}

func notePhis(e *Env) {
	noteBuilderFields(e)
	for _, b := range e.Fn.Blocks {
		for _, in := range b.Instrs {
			ph, ok := in.(*ssa.Phi)
			if !ok {
				break
			}
			if !isInteger(ph.Type()) {
				continue
			}
			var consts []int64
			step := false
			for _, ed := range ph.Edges {
				if k, ok := constInt(ed); ok {
					consts = append(consts, k)
				} else if bo, ok := ed.(*ssa.BinOp); ok && bo.Op == token.ADD && bo.X == ssa.Value(ph) {
					step = true
				}
			}
			t := e.Term(ph)
			if step {
				loopPhiAtoms[t] = true
				// the counter's first value: 0 for `for i := 0; …`, -1 for the hidden counter of `for i := range x` (whose body
				// uses counter+1); positions are expressed in the iteration number i = counter - first value
				if len(consts) == 1 {
					loopPhiInit[t] = consts[0]
				}
			} else if len(consts) == len(ph.Edges) && len(consts) == 2 {
				// which constant belongs to which side: the incoming edge that is taken only when sender == receiver
				sndRcv := func(f Fact) bool {
					return !f.Lin && f.Pos && strings.HasPrefix(f.Atom, "eq(") && strings.Contains(f.Atom, "P:sndAddr") && strings.Contains(f.Atom, "P:rcvAddr")
				}
				vals := map[string]int64{}
				for i := range ph.Edges {
					pb := ph.Block().Preds[i]
					side := "destination"
					if _, so := e.CutAt(pb.Instrs[len(pb.Instrs)-1], sndRcv, nil); so {
						side = "sender"
					} else {
						for _, f := range e.EdgeFacts()[edge{pb, ph.Block()}] {
							if sndRcv(f) {
								side = "sender"
							}
						}
					}
					vals[side] = consts[i]
				}
				if len(vals) == 2 {
					startPhiAtoms[t] = vals
				}
			}
		}
	}
}

var argIdxRe = regexp.MustCompile(`Arguments\[(.*)\]$`)
var parsArgRe = regexp.MustCompile(`^\*?P:args\[(.*)\]$`)

type roleTable map[string]map[string]bool // role -> set of linear forms

func (t roleTable) add(role string, l lin3) {
	if t[role] == nil {
		t[role] = map[string]bool{}
	}
	t[role][l.String()] = true
}
func (t roleTable) render() string {
	var ks []string
	for k, v := range t {
		var fs []string
		for f := range v {
			fs = append(fs, f)
		}
		sort.Strings(fs)
		ks = append(ks, k+"={"+strings.Join(fs, ",")+"}")
	}
	sort.Strings(ks)
	return strings.Join(ks, " ")
}

// indexOfArgTerm: for a term denoting Arguments[IDX] (element load or its address) return the LE of IDX via the value.
func argIndexLE(e *Env, v ssa.Value) (LE, bool) { return argIndexLERec(e, v, 0) }

func argIndexLERec(e *Env, v ssa.Value, depth int) (LE, bool) {
	if depth > 12 {
		return LE{}, false
	}
	// strip load
	if u, ok := v.(*ssa.UnOp); ok && u.Op == token.MUL {
		if f := forwarded(u); f != nil {
			return argIndexLERec(e, f, depth+1)
		}
		if w, we := e.ctorField(u); w != nil {
			return argIndexLERec(we, w, depth+1) // a field of a parameter object filled by its constructor
		}
		if sv, _ := wholeStructForward(u); sv != nil {
			if fa, ok := u.X.(*ssa.FieldAddr); ok {
				if w, we := e.structField(sv, fa.Field, 0); w != nil {
					return argIndexLERec(we, w, depth+1) // a field of a struct value handed back by a helper
				}
			}
		}
		v = u.X
	}
	switch x := v.(type) {
	case *ssa.IndexAddr:
		t := e.Term(x.X)
		if strings.HasSuffix(t, ".VMInput.Arguments") || t == "P:args" {
			return e.LE(x.Index), true
		}
		// an element of a sub-slice of the arguments handed to a per-token helper: args[a:b][i] is args[a+i]
		if be, base, off, ok := e.sliceBase(x.X, 0); ok {
			if bt := be.Term(base); strings.HasSuffix(bt, ".VMInput.Arguments") || bt == "P:args" {
				return off.plus(e.LE(x.Index)), true
			}
		}
	case *ssa.Field:
		if w, we := e.structField(x.X, x.Field, 0); w != nil {
			return argIndexLERec(we, w, depth+1)
		}
	case *ssa.Parameter:
		if a, pe := e.actual(x); a != nil {
			return argIndexLERec(pe, a, depth+1)
		}
	case *ssa.Phi:
		// `b := args[0]; if sender == receiver { b = args[1] }`: an element whose (constant) position depends on the side — a
		// start index in disguise: its own atom with one value per side
		if len(x.Edges) == 2 {
			sndRcv := func(f Fact) bool {
				return !f.Lin && f.Pos && strings.HasPrefix(f.Atom, "eq(") && strings.Contains(f.Atom, "P:sndAddr") && strings.Contains(f.Atom, "P:rcvAddr")
			}
			vals := map[string]int64{}
			for i, ed := range x.Edges {
				l, ok := argIndexLERec(e, ed, depth+1)
				if !ok || !l.isConst() {
					vals = nil
					break
				}
				pb := x.Block().Preds[i]
				side := "destination"
				if _, so := e.CutAt(pb.Instrs[len(pb.Instrs)-1], sndRcv, nil); so {
					side = "sender"
				} else {
					for _, f := range e.EdgeFacts()[edge{pb, x.Block()}] {
						if sndRcv(f) {
							side = "sender"
						}
					}
				}
				vals[side] = l.k
			}
			if len(vals) == 2 {
				t := "argpos(" + e.Term(x) + ")"
				startPhiAtoms[t] = vals
				return leAtom(t), true
			}
		}
		for _, ed := range x.Edges {
			if l, ok := argIndexLERec(e, ed, depth+1); ok {
				return l, true
			}
		}
	}
	return LE{}, false
}

func ledgerTables(c *Ctx, name string, r Registration) (map[string]roleTable, []string) {
	x, _ := entryContext(r.Entry)
	tabs := map[string]roleTable{"sender": {}, "destination": {}}
	var problems []string
	bal := balancePrefix(c.P)
	interesting := func(in ssa.Instruction) (string, bool) {
		switch v := in.(type) {
		case *ssa.Call:
			if bigMethod(v) == "SetBytes" {
				return "SetBytes", true
			}
			if InvokeName(v) == "Marshalizer.Unmarshal" {
				return "Unmarshal", true
			}
			if InvokeName(v) == "AccountDataHandler.SaveKeyValue" {
				return "SaveKeyValue", true
			}
			if InvokeName(v) == "AccountsAdapter.LoadAccount" {
				return "LoadAccount", true
			}
			if sc := v.Call.StaticCallee(); sc != nil && len(sc.Params) >= 3 && (sc.Params[1].Type().String() == "string" || sc.Params[1].Type().String() == "[]byte") && sc.Params[2].Type().String() == "[][]byte" {
				return "encoder", true
			}
		}
		return "", false
	}
	for _, s := range c.P.EffectSites(r.Entry, "c10ledger", interesting) {
		notePhis(s.Env)
		for pe := s.Env.Parent; pe != nil; pe = pe.Parent {
			notePhis(pe)
		}
		side := "destination"
		if name == "ESDTTransfer" {
			side = "sender" // one layout on both sides
		} else if _, _, ok := s.CutInContext(eqPred(x.caller, x.rcpt), nil); ok {
			side = "sender"
		}
		call := s.In.(*ssa.Call)
		addIdx := func(role string, v ssa.Value) {
			l, ok := argIndexLE(s.Env, v)
			if !ok {
				return
			}
			f, atom, ok := classifyIndex(l, side)
			if !ok {
				problems = append(problems, role+": index "+l.String()+" has an unclassified atom "+atom+" at "+c.P.InstrPos(call))
				return
			}
			tabs[side].add(role, f)
			if name == "ESDTTransfer" {
				tabs["destination"].add(role, f)
			}
		}
		switch s.Name {
		case "SetBytes":
			// nonce/count when followed by Uint64(), value otherwise
			isNum := false
			for _, ref := range *call.Referrers() {
				if c2, ok := ref.(*ssa.Call); ok && bigMethod(c2) == "Uint64" {
					isNum = true
				}
			}
			if isNum {
				addIdx("number", call.Call.Args[1])
			} else {
				addIdx("value", call.Call.Args[1])
			}
		case "Unmarshal":
			addIdx("value", call.Call.Args[1]) // the payload replaces the quantity on the destination side
		case "SaveKeyValue":
			ks := keyShape(s.Env, call.Call.Args[0], 0)
			if ks != nil && ks.Prefix == bal && len(ks.Parts) > 0 {
				if m := argIdxRe.FindStringSubmatch(ks.Parts[0]); m != nil {
					// recover the LE from the rendered index by re-deriving it from the key's append operand
					if l, ok := keyTokenIndex(s.Env, call.Call.Args[0], 0); ok {
						if f, atom, ok := classifyIndex(l, side); ok {
							tabs[side].add("token", f)
							if name == "ESDTTransfer" {
								tabs["destination"].add("token", f)
							}
						} else {
							problems = append(problems, "token index has an unclassified atom "+atom)
						}
					}
				}
			}
		case "LoadAccount":
			addIdx("receiver", call.Call.Args[0])
		case "encoder":
			// attached call executed locally: function name string(Arguments[F]), arguments Arguments[F+1:]
			fnArg := call.Call.Args[1]
			if cv, ok := fnArg.(*ssa.Convert); ok {
				fnArg = cv.X
			}
			if _, isConst := fnArg.(*ssa.Const); !isConst {
				addIdx("callFunction", fnArg)
				// the call arguments: `nil` or Arguments[F+1:], merged by a φ or produced by a small helper
				type cand struct {
					v ssa.Value
					e *Env
				}
				var cands []cand
				switch av := call.Call.Args[2].(type) {
				case *ssa.Phi:
					for _, ed := range av.Edges {
						cands = append(cands, cand{ed, s.Env})
					}
				case *ssa.Call:
					if rv, sub := s.Env.inlineResult(av, 0); rv != nil {
						cands = append(cands, cand{rv, sub})
					}
				case *ssa.Slice:
					cands = append(cands, cand{av, s.Env})
				}
				for _, cd := range cands {
					if s2, ok := cd.v.(*ssa.Slice); ok && s2.Low != nil {
						low := cd.e.LE(s2.Low)
						if _, _, off, ok := cd.e.sliceBase(s2.X, 0); ok {
							low = off.plus(low) // a re-slice of a sub-slice of the arguments: absolute position
						}
						if f, _, ok := classifyIndex(low, side); ok {
							tabs[side].add("callArgsFrom", f)
							if name == "ESDTTransfer" {
								tabs["destination"].add("callArgsFrom", f)
							}
						}
					}
				}
			}
		}
	}
	return tabs, problems
}

// keyTokenIndex: index LE of the Arguments element appended right after the constant prefix of a key.
func keyTokenIndex(e *Env, v ssa.Value, depth int) (LE, bool) {
	if depth > 6 {
		return LE{}, false
	}
	switch x := v.(type) {
	case *ssa.Parameter:
		if a, pe := e.actual(x); a != nil {
			return keyTokenIndex(pe, a, depth+1)
		}
	case *ssa.UnOp:
		if w, we := e.ctorField(x); w != nil {
			return keyTokenIndex(we, w, depth+1)
		}
		if f := forwarded(x); f != nil {
			return keyTokenIndex(e, f, depth+1)
		}
	case *ssa.Call:
		if b, ok := x.Call.Value.(*ssa.Builtin); ok && b.Name() == "append" && len(x.Call.Args) == 2 {
			if _, ok := e.P.constPrefixContent(x.Call.Args[0]); ok {
				return argIndexLE(e, x.Call.Args[1])
			}
			return keyTokenIndex(e, x.Call.Args[0], depth+1)
		}
		if sc := x.Call.StaticCallee(); sc != nil && len(sc.Blocks) > 0 {
			rets := returnsOf(sc)
			if len(rets) == 1 && len(rets[0].Results) == 1 {
				return keyTokenIndex(e.Sub(x, sc), rets[0].Results[0], depth+1)
			}
		}
	case *ssa.Extract:
		// the key handed back by a helper together with an error (`key, err := checkedKey(…)`): its non-nil results
		if call, ok := x.Tuple.(*ssa.Call); ok {
			if sc := call.Call.StaticCallee(); sc != nil && len(sc.Blocks) > 0 && sc.Pkg != nil && strings.HasPrefix(sc.Pkg.Pkg.Path(), modPath) && e.depth < maxDepth {
				sub := e.Sub(call, sc)
				var res LE
				n := 0
				for _, r := range returnsOf(sc) {
					if x.Index >= len(r.Results) || isNilConst(r.Results[x.Index]) {
						continue
					}
					l, ok := keyTokenIndex(sub, retval(r, x.Index), depth+1)
					if !ok || (n > 0 && l.String() != res.String()) {
						return LE{}, false
					}
					res = l
					n++
				}
				if n > 0 {
					return res, true
				}
			}
		}
	}
	return LE{}, false
}

// parserTables: what the ESDT-transfer parser binds to the exported fields, per side.
// parserPresence: where the parser stores the attached function, with the argument position it reads (filled by parserTables)
type presenceSite struct {
	e  *Env
	st *ssa.Store
	l  LE
}

var parserPresence []presenceSite

func parserTables(c *Ctx, penv *Env) (map[string]roleTable, []string) {
	tabs := map[string]roleTable{"sender": {}, "destination": {}}
	parserPresence = nil
	var problems []string
	roleOf := map[string]string{"ESDTTokenName": "token", "ESDTTokenNonce": "number", "ESDTValue": "value", "RcvAddr": "receiver", "CallFunction": "callFunction", "CallArgs": "callArgsFrom"}
	overwrittenOnSender := false
	var visit func(e *Env, depth int)
	visit = func(e *Env, depth int) {
		notePhis(e)
		sndRcv := func(f Fact) bool {
			return !f.Lin && f.Pos && strings.HasPrefix(f.Atom, "eq(") && strings.Contains(f.Atom, "P:sndAddr") && strings.Contains(f.Atom, "P:rcvAddr")
		}
		dead := e.deadBlocks()
		for _, b := range e.Fn.Blocks {
			if dead[b] {
				continue // not executed for this protocol name (a flag of the format the dispatcher passed)
			}
			for _, in := range b.Instrs {
				switch x := in.(type) {
				case *ssa.Store:
					fa, ok := x.Addr.(*ssa.FieldAddr)
					if !ok {
						continue
					}
					role := roleOf[fieldName(fa.X.Type(), fa.Field)]
					if role == "" {
						continue
					}
					// find the args index inside the stored value (looking through conversions, φ's and extracted helpers)
					var idx ssa.Value
					var low ssa.Value
					var ve *Env
					forceSender := false
					var lowOf ssa.Value
					var walk func(we *Env, v ssa.Value, d int)
					walk = func(we *Env, v ssa.Value, d int) {
						if d > 8 || idx != nil || low != nil {
							return
						}
						intoCallee := func(call *ssa.Call, i int) bool {
							sc := call.Call.StaticCallee()
							if sc == nil || len(sc.Blocks) == 0 || PkgOf(sc) != "parsers" || we.depth >= maxDepth {
								return false
							}
							sub := we.Sub(call, sc)
							for _, r := range returnsOf(sc) {
								if i < len(r.Results) {
									walk(sub, retval(r, i), d+1)
								}
							}
							return true
						}
						switch y := v.(type) {
						case *ssa.UnOp:
							if _, ok := argIndexLE(we, y); ok {
								idx, ve = y, we
								return
							}
							// a field of a builder object that is assigned twice (a default, and an argument when sender ==
							// receiver): the argument, on the side on which that assignment runs
							if obj, sub, sts := we.ctorObjectField(y); obj != nil && len(sts) >= 2 {
								for _, st := range sts {
									if _, ok := argIndexLE(sub, st.Val); ok {
										idx, ve = st.Val, sub
										if _, so := sub.CutAt(st, sndRcv, nil); so {
											forceSender = true
										}
										return
									}
								}
							}
						case *ssa.Convert:
							walk(we, y.X, d+1)
						case *ssa.Phi:
							wd := we.deadBlocks()
							for i, ed := range y.Edges {
								if wd[y.Block().Preds[i]] {
									continue // value of a branch that is not taken in this calling context
								}
								walk(we, ed, d+1)
							}
						case *ssa.Parameter:
							if a, pe := we.actual(y); a != nil {
								walk(pe, a, d+1)
							}
						case *ssa.Extract:
							if call, ok := y.Tuple.(*ssa.Call); ok {
								intoCallee(call, y.Index)
							}
						case *ssa.Call:
							if bi, ok := y.Call.Value.(*ssa.Builtin); ok && bi.Name() == "append" {
								if sl, ok := y.Call.Args[1].(*ssa.Slice); ok && sl.Low != nil {
									low, ve = sl.Low, we
									lowOf = sl
								}
								return
							}
							if intoCallee(y, 0) {
								return
							}
							for _, a := range y.Call.Args {
								walk(we, a, d+1)
							}
						}
					}
					walk(e, x.Val, 0)
					var l LE
					switch {
					case idx != nil:
						l, _ = argIndexLE(ve, idx)
					case low != nil:
						l = ve.LE(low)
						if sl, ok := lowOf.(*ssa.Slice); ok {
							if _, _, off, ok := ve.sliceBase(sl.X, 0); ok {
								l = off.plus(l) // a re-slice of a part of the arguments: absolute position
							}
						}
					default:
						continue
					}
					if role == "callFunction" && idx != nil {
						parserPresence = append(parserPresence, presenceSite{e, x, l})
					}
					sides := []string{"sender", "destination"}
					if role == "receiver" {
						sides = []string{"sender"} // RcvAddr is taken from the arguments only when sender == receiver
					}
					_, senderOnly := e.CutAt(x, sndRcv, nil)
					if senderOnly || forceSender {
						sides = []string{"sender"}
					}
					for _, side := range sides {
						f, atom, ok := classifyIndex(l, side)
						if !ok {
							problems = append(problems, role+": parser index "+l.String()+" has an unclassified atom "+atom)
							continue
						}
						tabs[side].add(role, f)
					}
				case *ssa.Call:
					// the decoded count: SetBytes(args[k]) followed by Uint64 (the parser keeps it in a mutable big.Int)
					if bigMethod(x) == "SetBytes" {
						if l, ok := argIndexLE(e, x.Call.Args[1]); ok {
							isCount := false
							for _, d := range e.Fn.Blocks {
								for _, in2 := range d.Instrs {
									if c2, ok := in2.(*ssa.Call); ok && bigMethod(c2) == "Uint64" {
										for _, rd := range e.bigReachingDefs(c2.Call.Args[0], c2) {
											if rd == x {
												isCount = true
											}
										}
									}
								}
							}
							if isCount {
								_, senderOnly := e.CutAt(x, sndRcv, nil)
								for _, side := range []string{"sender", "destination"} {
									if senderOnly && side == "destination" {
										continue
									}
									if f, _, ok := classifyIndex(l, side); ok {
										tabs[side]["number"] = mergeSet(tabs[side]["number"], f)
									}
								}
								if senderOnly {
									overwrittenOnSender = true
								}
							}
						}
					}
					if InvokeName(x) == "Marshalizer.Unmarshal" {
						if l, ok := argIndexLE(e, x.Call.Args[1]); ok {
							if f, _, ok := classifyIndex(l, "destination"); ok {
								tabs["destination"].add("value", f)
							}
						}
					}
					if sc := x.Call.StaticCallee(); sc != nil && len(sc.Blocks) > 0 && PkgOf(sc) == "parsers" && depth < 3 && sc != e.Fn {
						visit(e.Sub(x, sc), depth+1)
					}
				}
			}
		}
	}
	visit(penv, 0)
	if overwrittenOnSender {
		// sender side: the count first decoded from args[0] is overwritten by the sender-only decode before any use
		delete(tabs["sender"]["number"], lin3{0, 0, 0}.String())
	}
	return tabs, problems
}

func mergeSet(m map[string]bool, l lin3) map[string]bool {
	if m == nil {
		m = map[string]bool{}
	}
	m[l.String()] = true
	return m
}

func c10r3(c *Ctx) {
	const rule = "C10-R3"
	c.Rule(rule, "parser and ledger agree on minimum counts, stride and the argument position of every role", 12)
	loopPhiAtoms, startPhiAtoms = map[string]bool{}, map[string]map[string]int64{}
	constInt64 := func(pkg, name string) (int64, bool) {
		k, ok := c.P.Obj(pkg, name).(*types.Const)
		if !ok {
			return 0, false
		}
		v, ok := constantInt64(k)
		return v, ok
	}
	type pair struct{ ppkg, pname, lpkg, lname string }
	for _, x := range []pair{{"parsers", "MinArgsForESDTTransfer", "", "MinLenArgumentsESDTTransfer"}, {"parsers", "MinArgsForESDTNFTTransfer", "", "MinLenArgumentsESDTNFTTransfer"},
		{"parsers", "ArgsPerTransfer", "builtInFunctions", "argumentsPerTransfer"}} {
		a, ok1 := constInt64(x.ppkg, x.pname)
		b, ok2 := constInt64(x.lpkg, x.lname)
		construct := x.pname + " == " + x.lname
		if !ok1 || !ok2 {
			c.Anchor(rule, "constants "+construct)
			continue
		}
		if a == b {
			c.OK(rule, "-", construct, "-", fmt.Sprint(a))
		} else {
			c.Fail(rule, "violation", "-", construct, "-", fmt.Sprintf("parser uses %d, ledger uses %d", a, b))
		}
	}
	regs := c.P.RegByName()
	// ledger guards: len(Arguments) < K at the head of each transfer entry point (own guard or validator)
	guardOf := func(name string) (int64, bool) {
		r, ok := regs[name]
		if !ok || r.Entry == nil {
			return 0, false
		}
		e := c.P.Env(r.Entry)
		x, _ := entryContext(r.Entry)
		best := int64(-1)
		// facts holding at every success return: len(Arguments) - K >= 0, maximal K
		for _, ret := range returnsOf(r.Entry) {
			if !isSuccessReturn(ret) {
				continue
			}
			k := int64(-1)
			for _, f := range e.factsAt(ret.Block(), ret, nil) {
				if f.Lin && len(f.LE.c) == 1 && f.LE.c["len("+x.args()+")"] == 1 && -f.LE.k > k {
					k = -f.LE.k
				}
			}
			if best < 0 || k < best {
				best = k
			}
		}
		return best, best >= 0
	}
	for _, g := range []struct {
		name, pconst string
	}{{"ESDTTransfer", "MinArgsForESDTTransfer"}, {"ESDTNFTTransfer", "MinArgsForESDTNFTTransfer"}, {"MultiESDTNFTTransfer", "MinArgsForMultiESDTNFTTransfer"}} {
		k, ok := guardOf(g.name)
		pk, ok2 := constInt64("parsers", g.pconst)
		construct := g.name + ": ledger argument-count guard == parsers." + g.pconst
		if !ok || !ok2 {
			c.Anchor(rule, construct)
			continue
		}
		if k == pk {
			c.OK(rule, FuncName(regs[g.name].Entry), construct, c.P.Pos(regs[g.name].Entry.Pos()), fmt.Sprintf("both require at least %d arguments", k))
		} else {
			c.FailX(Oblig{Rule: rule, Func: FuncName(regs[g.name].Entry), Construct: construct, Pos: c.P.Pos(regs[g.name].Entry.Pos()), Kind: "violation",
				Detail: fmt.Sprintf("the ledger accepts calls with at least %d arguments, the parser with at least %d: one side reports / moves tokens the other rejects", k, pk)})
		}
	}
	// role tables
	var pfn = map[string]*ssa.Function{}
	for _, fn := range c.P.Funcs {
		if c.P.InPkgs(fn, "parsers") && fn.Signature.Recv() != nil {
			pfn[fn.Name()] = fn
		}
	}
	_ = pfn
	for _, g := range []struct{ name string }{{"ESDTTransfer"}, {"ESDTNFTTransfer"}, {"MultiESDTNFTTransfer"}} {
		r, ok := regs[g.name]
		// the parser dispatches on the protocol name: the routine is what the dispatch calls for this name (in that calling
		// context: a routine shared by two names is judged once per name)
		penv := parserRoutineFor(c.P, g.name)
		if !ok || r.Entry == nil || penv == nil {
			c.Anchor(rule, "parser routine for "+g.name)
			continue
		}
		pf := penv.Fn
		lt, lp := ledgerTables(c, g.name, r)
		pt, pp := parserTables(c, penv)
		for _, pr := range append(lp, pp...) {
			c.Fail(rule, "undecided", FuncName(pf), g.name+": role extraction", c.P.Pos(pf.Pos()), pr)
		}
		// the attached function is reported whenever it is there: given an argument at the position the parser reads it from,
		// every successful path of the routine (and of each helper on the way) passes the store
		for _, ps := range parserPresence {
			assume := []Fact{{Lin: true, Pos: true, LE: leAtom("len(P:args)").minus(ps.l).addK(-1)}}
			construct := g.name + ": the attached function is reported whenever the argument is there"
			miss := ""
			var in ssa.Instruction = ps.st
			for env := ps.e; env != nil; env = env.Parent {
				if w := passesUnder(env, in, assume); w != "" {
					miss = w
					break
				}
				if env.Fn == penv.Fn || env.Call == nil {
					break
				}
				in = env.Call
			}
			if miss == "" {
				c.OK(rule, FuncName(pf), construct, c.P.InstrPos(ps.st), "given "+assume[0].Key()+" every successful path passes the store")
			} else {
				c.FailX(Oblig{Rule: rule, Func: FuncName(pf), Construct: construct, Pos: c.P.InstrPos(ps.st), Kind: "violation",
					Detail:   "with " + assume[0].Key() + " (the function name is among the arguments) " + miss + " without storing CallFunction: the ledger runs the attached call, the parser reports none",
					Expected: "CallFunction is stored whenever len(args) exceeds the position it is read from"})
			}
		}
		for _, side := range []string{"sender", "destination"} {
			for _, role := range []string{"token", "number", "value", "receiver", "callFunction", "callArgsFrom"} {
				l, p := lt[side][role], pt[side][role]
				if len(l) == 0 && len(p) == 0 {
					continue
				}
				construct := fmt.Sprintf("%s [%s side]: position of %s", g.name, side, role)
				ls, ps := setStr(l), setStr(p)
				// the ledger decodes more numbers than the parser reports (the count); the parser's set must be contained, the rest equal
				good := ls == ps
				if role == "number" || role == "value" {
					good = subset(p, l) && len(p) > 0
					if !good && side == "destination" && g.name == "ESDTNFTTransfer" && forwardsLeadingArgs(c.P, r, 3) {
						// the emitter copies Arguments[:3] (token, nonce, quantity) in front of the payload: the destination message carries the
						// sender-side values at the sender-side positions, next to the payload the ledger decodes
						u := map[string]bool{}
						for k := range lt["sender"][role] {
							u[k] = true
						}
						for k := range l {
							u[k] = true
						}
						good = subset(p, u) && len(p) > 0
						ls = setStr(u) + " (sender-side positions forwarded by the emitter)"
					}
				}
				if role == "receiver" && len(p) > 0 {
					good = subset(p, l)
				}
				if good {
					c.OK(rule, FuncName(pf), construct, c.P.Pos(pf.Pos()), "ledger "+ls+" / parser "+ps)
				} else {
					c.FailX(Oblig{Rule: rule, Func: FuncName(pf), Construct: construct, Pos: c.P.Pos(pf.Pos()), Kind: "violation",
						Detail: "the ledger takes the " + role + " from argument position " + ls + ", the parser reports position " + ps + ": a contract is told something else than the ledger moved"})
				}
			}
		}
	}
}

// passesUnder: under the assumption every successful return of the function is reached only through the instruction's
// block; otherwise a description of the path that avoids it.
func passesUnder(env *Env, in ssa.Instruction, assume []Fact) string {
	return passesAnyUnder(env, []ssa.Instruction{in}, assume)
}

// passesAnyUnder: the same for a set of instructions (one of them lies on every path to a successful return).
func passesAnyUnder(env *Env, ins []ssa.Instruction, assume []Fact) string {
	blks := map[*ssa.BasicBlock]bool{}
	for _, in := range ins {
		blks[in.Block()] = true
	}
	if blks[env.Fn.Blocks[0]] {
		return ""
	}
	cut := map[edge]bool{}
	for ed, fs := range env.EdgeFactsUnder(assume) {
		for _, f := range fs {
			if f.Lin && f.LE.isConst() && f.LE.k < 0 {
				cut[ed] = true
			}
			for _, a := range assume {
				if contradicts(f, a) {
					cut[ed] = true
				}
			}
		}
	}
	for blk := range blks {
		for _, p := range blk.Preds {
			cut[edge{p, blk}] = true
		}
	}
	rets := returnsOf(env.Fn)
	returnsErr := false
	for _, r := range rets {
		if n := len(r.Results); n > 0 && isErrorType(r.Results[n-1].Type()) {
			returnsErr = true
		}
	}
	for _, r := range rets {
		if returnsErr && !isSuccessReturn(r) {
			continue
		}
		if blks[r.Block()] {
			continue
		}
		rcut := cut
		if returnsErr {
			rcut = map[edge]bool{}
			for ed := range cut {
				rcut[ed] = true
			}
			for ed := range errorEdges(r) {
				rcut[ed] = true
			}
		}
		if reachableAvoiding(env.Fn.Blocks[0], r.Block(), rcut) {
			return FuncName(env.Fn) + " reaches its return at " + env.P.InstrPos(r) + " (" + strings.Join(pathAvoiding(env.Fn.Blocks[0], r.Block(), rcut), "→") + ")"
		}
	}
	return ""
}

// forwardsLeadingArgs: below the entry point some emitter appends Arguments[:k] to the outgoing argument list.
func forwardsLeadingArgs(p *Prog, r Registration, k int64) bool {
	for fn := range p.ReachableFrom([]*ssa.Function{r.Entry}) {
		if !p.InPkgs(fn, "builtInFunctions") {
			continue
		}
		e := p.Env(fn)
		for _, b := range fn.Blocks {
			for _, in := range b.Instrs {
				if sl, ok := in.(*ssa.Slice); ok && sl.Low == nil && sl.High != nil {
					if hv, ok := constInt(sl.High); ok && hv == k && strings.HasSuffix(e.Term(sl.X), ".VMInput.Arguments") {
						for _, ref := range *sl.Referrers() {
							if call, ok := ref.(*ssa.Call); ok {
								if bi, ok := call.Call.Value.(*ssa.Builtin); ok && bi.Name() == "append" {
									return true
								}
							}
						}
					}
				}
			}
		}
	}
	return false
}

func setStr(m map[string]bool) string {
	var s []string
	for k := range m {
		s = append(s, k)
	}
	sort.Strings(s)
	return "{" + strings.Join(s, ", ") + "}"
}

func subset(a, b map[string]bool) bool {
	for k := range a {
		if !b[k] {
			return false
		}
	}
	return true
}

func constantInt64(k *types.Const) (int64, bool) {
	s := k.Val().ExactString()
	var v int64
	_, err := fmt.Sscan(s, &v)
	return v, err == nil
}

// c10r4: the two clauses shared with C12-R3 and C01-R3 that this property rests on as well: the tokenizer splits its input untouched (else a message
// whose last argument is empty does not parse into what was encoded), and the destination accepts / the count announces what the sender emits.
func c10r4(c *Ctx) {
	sub := NewCtx(c.P, c.Property, c.Tier)
	c12r3(sub)
	c01r3(sub)
	c.Rule("C10-R4", "the tokenizer splits its input untouched; the destination side accepts, and the announced count equals, what the sender side emits", 5)
	for _, o := range sub.obs {
		if o.Rule == "C12-R3" && (strings.HasPrefix(o.Construct, "strings.Split") || strings.HasPrefix(o.Construct, "hex.DecodeString")) || o.Rule == "C01-R3" {
			o.Rule = "C10-R4"
			c.add(o)
		}
	}
}

// c10r5: the destination side of the two single transfers rejects a message only for its shape (argument count), a failing
// dependency or the state of the destination — never for the *content* of an argument: the sender side forwards the
// caller's raw argument bytes, so a content test that the sender side does not make (e.g. "the quantity bytes equal the
// canonical encoding of the payload's value") makes the destination refuse what the sender shard debited and emitted.
func c10r5(c *Ctx) {
	const rule = "C10-R5"
	c.Rule(rule, "destination side: no rejection decided by the content of a forwarded argument", 2)
	regs := c.P.RegByName()
	for _, name := range []string{"ESDTTransfer", "ESDTNFTTransfer", "MultiESDTNFTTransfer", "SetUserName"} {
		r, ok := regs[name]
		if !ok || r.Entry == nil {
			c.Anchor(rule, "registration of "+name)
			continue
		}
		x, _ := entryContext(r.Entry)
		argsT := x.in + ".VMInput.Arguments["
		contentOf := func(f Fact) string {
			if strings.HasPrefix(f.Atom, "ok:") || strings.HasPrefix(f.Atom, "or{") {
				return "" // a failing call (decode, dependency) is a legitimate reason
			}
			k := f.Key()
			// argument content: "**IN.VMInput.Arguments[k]" outside of len(…)
			if name == "MultiESDTNFTTransfer" {
				// the announced count against the list's length: the sender side announces the number of entries it ships
				// (C01-R3 / R4), so these tests hold for every message it emits
				k = strings.ReplaceAll(k, "Uint64(bigBytes(**"+argsT+"0]))", "n")
			}
			if strings.Contains(k, "*"+argsT) {
				return k // an element of the arguments (its bytes or its length); len(Arguments) itself is the count
			}
			return ""
		}
		var bad []string
		nexits, nseen := 0, 0
		var walk func(e *Env, destOnly bool, depth int)
		walk = func(e *Env, destOnly bool, depth int) {
			// the continuing side: the transfers continue where the sender account is absent; SetUserName emits where the
			// user's account is absent and continues where it is present
			nilSnd := func(f Fact) bool { return !f.Lin && f.Pos && f.Atom == nilAtom(x.snd) }
			if name == "SetUserName" {
				nilSnd = func(f Fact) bool { return !f.Lin && !f.Pos && f.Atom == nilAtom(x.dst) }
			}
			for _, ret := range returnsOf(e.Fn) {
				if !lastIsError(e.Fn) || isSuccessReturn(ret) && !(len(ret.Results) > 0 && errCallOf(retval(ret, len(ret.Results)-1)) != nil) {
					continue
				}
				rv := retval(ret, len(ret.Results)-1)
				if !definitelyError(rv, ret.Block(), map[ssa.Value]bool{}) {
					continue
				}
				nseen++
				if destOnly {
					// an exit that the sender side passes as well is no concern: the sender shard refuses before it debits
					if _, onDest := e.CutAt(ret, nilSnd, nil); !onDest {
						continue
					}
				}
				nexits++
				// propagated from a module helper that is handed argument content: look inside
				if call := errCallOf(rv); call != nil {
					if sc := call.Call.StaticCallee(); sc != nil && len(sc.Blocks) > 0 && c.P.InPkgs(sc, "builtInFunctions") {
						if depth < 2 && !reachesInvoke(c.P, sc, "AccountDataHandler.SaveKeyValue", 0) && !reachesInvoke(c.P, sc, "AccountDataHandler.RetrieveValue", 0) {
							walk(e.Sub(call, sc), false, depth+1)
						}
						continue
					}
					if InvokeName(call) != "" {
						continue // a failing dependency
					}
					// an error built on the spot (fmt.Errorf, errors.New): judged by the branch that leads here
				}
				// the branch that decided this exit
				blk := ret.Block()
				for _, pb := range blk.Preds {
					hit := false
					for _, f := range e.EdgeFacts()[edge{pb, blk}] {
						if k := contentOf(f); k != "" {
							hit = true
							bad = append(bad, fmt.Sprintf("%s at %s decided by %s", e.Fn.Name(), c.P.InstrPos(ret), k))
						}
					}
					// a test the fact language does not render (a set lookup, a helper's verdict): does the tested value depend on
					// the bytes of an argument element?
					if !hit && len(pb.Instrs) > 0 {
						if iff, ok := pb.Instrs[len(pb.Instrs)-1].(*ssa.If); ok && !isErrTest(iff.Cond) {
							if leaf := argElementLeaf(e, iff.Cond, argsT, name == "MultiESDTNFTTransfer", 0, map[ssa.Value]bool{}); leaf != "" {
								bad = append(bad, fmt.Sprintf("%s at %s decided by a test on %s", e.Fn.Name(), c.P.InstrPos(ret), leaf))
							}
						}
					}
				}
			}
		}
		walk(c.P.Env(r.Entry), true, 0)
		construct := name + ": destination-side rejections"
		if nseen == 0 {
			c.Fail(rule, "anchor", FuncName(r.Entry), construct, c.P.Pos(r.Entry.Pos()), "no error exit found")
			continue
		}
		if len(bad) == 0 {
			c.OK(rule, FuncName(r.Entry), construct, c.P.Pos(r.Entry.Pos()), fmt.Sprintf("%d error exits, %d of them only on the destination side; none of those is decided by argument content", nseen, nexits))
		} else {
			c.FailX(Oblig{Rule: rule, Func: FuncName(r.Entry), Construct: construct, Pos: c.P.Pos(r.Entry.Pos()), Kind: "violation",
				Detail:   "the destination side can refuse a message because of the bytes of an argument that the sender side forwards as given: " + strings.Join(uniq(bad), " ; ") + ". The sender shard has already debited the tokens; the continuation is rejected by the function of the same name",
				Expected: "destination-side rejections depend on the argument count, on failing calls and on the destination's state only"})
		}
	}
}

// isErrTest: `err != nil` / `err == nil` on an error value (a failing call is a legitimate reason to refuse).
func isErrTest(v ssa.Value) bool {
	bo, ok := v.(*ssa.BinOp)
	if !ok || !(bo.Op == token.NEQ || bo.Op == token.EQL) {
		return false
	}
	return isNilConst(bo.Y) && bo.X.Type().String() == "error" || isNilConst(bo.X) && bo.Y.Type().String() == "error"
}

// argElementLeaf: the value is computed from the bytes (or the length) of an element of the call's argument list; returns
// the term of such a leaf. For the multi-transfer the announced count Arguments[0] does not count (see contentOf).
func argElementLeaf(e *Env, v ssa.Value, argsT string, skipCount bool, depth int, seen map[ssa.Value]bool) string {
	if depth > 12 || seen[v] {
		return ""
	}
	seen[v] = true
	t := e.Term(v)
	if i := strings.Index(t, "*"+argsT); i >= 0 {
		if !(skipCount && !strings.Contains(strings.ReplaceAll(t, "*"+argsT+"0]", ""), "*"+argsT)) {
			return t
		}
	}
	switch x := v.(type) {
	case *ssa.Parameter:
		if a, pe := e.actual(x); a != nil {
			return argElementLeaf(pe, a, argsT, skipCount, depth+1, seen)
		}
		return ""
	case *ssa.Call:
		if x.Type().String() == "error" {
			return ""
		}
	case *ssa.Extract:
		if call, ok := x.Tuple.(*ssa.Call); ok && call.Call.IsInvoke() {
			return "" // what a dependency returned: state, not argument content
		}
	}
	in, ok := v.(ssa.Instruction)
	if !ok {
		return ""
	}
	for _, op := range in.Operands(nil) {
		if *op == nil {
			continue
		}
		if leaf := argElementLeaf(e, *op, argsT, skipCount, depth+1, seen); leaf != "" {
			return leaf
		}
	}
	return ""
}

// parserRoutineFor: the function the ESDT-transfer parser calls when the function name equals the given protocol name — found
// through the comparison `name == "<protocol name>"` in an exported method of package parsers — as an env below that call.
func parserRoutineFor(p *Prog, name string) *Env {
	for _, fn := range p.Funcs {
		if !p.InPkgs(fn, "parsers") || fn.Signature.Recv() == nil {
			continue
		}
		for _, b := range fn.Blocks {
			if len(b.Instrs) == 0 || len(b.Succs) != 2 {
				continue
			}
			iff, ok := b.Instrs[len(b.Instrs)-1].(*ssa.If)
			if !ok {
				continue
			}
			bo, ok := iff.Cond.(*ssa.BinOp)
			if !ok || bo.Op != token.EQL {
				continue
			}
			isName := false
			for _, side := range []ssa.Value{bo.X, bo.Y} {
				if k, ok := side.(*ssa.Const); ok {
					if sv, ok := constStringVal(k.Value); ok && sv == name {
						isName = true
					}
				}
			}
			if !isName {
				continue
			}
			// the first module call with an argument list below the true branch
			seen := map[*ssa.BasicBlock]bool{}
			work := []*ssa.BasicBlock{b.Succs[0]}
			for len(work) > 0 {
				blk := work[0]
				work = work[1:]
				if seen[blk] || !b.Succs[0].Dominates(blk) && blk != b.Succs[0] {
					continue
				}
				seen[blk] = true
				for _, in := range blk.Instrs {
					call, ok := in.(*ssa.Call)
					if !ok || call.Call.StaticCallee() == nil || !p.InPkgs(call.Call.StaticCallee(), "parsers") || len(call.Call.StaticCallee().Blocks) == 0 {
						continue
					}
					for _, a := range call.Call.Args {
						if a.Type().String() == "[][]byte" {
							return p.Env(fn).Sub(call, call.Call.StaticCallee())
						}
					}
				}
				work = append(work, blk.Succs...)
			}
		}
	}
	return nil
}

// noteBuilderFields: a field of an object this function builds that is assigned two constants — a default, and another value
// on the branch taken only when sender == receiver — is a start index in disguise: its value on each side.
func noteBuilderFields(e *Env) {
	type key struct {
		al *ssa.Alloc
		f  int
	}
	stores := map[key][]*ssa.Store{}
	for _, b := range e.Fn.Blocks {
		for _, in := range b.Instrs {
			st, ok := in.(*ssa.Store)
			if !ok {
				continue
			}
			fa, ok := st.Addr.(*ssa.FieldAddr)
			if !ok {
				continue
			}
			al, ok := fa.X.(*ssa.Alloc)
			if !ok {
				continue
			}
			if _, isK := constInt(st.Val); !isK {
				continue
			}
			stores[key{al, fa.Field}] = append(stores[key{al, fa.Field}], st)
		}
	}
	sndRcv := func(f Fact) bool {
		return !f.Lin && f.Pos && strings.HasPrefix(f.Atom, "eq(") && strings.Contains(f.Atom, "P:sndAddr") && strings.Contains(f.Atom, "P:rcvAddr")
	}
	for k, sts := range stores {
		if len(sts) != 2 {
			continue
		}
		vals := map[string]int64{}
		for _, st := range sts {
			v, _ := constInt(st.Val)
			if _, so := e.CutAt(st, sndRcv, nil); so {
				vals["sender"] = v
			} else {
				vals["destination"] = v
			}
		}
		if len(vals) == 2 {
			atom := "*" + e.Term(k.al) + "." + fieldName(k.al.Type(), k.f)
			startPhiAtoms[atom] = vals
		}
	}
}
