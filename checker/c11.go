package main

// C11 — built-in functions are total on transaction-reachable input.

import (
	"fmt"
	"go/token"
	"go/types"
	"strings"

	"golang.org/x/tools/go/ssa"
)

func init() {
	register(&Property{
		ID:    "C11",
		Level: "other",
		Explanation: "R1: every index / slice expression on a slice in builtInFunctions is entailed in-range by the guards cutting it (linear entailment over edge facts, validator summaries, call-site preconditions, make lengths, loop induction). " +
			"R2: a 64-bit number decoded from the arguments is bounded by a length or constant before arithmetic, signed conversion, indexing, slicing or allocation. R3: every dereference of an optional message field (TokenMetaData) is cut by its " +
			"presence test (storage-derived entries) or rests on A-protomsg with the emitter-side obligation checked. R4: every method call on an account parameter is cut by its presence test or covered by A-presence. R5: entry points return " +
			"(output, nil) or (nil, error) and only ever store ReturnCode Ok. R6 (shared with C03-R6): the only writer of caller-chosen bytes cannot reach a protocol key, which is the premise under which stored entries have a non-nil Value and metadata exactly for NFTs. R7: a list made with make([]*T, n) and filled slot by slot in a loop has no slot skipped. Does NOT decide: panics inside dependencies or math/big, memory use other than make sizes.",
		Trusted: []string{"A-len", "A-argbytes", "A-presence", "A-protomsg (destination-side payloads were produced by the sender-side emitter; its guarantee is checked as an obligation)", "A-input (CallValue non-nil)"},
		Rules:   []func(*Ctx){c11r1, c11r2},
	})
}

func bifScope(p *Prog, fn *ssa.Function) bool { return p.InPkgs(fn, "builtInFunctions") }

func c11r1(c *Ctx) {
	indexRule(c, "C11-R1", "every index / slice expression in builtInFunctions is in range on every path", bifScope, 100)
}

func c11r2(c *Ctx) {
	taintRule(c, "C11-R2", "decoded 64-bit counts are bounded before arithmetic, conversion, indexing or allocation", bifScope, taintAll, 4)
}

func init() {
	properties["C11"].Rules = append(properties["C11"].Rules, c11r3, c11r4, c11r5, c11r6)
}

func isMetaDataPtr(v ssa.Value) bool {
	return v.Type().String() == "*"+modPath+"/data/esdt.MetaData"
}

// c11r3: optional message fields. Every dereference of a *esdt.MetaData value is cut by its presence test; a value
// decoded from a cross-shard payload rests on A-protomsg, whose emitter-side guarantee is checked at the Marshal sites.
// metaDerefOK: the dereference of the metadata pointer is justified in this calling context — by a presence test that cuts
// it (here or at a call above), or by A-protomsg (the entry was decoded from a protocol-generated payload on the destination
// side: sender account absent) — or, for an unexported helper, in every calling context.
func metaDerefOK(p *Prog, e *Env, in ssa.Instruction, ptr ssa.Value, depth int) (string, bool, string) {
	s := EffectSite{Env: e, In: in}
	atom := nilAtom(e.Term(ptr))
	if fs, where, ok := s.CutInContext(func(f Fact) bool { return !f.Lin && !f.Pos && f.Atom == atom }, nil); ok {
		return "cut in " + where + " by " + fs[0].String(), true, ""
	}
	top := e
	var topAt ssa.Instruction = in
	for top.Parent != nil {
		topAt = top.Call
		top = top.Parent
	}
	if ld, isLoad := ptr.(*ssa.UnOp); isLoad {
		if fa, isFA := ld.X.(*ssa.FieldAddr); isFA && entryOrigin(e, fa.X, 0) == "decoded" {
			if x, okx := entryContext(top.Fn); okx {
				if _, ok2 := top.CutAt(topAt, nilPred(x.snd), nil); ok2 {
					return "A-protomsg: payload decoded on the destination side (sender account absent); the emitter marshals only entries with metadata (checked below)", true, ""
				}
			}
		}
	}
	if depth >= 3 || isExportedAPI(top.Fn) || len(p.Callers[top.Fn]) == 0 {
		return "", false, s.Chain()
	}
	var bys []string
	n := 0
	for _, cs := range p.Callers[top.Fn] {
		if !p.Src(cs.Parent()) {
			continue
		}
		n++
		by, ok, ctx := metaDerefOK(p, rebuildChain(p, e, cs), in, ptr, depth+1)
		if !ok {
			return "", false, ctx
		}
		bys = append(bys, by)
	}
	if n == 0 {
		return "", false, s.Chain()
	}
	return "in every calling context: " + strings.Join(uniq(bys), " | "), true, ""
}

func c11r3(c *Ctx) {
	const rule = "C11-R3"
	c.Rule(rule, "TokenMetaData is dereferenced only where it is known to be present", 10)
	c.Axiom("A-protomsg")
	for _, fn := range c.P.Funcs {
		if !bifScope(c.P, fn) {
			continue
		}
		seen := map[string]int{}
		for _, b := range fn.Blocks {
			for _, in := range b.Instrs {
				var ptr ssa.Value
				switch x := in.(type) {
				case *ssa.FieldAddr:
					if isMetaDataPtr(x.X) {
						ptr = x.X
					}
				case *ssa.UnOp:
					if x.Op == token.MUL && isMetaDataPtr(x.X) {
						ptr = x.X
					}
				}
				if ptr == nil {
					continue
				}
				e := c.P.Env(fn)
				construct := "deref " + e.Term(ptr)
				seen[construct]++
				if k := seen[construct]; k > 1 {
					construct += fmt.Sprintf(" #%d", k)
				}
				pos := c.P.InstrPos(in)
				if _, isAlloc := ptr.(*ssa.Alloc); isAlloc {
					c.Triv(rule, FuncName(fn), construct, pos, "freshly allocated")
					continue
				}
				by, ok, ctx := metaDerefOK(c.P, e, in, ptr, 0)
				if ok {
					c.OK(rule, FuncName(fn), construct, pos, by)
					continue
				}
				c.FailX(Oblig{Rule: rule, Func: FuncName(fn), Construct: construct, Pos: pos, Kind: "violation",
					Detail:   "TokenMetaData is dereferenced on a path where nothing establishes that it is non-nil (calling context: " + ctx + "): nil-pointer panic for an entry without metadata",
					Expected: "a presence test `if x.TokenMetaData == nil { return … }` (here, in the reader that returned the entry, or at every call site)"})
			}
		}
	}
	// emitter side of A-protomsg: ESDTNFTTransfer ships a marshalled entry as Arguments[3]; it must carry metadata
	r, ok := c.P.RegByName()["ESDTNFTTransfer"]
	if !ok || r.Entry == nil {
		c.Anchor(rule, "registration of ESDTNFTTransfer")
		return
	}
	isMarshal := func(in ssa.Instruction) (string, bool) {
		if ci, ok := in.(ssa.CallInstruction); ok && InvokeName(ci) == "Marshalizer.Marshal" {
			return "Marshal", true
		}
		return "", false
	}
	n := 0
	for _, s := range c.P.EffectSites(r.Entry, "marshal", isMarshal) {
		call := s.In.(ssa.CallInstruction)
		obj := call.Common().Args[0]
		if !strings.HasSuffix(s.Env.Term(obj), "") || !strings.Contains(obj.Type().String(), "interface") {
			continue
		}
		mi, isMI := obj.(*ssa.MakeInterface)
		if !isMI || !strings.HasSuffix(mi.X.Type().String(), "esdt.ESDigitalToken") {
			continue
		}
		// only the marshalled value that is shipped (flows into the output transfer), i.e. inside the emitter, not the storage saver
		if !strings.Contains(strings.ToLower(s.In.Parent().Name()), "output") && !flowsToOutputTransfer(call) {
			continue
		}
		n++
		atom := nilAtom("*" + s.Env.Term(mi.X) + ".TokenMetaData")
		construct := "emitter: Marshal(" + s.Env.Term(mi.X) + ") in " + s.Chain()
		if fs, where, ok := s.CutInContext(func(f Fact) bool { return !f.Lin && !f.Pos && f.Atom == atom }, nil); ok {
			c.OK(rule, FuncName(s.In.Parent()), construct, c.P.InstrPos(s.In), "shipped entry has metadata: cut in "+where+" by "+fs[0].String())
		} else {
			c.FailX(Oblig{Rule: rule, Func: FuncName(s.In.Parent()), Construct: construct, Pos: c.P.InstrPos(s.In), Kind: "violation",
				Detail: "the sender side can ship an entry without TokenMetaData, which the destination side dereferences (A-protomsg obligation)"})
		}
	}
	if n == 0 {
		c.Anchor(rule, "the Marshal call of the ESDTNFTTransfer emitter")
	}
}

func flowsToOutputTransfer(call ssa.CallInstruction) bool {
	v, ok := call.(ssa.Value)
	if !ok {
		return false
	}
	for _, r := range *v.Referrers() {
		if ex, ok := r.(*ssa.Extract); ok && ex.Index == 0 {
			for _, rr := range *ex.Referrers() {
				if c2, ok := rr.(ssa.CallInstruction); ok {
					if b, ok := c2.Common().Value.(*ssa.Builtin); ok && b.Name() == "append" {
						return true
					}
				}
				if _, ok := rr.(*ssa.Store); ok {
					return true
				}
			}
		}
	}
	return false
}

// c11r4: absent accounts.
func c11r4(c *Ctx) {
	const rule = "C11-R4"
	c.Rule(rule, "methods are called on an account only where it is known to be present", 60)
	c.Axiom("A-presence")
	isAcctCall := func(in ssa.Instruction) (string, bool) {
		if ci, ok := in.(ssa.CallInstruction); ok {
			if iface, m, ok := depInvoke(ci); ok && iface == "UserAccountHandler" && m != "IsInterfaceNil" {
				return m, true
			}
		}
		return "", false
	}
	for _, r := range c.P.Registrations() {
		if r.Entry == nil {
			continue
		}
		x, ok := entryContext(r.Entry)
		if !ok {
			continue
		}
		seen := map[string]int{}
		for _, s := range c.P.EffectSites(r.Entry, "acctcall", isAcctCall) {
			call := s.In.(ssa.CallInstruction)
			at := s.Env.Term(call.Common().Value)
			construct := r.Key + ": " + at + "." + s.Name + "() in " + s.Chain()
			seen[construct]++
			if k := seen[construct]; k > 1 {
				construct += fmt.Sprintf(" #%d", k)
			}
			pos := c.P.InstrPos(s.In)
			notNil := func(f Fact) bool { return !f.Lin && !f.Pos && f.Atom == nilAtom(at) }
			var pred func(Fact) bool
			switch {
			case at == x.snd:
				pred = orPred(notNil, eqPred(x.caller, x.rcpt)) // A-presence: a self-addressed call runs where the sender lives
			case at == x.dst:
				pred = notNil
			default:
				org := accountOrigin(s.Env, call.Common().Value, 0)
				mayNil := false
				for _, o := range org {
					if o == "nil" || strings.HasPrefix(o, "?") {
						mayNil = true
					}
				}
				if !mayNil {
					c.Triv(rule, FuncName(s.In.Parent()), construct, pos, "account obtained from LoadAccount (its error is checked: C17): "+strings.Join(org, ","))
					continue
				}
				pred = notNil
			}
			if fs, where, ok := s.CutInContext(pred, nil); ok {
				c.OK(rule, FuncName(s.In.Parent()), construct, pos, "cut in "+where+" by "+fs[0].String())
			} else {
				c.FailX(Oblig{Rule: rule, Func: FuncName(s.In.Parent()), Construct: construct, Pos: pos, Kind: "violation",
					Detail:   "a method is called on account " + at + " on a path where it may be absent (nil interface): nil-pointer panic",
					Path:     s.witnessPath(pred),
					Expected: "check.IfNil(" + at + ") guard (or, for the sender, CallerAddr == RecipientAddr) on every path"})
			}
		}
	}
}

// c11r5: result shape.
func c11r5(c *Ctx) {
	resultShapeRule(c, "C11-R5")
	const rule = "C11-R5b"
	c.Rule(rule, "ReturnCode is only ever stored Ok", 10)
	okConst, isC := c.P.Obj("", "Ok").(*types.Const)
	if !isC {
		c.Anchor(rule, "constant vmcommon.Ok")
		return
	}
	for _, fn := range c.P.Funcs {
		if !bifScope(c.P, fn) {
			continue
		}
		e := c.P.Env(fn)
		for _, b := range fn.Blocks {
			for _, in := range b.Instrs {
				st, ok := in.(*ssa.Store)
				if !ok {
					continue
				}
				fa, ok := st.Addr.(*ssa.FieldAddr)
				if !ok || !isFieldOf(fa, "VMOutput", "ReturnCode") {
					continue
				}
				construct := fmt.Sprintf("ReturnCode = %s @b%d", e.Term(st.Val), b.Index)
				if k, ok := st.Val.(*ssa.Const); ok && k.Value != nil && k.Value.ExactString() == okConst.Val().ExactString() {
					c.Triv(rule, FuncName(fn), construct, c.P.InstrPos(st), "Ok")
				} else {
					c.FailX(Oblig{Rule: rule, Func: FuncName(fn), Construct: construct, Pos: c.P.InstrPos(st), Kind: "violation", Detail: "a built-in function returns an output whose return code is not Ok"})
				}
			}
		}
	}
}

// c11r6: totality on stored entries rests on every ESDT entry having been written by a built-in function (a non-nil Value,
// metadata present exactly for NFTs). The user-key writer is the only function that stores caller-chosen bytes: it must not reach
// the protocol key space (shared with C03-R6) — a planted entry with a nil Value panics in the next transfer that reads it.
func c11r6(c *Ctx) {
	c.shareRule(c03r6, "C03-R6", "C11-R6", "no caller-chosen bytes under a protocol key: SaveKeyValue's write is cut by the protected-prefix test on the very key written", nil)
}
