package main

// C11-R7: lists of pointers that are sized first and filled by a loop have no holes.

import (
	"fmt"
	"go/token"
	"go/types"

	"golang.org/x/tools/go/ssa"
)

func init() {
	properties["C11"].Rules = append(properties["C11"].Rules, c11r7)
}

// c11r7: "never panics": a list made with `make([]*T, n)` holds nil pointers until its slots are assigned. Where a loop
// assigns slot i in turn i, every turn stores its slot before the next one begins — a turn that is skipped (`continue` for
// an entry with nothing to do) leaves a nil element that whoever walks the list afterwards dereferences. Leaving the loop
// by returning an error is fine: the list is dropped with the call.
func c11r7(c *Ctx) {
	const rule = "C11-R7"
	c.Rule(rule, "a pre-sized list of pointers filled slot by slot in a loop has every slot assigned: no turn reaches the next one without its store", 1)
	n := 0
	for _, fn := range c.P.Funcs {
		if !c.P.InPkgs(fn, "builtInFunctions", "parsers") || len(fn.Blocks) == 0 {
			continue
		}
		seen := map[string]int{}
		for _, b := range fn.Blocks {
			for _, in := range b.Instrs {
				st, ok := in.(*ssa.Store)
				if !ok {
					continue
				}
				ia, ok := st.Addr.(*ssa.IndexAddr)
				if !ok {
					continue
				}
				// the list: made in this function with a non-constant or constant size, elements are pointers
				lst := ia.X
				if ld, ok := lst.(*ssa.UnOp); ok && ld.Op == token.MUL {
					if f := forwarded(ld); f != nil {
						lst = f
					}
				}
				if _, isMake := lst.(*ssa.MakeSlice); !isMake {
					continue
				}
				sl, ok := lst.Type().Underlying().(*types.Slice)
				if !ok {
					continue
				}
				if _, isPtr := sl.Elem().Underlying().(*types.Pointer); !isPtr {
					continue
				}
				// the slot index is the loop counter of a header
				var ph *ssa.Phi
				switch x := ia.Index.(type) {
				case *ssa.Phi:
					ph = x
				case *ssa.BinOp:
					if p2, ok := x.X.(*ssa.Phi); ok && x.Op == token.ADD {
						ph = p2
					}
				}
				if ph == nil || ph.Block() == nil || !ph.Block().Dominates(st.Block()) || ph.Block() == st.Block() {
					continue
				}
				header := ph.Block()
				n++
				e := c.P.Env(fn)
				construct := "slots of " + e.Term(lst) + " assigned in the loop at " + c.P.InstrPos(ph)
				seen[construct]++
				if k := seen[construct]; k > 1 {
					construct += fmt.Sprintf(" #%d", k)
				}
				// from every way into the loop body, the header is not reached again without passing the store
				skipped := ""
				for _, s := range header.Succs {
					if !blockReaches(s, st.Block(), header) {
						continue // the exit edge
					}
					vis := map[*ssa.BasicBlock]bool{}
					var walk func(x *ssa.BasicBlock) bool
					walk = func(x *ssa.BasicBlock) bool {
						if x == header {
							return true
						}
						if vis[x] || x == st.Block() {
							return false
						}
						vis[x] = true
						for _, y := range x.Succs {
							if walk(y) {
								return true
							}
						}
						return false
					}
					if walk(s) {
						skipped = "a turn that enters at b" + fmt.Sprint(s.Index) + " can reach the next turn without the store at " + c.P.InstrPos(st)
					}
				}
				if skipped == "" {
					c.OK(rule, FuncName(fn), construct, c.P.InstrPos(st), "every turn stores its slot before the next one begins (or leaves the function)")
				} else {
					c.FailX(Oblig{Rule: rule, Func: FuncName(fn), Construct: construct, Pos: c.P.InstrPos(st), Kind: "violation",
						Detail:   skipped + ": the slot keeps the nil pointer it was made with, and the code that walks the list afterwards dereferences it (a panic instead of an error)",
						Expected: "every turn of the filling loop assigns its slot, or the call is refused"})
				}
			}
		}
	}
	if n == 0 {
		c.Anchor(rule, "a pre-sized list of pointers filled in a loop")
	}
}

// blockReaches: to is reachable from from without passing through avoid.
func blockReaches(from, to, avoid *ssa.BasicBlock) bool {
	vis := map[*ssa.BasicBlock]bool{}
	var walk func(x *ssa.BasicBlock) bool
	walk = func(x *ssa.BasicBlock) bool {
		if x == to {
			return true
		}
		if vis[x] || x == avoid {
			return false
		}
		vis[x] = true
		for _, y := range x.Succs {
			if walk(y) {
				return true
			}
		}
		return false
	}
	return walk(from)
}
