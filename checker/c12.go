package main

// C12 — transaction-data parsers are total and inverse to the builders.

import (
	"fmt"
	"go/token"
	"go/types"
	"strings"

	"golang.org/x/tools/go/ssa"
)

func init() {
	register(&Property{
		ID:    "C12",
		Level: "other",
		Explanation: "R1: every index / slice expression of package parsers is entailed in-range by the guards cutting it (exported methods are entry points without caller guarantees; unexported helpers get call-site preconditions), and the decoded " +
			"transfer count is bounded by a length before it is multiplied. R2: a *big.Int field of a message decoded from argument bytes is nil-checked before it is an operand of a big.Int method. R3: builder and parsers use the same separator " +
			"constant and hex codec: every element the builder appends is a hex.EncodeToString result joined by \"@\"; the parsers split on the same constant and decode with hex.DecodeString. Does NOT decide: the round trip as an equation over all " +
			"strings and lists.",
		Trusted: []string{"A-len", "strings.Split(s, sep) returns at least one element for a non-empty separator"},
		Rules:   []func(*Ctx){c12r1, c12r1b},
	})
}

func parsersScope(p *Prog, fn *ssa.Function) bool { return p.InPkgs(fn, "parsers") }

func c12r1(c *Ctx) {
	indexRule(c, "C12-R1", "every index / slice expression in package parsers is in range on every path", parsersScope, 25)
}
func c12r1b(c *Ctx) {
	taintRule(c, "C12-R1b", "the decoded transfer count is bounded before arithmetic, indexing or allocation", parsersScope, taintAll, 2)
}

func init() {
	properties["C12"].Rules = append(properties["C12"].Rules, c12r2, c12r3)
}

// c12r2: numeric fields of a message decoded from argument bytes are optional on the wire.
func c12r2(c *Ctx) {
	const rule = "C12-R2"
	c.Rule(rule, "a *big.Int field of a freshly decoded message is nil-checked before it is an operand of a big.Int method", 1)
	for _, fn := range c.P.Funcs {
		if !parsersScope(c.P, fn) {
			continue
		}
		e := c.P.Env(fn)
		for _, b := range fn.Blocks {
			for _, in := range b.Instrs {
				call, ok := in.(*ssa.Call)
				if !ok || bigMethod(call) == "" {
					continue
				}
				for _, a := range call.Call.Args {
					ld, ok := a.(*ssa.UnOp)
					if !ok || !isBigIntPtr(a.Type()) {
						continue
					}
					fa, ok := ld.X.(*ssa.FieldAddr)
					if !ok || entryOrigin(e, fa.X, 0) != "decoded" {
						continue
					}
					t := e.Term(a)
					construct := bigMethod(call) + " with operand " + t
					atom := nilAtom(t)
					if fs, ok := e.CutAt(call, func(f Fact) bool { return !f.Lin && !f.Pos && f.Atom == atom }, nil); ok {
						c.OK(rule, FuncName(fn), construct, c.P.InstrPos(call), "cut by "+fs[0].String())
					} else {
						c.FailX(Oblig{Rule: rule, Func: FuncName(fn), Construct: construct, Pos: c.P.InstrPos(call), Kind: "violation",
							Detail:   "the field is absent (nil) when the decoded bytes do not carry it; big.Int methods panic on a nil operand",
							Expected: "if " + t + " == nil { return error } before the call"})
					}
				}
			}
		}
	}
}

// c12r3: builder and parsers speak the same grammar: function (sep hex)*, sep constantly "@".
func c12r3(c *Ctx) {
	const rule = "C12-R3"
	c.Rule(rule, "builder and parsers agree on the separator constant and the hex codec", 9)
	sepP, ok1 := c.P.ConstString("parsers", "atSeparator")
	if !ok1 {
		c.Anchor(rule, "separator constant parsers.atSeparator")
		return
	}
	// builder side: the receiver field concatenated between elements by ToString must only ever hold that constant
	var toString *ssa.Function
	for _, fn := range c.P.Funcs {
		if c.P.InPkgs(fn, "txDataBuilder") && fn.Name() == "ToString" {
			toString = fn
		}
	}
	if toString == nil {
		c.Anchor(rule, "txDataBuilder ToString")
		return
	}
	sepFields := map[string]bool{}
	// The pieces the string is put together from, and which of them join elements: every leaf but the first of a `+` chain
	// (`data + sep + element`, `head + sep + strings.Join(…)`), the separator argument of strings.Join, and what a
	// strings.Builder is fed inside the loop over the elements.
	inCycle := func(b *ssa.BasicBlock) bool {
		for _, s := range b.Succs {
			if s == b || reachableAvoiding(s, b, nil) {
				return true
			}
		}
		return false
	}
	var leaves func(v ssa.Value, out *[]ssa.Value)
	leaves = func(v ssa.Value, out *[]ssa.Value) {
		if bo, ok := v.(*ssa.BinOp); ok && bo.Op == token.ADD {
			leaves(bo.X, out)
			leaves(bo.Y, out)
			return
		}
		*out = append(*out, v)
	}
	type joinerUse struct {
		v  ssa.Value
		at ssa.Instruction
	}
	var joiners []joinerUse
	for _, b := range toString.Blocks {
		for _, in := range b.Instrs {
			switch x := in.(type) {
			case *ssa.BinOp:
				if x.Op != token.ADD {
					continue
				}
				// only maximal chains: a `+` that is itself an operand of a `+` is part of its parent's chain
				partOfChain := false
				if x.Referrers() != nil {
					for _, r := range *x.Referrers() {
						if pb, ok := r.(*ssa.BinOp); ok && pb.Op == token.ADD {
							partOfChain = true
						}
					}
				}
				if partOfChain {
					continue
				}
				var ls []ssa.Value
				leaves(x, &ls)
				for _, l := range ls[1:] {
					joiners = append(joiners, joinerUse{l, x})
				}
			case *ssa.Call:
				switch CalleeName(x) {
				case "(*strings.Builder).WriteString":
					if len(x.Call.Args) == 2 && inCycle(b) {
						joiners = append(joiners, joinerUse{x.Call.Args[1], x})
					}
				case "strings.Join":
					joiners = append(joiners, joinerUse{x.Call.Args[1], x})
				}
			}
		}
	}
	for _, j := range joiners {
		switch v := j.v.(type) {
		case *ssa.UnOp:
			if fa, ok := v.X.(*ssa.FieldAddr); ok {
				if _, isStr := v.Type().Underlying().(*types.Basic); isStr {
					sepFields[fieldName(fa.X.Type(), fa.Field)] = true
				}
			}
		case *ssa.Const:
			if s, ok := constStringVal(v.Value); ok {
				if s == sepP {
					c.OK(rule, FuncName(toString), "joiner literal", c.P.InstrPos(j.at), "builder joins with the parser's separator")
				} else {
					c.Fail(rule, "violation", FuncName(toString), "joiner literal", c.P.InstrPos(j.at), fmt.Sprintf("builder joins elements with %q, the parsers split on %q", s, sepP))
				}
				sepFields["<literal>"] = true
			}
		}
	}
	if len(sepFields) == 0 {
		c.Anchor(rule, "the joiner used by txDataBuilder.ToString")
	}
	for f := range sepFields {
		if f == "<literal>" {
			continue
		}
		for _, fn := range c.P.Funcs {
			if !c.P.InPkgs(fn, "txDataBuilder") {
				continue
			}
			for _, b := range fn.Blocks {
				for _, in := range b.Instrs {
					st, ok := in.(*ssa.Store)
					if !ok {
						continue
					}
					// an assignment of the whole object (`*b = builder{…}`) writes the joiner too: with what the literal says, or ""
					if _, isFA := st.Addr.(*ssa.FieldAddr); !isFA && len(toString.Params) > 0 && types.Identical(st.Addr.Type(), toString.Params[0].Type()) {
						val := "the zero value"
						good := false
						if ld, ok := st.Val.(*ssa.UnOp); ok {
							if al, ok := ld.X.(*ssa.Alloc); ok && al.Referrers() != nil {
								for _, ref := range *al.Referrers() {
									if fa2, ok := ref.(*ssa.FieldAddr); ok && fieldName(fa2.X.Type(), fa2.Field) == f && fa2.Referrers() != nil {
										for _, r2 := range *fa2.Referrers() {
											if st2, ok := r2.(*ssa.Store); ok {
												val = c.P.Env(fn).Term(st2.Val)
												if k, ok := st2.Val.(*ssa.Const); ok {
													if sv, ok := constStringVal(k.Value); ok && sv == sepP {
														good = true
													}
												}
											}
										}
									}
								}
							}
						}
						construct := "whole-object assignment sets ." + f + " to " + val
						if good {
							c.OK(rule, FuncName(fn), construct, c.P.InstrPos(st), "the builder's joiner is the parser's separator constant")
						} else {
							c.Fail(rule, "violation", FuncName(fn), construct, c.P.InstrPos(st), fmt.Sprintf("the builder's joiner is not constantly %q, on which the parsers split: after this assignment ToString joins with %s", sepP, val))
						}
						continue
					}
					fa, ok := st.Addr.(*ssa.FieldAddr)
					if !ok || fieldName(fa.X.Type(), fa.Field) != f {
						continue
					}
					construct := "store ." + f + " = " + c.P.Env(fn).Term(st.Val)
					if k, ok := st.Val.(*ssa.Const); ok {
						if s, ok := constStringVal(k.Value); ok && s == sepP {
							c.OK(rule, FuncName(fn), construct, c.P.InstrPos(st), "the builder's joiner is the parser's separator constant")
							continue
						}
					}
					c.Fail(rule, "violation", FuncName(fn), construct, c.P.InstrPos(st), fmt.Sprintf("the builder's joiner is not constantly %q, on which the parsers split", sepP))
				}
			}
		}
	}
	// (a) every strings.Split in parsers uses the separator constant
	nsplit := 0
	for _, fn := range c.P.Funcs {
		if !parsersScope(c.P, fn) {
			continue
		}
		e := c.P.Env(fn)
		for _, b := range fn.Blocks {
			for _, in := range b.Instrs {
				call, ok := in.(*ssa.Call)
				if !ok {
					continue
				}
				switch CalleeName(call) {
				case "strings.Split":
					nsplit++
					if t := e.Term(call.Call.Args[1]); t == `"`+sepP+`"` {
						c.OK(rule, FuncName(fn), "strings.Split(…, "+t+")", c.P.InstrPos(call), "splits on the separator constant")
					} else {
						c.Fail(rule, "violation", FuncName(fn), "strings.Split(…, "+t+")", c.P.InstrPos(call), "splits on something else than the separator constant")
					}
					// the subject of the split is the function's own string parameter, untouched: any trimming / rewriting before the split
					// loses information the encoders put there (an empty last argument is a trailing separator)
					if why, ok := splitSubjectOK(c.P, call.Call.Args[0], 0); ok {
						c.OK(rule, FuncName(fn), "strings.Split subject", c.P.InstrPos(call), "the input string itself (at most a leading separator dropped), at every call site: "+e.Term(call.Call.Args[0]))
					} else if why != "" {
						c.FailX(Oblig{Rule: rule, Func: FuncName(fn), Construct: "strings.Split subject", Pos: c.P.InstrPos(call), Kind: "violation",
							Detail:   "the tokenizer does not split its caller's input as given: " + why + " — what the builder / the built-in functions' encoder wrote (e.g. a trailing separator for an empty last argument) is altered before parsing, so parse(build(x)) != x",
							Expected: "strings.Split(<the data parameter of the exported parser>, separator)"})
					} else {
						c.FailX(Oblig{Rule: rule, Func: FuncName(fn), Construct: "strings.Split subject", Pos: c.P.InstrPos(call), Kind: "violation",
							Detail:   "the tokenizer splits " + e.Term(call.Call.Args[0]) + ", not its input as given: what the builder / the built-in functions' encoder wrote (e.g. a trailing separator for an empty last argument) is altered before parsing, so parse(build(x)) != x",
							Expected: "strings.Split(<the data parameter>, separator)"})
					}
				}
			}
		}
	}
	if nsplit == 0 {
		c.Anchor(rule, "strings.Split in package parsers")
	}
	// (b) parsers decode arguments with hex.DecodeString only
	ndec := 0
	for _, fn := range c.P.Funcs {
		if !parsersScope(c.P, fn) {
			continue
		}
		for _, b := range fn.Blocks {
			for _, in := range b.Instrs {
				if call, ok := in.(*ssa.Call); ok && CalleeName(call) == "encoding/hex.DecodeString" {
					ndec++
					e := c.P.Env(fn)
					if _, isPar := call.Call.Args[0].(*ssa.Parameter); isPar || strings.Contains(e.Term(call.Call.Args[0]), "[") {
						c.OK(rule, FuncName(fn), "hex.DecodeString", c.P.InstrPos(call), "decodes the token as given: "+e.Term(call.Call.Args[0]))
					} else {
						c.Fail(rule, "violation", FuncName(fn), "hex.DecodeString", c.P.InstrPos(call), "the token is rewritten before hex decoding: "+e.Term(call.Call.Args[0]))
					}
				}
			}
		}
	}
	if ndec == 0 {
		c.Anchor(rule, "hex.DecodeString in package parsers")
	}
	// (c0) numeric builder methods: the bytes that get hex-encoded are math/big's canonical big-endian magnitude of the
	// parameter (what the parser side, SetBytes, inverts) — handed to hex.EncodeToString, to a helper, or the method delegates
	// to a sibling numeric method with the converted parameter
	for _, fn := range c.P.Funcs {
		if !c.P.InPkgs(fn, "txDataBuilder") || fn.Signature.Recv() == nil || len(fn.Params) != 2 || !isExportedAPI(fn) {
			continue
		}
		par := fn.Params[1]
		isNum := isInteger(par.Type()) && par.Type().Underlying().(*types.Basic).Kind() != types.Uint8 || isBigIntPtr(par.Type())
		if !isNum {
			continue
		}
		e := c.P.Env(fn)
		pt := "P:" + paramName(par)
		want := map[string]bool{"Bytes(bigI(" + pt + "))": true, "Bytes(" + pt + ")": true, "Bytes(bigU(" + pt + "))": true}
		good := ""
		for _, b := range fn.Blocks {
			for _, in := range b.Instrs {
				call, ok := in.(*ssa.Call)
				if !ok {
					continue
				}
				for _, a := range call.Call.Args {
					if want[e.Term(a)] {
						good = e.Term(a) + " handed to " + CalleeName(call)
					}
					// delegation: Int(v) { return b.Int64(int64(v)) }
					if sc := call.Call.StaticCallee(); sc != nil && sc != fn && sc.Signature.Recv() != nil && c.P.InPkgs(sc, "txDataBuilder") && e.LE(a).String() == pt && isInteger(a.Type()) {
						good = "delegates to " + sc.Name() + " with the parameter"
					}
					// delegation to the big-number method: Int64(v) { return b.BigInt(big.NewInt(v)) }
					if sc := call.Call.StaticCallee(); sc != nil && sc != fn && sc.Signature.Recv() != nil && c.P.InPkgs(sc, "txDataBuilder") && isBigIntPtr(a.Type()) {
						if t := e.Term(a); t == "bigI("+pt+")" || t == "bigU("+pt+")" {
							good = "delegates to " + sc.Name() + " with " + t
						}
					}
				}
			}
		}
		construct := fn.Name() + ": number encoded as big-endian magnitude of " + pt
		if good != "" {
			c.OK(rule, FuncName(fn), construct, c.P.Pos(fn.Pos()), good)
		} else {
			c.FailX(Oblig{Rule: rule, Func: FuncName(fn), Construct: construct, Pos: c.P.Pos(fn.Pos()), Kind: "violation",
				Detail:   "the number is not encoded through math/big's Bytes() of the parameter: the parsers decode arguments with SetBytes, which inverts exactly that encoding (a hand-rolled trimming of zero bytes loses the low-order zero bytes of multiples of 256)",
				Expected: "hex.EncodeToString(big.NewInt(v).Bytes())"})
		}
	}
	// (c) builder: every element appended to the argument list is a hex.EncodeToString result (SetLast is raw by contract);
	// ToString concatenates function, then sep+element per element
	for _, fn := range c.P.Funcs {
		if !c.P.InPkgs(fn, "txDataBuilder") {
			continue
		}
		e := c.P.Env(fn)
		for _, b := range fn.Blocks {
			for _, in := range b.Instrs {
				call, ok := in.(*ssa.Call)
				if !ok {
					continue
				}
				bi, ok := call.Call.Value.(*ssa.Builtin)
				if !ok || bi.Name() != "append" || len(call.Call.Args) != 2 {
					continue
				}
				if !strings.HasSuffix(e.Term(call.Call.Args[0]), ".elements") {
					continue
				}
				// appended slice literal: its single element must be hex(…) — or the method is the documented raw setter
				elemOK, what := appendedHex(e, call.Call.Args[1])
				construct := "append(elements, " + what + ")"
				switch {
				case elemOK:
					c.OK(rule, FuncName(fn), construct, c.P.InstrPos(call), "hex-encoded element")
				case fn.Name() == "SetLast" || fn.Name() == "Func" || fn.Name() == "Function":
					c.Triv(rule, FuncName(fn), construct, c.P.InstrPos(call), "raw by contract")
				case hexAtCallSites(c.P, fn, call.Call.Args[1]):
					c.OK(rule, FuncName(fn), construct, c.P.InstrPos(call), "a shared append helper: every caller hands it a hex-encoded element (or is the documented raw setter)")
				default:
					c.Fail(rule, "violation", FuncName(fn), construct, c.P.InstrPos(call), "the builder stores an element that is not hex-encoded: the parser's hex decoder will reject or misread it")
				}
			}
		}
	}
}

// hexAtCallSites: fn is an unexported helper that appends its own parameter; every call site passes a hex-encoded value, or
// lies in one of the builder's raw-by-contract methods.
func hexAtCallSites(p *Prog, fn *ssa.Function, appended ssa.Value) bool {
	if isExportedAPI(fn) || len(p.Callers[fn]) == 0 {
		return false
	}
	// the single element of the appended literal must be a parameter of fn
	var par *ssa.Parameter
	if sl, ok := appended.(*ssa.Slice); ok {
		if al, ok := sl.X.(*ssa.Alloc); ok && al.Referrers() != nil {
			for _, r := range *al.Referrers() {
				if ia, ok := r.(*ssa.IndexAddr); ok && ia.Referrers() != nil {
					for _, rr := range *ia.Referrers() {
						if st, ok := rr.(*ssa.Store); ok {
							q, isPar := st.Val.(*ssa.Parameter)
							if !isPar || (par != nil && par != q) {
								return false
							}
							par = q
						}
					}
				}
			}
		}
	}
	if par == nil {
		return false
	}
	for _, cs := range p.Callers[fn] {
		caller := cs.Parent()
		if !p.Src(caller) {
			continue
		}
		if n := caller.Name(); n == "SetLast" || n == "Func" || n == "Function" {
			continue
		}
		sub := p.Env(caller).Sub(cs, fn)
		a, pe := sub.actual(par)
		if a == nil || !isHexValue(pe, a, 0) {
			return false
		}
	}
	return true
}

// appendedHex: v is a one-element []string literal whose element is a hex.EncodeToString result (possibly via a local helper).
func appendedHex(e *Env, v ssa.Value) (bool, string) {
	sl, ok := v.(*ssa.Slice)
	if !ok {
		return false, e.Term(v)
	}
	al, ok := sl.X.(*ssa.Alloc)
	if !ok {
		return false, e.Term(v)
	}
	okAll, n := true, 0
	what := ""
	for _, r := range *al.Referrers() {
		ia, ok := r.(*ssa.IndexAddr)
		if !ok {
			continue
		}
		for _, rr := range *ia.Referrers() {
			if st, ok := rr.(*ssa.Store); ok {
				n++
				what = e.Term(st.Val)
				if !isHexValue(e, st.Val, 0) {
					okAll = false
				}
			}
		}
	}
	return okAll && n > 0, what
}

func isHexValue(e *Env, v ssa.Value, depth int) bool {
	if depth > 3 {
		return false
	}
	switch x := v.(type) {
	case *ssa.Call:
		if CalleeName(x) == "encoding/hex.EncodeToString" {
			return true
		}
		if sc := x.Call.StaticCallee(); sc != nil && len(sc.Blocks) > 0 {
			for _, r := range returnsOf(sc) {
				if len(r.Results) != 1 || !isHexValue(e.Sub(x, sc), retval(r, 0), depth+1) {
					return false
				}
			}
			return len(returnsOf(sc)) > 0
		}
	case *ssa.Phi:
		for _, ed := range x.Edges {
			if !isHexValue(e, ed, depth+1) {
				return false
			}
		}
		return true
	case *ssa.Parameter:
		// the parameter of an unexported helper: hex at every call site
		fn := x.Parent()
		if isExportedAPI(fn) || len(e.P.Callers[fn]) == 0 {
			return false
		}
		idx := -1
		for i, q := range fn.Params {
			if q == x {
				idx = i
			}
		}
		for _, cs := range e.P.Callers[fn] {
			cc := cs.Common()
			if cc.IsInvoke() || idx < 0 || idx >= len(cc.Args) || !isHexValue(e.P.Env(cs.Parent()), cc.Args[idx], depth+1) {
				return false
			}
		}
		return true
	}
	return false
}

// splitSubjectOK: the string that is split is the string parameter of an exported parser entry point, handed down through
// parameters of unexported helpers (judged at every call site), φ's and prefix drops `s[k:]` (the leading separator of the
// storage-update format) — nothing that can remove or rewrite its end.
func splitSubjectOK(p *Prog, v ssa.Value, depth int) (string, bool) {
	if depth > 8 {
		return "", false
	}
	switch x := v.(type) {
	case *ssa.Parameter:
		fn := x.Parent()
		if isExportedAPI(fn) || len(p.Callers[fn]) == 0 {
			return "", true
		}
		idx := -1
		for i, q := range fn.Params {
			if q == x {
				idx = i
			}
		}
		for _, cs := range p.Callers[fn] {
			cc := cs.Common()
			if !p.Src(cs.Parent()) {
				continue
			}
			if cc.IsInvoke() || idx < 0 || idx >= len(cc.Args) {
				return "", false
			}
			if why, ok := splitSubjectOK(p, cc.Args[idx], depth+1); !ok {
				if why == "" {
					why = "the value handed in at " + p.InstrPos(cs) + " is not the caller's input"
				}
				return why, false
			}
		}
		return "", true
	case *ssa.Slice:
		if x.High != nil || x.Max != nil {
			return "its end is cut off at " + p.InstrPos(x), false
		}
		return splitSubjectOK(p, x.X, depth+1)
	case *ssa.Phi:
		for _, ed := range x.Edges {
			if why, ok := splitSubjectOK(p, ed, depth+1); !ok {
				return why, false
			}
		}
		return "", true
	case *ssa.Call:
		sc := x.Call.StaticCallee()
		if sc == nil {
			return "", false
		}
		if len(sc.Blocks) == 0 || sc.Pkg == nil || !strings.HasPrefix(sc.Pkg.Pkg.Path(), modPath) {
			return "it is rewritten by " + CalleeName(x) + " at " + p.InstrPos(x), false
		}
		// a module helper: every return is an allowed form of one of its parameters, and the value handed in is allowed
		for _, r := range returnsOf(sc) {
			if len(r.Results) != 1 {
				return "", false
			}
			if why, ok := splitSubjectHelperOK(p, r.Results[0], 0); !ok {
				if why == "" {
					why = sc.Name() + " returns something else than (a suffix of) its argument"
				}
				return why, false
			}
		}
		for _, a := range x.Call.Args {
			if a.Type().String() == "string" {
				if why, ok := splitSubjectOK(p, a, depth+1); !ok {
					return why, false
				}
			}
		}
		return "", true
	}
	return "", false
}

// splitSubjectHelperOK: inside a helper, the returned string is its parameter or a suffix of it.
func splitSubjectHelperOK(p *Prog, v ssa.Value, depth int) (string, bool) {
	if depth > 8 {
		return "", false
	}
	switch x := v.(type) {
	case *ssa.Parameter:
		return "", true
	case *ssa.Slice:
		if x.High != nil || x.Max != nil {
			return x.Parent().Name() + " cuts off the end of the string at " + p.InstrPos(x), false
		}
		return splitSubjectHelperOK(p, x.X, depth+1)
	case *ssa.Phi:
		for _, ed := range x.Edges {
			if why, ok := splitSubjectHelperOK(p, ed, depth+1); !ok {
				return why, false
			}
		}
		return "", true
	case *ssa.Call:
		if sc := x.Call.StaticCallee(); sc != nil {
			return x.Parent().Name() + " rewrites the string with " + CalleeName(x) + " at " + p.InstrPos(x), false
		}
	}
	return "", false
}
