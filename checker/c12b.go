package main

// C12-R4: the builder renders what it currently holds.

import (
	"go/token"
	"go/types"
	"sort"
	"strings"

	"golang.org/x/tools/go/ssa"
)

func init() {
	properties["C12"].Rules = append(properties["C12"].Rules, c12r4)
}

// c12r4: "parsing the string produced by the builder yields the same function and arguments": ToString / ToBytes are
// computed from the builder's function and elements as they are at the call. A rendering that is kept on the builder (a
// memo) is the same thing only while every writer of the function or of the element list — a store of the field, or a store
// into an element of the list — drops the memo on every path on which it writes; a writer that forgets (an in-place
// overwrite of the last element) leaves a string that parses to the old arguments.
func c12r4(c *Ctx) {
	const rule = "C12-R4"
	c.Rule(rule, "the builder's rendering is computed from its current function and elements; a memoised rendering is dropped by every writer", 1)
	var renderers []*ssa.Function
	var recvT types.Type
	for _, fn := range c.P.Funcs {
		if c.P.InPkgs(fn, "txDataBuilder") && fn.Signature.Recv() != nil && (fn.Name() == "ToString" || fn.Name() == "ToBytes") {
			renderers = append(renderers, fn)
			recvT = fn.Signature.Recv().Type()
		}
	}
	if len(renderers) == 0 {
		c.Anchor(rule, "ToString / ToBytes of the tx-data builder")
		return
	}
	sort.Slice(renderers, func(i, j int) bool { return renderers[i].Name() < renderers[j].Name() })
	state := map[string]bool{"function": true, "elements": true}
	// fields of the builder a renderer may return without recomputing: loaded and returned (directly or through a φ / conversion)
	memo := map[string]bool{}
	var fromField func(v ssa.Value, fn *ssa.Function, seen map[ssa.Value]bool) []string
	fromField = func(v ssa.Value, fn *ssa.Function, seen map[ssa.Value]bool) []string {
		if seen[v] {
			return nil
		}
		seen[v] = true
		switch x := v.(type) {
		case *ssa.UnOp:
			if fa, ok := x.X.(*ssa.FieldAddr); ok && x.Op == token.MUL && fa.X == ssa.Value(fn.Params[0]) {
				return []string{fieldName(fa.X.Type(), fa.Field)}
			}
		case *ssa.Phi:
			var out []string
			for _, ed := range x.Edges {
				out = append(out, fromField(ed, fn, seen)...)
			}
			return out
		case *ssa.Convert:
			return fromField(x.X, fn, seen)
		case *ssa.ChangeType:
			return fromField(x.X, fn, seen)
		}
		return nil
	}
	for _, fn := range renderers {
		for _, r := range returnsOf(fn) {
			if len(r.Results) == 0 {
				continue
			}
			for _, f := range fromField(retval(r, 0), fn, map[ssa.Value]bool{}) {
				if !state[f] {
					memo[f] = true
				}
			}
		}
	}
	// whatever the rendering is computed from: the element list only grows (the appenders), is replaced by the documented
	// setters (Clear, SetLast on an empty builder) — a method that sets the function, or anything else, must not drop arguments
	// that were added before it
	for _, fn := range c.P.Funcs {
		if !c.P.InPkgs(fn, "txDataBuilder") || fn.Signature.Recv() == nil || !sameBase(fn.Signature.Recv().Type(), recvT) || len(fn.Blocks) == 0 {
			continue
		}
		if fn.Name() == "Clear" || fn.Name() == "SetLast" {
			continue
		}
		for _, b := range fn.Blocks {
			for _, in := range b.Instrs {
				st, ok := in.(*ssa.Store)
				if !ok {
					continue
				}
				fa, ok := st.Addr.(*ssa.FieldAddr)
				if !ok || fa.X != ssa.Value(fn.Params[0]) || fieldName(fa.X.Type(), fa.Field) != "elements" {
					continue
				}
				grows := false
				if call, ok := st.Val.(*ssa.Call); ok {
					if bi, ok := call.Call.Value.(*ssa.Builtin); ok && bi.Name() == "append" {
						if ld, ok := call.Call.Args[0].(*ssa.UnOp); ok && ld.Op == token.MUL {
							if f2, ok := ld.X.(*ssa.FieldAddr); ok && f2.X == ssa.Value(fn.Params[0]) && f2.Field == fa.Field {
								grows = true
							}
						}
					}
				}
				construct := fn.Name() + ": store into .elements keeps the arguments added so far"
				if grows {
					c.OK(rule, FuncName(fn), construct, c.P.InstrPos(st), "append onto the list itself")
				} else {
					c.FailX(Oblig{Rule: rule, Func: FuncName(fn), Construct: construct, Pos: c.P.InstrPos(st), Kind: "violation",
						Detail:   fn.Name() + " replaces the element list instead of extending it: arguments added before this call are dropped from the built string, so parsing it does not give back what was added",
						Expected: "only Clear (and SetLast on an empty builder) may replace the list; every other method appends"})
				}
			}
		}
	}
	if len(memo) == 0 {
		for _, fn := range renderers {
			c.OK(rule, FuncName(fn), fn.Name()+": computed in the call", c.P.Pos(fn.Pos()), "no rendering kept on the builder is returned")
		}
		return
	}
	// the fields whose stores count as dropping the memo: the memo itself and whatever the renderer tests before returning it
	drop := map[string]bool{}
	for f := range memo {
		drop[f] = true
	}
	for _, fn := range renderers {
		for _, b := range fn.Blocks {
			iff, ok := b.Instrs[len(b.Instrs)-1].(*ssa.If)
			if !ok {
				continue
			}
			var walk func(v ssa.Value, d int)
			walk = func(v ssa.Value, d int) {
				if d > 4 {
					return
				}
				switch x := v.(type) {
				case *ssa.UnOp:
					if fa, ok := x.X.(*ssa.FieldAddr); ok && x.Op == token.MUL && fa.X == ssa.Value(fn.Params[0]) {
						if f := fieldName(fa.X.Type(), fa.Field); !state[f] {
							drop[f] = true
						}
						return
					}
					walk(x.X, d+1)
				case *ssa.BinOp:
					walk(x.X, d+1)
					walk(x.Y, d+1)
				}
			}
			walk(iff.Cond, 0)
		}
	}
	var dl []string
	for f := range drop {
		dl = append(dl, f)
	}
	sort.Strings(dl)
	// writers: per method of the builder type, the instructions that change the function or the list
	isDropStore := func(in ssa.Instruction, recv ssa.Value) bool {
		st, ok := in.(*ssa.Store)
		if !ok {
			return false
		}
		fa, ok := st.Addr.(*ssa.FieldAddr)
		return ok && fa.X == recv && drop[fieldName(fa.X.Type(), fa.Field)]
	}
	var dropsOnEveryPath func(fn *ssa.Function, depth int) bool
	dropsOnEveryPath = func(fn *ssa.Function, depth int) bool {
		// every path from the entry of fn to a return passes a drop store (or a call of a method on the same receiver that does)
		if fn.Signature.Recv() == nil || len(fn.Blocks) == 0 || depth > 3 {
			return false
		}
		bar := map[ssa.Instruction]bool{}
		for _, b := range fn.Blocks {
			for _, in := range b.Instrs {
				if isDropStore(in, fn.Params[0]) {
					bar[in] = true
				}
				if call, ok := in.(*ssa.Call); ok {
					if sc := call.Call.StaticCallee(); sc != nil && sc != fn && len(call.Call.Args) > 0 && call.Call.Args[0] == ssa.Value(fn.Params[0]) && sameBase(sc.Signature.Recv().Type(), recvT) && dropsOnEveryPath(sc, depth+1) {
						bar[in] = true
					}
				}
			}
		}
		for _, r := range returnsOf(fn) {
			if reachesAvoiding(fn, fn.Blocks[0].Instrs[0], r, bar, nil) && !bar[fn.Blocks[0].Instrs[0]] {
				return false
			}
		}
		return len(bar) > 0
	}
	n := 0
	for _, fn := range c.P.Funcs {
		if !c.P.InPkgs(fn, "txDataBuilder") || fn.Signature.Recv() == nil || !sameBase(fn.Signature.Recv().Type(), recvT) || len(fn.Blocks) == 0 {
			continue
		}
		recv := ssa.Value(fn.Params[0])
		for _, b := range fn.Blocks {
			for _, in := range b.Instrs {
				st, ok := in.(*ssa.Store)
				if !ok {
					continue
				}
				what := ""
				switch a := st.Addr.(type) {
				case *ssa.FieldAddr:
					if a.X == recv && state[fieldName(a.X.Type(), a.Field)] {
						what = "." + fieldName(a.X.Type(), a.Field)
					}
				case *ssa.IndexAddr:
					// an element of the list: builder.elements[i] = x
					if ld, ok := a.X.(*ssa.UnOp); ok && ld.Op == token.MUL {
						if fa, ok := ld.X.(*ssa.FieldAddr); ok && fa.X == recv && fieldName(fa.X.Type(), fa.Field) == "elements" {
							what = "an element of .elements"
						}
					}
				}
				if what == "" {
					continue
				}
				n++
				construct := fn.Name() + ": write of " + what + " drops the kept rendering {" + strings.Join(dl, ", ") + "}"
				// from the write, every path to a return passes a drop (a drop before the write on the same path counts as well:
				// the renderer recomputes whenever the memo is invalid, whatever order the two stores have)
				bar := map[ssa.Instruction]bool{}
				for _, b2 := range fn.Blocks {
					for _, in2 := range b2.Instrs {
						if isDropStore(in2, recv) {
							bar[in2] = true
						}
						if call, ok := in2.(*ssa.Call); ok {
							if sc := call.Call.StaticCallee(); sc != nil && sc != fn && sc.Signature.Recv() != nil && len(call.Call.Args) > 0 && call.Call.Args[0] == recv && sameBase(sc.Signature.Recv().Type(), recvT) && dropsOnEveryPath(sc, 0) {
								bar[in2] = true
							}
						}
					}
				}
				escaped := ""
				for _, r := range returnsOf(fn) {
					// a path entry → write → return without any drop
					if reachesAvoiding(fn, fn.Blocks[0].Instrs[0], st, bar, nil) && reachesAvoiding(fn, st, r, bar, nil) {
						escaped = c.P.InstrPos(r)
					}
				}
				if escaped == "" {
					c.OK(rule, FuncName(fn), construct, c.P.InstrPos(st), "every path through the write stores one of the fields the renderer consults")
				} else {
					c.FailX(Oblig{Rule: rule, Func: FuncName(fn), Construct: construct, Pos: c.P.InstrPos(st), Kind: "violation",
						Detail:   fn.Name() + " changes " + what + " and can return (" + escaped + ") without dropping the rendering kept in {" + strings.Join(dl, ", ") + "}: ToString / ToBytes keep returning the string built before the change, which parses to the old function and arguments",
						Expected: "every writer of the function or of the element list invalidates the kept rendering (or the rendering is computed in the call)"})
				}
			}
		}
	}
	if n == 0 {
		c.Anchor(rule, "a writer of the builder's function or elements")
	}
}

func init() {
	properties["C12"].Rules = append(properties["C12"].Rules, c12r5)
}

// c12r5: "parsing the string produced by … the built-in functions' own message encoder yields the same function and
// arguments": every data string the built-in functions emit has the shape the call-arguments parser inverts — the head
// followed by one separator and one hex-encoded argument per argument, nothing trimmed afterwards (shared with C10-R1).
func c12r5(c *Ctx) {
	c.shareRule(c10r1, "C10-R1", "C12-R5", "every data string emitted by the built-in functions' own encoder has the shape Head(\"@\" hex)* that the parser inverts", nil)
}

func init() {
	properties["C12"].Rules = append(properties["C12"].Rules, c12r6)
}

// c12r6: "deploy data … round-trips": the code-metadata part of deploy data is written by ToBytes and read back by
// CodeMetadataFromBytes — the two flag tables agree (shared with C20-R1: a flag written into one byte and read from another
// does not survive build → parse → build).
func c12r6(c *Ctx) {
	c.shareRule(c20r1, "C20-R1", "C12-R6", "the code-metadata flags of deploy data are written and read at the same (byte, mask) positions", func(o Oblig) bool {
		return strings.Contains(o.Construct, "CodeMetadata") || o.Kind == "anchor"
	})
}
