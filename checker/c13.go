package main

// C13 — execution is deterministic and does not modify its input.

import (
	"fmt"
	"go/constant"
	"go/token"
	"go/types"
	"sort"
	"strings"

	"golang.org/x/tools/go/ssa"
)

func init() {
	register(&Property{
		ID:    "C13",
		Level: "other",
		Explanation: "R1 (input purity): an interprocedural derivation set is computed from every *ContractCallInput parameter (fields, loaded slices, elements, sub-slices, φ's, values passed to module callees and returned by them); no store, map update, " +
			"copy destination, append destination or mutating big.Int receiver is in that set. R2 (shared prefixes): every shared object (package-level variable or field of the receiver) used as the first operand of append in builtInFunctions is " +
			"initialised only from []byte(<constant>) (capacity == length, so append always copies) ; the package-level big.Int `zero` is never a mutating receiver, never stored, returned or handed to a mutating callee. R3 (no hidden state / " +
			"nondeterminism): the code reachable from the entry points and from the exported parser methods contains no store to a receiver field or package-level variable, no range over a map, no goroutine, select or channel operation, calls nothing " +
			"in time, math/rand, crypto/rand, os, runtime, unsafe, reflect and formats no pointer with %p. A positive control requires the map-range detector to find the known map ranges outside that region. Does NOT decide: determinism of the injected dependencies.",
		Trusted: []string{"A-constcap: []byte(<constant string>) has cap == len (gc, verified on go1.23.5 and go1.26.8)", "A-deps: dependencies are deterministic and do not retain or mutate the slices they are given"},
		Rules:   []func(*Ctx){c13r1, c13r2, c13r3},
	})
}

// inputDerived computes the set of values that denote (parts of) the memory of a ContractCallInput.
func inputDerived(p *Prog, scope func(*ssa.Function) bool) map[ssa.Value]string {
	D := map[ssa.Value]string{}
	for _, fn := range p.Funcs {
		if !scope(fn) {
			continue
		}
		for _, par := range fn.Params {
			if strings.HasSuffix(par.Type().String(), modPath+".ContractCallInput") {
				D[par] = "input parameter " + par.Name() + " of " + fn.Name()
			}
		}
	}
	sharesMemory := func(t types.Type) bool {
		switch u := t.Underlying().(type) {
		case *types.Pointer, *types.Slice, *types.Map:
			return true
		case *types.Struct:
			_ = u
			return false
		}
		return false
	}
	// fields of locally built objects: what was stored into field f of allocation o; objsOf resolves an address expression to
	// the allocations it may denote (the allocation itself, or what was stored into a field of one: `x.Meta.URIs`)
	type objField struct {
		o ssa.Value
		f int
	}
	stored := map[objField][]ssa.Value{}
	var objsOf func(v ssa.Value, depth int) []ssa.Value
	objsOf = func(v ssa.Value, depth int) []ssa.Value {
		if depth > 4 {
			return nil
		}
		switch x := v.(type) {
		case *ssa.Alloc:
			return []ssa.Value{x}
		case *ssa.UnOp:
			if fa, ok := x.X.(*ssa.FieldAddr); ok && x.Op == token.MUL {
				var out []ssa.Value
				for _, o := range objsOf(fa.X, depth+1) {
					for _, sv := range stored[objField{o, fa.Field}] {
						out = append(out, objsOf(sv, depth+1)...)
					}
				}
				return out
			}
		case *ssa.Phi:
			var out []ssa.Value
			for _, ed := range x.Edges {
				if ed != ssa.Value(x) {
					out = append(out, objsOf(ed, depth+1)...)
				}
			}
			return out
		}
		return nil
	}
	for _, fn := range p.Funcs {
		if !scope(fn) {
			continue
		}
		for _, b := range fn.Blocks {
			for _, in := range b.Instrs {
				if st, ok := in.(*ssa.Store); ok {
					if fa, ok := st.Addr.(*ssa.FieldAddr); ok {
						if al, ok := fa.X.(*ssa.Alloc); ok {
							stored[objField{al, fa.Field}] = append(stored[objField{al, fa.Field}], st.Val)
						}
					}
				}
			}
		}
	}
	taintedField := map[objField]string{}
	for changed := true; changed; {
		changed = false
		add := func(v ssa.Value, why string) {
			if _, ok := D[v]; !ok {
				D[v] = why
				changed = true
			}
		}
		for _, fn := range p.Funcs {
			if !scope(fn) {
				continue
			}
			for _, b := range fn.Blocks {
				for _, in := range b.Instrs {
					switch x := in.(type) {
					case *ssa.FieldAddr:
						if w, ok := D[x.X]; ok {
							add(x, w)
						}
					case *ssa.IndexAddr:
						if w, ok := D[x.X]; ok {
							add(x, w)
						}
					case *ssa.Slice:
						if w, ok := D[x.X]; ok {
							add(x, w)
						}
					case *ssa.UnOp:
						if w, ok := D[x.X]; ok && x.Op == token.MUL && sharesMemory(x.Type()) {
							add(x, w)
						}
						// a load of a field of a locally built object into which input memory was stored
						if fa, ok := x.X.(*ssa.FieldAddr); ok && x.Op == token.MUL && sharesMemory(x.Type()) {
							for _, o := range objsOf(fa.X, 0) {
								if w, ok := taintedField[objField{o, fa.Field}]; ok {
									add(x, w)
								}
							}
						}
					case *ssa.Store:
						if fa, ok := x.Addr.(*ssa.FieldAddr); ok {
							if w, ok := D[x.Val]; ok && sharesMemory(x.Val.Type()) {
								for _, o := range objsOf(fa.X, 0) {
									k := objField{o, fa.Field}
									if _, has := taintedField[k]; !has {
										taintedField[k] = w + ", kept in field " + fieldName(fa.X.Type(), fa.Field) + " of an object built in " + fn.Name()
										changed = true
									}
								}
							}
						}
					case *ssa.Phi:
						for _, ed := range x.Edges {
							if w, ok := D[ed]; ok {
								add(x, w)
							}
						}
					case *ssa.ChangeType:
						if w, ok := D[x.X]; ok {
							add(x, w)
						}
					case *ssa.Extract:
						if w, ok := D[x.Tuple]; ok && sharesMemory(x.Type()) {
							add(x, w)
						}
					case ssa.CallInstruction:
						cc := x.Common()
						for _, callee := range p.Callees(x) {
							if !scope(callee) || len(callee.Blocks) == 0 {
								continue
							}
							for i, a := range cc.Args {
								idx := i
								if cc.IsInvoke() {
									idx = i + 1
								}
								if w, ok := D[a]; ok && idx < len(callee.Params) && sharesMemory(a.Type()) {
									add(callee.Params[idx], w+" via "+callee.Name())
								}
							}
							// values returned by the callee
							if v, isVal := x.(ssa.Value); isVal {
								for _, r := range returnsOf(callee) {
									for _, res := range r.Results {
										if w, ok := D[res]; ok {
											add(v, w+" returned by "+callee.Name())
										}
									}
								}
							}
						}
					}
				}
			}
		}
	}
	return D
}

func c13r1(c *Ctx) {
	const rule = "C13-R1"
	c.Rule(rule, "nothing reachable writes into memory derived from the input structure", 15)
	scope := func(fn *ssa.Function) bool { return c.P.InPkgs(fn, "builtInFunctions") }
	D := inputDerived(c.P, scope)
	c.Count("values derived from an input parameter", len(D))
	nfn := 0
	for _, fn := range c.P.Funcs {
		if !scope(fn) {
			continue
		}
		uses := false
		var bad []string
		for _, b := range fn.Blocks {
			for _, in := range b.Instrs {
				switch x := in.(type) {
				case *ssa.Store:
					if w, ok := D[x.Addr]; ok {
						bad = append(bad, "store through "+c.P.Env(fn).Term(x.Addr)+" at "+c.P.InstrPos(in)+" ("+w+")")
					}
				case *ssa.MapUpdate:
					if w, ok := D[x.Map]; ok {
						bad = append(bad, "map update at "+c.P.InstrPos(in)+" ("+w+")")
					}
				case ssa.CallInstruction:
					cc := x.Common()
					if bi, ok := cc.Value.(*ssa.Builtin); ok && (bi.Name() == "append" || bi.Name() == "copy") {
						if w, ok := D[cc.Args[0]]; ok {
							bad = append(bad, bi.Name()+" with destination "+c.P.Env(fn).Term(cc.Args[0])+" at "+c.P.InstrPos(in)+" ("+w+"): writes into the input's backing array")
						}
					}
					if m := bigMethod(x); m != "" && bigMutators[m] {
						if w, ok := D[cc.Args[0]]; ok {
							bad = append(bad, m+" mutates "+c.P.Env(fn).Term(cc.Args[0])+" at "+c.P.InstrPos(in)+" ("+w+")")
						}
					}
					// input memory handed to code outside the module: only to functions known not to write into (or keep for
					// writing) the slice they are given; injected dependencies are covered by A-deps
					if sc := cc.StaticCallee(); sc != nil && !cc.IsInvoke() && (sc.Pkg == nil || !strings.HasPrefix(sc.Pkg.Pkg.Path(), modPath)) {
						if _, isBuiltin := cc.Value.(*ssa.Builtin); !isBuiltin {
							name := CalleeName(x)
							for i, a := range cc.Args {
								w, ok := D[a]
								if !ok {
									continue
								}
								if _, isSlice := a.Type().Underlying().(*types.Slice); !isSlice {
									continue
								}
								if readOnlyForeign(name, i) {
									continue
								}
								bad = append(bad, "input memory "+c.P.Env(fn).Term(a)+" is handed to "+name+" at "+c.P.InstrPos(in)+", which may write into it or keep it for writing ("+w+")")
							}
						}
					}
				}
				if v, ok := in.(ssa.Value); ok {
					if _, ok := D[v]; ok {
						uses = true
					}
				}
			}
		}
		if !uses {
			continue
		}
		nfn++
		if len(bad) == 0 {
			c.OK(rule, FuncName(fn), "no write into input-derived memory", c.P.Pos(fn.Pos()), "stores, map updates, append/copy destinations and big.Int mutators all miss the derivation set")
		}
		for i, b := range bad {
			c.FailX(Oblig{Rule: rule, Func: FuncName(fn), Construct: fmt.Sprintf("write into input-derived memory #%d", i+1), Pos: c.P.Pos(fn.Pos()), Kind: "violation",
				Detail: "the call modifies the input structure or an argument slice it was given: " + b})
		}
	}
	c.Count("functions touching input-derived values", nfn)
}

func c13r2(c *Ctx) {
	const rule = "C13-R2"
	c.Rule(rule, "shared append bases have no spare capacity; the shared big.Int zero is never mutated or leaked", 20)
	c.Axiom("A-constcap")
	n := 0
	for _, fn := range c.P.Funcs {
		if !c.P.InPkgs(fn, "builtInFunctions") {
			continue
		}
		e := c.P.Env(fn)
		seen := map[string]int{}
		for _, b := range fn.Blocks {
			for _, in := range b.Instrs {
				call, ok := in.(*ssa.Call)
				if !ok {
					continue
				}
				bi, ok := call.Call.Value.(*ssa.Builtin)
				if !ok || bi.Name() != "append" {
					continue
				}
				base := call.Call.Args[0]
				ld, ok := base.(*ssa.UnOp)
				if !ok || ld.Op != token.MUL {
					continue
				}
				shared := false
				switch a := ld.X.(type) {
				case *ssa.Global:
					shared = true
				case *ssa.FieldAddr:
					if par, ok := a.X.(*ssa.Parameter); ok && fn.Signature.Recv() != nil && par == fn.Params[0] {
						// a field of the object the method runs on; result stored back into the same field = own buffer being grown (not shared across calls of an execution)
						stored := false
						for _, r := range *call.Referrers() {
							if st, ok := r.(*ssa.Store); ok && e.Term(st.Addr) == e.Term(a) {
								stored = true
							}
						}
						shared = !stored
					}
				}
				if !shared {
					continue
				}
				n++
				construct := "append(" + e.Term(base) + ", …)"
				seen[construct]++
				if k := seen[construct]; k > 1 {
					construct += fmt.Sprintf(" #%d", k)
				}
				if s, ok := c.P.constPrefixOf(base); ok {
					c.OK(rule, FuncName(fn), construct, c.P.InstrPos(call), fmt.Sprintf("base is only ever []byte(%q): cap == len, append copies", s))
				} else {
					c.FailX(Oblig{Rule: rule, Func: FuncName(fn), Construct: construct, Pos: c.P.InstrPos(call), Kind: "violation",
						Detail:   "a shared slice is used as append base but is not initialised solely from []byte(<constant>): with spare capacity two keys built from it share and overwrite one backing array (results depend on earlier calls / other goroutines)",
						Expected: "initialise the prefix with []byte(<constant string>) or a full slice expression x[:n:n]"})
				}
			}
		}
	}
	c.Count("shared append bases", n)
	// package-level *big.Int values
	// … of every package of the module (a decoder that hands out one shared zero makes every caller's in-place arithmetic
	// depend on earlier, unrelated calls)
	var pkgNames []string
	for pn := range c.P.Pkg {
		pkgNames = append(pkgNames, pn)
	}
	sort.Strings(pkgNames)
	type gref struct {
		pkg, name string
	}
	var globals []gref
	for _, pn := range pkgNames {
		for _, name := range sortedMembers(c.P.Pkg[pn]) {
			globals = append(globals, gref{pn, name})
		}
	}
	for _, gr := range globals {
		name := gr.name
		g, ok := c.P.Pkg[gr.pkg].Members[name].(*ssa.Global)
		if !ok || !isBigIntPtr(g.Type().(*types.Pointer).Elem()) {
			continue
		}
		if gr.pkg != "builtInFunctions" && gr.pkg != "" {
			name = gr.pkg + "." + name
		}
		var bad []string
		nuse := 0
		for _, fn := range c.P.Funcs {
			if !c.P.Src(fn) {
				continue
			}
			for _, b := range fn.Blocks {
				for _, in := range b.Instrs {
					ld, ok := in.(*ssa.UnOp)
					if !ok || ld.X != ssa.Value(g) {
						continue
					}
					nuse++
					for _, r := range *ld.Referrers() {
						switch u := r.(type) {
						case *ssa.Store:
							if u.Val == ssa.Value(ld) {
								bad = append(bad, "stored into "+c.P.Env(fn).Term(u.Addr)+" at "+c.P.InstrPos(u))
							}
						case *ssa.Return:
							bad = append(bad, "returned at "+c.P.InstrPos(u))
						case ssa.CallInstruction:
							cc := u.Common()
							if m := bigMethod(u); m != "" {
								if bigMutators[m] && cc.Args[0] == ssa.Value(ld) {
									bad = append(bad, m+" mutates it at "+c.P.InstrPos(u))
								}
								continue
							}
							for i, a := range cc.Args {
								if a != ssa.Value(ld) {
									continue
								}
								for _, callee := range c.P.Callees(u) {
									idx := i
									if cc.IsInvoke() {
										idx++
									}
									if c.P.bigMutatesParam(callee, idx) {
										bad = append(bad, "passed to "+callee.Name()+", which mutates that parameter, at "+c.P.InstrPos(u))
									}
								}
							}
						case *ssa.MakeInterface, *ssa.Phi:
							bad = append(bad, "escapes at "+c.P.InstrPos(r))
						}
					}
				}
			}
		}
		construct := "shared big.Int " + name
		if len(bad) == 0 {
			c.OK(rule, "-", construct, c.P.Pos(g.Pos()), fmt.Sprintf("%d uses: comparison operand only", nuse))
		} else {
			c.FailX(Oblig{Rule: rule, Func: "-", Construct: construct, Pos: c.P.Pos(g.Pos()), Kind: "violation", Detail: "the package-level big.Int is " + strings.Join(bad, "; ")})
		}
	}
}

func sortedMembers(sp *ssa.Package) []string {
	var out []string
	for n := range sp.Members {
		out = append(out, n)
	}
	sort.Strings(out)
	return out
}

var nondetPkgs = map[string]bool{"time": true, "math/rand": true, "crypto/rand": true, "os": true, "runtime": true, "unsafe": true, "reflect": true, "math/rand/v2": true, "os/exec": true, "syscall": true}

// perCallType: objects of the struct type behind t live for one execution only — every allocation of the type lies in the
// execution region, and no pointer to such an object is ever stored into a field, a global, a slice, a map or an interface
// (so it cannot be parked on a function object or in a pool). A store into a field of such an object is not state kept
// between calls: it is a local variable of the execution that happens to be shared by its steps.
var perCallCache = map[string]bool{}

func perCallType(p *Prog, t types.Type, reach map[*ssa.Function]bool) bool {
	n := derefNamed(t)
	if n == nil {
		return false
	}
	if _, isStruct := n.Underlying().(*types.Struct); !isStruct {
		return false
	}
	key := n.String()
	if v, ok := perCallCache[key]; ok {
		return v
	}
	isT := func(x types.Type) bool {
		if pt, ok := x.Underlying().(*types.Pointer); ok {
			x = pt.Elem()
		}
		return types.Identical(x, n)
	}
	allocs := 0
	res := true
	for _, fn := range p.allFuncsIncludingInit() {
		for _, b := range fn.Blocks {
			for _, in := range b.Instrs {
				switch x := in.(type) {
				case *ssa.Alloc:
					if isT(x.Type().(*types.Pointer).Elem()) {
						if _, isPtrVar := x.Type().(*types.Pointer).Elem().Underlying().(*types.Pointer); isPtrVar {
							continue // a variable that holds a *T
						}
						allocs++
						if !reach[fn] {
							res = false
						}
					}
				case *ssa.Store:
					if isT(x.Val.Type()) {
						switch x.Addr.(type) {
						case *ssa.Alloc:
						default:
							res = false
						}
					}
				case *ssa.MapUpdate:
					if isT(x.Value.Type()) {
						res = false
					}
				case *ssa.MakeInterface:
					if isT(x.X.Type()) {
						res = false
					}
				case *ssa.Send:
					if isT(x.X.Type()) {
						res = false
					}
				}
			}
		}
	}
	if allocs == 0 {
		res = false
	}
	perCallCache[key] = res
	return res
}

func c13r3(c *Ctx) {
	const rule = "C13-R3"
	c.Rule(rule, "execution paths have no hidden state and no source of nondeterminism", 60)
	// region: everything reachable from entry points + exported parser methods
	roots := append([]*ssa.Function{}, c.P.EntryPoints()...)
	for _, fn := range c.P.Funcs {
		if c.P.InPkgs(fn, "parsers") && isExportedAPI(fn) && fn.Signature.Recv() != nil {
			roots = append(roots, fn)
		}
	}
	reach := c.P.ReachableFrom(roots)
	var fns []*ssa.Function
	for fn := range reach {
		if c.P.Src(fn) && !c.P.Generated(fn) {
			fns = append(fns, fn)
		}
	}
	sort.Slice(fns, func(i, j int) bool { return FuncName(fns[i]) < FuncName(fns[j]) })
	c.Count("functions in the execution region", len(fns))
	isMapRange := func(in ssa.Instruction) bool {
		r, ok := in.(*ssa.Range)
		if !ok {
			return false
		}
		_, isMap := r.X.Type().Underlying().(*types.Map)
		return isMap
	}
	for _, fn := range fns {
		var bad []string
		e := c.P.Env(fn)
		for _, b := range fn.Blocks {
			for _, in := range b.Instrs {
				switch x := in.(type) {
				case *ssa.Store:
					at := e.Term(x.Addr)
					if strings.HasPrefix(at, "G:") {
						bad = append(bad, "store to package-level variable "+at+" at "+c.P.InstrPos(in))
					}
					if fn.Signature.Recv() != nil && strings.HasPrefix(at, "P:"+paramName(fn.Params[0])+".") {
						if _, isPtr := fn.Params[0].Type().(*types.Pointer); isPtr && !perCallType(c.P, fn.Params[0].Type(), reach) {
							bad = append(bad, "store to receiver field "+at+" at "+c.P.InstrPos(in)+": state kept between calls")
						}
					}
				case *ssa.Go:
					bad = append(bad, "goroutine started at "+c.P.InstrPos(in))
				case *ssa.Select:
					bad = append(bad, "select at "+c.P.InstrPos(in))
				case *ssa.Send:
					bad = append(bad, "channel send at "+c.P.InstrPos(in))
				case *ssa.MakeChan:
					bad = append(bad, "channel created at "+c.P.InstrPos(in))
				case *ssa.UnOp:
					if x.Op == token.ARROW {
						bad = append(bad, "channel receive at "+c.P.InstrPos(in))
					}
				case ssa.CallInstruction:
					if sc := x.Common().StaticCallee(); sc != nil && sc.Pkg != nil && nondetPkgs[sc.Pkg.Pkg.Path()] {
						bad = append(bad, "call to "+sc.String()+" at "+c.P.InstrPos(in))
					}
					if n := CalleeName(x); strings.HasPrefix(n, "fmt.") && len(x.Common().Args) > 0 {
						for _, a := range x.Common().Args {
							if k, ok := a.(*ssa.Const); ok && k.Value != nil && k.Value.Kind() == constant.String && strings.Contains(constant.StringVal(k.Value), "%p") {
								bad = append(bad, "formats a pointer with %p at "+c.P.InstrPos(in))
							}
						}
					}
				}
				if isMapRange(in) {
					bad = append(bad, "range over a map at "+c.P.InstrPos(in)+": iteration order differs between runs")
				}
			}
		}
		if len(bad) == 0 {
			c.OK(rule, FuncName(fn), "no hidden state, no nondeterminism", c.P.Pos(fn.Pos()), "no store to receiver/global, no map range, goroutine, channel, clock, randomness, reflection")
		}
		for i, b := range bad {
			c.FailX(Oblig{Rule: rule, Func: FuncName(fn), Construct: fmt.Sprintf("no hidden state, no nondeterminism #%d", i+1), Pos: c.P.Pos(fn.Pos()), Kind: "violation", Detail: b})
		}
	}
	// positive control: the detector must see the map ranges that exist outside the region
	nr := 0
	var where []string
	for _, fn := range c.P.Funcs {
		if !c.P.Src(fn) || c.P.Generated(fn) {
			continue
		}
		for _, b := range fn.Blocks {
			for _, in := range b.Instrs {
				if isMapRange(in) {
					nr++
					where = append(where, fn.Name())
				}
			}
		}
	}
	if nr >= 3 {
		c.add(Oblig{Rule: rule, Func: "-", Construct: "positive control: map-range detector", Pos: "-", Kind: "control", By: strings.Join(where, ",")})
		c.Note("positive control: the map-range detector matches %d sites outside the execution region (%s)", nr, strings.Join(where, ", "))
	} else {
		c.Fail(rule, "anchor", "-", "positive control: map-range detector", "-", fmt.Sprintf("the detector found only %d map ranges in the module (>= 3 exist on the reference tree): it no longer recognises the construct", nr))
	}
}

// readOnlyForeign: functions outside the module that only read the slice they receive at position i (and keep no writable
// alias of it). Everything else is treated as a potential writer: bytes.NewBuffer takes ownership and later writes go into the
// spare capacity of the argument; the Append*/Put*/Encode(dst, …) families write into their destination.
func readOnlyForeign(name string, i int) bool {
	switch {
	case strings.HasPrefix(name, "bytes."):
		switch strings.TrimPrefix(name, "bytes.") {
		case "Equal", "Compare", "HasPrefix", "HasSuffix", "Contains", "Index", "IndexByte", "LastIndex", "Count", "EqualFold", "ContainsAny", "IndexAny",
			"TrimLeft", "TrimRight", "Trim", "TrimSpace", "TrimPrefix", "TrimSuffix", "Split", "SplitN", "Fields", "NewReader", "ToLower", "ToUpper", "Repeat", "Join", "Clone":
			return true
		}
		return false
	case name == "encoding/hex.EncodeToString", name == "encoding/hex.Decode" && i == 1, name == "encoding/hex.Encode" && i == 1, name == "encoding/hex.Dump":
		return true
	case name == "(*math/big.Int).SetBytes":
		return true
	case (name == "(*bytes.Buffer).Write" || name == "(*strings.Builder).Write" || name == "(*bytes.Buffer).WriteString" || name == "(*strings.Builder).WriteString") && i == 1:
		return true // io.Writer contract: the bytes written are copied into the buffer, p is neither modified nor retained
	case strings.HasPrefix(name, "fmt.") && !strings.HasPrefix(name, "fmt.Append") && !strings.HasPrefix(name, "fmt.Sscan") && !strings.HasPrefix(name, "fmt.Fscan"):
		return true
	case strings.HasPrefix(name, "encoding/binary.") && (strings.HasSuffix(name, ".Uint16") || strings.HasSuffix(name, ".Uint32") || strings.HasSuffix(name, ".Uint64") || strings.HasSuffix(name, "Uvarint") && !strings.Contains(name, "Put") || strings.HasSuffix(name, ".Varint")):
		return true
	case name == "unicode/utf8.Valid", name == "unicode/utf8.DecodeRune", name == "unicode/utf8.RuneCount", name == "unicode/utf8.FullRune":
		return true
	case strings.HasPrefix(name, "crypto/") && (strings.HasSuffix(name, ".Sum256") || strings.HasSuffix(name, ".Sum512") || strings.HasSuffix(name, ".Sum")) && i == 0:
		return true
	case strings.HasPrefix(name, "strings."):
		return true // strings are immutable; a []string list is only read
	case name == "errors.New", name == "errors.Is", name == "errors.As":
		return true
	}
	return false
}
