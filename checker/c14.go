package main

// C14 — token-data serialisation (tables and decoder bounds only).

import (
	"fmt"
	"go/ast"
	"go/token"
	"go/types"
	"os"
	"path/filepath"
	"reflect"
	"regexp"
	"sort"
	"strconv"
	"strings"

	"golang.org/x/tools/go/ssa"
)

func init() {
	register(&Property{
		ID:    "C14",
		Level: "other",
		Explanation: "Decides table agreement, not the round trip. R1: for each of the three messages the (field number, wire type, name) table of the struct tags equals the one of the .proto file, the tag bytes written by the marshaller " +
			"(number<<3|type, attributed to the field handled in that segment, written in descending order), the `case number` / `wireType != t` / assigned-field table of the unmarshaller, and Size has a 1+… contribution per field; numbers are 1–5 / 1 / 1–7. " +
			"R2: the amount caster's Size and MarshalTo define the same case→length table (nil→1, non-empty→len+1, empty→2); the sign byte is 1 exactly under Sign() < 0, else 0; the magnitude is copied at buf[1:]; the reader takes the magnitude from buf[1:], " +
			"negates exactly under sign byte 1 and rejects other sign bytes; every write of the amount writer lies below the length it returns on each path reachable from the write (the marshaller fills its buffer back to front: what lies behind is already encoded); every *big.Int the reader returns is allocated by it (never package-level state). R1 also: each decoder case reads and writes only the field of its own tag. R1 also (presence): in the encoders every condition on the message is the presence test of one of its fields (`m.F != nil`, `len(m.F) > 0`, `m.F != 0`), never a helper that looks into the field. R3: index/slice sites of the hand-written caster are in range (MarshalTo's nil case is an encoder contract: the buffer is sized by Size). Does NOT decide: decode(encode(x)) = x for all x, " +
			"canonicity, agreement with an independent encoder, totality of the generated decoder (protoc is not installed; the generated file cannot be regenerated).",
		Trusted: []string{"go/ast of the generated file as type-checked", "the .proto file is the documented wire format"},
		Rules:   []func(*Ctx){c14r1, c14r2, c14r3, c14r4},
	})
}

type wireField struct {
	Num  int
	Type int // 0 varint, 2 length-delimited
	Name string
}

func (w wireField) String() string { return fmt.Sprintf("%d/%d/%s", w.Num, w.Type, w.Name) }

func tableKey(t []wireField) string {
	s := append([]wireField{}, t...)
	sort.Slice(s, func(i, j int) bool { return s[i].Num < s[j].Num })
	var out []string
	for _, f := range s {
		out = append(out, f.String())
	}
	return strings.Join(out, " ")
}

var protoFieldRe = regexp.MustCompile(`^\s*(repeated\s+)?([A-Za-z0-9_.]+)\s+([A-Za-z0-9_]+)\s*=\s*([0-9]+)`)

func parseProto(path string) (map[string][]wireField, error) {
	b, err := os.ReadFile(path)
	if err != nil {
		return nil, err
	}
	out := map[string][]wireField{}
	cur := ""
	for _, line := range strings.Split(string(b), "\n") {
		t := strings.TrimSpace(line)
		if strings.HasPrefix(t, "message ") {
			cur = strings.Fields(t)[1]
			continue
		}
		if t == "}" {
			cur = ""
			continue
		}
		if cur == "" || strings.HasPrefix(t, "//") {
			continue
		}
		m := protoFieldRe.FindStringSubmatch(line)
		if m == nil {
			continue
		}
		n, _ := strconv.Atoi(m[4])
		wt := 2
		switch m[2] {
		case "uint32", "uint64", "int32", "int64", "bool", "sint32", "sint64":
			wt = 0
			if m[1] != "" {
				wt = 2 // packed
			}
		}
		out[cur] = append(out[cur], wireField{n, wt, m[3]})
	}
	return out, nil
}

func c14r1(c *Ctx) {
	const rule = "C14-R1"
	c.Rule(rule, "struct tags, .proto, marshaller tag bytes, unmarshaller cases and Size contributions agree per message", 12)
	pk := c.P.TPkg["data/esdt"]
	if pk == nil {
		c.Anchor(rule, "package data/esdt")
		return
	}
	proto, err := parseProto(filepath.Join(c.P.Dir, "data", "esdt", "proto", "esdt.proto"))
	if err != nil {
		c.Anchor(rule, "data/esdt/proto/esdt.proto: "+err.Error())
		return
	}
	wantNums := map[string]string{"ESDigitalToken": "1 2 3 4 5", "ESDTRoles": "1", "MetaData": "1 2 3 4 5 6 7"}
	// struct tags
	tags := map[string][]wireField{}
	funcs := map[string]*ast.FuncDecl{} // "Msg.Method"
	for _, f := range pk.Syntax {
		for _, d := range f.Decls {
			switch d := d.(type) {
			case *ast.GenDecl:
				for _, sp := range d.Specs {
					ts, ok := sp.(*ast.TypeSpec)
					if !ok {
						continue
					}
					st, ok := ts.Type.(*ast.StructType)
					if !ok {
						continue
					}
					for _, fld := range st.Fields.List {
						if fld.Tag == nil || len(fld.Names) == 0 {
							continue
						}
						tag, _ := strconv.Unquote(fld.Tag.Value)
						pb := reflect.StructTag(tag).Get("protobuf")
						if pb == "" {
							continue
						}
						parts := strings.Split(pb, ",")
						n, _ := strconv.Atoi(parts[1])
						wt := map[string]int{"varint": 0, "bytes": 2, "fixed64": 1, "fixed32": 5}[parts[0]]
						name := fld.Names[0].Name
						for _, p := range parts {
							if strings.HasPrefix(p, "name=") {
								name = strings.TrimPrefix(p, "name=")
							}
						}
						if name != fld.Names[0].Name {
							c.Fail(rule, "violation", ts.Name.Name, "tag name of "+fld.Names[0].Name, c.P.Pos(fld.Pos()), "tag names field "+name)
						}
						tags[ts.Name.Name] = append(tags[ts.Name.Name], wireField{n, wt, name})
					}
				}
			case *ast.FuncDecl:
				if d.Recv != nil && len(d.Recv.List) == 1 {
					if se, ok := d.Recv.List[0].Type.(*ast.StarExpr); ok {
						if id, ok := se.X.(*ast.Ident); ok {
							funcs[id.Name+"."+d.Name.Name] = d
						}
					}
				}
			}
		}
	}
	// the varint size function: the encoder writes 7 bits per byte, so a value of L significant bits (L = Len64(x|1), 1…64)
	// takes ceil(L/7) bytes; the function's return expression is folded for each of the 64 possible L
	for _, f := range pk.Syntax {
		for _, d := range f.Decls {
			fd, ok := d.(*ast.FuncDecl)
			if !ok || fd.Recv != nil || !strings.HasPrefix(fd.Name.Name, "sov") || fd.Body == nil {
				continue
			}
			construct := fd.Name.Name + ": varint size is ceil(bits/7) for every bit length"
			var expr ast.Expr
			if len(fd.Body.List) == 1 {
				if rs, ok := fd.Body.List[0].(*ast.ReturnStmt); ok && len(rs.Results) == 1 {
					expr = rs.Results[0]
				}
			}
			if expr == nil {
				c.Fail(rule, "undecided", fd.Name.Name, construct, c.P.Pos(fd.Pos()), "the size function is not a single return of an arithmetic expression")
				continue
			}
			bad, undecided := "", ""
			for L := int64(1); L <= 64; L++ {
				v, ok := foldSizeExpr(expr, L)
				if !ok {
					undecided = "the return expression is not arithmetic over Len64(x|1)"
					break
				}
				if want := (L + 6) / 7; v != want {
					bad = fmt.Sprintf("for a value of %d significant bits the function says %d bytes, the encoder writes %d", L, v, want)
					break
				}
			}
			switch {
			case undecided != "":
				c.Fail(rule, "undecided", fd.Name.Name, construct, c.P.Pos(fd.Pos()), undecided)
			case bad != "":
				c.FailX(Oblig{Rule: rule, Func: fd.Name.Name, Construct: construct, Pos: c.P.Pos(fd.Pos()), Kind: "violation",
					Detail:   bad + ": Size and the slot reserved by the varint encoder are too small (or too large) for such numbers, the last byte lands on the neighbouring field or Marshal panics",
					Expected: "(Len64(x|1) + 6) / 7"})
			default:
				c.OK(rule, fd.Name.Name, construct, c.P.Pos(fd.Pos()), "equal to (L+6)/7 for L = 1…64")
			}
		}
	}
	var msgs []string
	for m := range wantNums {
		msgs = append(msgs, m)
	}
	sort.Strings(msgs)
	for _, msg := range msgs {
		tg := tags[msg]
		if len(tg) == 0 {
			c.Anchor(rule, "struct "+msg+" with protobuf tags")
			continue
		}
		pos := "data/esdt/esdt.pb.go"
		var nums []string
		st := append([]wireField{}, tg...)
		sort.Slice(st, func(i, j int) bool { return st[i].Num < st[j].Num })
		for _, f := range st {
			nums = append(nums, fmt.Sprint(f.Num))
		}
		if strings.Join(nums, " ") == wantNums[msg] {
			c.OK(rule, msg, msg+": field numbers", pos, wantNums[msg])
		} else {
			c.Fail(rule, "violation", msg, msg+": field numbers", pos, "field numbers are {"+strings.Join(nums, " ")+"}, the documented format has {"+wantNums[msg]+"}")
		}
		// .proto
		if tableKey(proto[msg]) == tableKey(tg) {
			c.OK(rule, msg, msg+": struct tags = .proto", pos, tableKey(tg))
		} else {
			c.FailX(Oblig{Rule: rule, Func: msg, Construct: msg + ": struct tags = .proto", Pos: pos, Kind: "violation", Detail: "tags {" + tableKey(tg) + "} vs .proto {" + tableKey(proto[msg]) + "}"})
		}
		// marshaller
		if fd := funcs[msg+".MarshalToSizedBuffer"]; fd != nil {
			tbl, order, why := marshalTable(fd)
			construct := msg + ": marshaller tag bytes"
			switch {
			case strings.Contains(why, "touches {"):
				c.FailX(Oblig{Rule: rule, Func: msg, Construct: construct, Pos: c.P.Pos(fd.Pos()), Kind: "violation", Detail: why,
					Expected: "each case reads and writes only the field of its own tag"})
			case why != "":
				c.Fail(rule, "undecided", msg, construct, c.P.Pos(fd.Pos()), why)
			case tableKey(tbl) != tableKey(tg):
				c.FailX(Oblig{Rule: rule, Func: msg, Construct: construct, Pos: c.P.Pos(fd.Pos()), Kind: "violation",
					Detail: "the marshaller writes {" + tableKey(tbl) + "}, the tags say {" + tableKey(tg) + "}: a field is written under another field's tag"})
			case !sort.SliceIsSorted(order, func(i, j int) bool { return order[i] > order[j] }):
				c.Fail(rule, "violation", msg, construct, c.P.Pos(fd.Pos()), fmt.Sprintf("tag bytes are not written in descending field order %v: the encoding is not the canonical ascending order", order))
			default:
				c.OK(rule, msg, construct, c.P.Pos(fd.Pos()), fmt.Sprintf("%s; written in descending order %v", tableKey(tbl), order))
			}
		} else {
			c.Anchor(rule, msg+".MarshalToSizedBuffer")
		}
		// presence: whether a field is written (and counted) is decided by the field's own presence test and by nothing else
		for _, fname := range []string{"MarshalToSizedBuffer", "Size"} {
			fd := funcs[msg+"."+fname]
			if fd == nil {
				continue
			}
			bad := presenceConditions(fd)
			construct := msg + ": presence tests of " + fname
			if len(bad) == 0 {
				c.OK(rule, msg, construct, c.P.Pos(fd.Pos()), "every condition on the message is `m.F != nil`, `len(m.F) > 0`, `m.F != 0` or `m.F`")
			} else {
				c.FailX(Oblig{Rule: rule, Func: msg, Construct: construct, Pos: c.P.Pos(bad[0].pos), Kind: "violation",
					Detail:   "whether a field is encoded is decided by `" + bad[0].a + "`, not by the field's own presence test: a value whose field is present but holds defaults is encoded as if the field were absent, so decoding the bytes does not give the value back (and the bytes differ from the documented format)",
					Expected: "`m.F != nil` for messages and amounts, `len(m.F) > 0` for bytes and lists, `m.F != 0` for numbers"})
			}
		}
		// unmarshaller
		if fd := funcs[msg+".Unmarshal"]; fd != nil {
			tbl, why := unmarshalTable(fd)
			construct := msg + ": unmarshaller cases"
			switch {
			case strings.Contains(why, "touches {"):
				c.FailX(Oblig{Rule: rule, Func: msg, Construct: construct, Pos: c.P.Pos(fd.Pos()), Kind: "violation", Detail: why,
					Expected: "each case reads and writes only the field of its own tag"})
			case why != "":
				c.Fail(rule, "undecided", msg, construct, c.P.Pos(fd.Pos()), why)
			case tableKey(tbl) != tableKey(tg):
				c.FailX(Oblig{Rule: rule, Func: msg, Construct: construct, Pos: c.P.Pos(fd.Pos()), Kind: "violation",
					Detail: "the unmarshaller reads {" + tableKey(tbl) + "}, the tags say {" + tableKey(tg) + "}"})
			default:
				c.OK(rule, msg, construct, c.P.Pos(fd.Pos()), tableKey(tbl))
			}
		} else {
			c.Anchor(rule, msg+".Unmarshal")
		}
		// Size: the length that is added and the length whose varint size is added are one expression
		if fd := funcs[msg+".Size"]; fd != nil {
			for _, bad := range sizeLengthMismatches(fd) {
				c.FailX(Oblig{Rule: rule, Func: msg, Construct: msg + ": Size length expressions", Pos: c.P.Pos(bad.pos), Kind: "violation",
					Detail: "Size adds " + bad.a + " bytes of payload but the varint size of " + bad.b + ": for some lengths the reported size differs from the encoded length (Marshal panics or emits a shifted buffer)"})
			}
			if len(sizeLengthMismatches(fd)) == 0 {
				c.OK(rule, msg, msg+": Size length expressions", c.P.Pos(fd.Pos()), "every contribution is 1 + L + sov(L) with one fresh L")
			}
		}
		// Size: one `n += 1 + …` per field
		if fd := funcs[msg+".Size"]; fd != nil {
			got := sizeFields(fd)
			var want []string
			for _, f := range tg {
				want = append(want, f.Name)
			}
			sort.Strings(want)
			sort.Strings(got)
			if strings.Join(got, ",") == strings.Join(want, ",") {
				c.OK(rule, msg, msg+": Size contributions", c.P.Pos(fd.Pos()), "1 + … for each of {"+strings.Join(got, ",")+"}")
			} else {
				c.Fail(rule, "violation", msg, msg+": Size contributions", c.P.Pos(fd.Pos()), "Size accounts for {"+strings.Join(got, ",")+"}, the message has {"+strings.Join(want, ",")+"}: reported size differs from the encoded length")
			}
		} else {
			c.Anchor(rule, msg+".Size")
		}
	}
}

type posEvent struct {
	pos   token.Pos
	field string
	tag   int
}

// marshalTable: tag bytes `dAtA[i] = 0x..` attributed to the receiver field mentioned since the previous tag byte.
func marshalTable(fd *ast.FuncDecl) ([]wireField, []int, string) {
	recv := fd.Recv.List[0].Names[0].Name
	var ev []posEvent
	methodSel := map[*ast.SelectorExpr]bool{}
	ast.Inspect(fd.Body, func(n ast.Node) bool {
		switch x := n.(type) {
		case *ast.CallExpr:
			if se, ok := x.Fun.(*ast.SelectorExpr); ok {
				methodSel[se] = true // m.helper(): a method of the message, not one of its fields (judged by the presence rule)
			}
		case *ast.SelectorExpr:
			if id, ok := x.X.(*ast.Ident); ok && id.Name == recv && !methodSel[x] {
				ev = append(ev, posEvent{x.Pos(), x.Sel.Name, -1})
			}
		case *ast.AssignStmt:
			if len(x.Lhs) == 1 && len(x.Rhs) == 1 {
				if ie, ok := x.Lhs[0].(*ast.IndexExpr); ok {
					if bl, ok := x.Rhs[0].(*ast.BasicLit); ok && bl.Kind == token.INT {
						if _, ok := ie.Index.(*ast.Ident); ok {
							v, err := strconv.ParseInt(bl.Value, 0, 64)
							if err == nil {
								ev = append(ev, posEvent{x.Pos(), "", int(v)})
							}
						}
					}
				}
			}
		}
		return true
	})
	sort.Slice(ev, func(i, j int) bool { return ev[i].pos < ev[j].pos })
	var out []wireField
	var order []int
	cur := map[string]bool{}
	for _, e := range ev {
		if e.tag < 0 {
			cur[e.field] = true
			continue
		}
		if len(cur) != 1 {
			var fs []string
			for f := range cur {
				fs = append(fs, f)
			}
			sort.Strings(fs)
			return nil, nil, fmt.Sprintf("tag byte %#x cannot be attributed to exactly one field (segment mentions %v)", e.tag, fs)
		}
		for f := range cur {
			out = append(out, wireField{e.tag >> 3, e.tag & 7, f})
		}
		order = append(order, e.tag>>3)
		cur = map[string]bool{}
	}
	return out, order, ""
}

// presenceConditions: the conditions of `if` statements in an encoder that mention the message but are not the presence test
// of one of its fields (`m == nil`, `m.F != nil`, `len(m.F) > 0`, `m.F != 0`, `m.F`).
func presenceConditions(fd *ast.FuncDecl) []sizeMismatch {
	recv := fd.Recv.List[0].Names[0].Name
	isField := func(e ast.Expr) bool {
		se, ok := e.(*ast.SelectorExpr)
		if !ok {
			return false
		}
		id, ok := se.X.(*ast.Ident)
		return ok && id.Name == recv
	}
	mentions := func(e ast.Expr) bool {
		found := false
		ast.Inspect(e, func(n ast.Node) bool {
			if id, ok := n.(*ast.Ident); ok && id.Name == recv {
				found = true
			}
			return true
		})
		return found
	}
	isLit := func(e ast.Expr, v string) bool {
		switch x := e.(type) {
		case *ast.BasicLit:
			return x.Value == v
		case *ast.Ident:
			return x.Name == v
		}
		return false
	}
	var bad []sizeMismatch
	ast.Inspect(fd.Body, func(n ast.Node) bool {
		iff, ok := n.(*ast.IfStmt)
		if !ok || !mentions(iff.Cond) {
			return true
		}
		good := false
		switch x := iff.Cond.(type) {
		case *ast.SelectorExpr:
			good = isField(x)
		case *ast.BinaryExpr:
			switch {
			case x.Op == token.EQL && isLit(x.X, recv) && isLit(x.Y, "nil"):
				good = true
			case x.Op == token.NEQ && isField(x.X) && (isLit(x.Y, "nil") || isLit(x.Y, "0")):
				good = true
			case x.Op == token.GTR && isLit(x.Y, "0"):
				if call, ok := x.X.(*ast.CallExpr); ok && len(call.Args) == 1 && isField(call.Args[0]) {
					if id, ok := call.Fun.(*ast.Ident); ok && id.Name == "len" {
						good = true
					}
				}
			}
		}
		if !good {
			bad = append(bad, sizeMismatch{pos: iff.Pos(), a: types.ExprString(iff.Cond)})
		}
		return true
	})
	return bad
}

// unmarshalTable: switch fieldNum { case N: if wireType != T …; m.F = … }
func unmarshalTable(fd *ast.FuncDecl) ([]wireField, string) {
	recv := fd.Recv.List[0].Names[0].Name
	var out []wireField
	why := ""
	ast.Inspect(fd.Body, func(n ast.Node) bool {
		sw, ok := n.(*ast.SwitchStmt)
		if !ok {
			return true
		}
		if id, ok := sw.Tag.(*ast.Ident); !ok || id.Name != "fieldNum" {
			return true
		}
		for _, st := range sw.Body.List {
			cc := st.(*ast.CaseClause)
			if len(cc.List) != 1 {
				continue // default
			}
			bl, ok := cc.List[0].(*ast.BasicLit)
			if !ok {
				why = "non-literal case"
				continue
			}
			num, _ := strconv.Atoi(bl.Value)
			wt := -1
			fields := map[string]bool{}
			touched := map[string]bool{}
			for _, s := range cc.Body {
				ast.Inspect(s, func(m ast.Node) bool {
					switch y := m.(type) {
					case *ast.IfStmt:
						if be, ok := y.Cond.(*ast.BinaryExpr); ok && be.Op == token.NEQ {
							if id, ok := be.X.(*ast.Ident); ok && id.Name == "wireType" {
								if l, ok := be.Y.(*ast.BasicLit); ok && wt < 0 {
									wt, _ = strconv.Atoi(l.Value)
								}
							}
						}
					case *ast.AssignStmt:
						for _, lhs := range y.Lhs {
							if se, ok := lhs.(*ast.SelectorExpr); ok {
								if id, ok := se.X.(*ast.Ident); ok && id.Name == recv {
									fields[se.Sel.Name] = true
								}
							}
						}
					case *ast.SelectorExpr:
						// every mention of a field of the message inside the case: the decoded field may only reuse its own storage
						if id, ok := y.X.(*ast.Ident); ok && id.Name == recv {
							touched[y.Sel.Name] = true
						}
					}
					return true
				})
			}
			if len(fields) != 1 || wt < 0 {
				why = fmt.Sprintf("case %d does not assign exactly one field after a wire-type test", num)
				continue
			}
			if len(touched) != 1 {
				var ts []string
				for t := range touched {
					ts = append(ts, t)
				}
				sort.Strings(ts)
				why = fmt.Sprintf("case %d decodes one field but touches {%s}: a decoded field is built on another field's storage (the two alias and overwrite each other)", num, strings.Join(ts, ", "))
				continue
			}
			for f := range fields {
				out = append(out, wireField{num, wt, f})
			}
		}
		return false
	})
	return out, why
}

type sizeMismatch struct {
	pos  token.Pos
	a, b string
}

// sizeLengthMismatches: statements `n += 1 + X + sov…(uint64(Y))` where X and Y differ, or where both are a variable that was not assigned by the
// statement immediately before (a stale length).
func sizeLengthMismatches(fd *ast.FuncDecl) []sizeMismatch {
	var out []sizeMismatch
	fresh := map[string]bool{}
	var visitBlock func(list []ast.Stmt)
	check := func(list []ast.Stmt, i int, as *ast.AssignStmt) {
		if as.Tok == token.ASSIGN && len(as.Lhs) == 1 {
			fresh[types.ExprString(as.Lhs[0])] = true
			return
		}
		if as.Tok != token.ADD_ASSIGN || len(as.Rhs) != 1 {
			return
		}
		// flatten the sum
		var terms []ast.Expr
		var flat func(e ast.Expr)
		flat = func(e ast.Expr) {
			if be, ok := e.(*ast.BinaryExpr); ok && be.Op == token.ADD {
				flat(be.X)
				flat(be.Y)
				return
			}
			terms = append(terms, e)
		}
		flat(as.Rhs[0])
		var lenExpr, sovArg string
		for _, t := range terms {
			if call, ok := t.(*ast.CallExpr); ok {
				if id, ok := call.Fun.(*ast.Ident); ok && strings.HasPrefix(id.Name, "sov") && len(call.Args) == 1 {
					arg := call.Args[0]
					if conv, ok := arg.(*ast.CallExpr); ok && len(conv.Args) == 1 {
						arg = conv.Args[0]
					}
					sovArg = types.ExprString(arg)
					continue
				}
			}
			if bl, ok := t.(*ast.BasicLit); ok && bl.Kind == token.INT {
				continue
			}
			lenExpr = types.ExprString(t)
		}
		if sovArg == "" || lenExpr == "" {
			return
		}
		if sovArg != lenExpr {
			out = append(out, sizeMismatch{as.Pos(), lenExpr, sovArg})
			return
		}
		if !strings.Contains(lenExpr, "(") {
			// a plain variable: it must have been assigned since the last contribution that consumed it (else it is a stale length)
			if !fresh[lenExpr] {
				out = append(out, sizeMismatch{as.Pos(), lenExpr, sovArg + " (stale: not reassigned since the previous field)"})
			}
			fresh[lenExpr] = false
		}
	}
	visitBlock = func(list []ast.Stmt) {
		for i, st := range list {
			switch x := st.(type) {
			case *ast.AssignStmt:
				check(list, i, x)
			case *ast.IfStmt:
				visitBlock(x.Body.List)
				if eb, ok := x.Else.(*ast.BlockStmt); ok {
					visitBlock(eb.List)
				}
			case *ast.RangeStmt:
				visitBlock(x.Body.List)
			case *ast.ForStmt:
				visitBlock(x.Body.List)
			case *ast.BlockStmt:
				visitBlock(x.List)
			}
		}
	}
	visitBlock(fd.Body.List)
	return out
}

func sizeFields(fd *ast.FuncDecl) []string {
	recv := fd.Recv.List[0].Names[0].Name
	var ev []posEvent
	methodSel := map[*ast.SelectorExpr]bool{}
	ast.Inspect(fd.Body, func(n ast.Node) bool {
		switch x := n.(type) {
		case *ast.CallExpr:
			if se, ok := x.Fun.(*ast.SelectorExpr); ok {
				methodSel[se] = true // m.helper(): a method of the message, not one of its fields (judged by the presence rule)
			}
		case *ast.SelectorExpr:
			if id, ok := x.X.(*ast.Ident); ok && id.Name == recv && !methodSel[x] {
				ev = append(ev, posEvent{x.Pos(), x.Sel.Name, -1})
			}
		case *ast.AssignStmt:
			if x.Tok == token.ADD_ASSIGN && len(x.Rhs) == 1 {
				// n += 1 + …
				e := x.Rhs[0]
				for {
					be, ok := e.(*ast.BinaryExpr)
					if !ok {
						break
					}
					e = be.X
				}
				if bl, ok := e.(*ast.BasicLit); ok && bl.Value == "1" {
					ev = append(ev, posEvent{x.Pos(), "", 1})
				}
			}
		}
		return true
	})
	sort.Slice(ev, func(i, j int) bool { return ev[i].pos < ev[j].pos })
	var out []string
	last := ""
	for _, e := range ev {
		if e.tag < 0 {
			last = e.field
			continue
		}
		if last != "" {
			out = append(out, last)
		}
	}
	return uniq(out)
}

// ---------------------------------------------------------------- R2 the amount caster

func c14r2(c *Ctx) {
	const rule = "C14-R2"
	c.Rule(rule, "amount codec: Size and MarshalTo agree on the case→length table; sign byte and magnitude placement agree between writer and reader", 8)
	size := c.P.FuncByName("(*data.BigIntCaster).Size")
	mar := c.P.FuncByName("(*data.BigIntCaster).MarshalTo")
	unm := c.P.FuncByName("(*data.BigIntCaster).Unmarshal")
	if size == nil || mar == nil || unm == nil {
		c.Anchor(rule, "data.BigIntCaster Size / MarshalTo / Unmarshal")
		return
	}
	lengthTable := func(fn *ssa.Function) (map[string]string, string) {
		e := c.P.Env(fn)
		a := "P:" + paramName(fn.Params[1])
		nonEmpty := leAtom("len(Bytes(" + a + "))").addK(-1).String()
		tbl := map[string]string{}
		// the returns, looking through a length helper called in return position (`return encodedSize(len(b))`)
		type level struct {
			env *Env
			at  ssa.Instruction
		}
		type flat struct {
			levels []level
			env    *Env
			val    ssa.Value
		}
		var flats []flat
		var flatten func(env *Env, above []level, depth int)
		flatten = func(env *Env, above []level, depth int) {
			for _, r := range returnsOf(env.Fn) {
				if len(r.Results) == 2 && !isSuccessReturn(r) {
					continue
				}
				v := retval(r, 0)
				lv := append(append([]level{}, above...), level{env, r})
				call, _ := v.(*ssa.Call)
				if ex, ok := v.(*ssa.Extract); ok && ex.Index == 0 {
					call, _ = ex.Tuple.(*ssa.Call) // `return helper(buf)` handing on (length, error)
				}
				if call != nil && depth < 3 {
					if sc := call.Call.StaticCallee(); sc != nil && len(sc.Blocks) > 0 && sc.Pkg != nil && strings.HasPrefix(sc.Pkg.Pkg.Path(), modPath) && sc != env.Fn {
						flatten(env.Sub(call, sc), lv, depth+1)
						continue
					}
				}
				flats = append(flats, flat{lv, env, v})
			}
		}
		flatten(e, nil, 0)
		cutAny := func(f flat, pred func(Fact) bool) bool {
			for _, l := range f.levels {
				if _, ok := l.env.CutAt(l.at, pred, nil); ok {
					return true
				}
			}
			return false
		}
		for _, f := range flats {
			cls := "empty"
			if cutAny(f, nilPred(a)) {
				cls = "nil"
			} else if cutAny(f, func(f Fact) bool { return f.Lin && f.LE.String() == nonEmpty }) {
				cls = "non-empty"
			}
			v := f.env.LE(f.val).String()
			if old, dup := tbl[cls]; dup && old != v {
				return nil, "two different lengths for case " + cls + ": " + old + " / " + v
			}
			tbl[cls] = v
		}
		return tbl, ""
	}
	ts, why1 := lengthTable(size)
	tm, why2 := lengthTable(mar)
	want := map[string]string{"nil": "1", "empty": "2"}
	render := func(t map[string]string) string {
		var ks []string
		for k, v := range t {
			ks = append(ks, k+"→"+v)
		}
		sort.Strings(ks)
		return strings.Join(ks, ", ")
	}
	construct := "Size / MarshalTo length table"
	switch {
	case why1 != "" || why2 != "":
		c.Fail(rule, "undecided", FuncName(size), construct, c.P.Pos(size.Pos()), why1+why2)
	case render(ts) != render(tm):
		c.FailX(Oblig{Rule: rule, Func: FuncName(size), Construct: construct, Pos: c.P.Pos(size.Pos()), Kind: "violation",
			Detail: "Size says {" + render(ts) + "} but MarshalTo writes {" + render(tm) + "}: the reported size differs from the encoded length"})
	case ts["nil"] != want["nil"] || ts["empty"] != want["empty"] || !strings.HasSuffix(ts["non-empty"], "+ 1") || !strings.Contains(ts["non-empty"], "len(Bytes("):
		c.Fail(rule, "violation", FuncName(size), construct, c.P.Pos(size.Pos()), "table {"+render(ts)+"} is not the documented nil→1, non-empty→len+1, zero→2")
	default:
		c.OK(rule, FuncName(size), construct, c.P.Pos(size.Pos()), render(ts))
	}
	// writer: sign byte and magnitude
	me := c.P.Env(mar)
	a, buf := "P:"+paramName(mar.Params[1]), "P:"+paramName(mar.Params[2])
	// the writer touches only the bytes it reports: the generated marshaller fills its buffer back to front and hands the
	// writer dAtA[i:], so everything behind the reported length is a field that is already encoded
	isBufWrite := func(in ssa.Instruction) (string, bool) {
		switch x := in.(type) {
		case *ssa.Store:
			if ia, ok := x.Addr.(*ssa.IndexAddr); ok && isByteSliceT(ia.X.Type()) {
				return "store", true
			}
		case *ssa.Call:
			if bi, ok := x.Call.Value.(*ssa.Builtin); ok && bi.Name() == "copy" {
				return "copy", true
			}
		}
		return "", false
	}
	nw := 0
	for _, s := range c.P.EffectSitesBelow(me, "c14bufwrite", isBufWrite) {
		var dst ssa.Value
		var idx, count LE
		switch x := s.In.(type) {
		case *ssa.Store:
			ia := x.Addr.(*ssa.IndexAddr)
			dst, idx, count = ia.X, s.Env.LE(ia.Index), leConst(1)
		case *ssa.Call:
			dst, idx, count = x.Call.Args[0], leConst(0), leAtom("len("+s.Env.Term(x.Call.Args[1])+")")
		}
		term, off := s.Env.Term(dst), leConst(0)
		if be, base, o, ok := s.Env.sliceBase(dst, 0); ok {
			term, off = be.Term(base), o
		}
		if term != buf {
			continue
		}
		nw++
		end := off.plus(idx).plus(count)
		// judged in the function that contains the write when it reports a length itself, else in the writer
		env, at := s.Env, s.In
		for env.Parent != nil && env.Fn != mar {
			if res := env.Fn.Signature.Results(); res.Len() == 2 && isInteger(res.At(0).Type()) && isErrorType(res.At(1).Type()) {
				break
			}
			at, env = env.Call.(ssa.Instruction), env.Parent
		}
		construct := "writer: write of buf[" + off.plus(idx).String() + " : " + end.String() + ") stays inside the reported length"
		bad := ""
		for _, r := range returnsOf(env.Fn) {
			if !isSuccessReturn(r) || !(at.Block() == r.Block() || instrReaches(env.Fn, at, r, nil)) {
				continue
			}
			rv := retval(r, 0)
			if ex, ok := rv.(*ssa.Extract); ok {
				if _, isCall := ex.Tuple.(*ssa.Call); isCall {
					continue // the length is the one a helper reports: judged there
				}
			}
			n := env.LE(rv)
			// facts at the return; or — for a position that is a loop counter — what bounds it at the write itself, when the
			// reported length is made of values that do not change (constants, lengths)
			stable := true
			for a := range n.c {
				if !strings.HasPrefix(a, "len(") {
					stable = false
				}
			}
			if Proves(env.LinFactsAt(r, nil), n.minus(end)) || (stable && env == s.Env && Proves(env.LinFactsAt(s.In, nil), n.minus(end))) {
				continue
			}
			// the length computed by a helper in return position (`return encodedSize(len(b)), nil`): each of its returns, under
			// what holds there and here
			if hc, ok := rv.(*ssa.Call); ok {
				if sc := hc.Call.StaticCallee(); sc != nil && len(sc.Blocks) > 0 && sc.Pkg != nil && strings.HasPrefix(sc.Pkg.Pkg.Path(), modPath) && env.depth < maxDepth {
					sub := env.Sub(hc, sc)
					all := true
					for _, r2 := range returnsOf(sc) {
						if len(r2.Results) != 1 {
							all = false
							break
						}
						facts := append(append([]Fact{}, env.LinFactsAt(r, nil)...), sub.LinFactsAt(r2, nil)...)
						if !Proves(facts, sub.LE(r2.Results[0]).minus(end)) {
							all = false
						}
					}
					if all {
						continue
					}
				}
			}
			bad = "on the path returning " + n.String() + " at " + c.P.InstrPos(r)
		}
		if bad == "" {
			c.OK(rule, FuncName(s.In.Parent()), construct, c.P.InstrPos(s.In), "every reachable return reports at least that many bytes")
		} else {
			c.FailX(Oblig{Rule: rule, Func: FuncName(s.In.Parent()), Construct: construct, Pos: c.P.InstrPos(s.In), Kind: "violation",
				Detail:   "the amount writer writes beyond the length it reports (" + bad + "): the bytes behind it hold the fields the marshaller has already encoded, they are overwritten and the message no longer decodes to what was encoded",
				Expected: "writes confined to buf[0 : returned length)"})
		}
	}
	if nw == 0 {
		c.Anchor(rule, "writes of the amount writer into its buffer")
	}
	neg := leAtom("Sign(" + a + ")").scale(-1).addK(-1).String() // Sign(a) < 0
	nonneg := leAtom("Sign(" + a + ")").String()                 // Sign(a) >= 0
	nsign := 0
	for _, b := range mar.Blocks {
		for _, in := range b.Instrs {
			switch x := in.(type) {
			case *ssa.Store:
				ia, ok := x.Addr.(*ssa.IndexAddr)
				if !ok || me.Term(ia.X) != buf {
					continue
				}
				if k, ok := constInt(ia.Index); !ok || k != 0 {
					continue // not the sign byte (its position is judged by the bounds obligation below)
				}
				nsign++
				// the cases of the written byte: a constant under the facts at the store, or — `buf[0] = signByteOf(a)` — each
				// constant return of the helper under the facts at that return (in the writer's terms)
				type scase struct {
					v     int64
					isC   bool
					holds func(pred func(Fact) bool) bool
					desc  string
				}
				var cases []scase
				if v, isC := constInt(x.Val); isC {
					st := x
					cases = append(cases, scase{v, true, func(pred func(Fact) bool) bool { _, ok := me.CutAt(st, pred, nil); return ok }, fmt.Sprintf("%d", v)})
				} else if call, ok := x.Val.(*ssa.Call); ok && call.Call.StaticCallee() != nil && len(call.Call.StaticCallee().Blocks) > 0 {
					sc := call.Call.StaticCallee()
					sub := me.Sub(call, sc)
					for _, r := range returnsOf(sc) {
						r := r
						v, isC := constInt(retval(r, 0))
						cases = append(cases, scase{v, isC, func(pred func(Fact) bool) bool { _, ok := sub.CutAt(r, pred, nil); return ok }, fmt.Sprintf("%s returns %s", sc.Name(), sub.Term(retval(r, 0)))})
					}
				} else if ph, ok := x.Val.(*ssa.Phi); ok {
					// `sign := 0; if a.Sign() < 0 { sign = 1 }; buf[0] = sign`: one case per incoming constant, under what holds on that edge
					for k2, ed := range ph.Edges {
						pb, blk := ph.Block().Preds[k2], ph.Block()
						v, isC := constInt(ed)
						cases = append(cases, scase{v, isC, func(pred func(Fact) bool) bool {
							for _, f := range me.EdgeFacts()[edge{pb, blk}] {
								if sat(pred, f) {
									return true
								}
							}
							if len(pb.Instrs) > 0 {
								_, ok := me.CutAt(pb.Instrs[len(pb.Instrs)-1], pred, nil)
								return ok
							}
							return false
						}, fmt.Sprintf("%s (from b%d)", me.Term(ed), pb.Index)})
					}
				} else {
					cases = append(cases, scase{0, false, func(func(Fact) bool) bool { return false }, me.Term(x.Val)})
				}
				for _, cs := range cases {
					construct := fmt.Sprintf("writer: buf[0] = %s @b%d", cs.desc, b.Index)
					// Sign() is -1, 0 or 1: `== -1` is `< 0`, `!= -1` is `>= 0`, `== 1 || == 0` likewise
					signAtom := leAtom("Sign(" + a + ")")
					rangeOf := []LE{signAtom.addK(1), signAtom.scale(-1).addK(1)}
					underNeg := cs.holds(func(f Fact) bool {
						return f.Lin && (f.LE.String() == neg || entails(append([]LE{f.LE}, rangeOf...), signAtom.scale(-1).addK(-1), nonNegAtom))
					})
					underNonNeg := cs.holds(func(f Fact) bool {
						if !f.Lin {
							return !f.Pos && f.Atom == "zero("+signAtom.addK(1).String()+")"
						}
						return f.LE.String() == nonneg || entails(append([]LE{f.LE}, rangeOf...), signAtom, nonNegAtom)
					})
					underNil := cs.holds(nilPred(a))
					switch {
					case cs.isC && cs.v == 1 && underNeg:
						c.OK(rule, FuncName(mar), construct, c.P.InstrPos(x), "1 exactly under Sign() < 0")
					case cs.isC && cs.v == 0 && (underNonNeg || underNil):
						c.OK(rule, FuncName(mar), construct, c.P.InstrPos(x), "0 for nil and for Sign() >= 0")
					default:
						c.FailX(Oblig{Rule: rule, Func: FuncName(mar), Construct: construct, Pos: c.P.InstrPos(x), Kind: "violation",
							Detail: "the sign byte does not follow `1 iff Sign() < 0`: zero or positive amounts can be encoded as negative (or vice versa)", Expected: "buf[0] = 1 only under a.Sign() < 0; buf[0] = 0 only under a.Sign() >= 0 or a == nil"})
					}
				}
			case *ssa.Call:
				if bi, ok := x.Call.Value.(*ssa.Builtin); ok && bi.Name() == "copy" {
					dst, src := me.Term(x.Call.Args[0]), me.Term(x.Call.Args[1])
					if dst == buf+"[1:]" && src == "Bytes("+a+")" {
						c.OK(rule, FuncName(mar), "writer: magnitude at buf[1:]", c.P.InstrPos(x), "copy("+dst+", "+src+")")
					} else {
						c.Fail(rule, "violation", FuncName(mar), "writer: magnitude at buf[1:]", c.P.InstrPos(x), "magnitude copied as copy("+dst+", "+src+")")
					}
				}
			}
		}
	}
	if nsign < 1 {
		c.Anchor(rule, "sign byte stores in MarshalTo")
	}
	// reader
	ue := c.P.Env(unm)
	ub := "P:" + paramName(unm.Params[1])
	sign := "**" + "" // placeholder
	_ = sign
	signAtom := "*" + ub + "[0]"
	isEq := func(k int64) func(Fact) bool {
		a1 := leAtom(signAtom).addK(-k).String()
		a2 := leAtom(signAtom).scale(-1).addK(k).String()
		return func(f Fact) bool { return f.Lin && (f.LE.String() == a1 || f.LE.String() == a2) }
	}
	for _, b := range unm.Blocks {
		for _, in := range b.Instrs {
			call, ok := in.(*ssa.Call)
			if !ok {
				continue
			}
			switch bigMethod(call) {
			case "SetBytes":
				if t := ue.Term(call.Call.Args[1]); t == ub+"[1:]" {
					c.OK(rule, FuncName(unm), "reader: magnitude from buf[1:]", c.P.InstrPos(call), t)
				} else {
					c.Fail(rule, "violation", FuncName(unm), "reader: magnitude from buf[1:]", c.P.InstrPos(call), "magnitude read from "+t)
				}
			case "Neg":
				if _, ok := ue.CutAt(call, isEq(1), nil); ok {
					c.OK(rule, FuncName(unm), "reader: negate exactly under sign byte 1", c.P.InstrPos(call), "Neg cut by buf[0] == 1")
				} else {
					c.Fail(rule, "violation", FuncName(unm), "reader: negate exactly under sign byte 1", c.P.InstrPos(call), "the reader negates under another sign byte than the writer's 1")
				}
			}
		}
	}
	// the reader's length classes mirror the writer's table: one byte is the encoding of nil (and nothing else decodes to nil),
	// a number has at least two bytes
	lenBuf := leAtom("len(" + ub + ")")
	for _, r := range returnsOf(unm) {
		if !isSuccessReturn(r) {
			continue
		}
		facts := ue.LinFactsAt(r, nil)
		construct := fmt.Sprintf("reader: length class of the value returned @b%d", r.Block().Index)
		if isNilConst(retval(r, 0)) {
			if Proves(facts, lenBuf.addK(-1)) && Proves(facts, lenBuf.scale(-1).addK(1)) {
				c.OK(rule, FuncName(unm), construct, c.P.InstrPos(r), "nil exactly for a one-byte buffer (the writer's encoding of nil)")
			} else {
				c.FailX(Oblig{Rule: rule, Func: FuncName(unm), Construct: construct, Pos: c.P.InstrPos(r), Kind: "violation",
					Detail: "nil is returned for a buffer that is not known to be exactly one byte long: the writer encodes nil as one byte and every number in two or more"})
			}
			continue
		}
		if Proves(facts, lenBuf.addK(-2)) {
			c.OK(rule, FuncName(unm), construct, c.P.InstrPos(r), "a number only for buffers of two or more bytes")
		} else {
			c.FailX(Oblig{Rule: rule, Func: FuncName(unm), Construct: construct, Pos: c.P.InstrPos(r), Kind: "violation",
				Detail:   "a number is returned for a buffer that may be one byte long: one byte is what the writer emits for nil, so decode(encode(nil)) is a number (0), the decoded entry is not equal to the encoded one and re-encoding it changes the stored bytes",
				Expected: "len(buf) == 1 decodes to nil"})
		}
	}
	// success returns carrying a decoded magnitude must come through sign byte 0 or 1
	for _, r := range returnsOf(unm) {
		if !isSuccessReturn(r) {
			continue
		}
		rv := retval(r, 0)
		if isNilConst(rv) {
			continue
		}
		// every decoded amount is its own object: the callers add to / subtract from what the decoder hands them
		fresh, what := freshBigInt(ue, rv, 0)
		fconstruct := fmt.Sprintf("reader: value returned @b%d is a fresh big.Int", r.Block().Index)
		switch fresh {
		case 1:
			c.OK(rule, FuncName(unm), fconstruct, c.P.InstrPos(r), what)
		case 0:
			c.FailX(Oblig{Rule: rule, Func: FuncName(unm), Construct: fconstruct, Pos: c.P.InstrPos(r), Kind: "violation",
				Detail:   "the decoder hands out " + what + ": every amount decoded this way is one shared object, so an in-place Add / Sub on one decoded balance changes all of them (decode(encode(x)) no longer yields a value equal to x once any of them is updated)",
				Expected: "a newly allocated big.Int per decoded value"})
			continue
		default:
			c.Fail(rule, "undecided", FuncName(unm), fconstruct, c.P.InstrPos(r), "cannot tell where the returned object comes from: "+what)
			continue
		}
		if call, ok := rv.(*ssa.Call); ok && CalleeName(call) == "math/big.NewInt" {
			continue // the explicit zero case
		}
		construct := fmt.Sprintf("reader: value returned @b%d only for sign bytes 0 and 1", r.Block().Index)
		if _, ok := ue.CutAt(r, orPred(isEq(0), isEq(1)), nil); ok {
			c.OK(rule, FuncName(unm), construct, c.P.InstrPos(r), "other sign bytes are rejected")
		} else {
			c.Fail(rule, "violation", FuncName(unm), construct, c.P.InstrPos(r), "a sign byte other than 0/1 is accepted: the encoding is not canonical")
		}
	}
}

// freshBigInt: 1 when the *big.Int is allocated by the function that returns it (NewInt, new(big.Int), or a big.Int method
// applied to such an object, which returns its receiver), 0 when it is package-level state, -1 otherwise.
func freshBigInt(e *Env, v ssa.Value, depth int) (int, string) {
	if depth > 8 {
		return -1, "too deep"
	}
	switch x := v.(type) {
	case *ssa.Alloc:
		return 1, "new(big.Int)"
	case *ssa.Call:
		if CalleeName(x) == "math/big.NewInt" {
			return 1, "big.NewInt"
		}
		if bigMethod(x) != "" && len(x.Call.Args) > 0 {
			return freshBigInt(e, x.Call.Args[0], depth+1)
		}
		if sc := x.Call.StaticCallee(); sc != nil && len(sc.Blocks) > 0 && sc.Pkg != nil && strings.HasPrefix(sc.Pkg.Pkg.Path(), modPath) && e.depth < maxDepth {
			sub := e.Sub(x, sc)
			res, what := 1, ""
			for _, r := range returnsOf(sc) {
				if len(r.Results) == 0 || isNilConst(r.Results[0]) {
					continue
				}
				rr, w := freshBigInt(sub, retval(r, 0), depth+1)
				if rr < res {
					res = rr
				}
				if rr != 1 || what == "" {
					what = w
				}
			}
			return res, what
		}
	case *ssa.Extract:
		if call, ok := x.Tuple.(*ssa.Call); ok && x.Index == 0 {
			return freshBigInt(e, call, depth+1)
		}
	case *ssa.Phi:
		res, what := 1, ""
		for _, ed := range x.Edges {
			if isNilConst(ed) {
				continue
			}
			rr, w := freshBigInt(e, ed, depth+1)
			if rr < res {
				res = rr
			}
			if rr != 1 || what == "" {
				what = w
			}
		}
		return res, what
	case *ssa.Parameter:
		if a, pe := e.actual(x); a != nil {
			return freshBigInt(pe, a, depth+1)
		}
	case *ssa.UnOp:
		if x.Op == token.MUL {
			if f := forwarded(x); f != nil {
				return freshBigInt(e, f, depth+1)
			}
			if g, ok := x.X.(*ssa.Global); ok {
				return 0, "the package-level object " + g.Name()
			}
			if _, ok := x.X.(*ssa.FieldAddr); ok {
				return 0, "an object kept in " + e.Term(x.X)
			}
		}
	}
	return -1, e.Term(v)
}

// shiftAccumulateRule: a loop that folds the bytes of a slice into a fixed-width unsigned accumulator (acc = acc<<k | x, acc*2^k + x) loses the
// leading bytes unless len(slice)*k <= width holds at the loop; the bound must be entailed by the guards.
func shiftAccumulateRule(c *Ctx, rule string, scope func(*Prog, *ssa.Function) bool) {
	for _, fn := range c.P.Funcs {
		if !scope(c.P, fn) {
			continue
		}
		e := c.P.Env(fn)
		for _, b := range fn.Blocks {
			for _, in := range b.Instrs {
				shl, ok := in.(*ssa.BinOp)
				if !ok || shl.Op != token.SHL {
					continue
				}
				acc, ok := shl.X.(*ssa.Phi)
				if !ok || !isUnsignedT(acc.Type()) {
					continue
				}
				k, ok := constInt(shl.Y)
				if !ok || k <= 0 {
					continue
				}
				// the accumulator is fed back: some edge of the φ depends on the shift
				back := false
				for _, ed := range acc.Edges {
					if usesValue(ed, shl, 0) {
						back = true
					}
				}
				if !back {
					continue
				}
				// the slice whose elements are folded in: an IndexAddr in the loop whose loaded value reaches the fed-back expression
				var src ssa.Value
				for _, bb := range fn.Blocks {
					for _, i2 := range bb.Instrs {
						if ia, ok := i2.(*ssa.IndexAddr); ok {
							for _, ed := range acc.Edges {
								if usesValueThroughLoad(ed, ia, 0) {
									src = ia.X
								}
							}
						}
					}
				}
				if src == nil {
					continue
				}
				width := int64(64)
				if bt, ok := acc.Type().Underlying().(*types.Basic); ok {
					switch bt.Kind() {
					case types.Uint32:
						width = 32
					case types.Uint16:
						width = 16
					case types.Uint8:
						width = 8
					}
				}
				maxLen := width / k
				goal := leConst(maxLen).minus(e.lenOf(src))
				construct := fmt.Sprintf("fold of %s into a %d-bit accumulator by << %d", e.Term(src), width, k)
				r := c.P.ProveLin(fn, shl, func(e *Env) []LE { return []LE{leConst(maxLen).minus(e.lenOf(src))} }, nil)
				_ = goal
				// the folded word reinterpreted as a signed number of the same width: one bit less
				signedMax := (width - 1) / k
				signedConv := func(cv *ssa.Convert) bool {
					bt, ok := cv.Type().Underlying().(*types.Basic)
					if !ok || bt.Info()&types.IsInteger == 0 || bt.Info()&types.IsUnsigned != 0 {
						return false
					}
					sz := map[types.BasicKind]int64{types.Int8: 8, types.Int16: 16, types.Int32: 32, types.Int64: 64, types.Int: 64}[bt.Kind()]
					return sz != 0 && sz <= width
				}
				checkSigned := func(cfn *ssa.Function, cv *ssa.Convert, lenArg func(e *Env) LE, what string) {
					construct2 := fmt.Sprintf("%s reinterpreted as signed %s", what, cv.Type().String())
					r2 := c.P.ProveLin(cfn, cv, func(e *Env) []LE { return []LE{leConst(signedMax).minus(lenArg(e))} }, nil)
					if r2.OK {
						c.OK(rule, FuncName(cfn), construct2, c.P.InstrPos(cv), "len <= "+fmt.Sprint(signedMax)+": "+r2.By)
					} else {
						c.FailX(Oblig{Rule: rule, Func: FuncName(cfn), Construct: construct2, Pos: c.P.InstrPos(cv), Kind: "violation",
							Detail:   fmt.Sprintf("up to %d bytes are folded into a %d-bit word that is then converted to a signed integer: a magnitude with the top bit set changes sign and value (the decoded amount differs from the encoded one)", maxLen, width),
							Facts:    r2.Facts,
							Expected: fmt.Sprintf("a guard entailing len <= %d before the conversion, or no signed reinterpretation", signedMax)})
					}
				}
				for _, bb := range fn.Blocks {
					for _, i2 := range bb.Instrs {
						if cv, ok := i2.(*ssa.Convert); ok && signedConv(cv) && (cv.X == ssa.Value(acc) || usesValue(cv.X, acc, 0)) {
							checkSigned(fn, cv, func(e *Env) LE { return e.lenOf(src) }, "fold of "+e.Term(src))
						}
					}
				}
				// the fold lives in a helper that returns the word: conversions at its call sites
				retAcc := len(returnsOf(fn)) > 0
				for _, rr := range returnsOf(fn) {
					if len(rr.Results) != 1 || !(retval(rr, 0) == ssa.Value(acc) || usesValue(retval(rr, 0), acc, 0)) {
						retAcc = false
					}
				}
				if srcPar, isPar := src.(*ssa.Parameter); retAcc && isPar {
					pidx := -1
					for pi, q := range fn.Params {
						if q == srcPar {
							pidx = pi
						}
					}
					for _, cs := range c.P.Callers[fn] {
						call, ok := cs.(*ssa.Call)
						if !ok || call.Referrers() == nil || pidx < 0 || pidx >= len(call.Call.Args) {
							continue
						}
						arg := call.Call.Args[pidx]
						for _, u := range *call.Referrers() {
							if cv, ok := u.(*ssa.Convert); ok && signedConv(cv) {
								checkSigned(call.Parent(), cv, func(e *Env) LE { return e.lenOf(arg) }, "word returned by "+fn.Name())
							}
						}
					}
				}
				if r.OK {
					c.OK(rule, FuncName(fn), construct, c.P.InstrPos(shl), "len <= "+fmt.Sprint(maxLen)+": "+r.By)
				} else {
					c.FailX(Oblig{Rule: rule, Func: FuncName(fn), Construct: construct, Pos: c.P.InstrPos(shl), Kind: "violation",
						Detail:   fmt.Sprintf("up to more than %d elements are shifted into a %d-bit word: the leading bytes are lost (the decoded value differs from the encoded one)", maxLen, width),
						Facts:    r.Facts,
						Expected: fmt.Sprintf("a guard entailing len(%s) <= %d on every path to the loop", e.Term(src), maxLen)})
				}
			}
		}
	}
}

func usesValue(v ssa.Value, target ssa.Value, d int) bool {
	if v == target {
		return true
	}
	if d > 6 {
		return false
	}
	switch x := v.(type) {
	case *ssa.BinOp:
		return usesValue(x.X, target, d+1) || usesValue(x.Y, target, d+1)
	case *ssa.Convert:
		return usesValue(x.X, target, d+1)
	}
	return false
}

func usesValueThroughLoad(v ssa.Value, ia *ssa.IndexAddr, d int) bool {
	if d > 6 {
		return false
	}
	switch x := v.(type) {
	case *ssa.UnOp:
		return x.X == ssa.Value(ia)
	case *ssa.BinOp:
		return usesValueThroughLoad(x.X, ia, d+1) || usesValueThroughLoad(x.Y, ia, d+1)
	case *ssa.Convert:
		return usesValueThroughLoad(x.X, ia, d+1)
	}
	return false
}

// c14r4: in the decoders of package data/esdt (generated and hand-written), a cursor advanced by a decoded length — a sum one
// operand of which comes from a varint fold or from the skip function — is tested for overflow (`sum < 0`) before it is
// compared with the buffer length, used as a slice bound or an allocation size, or stored back into the cursor. The machine
// sum of two non-negative ints can be negative; only the explicit test excludes that (the linear engine reasons over ideal
// integers and would not notice its absence).
func c14r4(c *Ctx) {
	const rule = "C14-R4"
	c.Rule(rule, "decoder: cursor + decoded length is checked for overflow before any other use", 10)
	for _, fn := range c.P.Funcs {
		if !c.P.InPkgs(fn, "data/esdt") && !c.P.InPkgs(fn, "data") {
			continue
		}
		e := c.P.Env(fn)
		// decoded quantities: φ accumulators fed by `acc | (x << s)`, and the int result of a package function with an error
		decoded := map[ssa.Value]bool{}
		for _, b := range fn.Blocks {
			for _, in := range b.Instrs {
				switch x := in.(type) {
				case *ssa.Phi:
					if !isInteger(x.Type()) {
						continue
					}
					for _, ed := range x.Edges {
						if bo, ok := ed.(*ssa.BinOp); ok && bo.Op == token.OR && bo.X == ssa.Value(x) {
							if sh, ok := bo.Y.(*ssa.BinOp); ok && sh.Op == token.SHL {
								decoded[x] = true
							}
						}
					}
				case *ssa.Extract:
					if call, ok := x.Tuple.(*ssa.Call); ok && x.Index == 0 && isInteger(x.Type()) {
						if sc := call.Call.StaticCallee(); sc != nil && sc.Pkg == fn.Pkg && lastIsError(sc) {
							decoded[x] = true
						}
					}
				}
			}
		}
		if len(decoded) == 0 {
			continue
		}
		var derives func(v ssa.Value, d int) bool
		derives = func(v ssa.Value, d int) bool {
			if decoded[v] {
				return true
			}
			if d > 4 {
				return false
			}
			switch x := v.(type) {
			case *ssa.Convert:
				return derives(x.X, d+1)
			case *ssa.BinOp:
				if x.Op == token.OR || x.Op == token.AND || x.Op == token.SHL {
					return derives(x.X, d+1) || derives(x.Y, d+1)
				}
			case *ssa.Phi:
				for _, ed := range x.Edges {
					if ed != ssa.Value(x) && derives(ed, d+1) && !decoded[x] {
						return true
					}
				}
			}
			return false
		}
		seen := map[string]int{}
		for _, b := range fn.Blocks {
			for _, in := range b.Instrs {
				sum, ok := in.(*ssa.BinOp)
				if !ok || sum.Op != token.ADD || !isInteger(sum.Type()) || isUnsignedT(sum.Type()) {
					continue
				}
				if !(derives(sum.X, 0) || derives(sum.Y, 0)) || sum.Referrers() == nil {
					continue
				}
				exact := e.LE(sum).String()
				pred := func(f Fact) bool { return f.Lin && f.LE.String() == exact }
				var uses []ssa.Instruction
				for _, u := range *sum.Referrers() {
					switch x := u.(type) {
					case *ssa.DebugRef:
					case *ssa.BinOp:
						// the overflow test itself
						if k, isK := constInt(x.Y); isK && k == 0 && x.X == ssa.Value(sum) && (x.Op == token.LSS || x.Op == token.GEQ) {
							continue
						}
						uses = append(uses, u)
					case *ssa.Phi:
						for k2, ed := range x.Edges {
							if ed == ssa.Value(sum) {
								pb := x.Block().Preds[k2]
								uses = append(uses, pb.Instrs[len(pb.Instrs)-1])
							}
						}
					default:
						uses = append(uses, u)
					}
				}
				if len(uses) == 0 {
					continue
				}
				construct := "sum " + exact
				seen[construct]++
				if k := seen[construct]; k > 1 {
					construct += fmt.Sprintf(" #%d", k)
				}
				bad := ""
				for _, u := range uses {
					if _, ok := e.CutAt(u, pred, nil); ok {
						continue
					}
					// merged into a variable that is itself tested before it is used (`switch { case: i += n }; if i < 0 {…}`)
					okVia := false
					if jmp, isJump := u.(*ssa.Jump); isJump && len(jmp.Block().Succs) == 1 {
						for _, pi := range jmp.Block().Succs[0].Instrs {
							ph, isPhi := pi.(*ssa.Phi)
							if !isPhi {
								break
							}
							carries := false
							for k2, ed := range ph.Edges {
								if ed == ssa.Value(sum) && ph.Block().Preds[k2] == jmp.Block() {
									carries = true
								}
							}
							if !carries || ph.Referrers() == nil {
								continue
							}
							pexact := e.LE(ph).String()
							ppred := func(f Fact) bool { return f.Lin && f.LE.String() == pexact }
							all := true
							for _, pu := range *ph.Referrers() {
								if _, isDbg := pu.(*ssa.DebugRef); isDbg {
									continue
								}
								if bo, isBO := pu.(*ssa.BinOp); isBO {
									if k, isK := constInt(bo.Y); isK && k == 0 && bo.X == ssa.Value(ph) && (bo.Op == token.LSS || bo.Op == token.GEQ) {
										continue
									}
								}
								var at ssa.Instruction = pu
								if ph2, isPhi2 := pu.(*ssa.Phi); isPhi2 {
									// flows on into another merge: judged at the jump that carries it
									for k3, ed := range ph2.Edges {
										if ed == ssa.Value(ph) {
											pb := ph2.Block().Preds[k3]
											at = pb.Instrs[len(pb.Instrs)-1]
										}
									}
								}
								if _, ok := e.CutAt(at, ppred, nil); !ok {
									all = false
								}
							}
							if all {
								okVia = true
							}
						}
					}
					if !okVia {
						bad = "used at " + c.P.InstrPos(u) + " without the overflow test `" + exact + " < 0` on the way"
					}
				}
				if bad == "" {
					c.OK(rule, FuncName(fn), construct, c.P.InstrPos(sum), fmt.Sprintf("the test of the sum against 0 cuts all %d uses", len(uses)))
				} else {
					c.FailX(Oblig{Rule: rule, Func: FuncName(fn), Construct: construct, Pos: c.P.InstrPos(sum), Kind: "violation",
						Detail:   "a cursor advanced by a decoded length is " + bad + ": a length near MaxInt64 wraps the sum negative, passes the `> len` test and panics in the slice expression / allocation (decode must return an error, never panic)",
						Expected: "if sum < 0 { return ErrInvalidLength } before the comparison with the buffer length"})
				}
			}
		}
	}
}

func c14r3(c *Ctx) {
	shiftAccumulateRule(c, "C14-R3", func(p *Prog, fn *ssa.Function) bool { return p.InPkgs(fn, "data") && !p.Generated(fn) })
	indexRule(c, "C14-R3", "index / slice sites of the hand-written amount caster are in range", func(p *Prog, fn *ssa.Function) bool {
		return p.InPkgs(fn, "data") && !p.Generated(fn)
	}, 4)
}

// foldSizeExpr folds an integer expression in which every call of Len64 stands for L (Go int arithmetic on non-negative values).
func foldSizeExpr(e ast.Expr, L int64) (int64, bool) {
	switch x := e.(type) {
	case *ast.ParenExpr:
		return foldSizeExpr(x.X, L)
	case *ast.BasicLit:
		if x.Kind == token.INT {
			v, err := strconv.ParseInt(x.Value, 0, 64)
			return v, err == nil
		}
	case *ast.CallExpr:
		if sel, ok := x.Fun.(*ast.SelectorExpr); ok && sel.Sel.Name == "Len64" && len(x.Args) == 1 {
			// the argument must be x|1 (so that 0 counts as one bit)
			if be, ok := x.Args[0].(*ast.BinaryExpr); ok && be.Op == token.OR {
				if lit, ok := be.Y.(*ast.BasicLit); ok && lit.Value == "1" {
					return L, true
				}
			}
			return 0, false
		}
		if id, ok := x.Fun.(*ast.Ident); ok && (id.Name == "int" || id.Name == "uint" || id.Name == "uint64" || id.Name == "int64") && len(x.Args) == 1 {
			return foldSizeExpr(x.Args[0], L)
		}
	case *ast.BinaryExpr:
		a, ok1 := foldSizeExpr(x.X, L)
		b, ok2 := foldSizeExpr(x.Y, L)
		if !ok1 || !ok2 {
			return 0, false
		}
		switch x.Op {
		case token.ADD:
			return a + b, true
		case token.SUB:
			return a - b, true
		case token.MUL:
			return a * b, true
		case token.QUO:
			if b == 0 {
				return 0, false
			}
			return a / b, true
		case token.SHR:
			if b < 0 || b > 62 {
				return 0, false
			}
			return a >> uint(b), true
		case token.SHL:
			if b < 0 || b > 30 {
				return 0, false
			}
			return a << uint(b), true
		}
	}
	return 0, false
}

func isByteSliceT(t types.Type) bool {
	sl, ok := t.Underlying().(*types.Slice)
	if !ok {
		return false
	}
	b, ok := sl.Elem().Underlying().(*types.Basic)
	return ok && b.Kind() == types.Uint8
}
