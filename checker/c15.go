package main

// C15 — the token state is well-formed after every history (writer-side conditions).

import (
	"fmt"
	"strings"

	"golang.org/x/tools/go/ssa"
)

func init() {
	register(&Property{
		ID:    "C15",
		Level: "other",
		Explanation: "A representation invariant over histories cannot be decided statically; decided are the writer-side conditions it rests on. R1: key layout (= C05-R3: every protocol write uses prefix‖token[‖nonce] with one of the three constant prefixes). " +
			"R2: writer/reader type agreement per key class — balance keys carry Marshal(*ESDigitalToken) (or the pause flag bytes on the system account) and are read into *ESDigitalToken; role keys carry Marshal(*ESDTRoles) and are read into *ESDTRoles; " +
			"nonce keys carry SetUint64(n).Bytes() and are read with SetBytes. R3: zero is deleted, not stored — a marshalled balance write is cut by Value > 0 (NFT saver) resp. not(Value == 0 and properties empty) (fungible saver); with C02-R1 the stored value is " +
			"positive. R4: entries obtained from the nonce-parametrised reader are written back under a key recomputed from the entry's own metadata nonce: the reader must relate that nonce to the requested one (KNOWN FINDING on this tree, see known_findings.json). " +
			"R5: the hand-over appends the create role only after a search of the same list for the same constant found nothing. R3 accepts the non-empty-flag exception only under the token-level key. R6–R10 are shared obligations re-derived under this property: counter with the role (C07-R2/R3), SaveKeyValue off the protocol key space (C03-R6), no skipped element at a role removal (C03-R7), modified loaded accounts are saved, the shipped / credited entry is the holder's entry as a whole (C08-R2). R11/R12: the counter entry is written only below ESDTNFTCreate (stored counter + 1, read from the account: C07-R1) and the hand-over (C07-R5). Does NOT decide: the invariant on reachable states as such.",
		Trusted: []string{"C02-R1, C08-R1 (metadata attached only by create)", "A-deps"},
		Rules:   []func(*Ctx){c15r1, c15r2, c15r3, c15r4, c15r5, c15r6, c15r7, c15r8, c15r9, c15r10, c15r11, c15r12},
	})
}

func c15r1(c *Ctx) {
	// same rule as C05-R3, reported under this property
	c.Rule("C15-R1", "protocol storage keys have the layout prefix‖token[‖nonce] with a constant protocol prefix", 40)
	save := c.Property
	sub := NewCtx(c.P, save, c.Tier)
	c05r3(sub)
	for _, o := range sub.obs {
		if o.Rule == "C05-R3" {
			o.Rule = "C15-R1"
			c.add(o)
		}
	}
}

func classOfPrefix(p *Prog, prefix string) string {
	p1, _ := p.ConstString("", "ElrondProtectedKeyPrefix")
	esdtID, _ := p.ConstString("", "ESDTKeyIdentifier")
	roleID, _ := p.ConstString("", "ESDTRoleIdentifier")
	nonceID, _ := p.ConstString("", "ESDTNFTLatestNonceIdentifier")
	switch prefix {
	case p1 + esdtID:
		return "balance"
	case p1 + roleID + esdtID:
		return "role"
	case p1 + nonceID:
		return "nonce"
	}
	return ""
}

func c15r2(c *Ctx) {
	const rule = "C15-R2"
	c.Rule(rule, "every key class is written and read with its own value type", 60)
	isRW := func(in ssa.Instruction) (string, bool) {
		if ci, ok := in.(ssa.CallInstruction); ok {
			switch InvokeName(ci) {
			case "AccountDataHandler.SaveKeyValue":
				return "write", true
			case "AccountDataHandler.RetrieveValue":
				return "read", true
			}
		}
		return "", false
	}
	for _, r := range c.P.Registrations() {
		if r.Entry == nil || r.Key == "SaveKeyValue" {
			continue
		}
		seen := map[string]int{}
		for _, s := range c.P.EffectSites(r.Entry, "noncerw", isRW) {
			call := s.In.(ssa.CallInstruction)
			ks := keyShape(s.Env, call.Common().Args[0], 0)
			if ks == nil {
				continue // C15-R1 / C05-R3 report unrecognised keys
			}
			class := classOfPrefix(c.P, ks.Prefix)
			if class == "" {
				continue
			}
			org := accountOrigin(s.Env, writtenAccount(call), 0)
			onSystem := len(org) == 1 && org[0] == "load(*G:.SystemAccountAddress)"
			construct := fmt.Sprintf("%s: %s of %s key in %s", r.Key, s.Name, class, s.Chain())
			seen[construct]++
			if k := seen[construct]; k > 1 {
				construct += fmt.Sprintf(" #%d", k)
			}
			pos := c.P.InstrPos(s.In)
			fnn := FuncName(s.In.Parent())
			if s.Name == "write" {
				v := call.Common().Args[1]
				got := "?"
				switch {
				case isNilConst(v):
					got = "delete"
				case marshalledObject(v) != nil:
					t := marshalledObject(v).Type().String()
					got = "Marshal(" + t[strings.LastIndex(t, ".")+1:] + ")"
				default:
					vt := s.Env.Term(v)
					switch {
					case strings.HasPrefix(vt, "Bytes(bigU("):
						got = "SetUint64(n).Bytes()"
					default:
						// a module function that allocates bytes and sets flag bits in them (the metadata encoders)
						if cv, ok := v.(*ssa.Call); ok && writesFlagBytes(c.P, cv.Call.StaticCallee(), 0) {
							got = "flag bytes"
						} else {
							got = vt
						}
					}
				}
				want := map[string][]string{"balance": {"Marshal(ESDigitalToken)", "delete"}, "role": {"Marshal(ESDTRoles)", "delete"}, "nonce": {"SetUint64(n).Bytes()"}}[class]
				if onSystem && class == "balance" {
					want = []string{"flag bytes"}
				}
				good := false
				for _, w := range want {
					if got == w {
						good = true
					}
				}
				if good {
					c.OK(rule, fnn, construct, pos, got)
				} else {
					c.FailX(Oblig{Rule: rule, Func: fnn, Construct: construct, Pos: pos, Kind: "violation",
						Detail: "a " + class + " key is written with " + got + "; readers of that class expect " + strings.Join(want, " / ") + ": the entry will not decode"})
				}
				continue
			}
			// reads: where do the bytes go?
			var res ssa.Value
			if v, ok := call.(ssa.Value); ok {
				for _, ref := range *v.Referrers() {
					if ex, ok := ref.(*ssa.Extract); ok && ex.Index == 0 {
						res = ex
					}
				}
			}
			got := "unused"
			if res != nil {
				got = readSink(s.Env, res, 0)
			}
			want := map[string]string{"balance": "Unmarshal(ESDigitalToken)", "role": "Unmarshal(ESDTRoles)", "nonce": "SetBytes"}[class]
			if onSystem && class == "balance" {
				want = "flag bytes"
			}
			if got == want || got == "unused" || (class == "balance" && !onSystem && got == "compare") {
				c.OK(rule, fnn, construct, pos, got)
			} else {
				c.FailX(Oblig{Rule: rule, Func: fnn, Construct: construct, Pos: pos, Kind: "violation",
					Detail: "a " + class + " key is read as " + got + " but written as " + want})
			}
		}
	}
}

// readSink: what the bytes returned by a storage read are decoded with.
func readSink(e *Env, v ssa.Value, depth int) string {
	if depth > 4 {
		return "?"
	}
	out := "?"
	for _, ref := range *v.Referrers() {
		switch u := ref.(type) {
		case ssa.CallInstruction:
			cc := u.Common()
			if cc.IsInvoke() && cc.Method.Name() == "Unmarshal" && len(cc.Args) == 2 && cc.Args[1] == v {
				t := cc.Args[0].Type().String()
				if mi, ok := cc.Args[0].(*ssa.MakeInterface); ok {
					t = mi.X.Type().String()
				}
				return "Unmarshal(" + t[strings.LastIndex(t, ".")+1:] + ")"
			}
			if bigMethod(u) == "SetBytes" {
				return "SetBytes"
			}
			if sc := cc.StaticCallee(); sc != nil {
				for i, a := range cc.Args {
					if a == v && readsFlagBits(e.P, sc, i, 0) {
						return "flag bytes" // handed to a module function that tests bits of it (the metadata decoders)
					}
				}
			}
			if CalleeName(u) == "bytes.Equal" {
				out = "compare"
			}
		case *ssa.Phi:
			if s := readSink(e, u, depth+1); s != "?" {
				return s
			}
		case *ssa.Return:
			// returned to the caller of this calling context: what the caller does with that result
			if e.Parent == nil || e.Call == nil {
				continue
			}
			cv, isVal := e.Call.(ssa.Value)
			if !isVal || cv.Referrers() == nil {
				continue
			}
			for i, res := range u.Results {
				if res != v {
					continue
				}
				if len(u.Results) == 1 {
					if s := readSink(e.Parent, cv, depth+1); s != "?" {
						return s
					}
					continue
				}
				for _, cr := range *cv.Referrers() {
					if ex, ok := cr.(*ssa.Extract); ok && ex.Index == i {
						if s := readSink(e.Parent, ex, depth+1); s != "?" {
							return s
						}
					}
				}
			}
		}
	}
	return out
}

func c15r3(c *Ctx) {
	const rule = "C15-R3"
	c.Rule(rule, "a marshalled balance write is cut by a positive value (or a non-empty flag for fungible entries): zero balances are deleted", 20)
	bal := balancePrefix(c.P)
	zero := "*G:builtInFunctions.zero"
	for _, r := range c.P.Registrations() {
		if r.Entry == nil {
			continue
		}
		seen := map[string]int{}
		for _, s := range c.P.EffectSites(r.Entry, "save", isBalanceSave(c.P)) {
			call := s.In.(ssa.CallInstruction)
			ks := keyShape(s.Env, call.Common().Args[0], 0)
			v := call.Common().Args[1]
			if ks == nil || ks.Prefix != bal || isNilConst(v) {
				continue
			}
			obj := marshalledObject(v)
			if obj == nil || !strings.HasSuffix(obj.Type().String(), "esdt.ESDigitalToken") {
				continue
			}
			ot := s.Env.Term(obj)
			construct := r.Key + ": stored entry " + ot + " in " + s.Chain()
			seen[construct]++
			if k := seen[construct]; k > 1 {
				construct += fmt.Sprintf(" #%d", k)
			}
			valPrefix := "cmp(*" + ot + ".Value"
			pred := func(f Fact) bool {
				if f.Lin {
					// cmp(Value, zero) - 1 >= 0   (Value > 0)
					if len(f.LE.c) == 1 && f.LE.k == -1 {
						for a, k := range f.LE.c {
							if k == 1 && strings.HasPrefix(a, valPrefix) && strings.HasSuffix(a, ","+zero+")") {
								return true
							}
						}
					}
					return false
				}
				// fungible saver: not(Value == 0) or not(properties empty)
				if !f.Pos && strings.HasPrefix(f.Atom, "zero("+valPrefix) && strings.Contains(f.Atom, ","+zero+")") {
					return true
				}
				// … the flag exception belongs to the token-level (fungible) key only: under a key with a nonce part an entry
				// without balance is deleted whatever its flags are
				if !f.Pos && strings.HasPrefix(f.Atom, "call:") && strings.Contains(f.Atom, "(*"+ot+".Properties)") && len(ks.Parts) == 1 {
					return true
				}
				return false
			}
			// a saver with one write at its end (value = nil or Marshal(entry)): the entry is marshalled only under the condition
			at := s
			if _, mc, mayNil := writeValue(v, 0); mayNil && mc != nil && mc.Parent() == s.In.Parent() {
				at = EffectSite{Env: s.Env, In: mc, Name: s.Name}
			}
			if fs, where, ok := at.CutInContext(pred, nil); ok {
				c.OK(rule, FuncName(s.In.Parent()), construct, c.P.InstrPos(s.In), "cut in "+where+" by "+fs[0].String())
			} else {
				c.FailX(Oblig{Rule: rule, Func: FuncName(s.In.Parent()), Construct: construct, Pos: c.P.InstrPos(s.In), Kind: "violation",
					Detail: "an entry can be stored with a zero (or negative) balance instead of being deleted" + map[bool]string{true: " (non-empty properties keep an entry only under the token-level key of a fungible holding, not under a key with a nonce)", false: ""}[len(ks.Parts) > 1], Path: at.witnessPath(pred),
					Expected: "if Value <= 0 { delete } (NFT) / if Value == 0 && properties empty { delete } (fungible) before the marshalled write"})
			}
		}
	}
}

// c15r4 / C01-R2: the nonce-parametrised reader relates the stored metadata nonce to the requested nonce.
func nonceReaderRule(c *Ctx, rule string) {
	c.Rule(rule, "an entry read for (token, nonce) is written back under the key of its own metadata nonce: the reader must relate the two", 1)
	// the reader: a module function with a uint64 nonce parameter returning (*ESDigitalToken, error) whose result is handed by callers to a saver
	// that recomputes the key from entry.TokenMetaData.Nonce
	var readers []*ssa.Function
	for _, fn := range c.P.Funcs {
		if !c.P.InPkgs(fn, "builtInFunctions") {
			continue
		}
		res := fn.Signature.Results()
		if res.Len() != 2 || !strings.HasSuffix(res.At(0).Type().String(), "esdt.ESDigitalToken") || !isErrorType(res.At(1).Type()) {
			continue
		}
		hasNonce := false
		for _, p := range fn.Params {
			if p.Type().String() == "uint64" {
				hasNonce = true
			}
		}
		if hasNonce && !reachesInvoke(c.P, fn, "AccountDataHandler.SaveKeyValue", 0) && reachesInvoke(c.P, fn, "AccountDataHandler.RetrieveValue", 0) && resultHandedToSaver(c.P, fn) {
			readers = append(readers, fn)
		}
	}
	if len(readers) == 0 {
		c.Anchor(rule, "the nonce-parametrised sender-side reader")
		return
	}
	// a wrapper that hands on what another reader returned (after checks of its own) is judged where the entry is read:
	// reporting it again would count one reader twice
	isReader := map[*ssa.Function]bool{}
	for _, fn := range readers {
		isReader[fn] = true
	}
	var own []*ssa.Function
	for _, fn := range readers {
		passThrough, n := true, 0
		for _, r := range returnsOf(fn) {
			if !isSuccessReturn(r) {
				continue
			}
			n++
			ex, ok := retval(r, 0).(*ssa.Extract)
			if !ok {
				passThrough = false
				continue
			}
			call, ok := ex.Tuple.(*ssa.Call)
			if !ok || ex.Index != 0 || call.Call.StaticCallee() == nil || !isReader[call.Call.StaticCallee()] || call.Call.StaticCallee() == fn {
				passThrough = false
			}
		}
		if passThrough && n > 0 {
			c.Triv(rule, FuncName(fn), "post:Result0.TokenMetaData.Nonce==nonce", c.P.Pos(fn.Pos()), "hands on the entry another reader returned: judged there")
			continue
		}
		own = append(own, fn)
	}
	readers = own
	for _, fn := range readers {
		e := c.P.Env(fn)
		var nonce string
		for _, p := range fn.Params {
			if p.Type().String() == "uint64" {
				nonce = "P:" + paramName(p)
			}
		}
		okAll, n := true, 0
		for _, r := range returnsOf(fn) {
			if !isSuccessReturn(r) {
				continue
			}
			n++
			rt := e.Term(retval(r, 0))
			mdNonce := "**" + rt + ".TokenMetaData.Nonce"
			eq1 := leAtom(mdNonce).minus(leAtom(nonce)).String()
			eq2 := leAtom(nonce).minus(leAtom(mdNonce)).String()
			_, a := e.CutAt(r, func(f Fact) bool { return f.Lin && f.LE.String() == eq1 }, nil)
			_, b := e.CutAt(r, func(f Fact) bool { return f.Lin && f.LE.String() == eq2 }, nil)
			if !(a && b) {
				okAll = false
			}
		}
		construct := "post:Result0.TokenMetaData.Nonce==nonce"
		if okAll && n > 0 {
			c.OK(rule, FuncName(fn), construct, c.P.Pos(fn.Pos()), "every success return is cut by metadata nonce == requested nonce")
		} else {
			c.FailX(Oblig{Rule: rule, Func: FuncName(fn), Construct: construct, Pos: c.P.Pos(fn.Pos()), Kind: "violation",
				Detail: "the entry returned for (token, nonce) may carry another metadata nonce (token-id‖nonce key aliasing); callers write it back under the key recomputed from that nonce, so the read key and the write key differ: " +
					"an NFT entry is rewritten under a key that does not match its metadata, and balances move between entries",
				Expected: "if esdtData.TokenMetaData.Nonce != nonce { return error } in the reader"})
		}
	}
}

// resultHandedToSaver: some caller hands the entry the function returns to a function that writes storage (the saver recomputes
// the key from the entry's own metadata nonce). A helper whose entry is only looked at — the destination's current holding — is
// not a reader in the sense of the rule.
func resultHandedToSaver(p *Prog, fn *ssa.Function) bool {
	var flows func(v ssa.Value, depth int) bool
	flows = func(v ssa.Value, depth int) bool {
		if depth > 3 || v.Referrers() == nil {
			return false
		}
		for _, ref := range *v.Referrers() {
			switch x := ref.(type) {
			case *ssa.Call:
				sc := x.Call.StaticCallee()
				if sc == nil {
					continue
				}
				for _, a := range x.Call.Args {
					if a == v && reachesInvoke(p, sc, "AccountDataHandler.SaveKeyValue", 0) {
						return true
					}
				}
			case *ssa.Phi:
				if flows(x, depth+1) {
					return true
				}
			case *ssa.Return:
				// handed on by a wrapper: judged on the wrapper's callers
				if w := x.Parent(); w != fn && resultHandedToSaver(p, w) {
					return true
				}
			}
		}
		return false
	}
	for _, cs := range p.Callers[fn] {
		cv, ok := cs.(ssa.Value)
		if !ok || cv.Referrers() == nil {
			continue
		}
		for _, ref := range *cv.Referrers() {
			if ex, ok := ref.(*ssa.Extract); ok && ex.Index == 0 && flows(ex, 0) {
				return true
			}
		}
	}
	return false
}

func c15r4(c *Ctx) { nonceReaderRule(c, "C15-R4") }

func c15r5(c *Ctx) {
	const rule = "C15-R5"
	c.Rule(rule, "the hand-over adds the create role only if the search of the same list found none", 1)
	roleStr, _ := c.P.ConstString("", "ESDTRoleNFTCreate")
	q := fmt.Sprintf("%q", roleStr)
	found := 0
	for _, fn := range c.P.Funcs {
		if !c.P.InPkgs(fn, "builtInFunctions") {
			continue
		}
		e := c.P.Env(fn)
		for _, b := range fn.Blocks {
			for _, in := range b.Instrs {
				call, ok := in.(*ssa.Call)
				if !ok {
					continue
				}
				bi, ok := call.Call.Value.(*ssa.Builtin)
				if !ok || bi.Name() != "append" {
					continue
				}
				list := e.Term(call.Call.Args[0])
				if !strings.HasSuffix(list, ".Roles") || !strings.Contains(appendedElems(e, call.Call.Args[1]), q) {
					continue
				}
				found++
				// the edges on which an element of the same list equals the constant must not reach the append
				bad := ""
				n := 0
				for ed, fs := range e.EdgeFacts() {
					for _, f := range fs {
						if !f.Lin && f.Pos && strings.HasPrefix(f.Atom, "eq(") && strings.Contains(f.Atom, q) && strings.Contains(f.Atom, list+"[") {
							n++
							if reachableAvoiding(ed.to, b, nil) {
								bad = "the append is reachable after the role was found in the list (duplicate)"
							}
						}
					}
				}
				// … and the search looks at every element: the append is reached from the search loop only when the loop is
				// exhausted (through its header), never by a `break` out of the body after a look at some elements only
				if bad == "" && n > 0 {
					for ed, fs := range e.EdgeFacts() {
						isSearch := false
						for _, f := range fs {
							if !f.Lin && strings.HasPrefix(f.Atom, "eq(") && strings.Contains(f.Atom, q) && strings.Contains(f.Atom, list+"[") {
								isSearch = true
							}
						}
						if !isSearch {
							continue
						}
						// the loop header: the block that advances the iteration over the list (range), else the closest dominator of
						// the test that a back edge reaches
						var h *ssa.BasicBlock
						for _, hb := range fn.Blocks {
							for _, hi := range hb.Instrs {
								if nx, ok := hi.(*ssa.Next); ok {
									if rg, ok := nx.Iter.(*ssa.Range); ok && e.Term(rg.X) == list && hb.Dominates(ed.from) {
										h = hb
									}
								}
							}
						}
						for d := ed.from; d != nil && h == nil; d = d.Idom() {
							for _, pb := range d.Preds {
								if pb != d && d.Dominates(pb) {
									h = d
								}
								if _, isPhi := d.Instrs[0].(*ssa.Phi); isPhi && h == nil && len(d.Preds) > 1 {
									_ = pb
								}
							}
						}
						if h == nil {
							// the comparison is not inside a loop at all: one position of the list is looked at
							for _, f := range fs {
								if !f.Lin && !f.Pos && strings.HasPrefix(f.Atom, "eq(") && strings.Contains(f.Atom, q) && strings.Contains(f.Atom, list+"[") && (ed.to == b || blockReaches(ed.to, b, nil)) {
									bad = "the search looks at one position of the list only (" + f.Atom + ") and goes on to the append: a role that is held at another position is appended again (duplicate)"
								}
							}
							continue
						}
						// from the side on which the element examined is NOT the role, the append is reached only through the header
						// (the next element, or exhaustion) — not by leaving the search early
						for _, f := range fs {
							if !f.Lin && !f.Pos && strings.HasPrefix(f.Atom, "eq(") && strings.Contains(f.Atom, q) && strings.Contains(f.Atom, list+"[") {
								if ed.to != h && (ed.to == b || blockReaches(ed.to, b, h)) {
									bad = "after an element that is not the role the search goes on to the append without looking at the remaining elements (b" + fmt.Sprint(ed.from.Index) + "→b" + fmt.Sprint(ed.to.Index) + "): a role that is held, but not at the position examined, is appended again (duplicate)"
								}
							}
						}
					}
				}
				construct := "append(" + list + ", " + q + ")"
				switch {
				case n == 0:
					c.FailX(Oblig{Rule: rule, Func: FuncName(fn), Construct: construct, Pos: c.P.InstrPos(call), Kind: "violation",
						Detail: "the create role is appended without searching the list for it first: a repeated hand-over stores duplicates"})
				case bad != "":
					c.Fail(rule, "violation", FuncName(fn), construct, c.P.InstrPos(call), bad)
				default:
					c.OK(rule, FuncName(fn), construct, c.P.InstrPos(call), "every `element == role` edge leaves without reaching the append")
				}
			}
		}
	}
	if found == 0 {
		c.Anchor(rule, "the append of the create role to a role list")
	}
}

// c15r6 / c15r7: the counter held with the create role never falls below an issued nonce (hand-over rules of C07), and no
// user-chosen write can plant an undecodable or ill-formed protocol entry (SaveKeyValue's key-space guard, C03-R6).
func c15r6(c *Ctx) { handOverRules(c, "C15-R6", "C15-R6b") }
func c15r7(c *Ctx) {
	c.shareRule(c03r6, "C03-R6", "C15-R7", "SaveKeyValue cannot write under a protocol key", nil)
}

// c15r8: "role lists hold no duplicates": an unset must remove what it names — a removal at the own index of a forward loop
// skips the element that moves up, the role survives and the next set stores it twice (shared with C03-R7).
func c15r8(c *Ctx) {
	c.shareRule(c03r7, "C03-R7", "C15-R8", "a role removal does not skip list elements (no removal at a forward loop's own index)", nil)
}

// c15r9: what a function writes into an account it loaded itself becomes state only through SaveAccount: every such write is
// followed by the save on every path to success (shared with C01-R5). A counter written after the save is lost with a
// persisting accounts adapter: the next owner holds the create role with a counter below the nonces already issued.
func c15r9(c *Ctx) {
	c.Rule("C15-R9", "a loaded account that is modified is saved afterwards on every path to success", 2)
	loadedAccountSaved(c, "C15-R9", "", nil)
}

// c15r10: the entry that is shipped or credited is the holder's entry as a whole (shared with C08-R2): an entry rebuilt from
// some of its fields arrives with the others at their zero value — NFT metadata under Type Fungible is an ill-formed entry.
func c15r10(c *Ctx) {
	c.shareRule(c08r2, "C08-R2", "C15-R10", "the entry marshalled for a credit or a shipment is the sender's (or the decoded) entry as a whole, not one rebuilt field by field", nil)
}

// c15r11: "the counter held with the create role is never below any nonce ever issued": shared with C07-R5 — nothing but the
// create function and the hand-over writes the counter entry.
func c15r11(c *Ctx) {
	c.shareRule(c07r5, "C07-R5", "C15-R11", "the counter entry is written only by the create function and the role hand-over (nothing else can lower it)", nil)
}

// c15r12: "the counter held with the create role is never below any nonce ever issued", create side: shared with C07-R1 — the
// nonce given to a new entry is the counter *stored in the account* plus one and that value is what is stored back; a
// counter remembered anywhere else (a memo on the function object) goes stale when the hand-over rewrites the entry.
func c15r12(c *Ctx) {
	c.shareRule(c07r1, "C07-R1", "C15-R12", "create issues stored counter + 1 and stores it back (the stored counter is the only record of the highest nonce issued)", nil)
}
