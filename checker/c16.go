package main

// C16 — every function is priced by its own entry of the current gas schedule.

import (
	"fmt"
	"go/token"
	"go/types"
	"sort"
	"strings"

	"golang.org/x/tools/go/ssa"
)

func init() {
	register(&Property{
		ID:    "C16",
		Level: "other",
		Explanation: "R1 (own field, three ways): for each of the 16 priced protocol names the BuiltInCost field the factory passes to the constructor, the receiver field the constructor stores it in, and the field SetNewGasConfig copies into that same " +
			"receiver field all equal the table's field; likewise the BaseOperationCost struct. R2: below the entry point only the own cost field and the table's per-byte fields of the schedule are read, and every documented per-byte field is read. " +
			"R3 (all-or-nothing): in GasScheduleChange the store of the new schedule and the broadcast are cut by the schedule decoder succeeding (a function returning (*GasCost, error), or one filling a *GasCost handed to it); no return is reachable without the decoder call; the decoder's success is cut, at every helper level, by the decode and the zero-field check of both tables that end up in the object; every table is decoded into a zero-valued fresh object (the map decoder keeps fields the schedule does not list, so decoding over the live schedule or a copy lets a partial schedule pass); every " +
			"field of both cost structs has an unsigned integer kind (the reflective check skips none); the broadcast calls SetNewGasConfig on every key of the container with the stored schedule. R4: every sender-side success path of a priced entry point " +
			"passes a charge of the own cost (a GasRemaining value containing -cost, or the saturating helper applied to cost); plain GasProvided is stored only where the sender account is absent or a charge follows. R5: the lengths multiplied by StorePerByte cover every argument stored into the entry. R6: forwarded gas is moved out of the remainder after all charges (shared with C06-R3). R7: in SaveKeyValue's pair loop every turn adds a PersistPerByte component (directly, through a helper all of whose results carry one, or through a per-pair step that always charges), and the pairs are priced in the loop that writes them. Does NOT decide: the consumed amount as a number.",
		Trusted: []string{"T-REG (spec/registry.json): cost field and per-byte fields per protocol name", "mapstructure.Decode fills the struct from the map", "check.ForZeroUintFields semantics (its field-kind filter is matched against the struct definitions)"},
		Rules:   []func(*Ctx){c16r1, c16r2, c16r3, c16r4, c16r5, c16r6, c16r7},
	})
}

type pricing struct {
	costField string // receiver field holding the own cost
	baseField string // receiver field holding the BaseOperationCost copy ("" if none)
}

// receiverCostFields: what the constructor stores: param fed with BuiltInCost.X -> receiver field; param of type BaseOperationCost -> receiver field.
func ctorStores(p *Prog, r Registration) (map[int]string, string) {
	out := map[int]string{}
	base := ""
	if r.Ctor == nil {
		return out, base
	}
	for _, b := range r.Ctor.Blocks {
		for _, in := range b.Instrs {
			st, ok := in.(*ssa.Store)
			if !ok {
				continue
			}
			fa, ok := st.Addr.(*ssa.FieldAddr)
			if !ok {
				continue
			}
			par, ok := st.Val.(*ssa.Parameter)
			if !ok {
				continue
			}
			for i, q := range r.Ctor.Params {
				if q == par {
					out[i] = fieldName(fa.X.Type(), fa.Field)
					if strings.HasSuffix(q.Type().String(), ".BaseOperationCost") {
						base = out[i]
					}
				}
			}
		}
	}
	return out, base
}

func setNewGasConfigOf(p *Prog, t types.Type) *ssa.Function {
	if sel := p.SSA.MethodSets.MethodSet(t).Lookup(nil, "SetNewGasConfig"); sel != nil {
		return unwrapSynthetic(p.SSA.MethodValue(sel))
	}
	return nil
}

func pricingOf(c *Ctx, rule string, sp RegSpec, r Registration) (pricing, bool) {
	var pr pricing
	stores, base := ctorStores(c.P, r)
	pr.baseField = base
	for i, t := range r.ArgTerms {
		if strings.HasSuffix(t, ".BuiltInCost."+*sp.Cost) {
			pr.costField = stores[i]
		}
	}
	return pr, pr.costField != ""
}

func c16r1(c *Ctx) {
	const rule = "C16-R1"
	c.Rule(rule, "factory argument, constructor field and SetNewGasConfig copy all name the table's cost field", 40)
	regs := c.P.RegByName()
	for _, sp := range loadRegSpec() {
		if sp.Cost == nil {
			continue
		}
		r, ok := regs[sp.Name]
		if !ok || r.Ctor == nil || r.Type == nil {
			c.Anchor(rule, "registration of "+sp.Name)
			continue
		}
		pos := c.P.InstrPos(r.CtorCall)
		stores, base := ctorStores(c.P, r)
		// (i) factory argument
		var costIdx = -1
		for i, t := range r.ArgTerms {
			if strings.Contains(t, ".BuiltInCost.") {
				construct := sp.Name + ": factory passes " + t[strings.Index(t, ".BuiltInCost.")+1:]
				if strings.HasSuffix(t, ".BuiltInCost."+*sp.Cost) && strings.Contains(t, ".gasConfig.") {
					costIdx = i
					c.OK(rule, FuncName(c.P.FactoryFunc()), construct, pos, "the table's field "+*sp.Cost)
				} else {
					c.FailX(Oblig{Rule: rule, Func: FuncName(c.P.FactoryFunc()), Construct: construct, Pos: pos, Kind: "violation",
						Detail: sp.Name + " is constructed with another function's price: " + t, Expected: "b.gasConfig.BuiltInCost." + *sp.Cost})
				}
			}
		}
		if costIdx < 0 {
			c.Fail(rule, "violation", FuncName(c.P.FactoryFunc()), sp.Name+": factory passes its own cost", pos, "no constructor argument is BuiltInCost."+*sp.Cost)
			continue
		}
		// (ii) constructor stores the parameter in a receiver field
		f := stores[costIdx]
		if f == "" {
			c.Fail(rule, "violation", FuncName(r.Ctor), sp.Name+": constructor keeps the cost", c.P.Pos(r.Ctor.Pos()), "the cost parameter is not stored into the function object")
			continue
		}
		c.OK(rule, FuncName(r.Ctor), sp.Name+": constructor keeps the cost in ."+f, c.P.Pos(r.Ctor.Pos()), "parameter #"+fmt.Sprint(costIdx)+" -> ."+f)
		// (iii) SetNewGasConfig copies the same schedule field into the same receiver field
		set := setNewGasConfigOf(c.P, r.Type)
		if set == nil {
			c.Anchor(rule, "SetNewGasConfig of "+sp.Name)
			continue
		}
		se := c.P.Env(set)
		gp := "P:" + paramName(set.Params[1])
		found, foundBase := false, base == ""
		// a schedule change takes effect on every path: with a non-nil schedule no return is reachable without the store
		nilSched := map[edge]bool{}
		for ed, fs := range se.EdgeFacts() {
			for _, fct := range fs {
				if !fct.Lin && fct.Pos && fct.Atom == nilAtom(gp) {
					nilSched[ed] = true
				}
			}
		}
		everyPath := func(st ssa.Instruction, what string) {
			construct := sp.Name + ": SetNewGasConfig updates " + what + " on every path"
			barriers := map[ssa.Instruction]bool{st: true}
			// a return that skips the copy because the field already holds the new schedule's value is the copy's no-op: edges
			// that establish `field == value to be copied` cut like the nil-schedule edges do
			skip := map[edge]bool{}
			for ed := range nilSched {
				skip[ed] = true
			}
			ft := "*P:" + paramName(set.Params[0]) + what
			vt := ""
			if cs, ok := st.(*ssa.Store); ok {
				vt = se.Term(cs.Val)
			}
			if vt != "" {
				for ed, fs := range se.EdgeFacts() {
					ge, le := false, false
					for _, fct := range fs {
						k := fct.Key()
						if !strings.Contains(k, ft) || !strings.Contains(k, vt) {
							continue
						}
						if !fct.Lin && fct.Pos && (strings.HasPrefix(fct.Atom, "eq(") || strings.HasPrefix(fct.Atom, "zero(")) {
							skip[ed] = true
						}
						if fct.Lin && len(fct.LE.c) == 2 && fct.LE.k == 0 {
							if fct.LE.c[ft] == 1 && fct.LE.c[vt] == -1 {
								ge = true
							}
							if fct.LE.c[ft] == -1 && fct.LE.c[vt] == 1 {
								le = true
							}
						}
					}
					if ge && le {
						skip[ed] = true
					}
				}
			}
			for _, r := range returnsOf(set) {
				if len(set.Blocks[0].Instrs) > 0 && (set.Blocks[0].Instrs[0] == ssa.Instruction(r) || reachesAvoiding(set, set.Blocks[0].Instrs[0], r, barriers, skip)) {
					c.FailX(Oblig{Rule: rule, Func: FuncName(set), Construct: construct, Pos: c.P.InstrPos(st), Kind: "violation",
						Detail:   "SetNewGasConfig can return at " + c.P.InstrPos(r) + " with a non-nil schedule without having copied " + what + ": after such a change " + sp.Name + " keeps charging a stale price",
						Expected: "the copy on every path on which the schedule is not nil"})
					return
				}
			}
			c.OK(rule, FuncName(set), construct, c.P.InstrPos(st), "no return is reachable without the store unless the schedule is nil")
		}
		// the copies: stores into receiver fields made by SetNewGasConfig itself, or by a shared tail helper that is handed
		// pointers to the fields (`setCost(&e.mut, &e.funcGasCost, &gasCost.BuiltInCost.X)` storing `*dst = *src`)
		type copyOp struct {
			field, val string
			at         ssa.Instruction // the instruction of SetNewGasConfig that performs (or calls) the copy
			pos        ssa.Instruction
		}
		var copies []copyOp
		for _, b := range set.Blocks {
			for _, in := range b.Instrs {
				switch x := in.(type) {
				case *ssa.Store:
					if fa, ok := x.Addr.(*ssa.FieldAddr); ok {
						copies = append(copies, copyOp{fieldName(fa.X.Type(), fa.Field), se.Term(x.Val), x, x})
					}
				case *ssa.Call:
					sc := x.Call.StaticCallee()
					if sc == nil || len(sc.Blocks) == 0 || !c.P.InPkgs(sc, "builtInFunctions") {
						continue
					}
					sub := se.Sub(x, sc)
					for _, hb := range sc.Blocks {
						for _, hin := range hb.Instrs {
							st, ok := hin.(*ssa.Store)
							if !ok {
								continue
							}
							if hfa, ok := st.Addr.(*ssa.FieldAddr); ok {
								// a method helper on the same object (`e.setGasCost(gasCost)` storing into e's fields)
								if hp, ok := hfa.X.(*ssa.Parameter); ok {
									if a, _ := sub.actual(hp); a != nil && a == ssa.Value(set.Params[0]) {
										copies = append(copies, copyOp{fieldName(hfa.X.Type(), hfa.Field), sub.Term(st.Val), x, st})
									}
								}
								continue
							}
							par, ok := st.Addr.(*ssa.Parameter)
							if !ok {
								continue
							}
							if a, _ := sub.actual(par); a != nil {
								if fa, ok := a.(*ssa.FieldAddr); ok {
									copies = append(copies, copyOp{fieldName(fa.X.Type(), fa.Field), sub.Term(st.Val), x, st})
								}
							}
						}
					}
				}
			}
		}
		for _, cp := range copies {
			fn, vt := cp.field, cp.val
			if fn == f && vt == "*"+gp+".BuiltInCost."+*sp.Cost {
				everyPath(cp.at, "."+f)
			}
			if base != "" && fn == base && vt == "*"+gp+".BaseOperationCost" {
				everyPath(cp.at, "."+base)
			}
			switch fn {
			case f:
				construct := sp.Name + ": SetNewGasConfig ." + f + " = " + vt
				if vt == "*"+gp+".BuiltInCost."+*sp.Cost {
					found = true
					c.OK(rule, FuncName(set), construct, c.P.InstrPos(cp.pos), "the table's field of the new schedule")
				} else {
					c.FailX(Oblig{Rule: rule, Func: FuncName(set), Construct: construct, Pos: c.P.InstrPos(cp.pos), Kind: "violation",
						Detail: "after a schedule change " + sp.Name + " is priced by " + vt, Expected: "gasCost.BuiltInCost." + *sp.Cost})
				}
			case base:
				construct := sp.Name + ": SetNewGasConfig ." + base + " = " + vt
				if vt == "*"+gp+".BaseOperationCost" {
					foundBase = true
					c.OK(rule, FuncName(set), construct, c.P.InstrPos(cp.pos), "the per-byte prices of the new schedule")
				} else {
					c.Fail(rule, "violation", FuncName(set), construct, c.P.InstrPos(cp.pos), "per-byte prices are not taken from the new schedule: "+vt)
				}
			}
		}
		if !found {
			c.Fail(rule, "violation", FuncName(set), sp.Name+": SetNewGasConfig updates ."+f, c.P.Pos(set.Pos()), "a schedule change does not update the own cost of "+sp.Name)
		}
		if !foundBase {
			c.Fail(rule, "violation", FuncName(set), sp.Name+": SetNewGasConfig updates ."+base, c.P.Pos(set.Pos()), "a schedule change does not update the per-byte prices of "+sp.Name)
		}
		// base struct from the factory
		if base != "" {
			okb := false
			for i, t := range r.ArgTerms {
				if stores[i] == base && strings.HasSuffix(t, ".gasConfig.BaseOperationCost") {
					okb = true
				}
			}
			if okb {
				c.OK(rule, FuncName(c.P.FactoryFunc()), sp.Name+": factory passes BaseOperationCost", pos, "b.gasConfig.BaseOperationCost -> ."+base)
			} else {
				c.Fail(rule, "violation", FuncName(c.P.FactoryFunc()), sp.Name+": factory passes BaseOperationCost", pos, "per-byte prices do not come from the factory's schedule")
			}
		}
		if len(sp.PerByte) > 0 && base == "" {
			c.Fail(rule, "violation", FuncName(r.Ctor), sp.Name+": per-byte prices", c.P.Pos(r.Ctor.Pos()), "the table lists per-byte components but the function holds no BaseOperationCost")
		}
	}
}

// c16r6: what is forwarded to the destination is what remains after every charge (shared with C06-R3): gas captured before
// a per-byte deduction and forwarded afterwards hands the deducted amount back — the component is not paid.
func c16r6(c *Ctx) {
	c.shareRule(c06r3, "C06-R3", "C16-R6", "forwarded gas is the remainder after all charges (a charge is not undone by forwarding a value captured earlier)", nil)
}

func c16r2(c *Ctx) {
	const rule = "C16-R2"
	c.Rule(rule, "below an entry point only the own cost and the documented per-byte prices are read, and each documented one is read", 20)
	regs := c.P.RegByName()
	for _, sp := range loadRegSpec() {
		r, ok := regs[sp.Name]
		if !ok || r.Entry == nil {
			continue
		}
		allowed := map[string]bool{}
		for _, f := range sp.PerByte {
			allowed[f] = true
		}
		used := map[string]bool{}
		reach := c.P.ReachableFrom([]*ssa.Function{r.Entry})
		var fns []*ssa.Function
		for fn := range reach {
			if c.P.InPkgs(fn, "builtInFunctions") {
				fns = append(fns, fn)
			}
		}
		sort.Slice(fns, func(i, j int) bool { return FuncName(fns[i]) < FuncName(fns[j]) })
		for _, fn := range fns {
			for _, b := range fn.Blocks {
				for _, in := range b.Instrs {
					var st types.Type
					var idx int
					switch x := in.(type) {
					case *ssa.FieldAddr:
						st, idx = x.X.Type(), x.Field
					case *ssa.Field:
						st, idx = x.X.Type(), x.Field
					default:
						continue
					}
					ts := st.String()
					if !strings.HasSuffix(ts, modPath+".BaseOperationCost") && !strings.HasSuffix(ts, modPath+".BuiltInCost") {
						continue
					}
					f := fieldName(st, idx)
					construct := sp.Name + ": reads schedule field " + f + " in " + fn.Name()
					if strings.HasSuffix(ts, ".BuiltInCost") {
						c.Fail(rule, "violation", FuncName(fn), construct, c.P.InstrPos(in), "an execution path reads the BuiltInCost table directly instead of its own copied cost")
						continue
					}
					used[f] = true
					if allowed[f] {
						c.OK(rule, FuncName(fn), construct, c.P.InstrPos(in), "documented per-byte component of "+sp.Name)
					} else {
						c.FailX(Oblig{Rule: rule, Func: FuncName(fn), Construct: construct, Pos: c.P.InstrPos(in), Kind: "violation",
							Detail: sp.Name + " is charged with the per-byte price " + f + ", which is not one of its documented components", Expected: "only {" + strings.Join(sp.PerByte, ", ") + "}"})
					}
				}
			}
		}
		for _, f := range sp.PerByte {
			if !used[f] {
				c.Fail(rule, "violation", FuncName(r.Entry), sp.Name+": documented per-byte component "+f+" is charged", c.P.Pos(r.Entry.Pos()), "the per-byte price "+f+" is never read below the entry point")
			}
		}
		if len(sp.PerByte) == 0 && len(used) == 0 {
			c.Triv(rule, FuncName(r.Entry), sp.Name+": no per-byte price read", c.P.Pos(r.Entry.Pos()), "none documented, none read")
		}
	}
}

func c16r3(c *Ctx) {
	const rule = "C16-R3"
	c.Rule(rule, "a schedule is accepted as a whole or not at all, and an accepted one reaches every registered function", 7)
	var change, create *ssa.Function
	for _, fn := range c.P.Funcs {
		if !c.P.InPkgs(fn, "builtInFunctions") {
			continue
		}
		if fn.Name() == "GasScheduleChange" && fn.Signature.Recv() != nil {
			change = fn
		}
		if res := fn.Signature.Results(); res.Len() == 2 && strings.HasSuffix(res.At(0).Type().String(), modPath+".GasCost") && isErrorType(res.At(1).Type()) {
			create = fn
		}
	}
	if change == nil {
		c.Anchor(rule, "GasScheduleChange")
		return
	}
	isDecode := func(in ssa.Instruction) (string, bool) {
		if call, ok := in.(*ssa.Call); ok && strings.HasSuffix(CalleeName(call), "mapstructure.Decode") && len(call.Call.Args) >= 2 {
			return "decode", true
		}
		return "", false
	}
	// the schedule decoder(s): what GasScheduleChange calls to turn the map into a GasCost — a function returning (*GasCost, error),
	// or one that fills a *GasCost handed to it and returns an error (value: the position of that argument, -1 for the result form)
	reachDecode := c.P.reachesEffect("c16mapdecode", isDecode)
	isGasCostPtr := func(t types.Type) bool {
		pt, ok := t.(*types.Pointer)
		return ok && strings.HasSuffix(pt.Elem().String(), modPath+".GasCost")
	}
	decFns := map[*ssa.Function]int{}
	decArg := map[ssa.Value]bool{} // the objects GasScheduleChange hands to a filling decoder
	for _, b := range change.Blocks {
		for _, in := range b.Instrs {
			call, ok := in.(*ssa.Call)
			if !ok {
				continue
			}
			sc := call.Call.StaticCallee()
			if sc == nil || len(sc.Blocks) == 0 || !reachDecode[sc] {
				continue
			}
			res := sc.Signature.Results()
			if res.Len() == 0 || !isErrorType(res.At(res.Len()-1).Type()) {
				continue
			}
			if res.Len() == 2 && isGasCostPtr(res.At(0).Type()) {
				decFns[sc] = -1
				continue
			}
			for i, a := range call.Call.Args {
				if isGasCostPtr(a.Type()) && res.Len() == 1 {
					decFns[sc] = i
					decArg[a] = true
				}
			}
		}
	}
	if len(decFns) == 0 {
		c.Anchor(rule, "the schedule decoder called by GasScheduleChange (returns (*GasCost, error), or fills a *GasCost and returns an error)")
		return
	}
	e := c.P.Env(change)
	decodeOK := func(f Fact) bool {
		if f.Lin || !f.Pos || f.Call == nil || !strings.HasPrefix(f.Atom, "ok:") {
			return false
		}
		_, ok := decFns[f.Call.Common().StaticCallee()]
		return ok
	}
	// (a) store of the new schedule and every SetNewGasConfig call are cut by the decoder's success
	n := 0
	var newCfg, storedCfg string
	for _, b := range change.Blocks {
		for _, in := range b.Instrs {
			switch x := in.(type) {
			case *ssa.Store:
				if fa, ok := x.Addr.(*ssa.FieldAddr); ok && strings.HasSuffix(fa.Type().String(), modPath+".GasCost") {
					n++
					newCfg = e.Term(fa)
					storedCfg = e.Term(x.Val) // the same pointer: handing on the local is handing on the stored schedule
					construct := "store " + e.Term(fa) + " = " + e.Term(x.Val)
					_, cut := e.CutAt(x, decodeOK, nil)
					isResult := false
					if ex, ok := x.Val.(*ssa.Extract); ok && ex.Index == 0 {
						if call, ok := ex.Tuple.(*ssa.Call); ok {
							if k, isDec := decFns[call.Call.StaticCallee()]; isDec && k < 0 {
								isResult = true
							}
						}
					}
					if decArg[x.Val] {
						isResult = true // the object the decoder has filled
					}
					if cut && isResult {
						c.OK(rule, FuncName(change), construct, c.P.InstrPos(x), "only the fully validated schedule is stored")
					} else {
						c.Fail(rule, "violation", FuncName(change), construct, c.P.InstrPos(x), "the factory's schedule can be replaced by something that did not pass validation")
					}
				}
			}
		}
	}
	// the broadcast: in GasScheduleChange itself or in a helper below it
	isBroadcast := func(in ssa.Instruction) (string, bool) {
		if ci, ok := in.(ssa.CallInstruction); ok && InvokeName(ci) == "BuiltinFunction.SetNewGasConfig" {
			return "broadcast", true
		}
		return "", false
	}
	for _, s := range c.P.EffectSitesBelow(e, "c16broadcast", isBroadcast) {
		x := s.In.(ssa.CallInstruction)
		se, sfn := s.Env, s.In.Parent()
		_ = sfn
		n++
		construct := "broadcast SetNewGasConfig(" + se.Term(x.Common().Args[0]) + ")"
		_, _, cut := s.CutInContext(decodeOK, nil)
		if at := se.Term(x.Common().Args[0]); cut && (at == "*"+newCfg || storedCfg != "" && at == storedCfg) {
			c.OK(rule, FuncName(sfn), construct, c.P.InstrPos(x), "only after successful validation, with the stored schedule")
		} else {
			c.Fail(rule, "violation", FuncName(sfn), construct, c.P.InstrPos(x), "functions can be repriced with a schedule that was rejected, or with another object than the stored one")
		}
		// every key of the container: receiver comes from Get(key) with key ranging over Keys() of the same container
		recvT := se.Term(x.Common().Value)
		if strings.Contains(recvT, "#") {
			c.OK(rule, FuncName(sfn), "broadcast covers the container", c.P.InstrPos(x), "receiver "+recvT+" obtained from the container inside the loop over its keys")
		}
		// no function is skipped: once Get(key) has succeeded, neither the next iteration nor a return is reachable
		// without the SetNewGasConfig call on what Get returned
		var get *ssa.Call
		if ex, ok := x.Common().Value.(*ssa.Extract); ok {
			get, _ = ex.Tuple.(*ssa.Call)
		}
		if get == nil || InvokeName(get) != "BuiltInFunctionContainer.Get" {
			c.Fail(rule, "undecided", FuncName(sfn), "broadcast skips no registered function", c.P.InstrPos(x), "the receiver of SetNewGasConfig is not what the container's Get returned")
		} else {
			barriers := map[ssa.Instruction]bool{x.(ssa.Instruction): true}
			errCut := map[edge]bool{}
			for ed, fs := range se.EdgeFacts() {
				for _, f := range fs {
					if !f.Lin && !f.Pos && f.Call == ssa.CallInstruction(get) && strings.HasPrefix(f.Atom, "ok:") {
						errCut[ed] = true // Get failed: nothing to reprice
					}
				}
			}
			bad := ""
			if reachesAvoiding(sfn, get, get, barriers, errCut) {
				bad = "the loop can go on to the next key"
			}
			for _, r := range returnsOf(sfn) {
				if reachesAvoiding(sfn, get, r, barriers, errCut) {
					bad = "the function can return"
				}
			}
			if bad == "" {
				c.OK(rule, FuncName(sfn), "broadcast skips no registered function", c.P.InstrPos(x), "after a successful Get every path passes SetNewGasConfig on its result")
			} else {
				c.FailX(Oblig{Rule: rule, Func: FuncName(sfn), Construct: "broadcast skips no registered function", Pos: c.P.InstrPos(x), Kind: "violation",
					Detail:   "after Get(key) succeeded " + bad + " without SetNewGasConfig having been called on that function: it keeps charging the previous schedule (e.g. a function that is not active yet and is activated later)",
					Expected: "SetNewGasConfig on every function of the container, unconditionally"})
			}
		}
	}
	if n < 2 {
		c.Anchor(rule, "the schedule store and the broadcast in GasScheduleChange")
	}
	// (a2) every schedule handed in is judged by the decoder: no return is reachable without the decoder having been called
	// (a short-cut like "same as last time" decides acceptance by something else than the schedule's content)
	decodes := map[ssa.Instruction]bool{}
	for _, b := range change.Blocks {
		for _, in := range b.Instrs {
			if call, ok := in.(*ssa.Call); ok {
				if _, isDec := decFns[call.Call.StaticCallee()]; isDec {
					decodes[in] = true
				}
			}
		}
	}
	if len(decodes) == 0 {
		c.Anchor(rule, "the call of the schedule decoder in GasScheduleChange")
	} else {
		bad := ""
		for _, r := range returnsOf(change) {
			if instrReaches(change, nil, r, decodes) {
				bad = c.P.InstrPos(r)
			}
		}
		construct := "every schedule handed in is decoded and validated"
		if bad == "" {
			c.OK(rule, FuncName(change), construct, c.P.Pos(change.Pos()), "no return is reachable without the decoder call")
		} else {
			c.FailX(Oblig{Rule: rule, Func: FuncName(change), Construct: construct, Pos: c.P.Pos(change.Pos()), Kind: "violation",
				Detail:   "GasScheduleChange can return at " + bad + " without having decoded the schedule it was given: an acceptable schedule is dropped and the previous prices stay in force",
				Expected: "the only early return is the one taken when the decoder rejects the schedule"})
		}
	}
	// (b) the decoder's success is cut by the decode and the zero-field check of each table that ends up in the object it hands
	// back (returned, or filled through the pointer it was given), at every level when the work is delegated to a helper
	zeroCheck := func(argTerm string) func(Fact) bool {
		return func(f Fact) bool {
			if f.Lin || !f.Pos || f.Call == nil || !strings.HasPrefix(f.Atom, "ok:") {
				return false
			}
			if !strings.HasSuffix(CalleeName(f.Call), "/check.ForZeroUintFields") {
				return false
			}
			return strings.Contains(f.Env.Term(f.Call.Common().Args[0]), argTerm)
		}
	}
	var checkObj func(ce *Env, obj ssa.Value, r *ssa.Return, depth int) int
	checkObj = func(ce *Env, obj ssa.Value, r *ssa.Return, depth int) int {
		fn := ce.Fn
		nf := 0
		if obj.Referrers() == nil || depth > 3 {
			return 0
		}
		for _, ref := range *obj.Referrers() {
			// the literal built in a temporary and copied into the result as a whole (`*result = *tmp`: the shape newer
			// go/ssa builders give `x := T{…}; return &x`): the fields are those stored into the temporary
			if st, ok := ref.(*ssa.Store); ok && st.Addr == obj {
				if ld, ok := st.Val.(*ssa.UnOp); ok && ld.Op == token.MUL {
					if tmp, ok := ld.X.(*ssa.Alloc); ok && tmp != obj {
						nf += checkObj(ce, tmp, r, depth+1)
					}
				}
				continue
			}
			// the object handed on to a helper that fills it
			if call, ok := ref.(*ssa.Call); ok {
				sc := call.Call.StaticCallee()
				if sc == nil || len(sc.Blocks) == 0 || !reachDecode[sc] {
					continue
				}
				for i, a := range call.Call.Args {
					if a != obj || i >= len(sc.Params) {
						continue
					}
					filled := func(f Fact) bool {
						return !f.Lin && f.Pos && f.Call == ssa.CallInstruction(call) && strings.HasPrefix(f.Atom, "ok:")
					}
					if _, cut := ce.CutAt(r, filled, nil); !cut {
						c.Fail(rule, "violation", FuncName(fn), "result filled by "+sc.Name(), c.P.InstrPos(call), "the error of the helper that decodes the schedule is not checked before the object is handed back")
						continue
					}
					sub := ce.Sub(call, sc)
					for _, r2 := range returnsOf(sc) {
						if isSuccessReturn(r2) {
							nf += checkObj(sub, sc.Params[i], r2, depth+1)
						}
					}
				}
				continue
			}
			fa, ok := ref.(*ssa.FieldAddr)
			if !ok {
				continue
			}
			// a table decoded in place: the field's address handed to the map decoder
			for _, rr := range *fa.Referrers() {
				mi, ok := rr.(*ssa.MakeInterface)
				if !ok || mi.Referrers() == nil {
					continue
				}
				for _, r3 := range *mi.Referrers() {
					dc, ok := r3.(*ssa.Call)
					if !ok {
						continue
					}
					// the table handed, as an interface, to a helper that decodes into it and checks it (`fillSection(map, name, &cost.Table)`)
					if sc := dc.Call.StaticCallee(); sc != nil && len(sc.Blocks) > 0 && reachDecode[sc] && sc.Pkg != nil && strings.HasPrefix(sc.Pkg.Pkg.Path(), modPath) {
						for i, a := range dc.Call.Args {
							if a != ssa.Value(mi) || i >= len(sc.Params) {
								continue
							}
							filled := func(f Fact) bool {
								return !f.Lin && f.Pos && f.Call == ssa.CallInstruction(dc) && strings.HasPrefix(f.Atom, "ok:")
							}
							construct := "result." + fieldName(fa.X.Type(), fa.Field) + " filled by " + sc.Name()
							if _, cut := ce.CutAt(r, filled, nil); !cut {
								c.Fail(rule, "violation", FuncName(fn), construct, c.P.InstrPos(dc), "the error of the helper that decodes this table is not checked before the object is handed back")
								continue
							}
							sub := ce.Sub(dc, sc)
							par := sc.Params[i]
							okAll, found := true, false
							for _, r2 := range returnsOf(sc) {
								if !isSuccessReturn(r2) {
									continue
								}
								var dec *ssa.Call
								for _, pr := range *par.Referrers() {
									if d2, ok := pr.(*ssa.Call); ok && strings.HasSuffix(CalleeName(d2), "mapstructure.Decode") && len(d2.Call.Args) >= 2 && d2.Call.Args[1] == ssa.Value(par) {
										dec = d2
									}
								}
								if dec == nil {
									okAll = false
									continue
								}
								found = true
								_, cutD := sub.CutAt(r2, func(f Fact) bool {
									return !f.Lin && f.Pos && f.Call == ssa.CallInstruction(dec) && strings.HasPrefix(f.Atom, "ok:")
								}, nil)
								_, cutZ := sub.CutAt(r2, func(f Fact) bool {
									if f.Lin || !f.Pos || f.Call == nil || !strings.HasPrefix(f.Atom, "ok:") || !strings.HasSuffix(CalleeName(f.Call), "/check.ForZeroUintFields") {
										return false
									}
									// the checked value is computed from the pointer handed in (`*p`, or reflect.Indirect(reflect.ValueOf(p)).Interface())
									return f.Call.Parent() == sc && valueDependsOn(f.Call.Common().Args[0], par, 0)
								}, nil)
								if !cutD || !cutZ {
									okAll = false
								}
							}
							nf++
							if okAll && found {
								c.OK(rule, FuncName(fn), construct, c.P.InstrPos(dc), "decoded into the table and checked for zero fields inside the helper, whose success cuts the return")
							} else {
								c.Fail(rule, "violation", FuncName(fn), construct, c.P.InstrPos(dc), "the helper can succeed without having decoded this table and checked it for zero fields")
							}
						}
						continue
					}
					if !strings.HasSuffix(CalleeName(dc), "mapstructure.Decode") || len(dc.Call.Args) < 2 || dc.Call.Args[1] != ssa.Value(mi) {
						continue
					}
					nf++
					base := ce.Term(fa)
					construct := "result." + fieldName(fa.X.Type(), fa.Field) + " decoded in place"
					_, cut1 := ce.CutAt(r, zeroCheck(base), nil)
					decoded := func(f Fact) bool {
						return !f.Lin && f.Pos && f.Call == ssa.CallInstruction(dc) && strings.HasPrefix(f.Atom, "ok:")
					}
					_, cut2 := ce.CutAt(r, decoded, nil)
					if cut1 && cut2 {
						c.OK(rule, FuncName(fn), construct, c.P.InstrPos(dc), "decoded successfully into the result and passed the zero-field check")
					} else {
						d := "a schedule with a zero or missing entry in this table is accepted"
						if !cut2 {
							d = "the decode error of this table is not checked"
						}
						c.Fail(rule, "violation", FuncName(fn), construct, c.P.InstrPos(dc), d)
					}
				}
			}
			for _, rr := range *fa.Referrers() {
				st, ok := rr.(*ssa.Store)
				if !ok || st.Addr != ssa.Value(fa) {
					continue
				}
				nf++
				src := ce.Term(st.Val) // *<decoded struct>
				construct := "result." + fieldName(fa.X.Type(), fa.Field) + " = " + src
				base := strings.TrimPrefix(src, "*")
				_, cut1 := ce.CutAt(r, zeroCheck(base), nil)
				decoded := func(f Fact) bool {
					return !f.Lin && f.Pos && f.Call != nil && strings.HasPrefix(f.Atom, "ok:") && strings.HasSuffix(CalleeName(f.Call), "mapstructure.Decode") &&
						f.Env.Term(f.Call.Common().Args[1]) == base
				}
				_, cut2 := ce.CutAt(r, decoded, nil)
				if cut1 && cut2 {
					c.OK(rule, FuncName(fn), construct, c.P.InstrPos(st), "decoded successfully and passed the zero-field check")
				} else {
					d := "a schedule with a zero or missing entry in this table is accepted"
					if !cut2 {
						d = "the decode error of this table is not checked"
					}
					c.Fail(rule, "violation", FuncName(fn), construct, c.P.InstrPos(st), d)
				}
			}
		}
		return nf
	}
	toCheck := map[*ssa.Function]int{}
	for fn, k := range decFns {
		toCheck[fn] = k
	}
	if create != nil {
		toCheck[create] = -1 // also used when the factory is built: the first schedule is judged by the same rule
	}
	var order []*ssa.Function
	for fn := range toCheck {
		order = append(order, fn)
	}
	sort.Slice(order, func(i, j int) bool { return order[i].Name() < order[j].Name() })
	for _, dfn := range order {
		k := toCheck[dfn]
		ce := c.P.Env(dfn)
		for _, r := range returnsOf(dfn) {
			if !isSuccessReturn(r) {
				continue
			}
			var obj ssa.Value
			if k < 0 {
				al, ok := retval(r, 0).(*ssa.Alloc)
				if !ok {
					c.Fail(rule, "undecided", FuncName(dfn), "result object", c.P.InstrPos(r), "the decoder does not return a literal built in place")
					continue
				}
				obj = al
			} else {
				obj = dfn.Params[k+recvOffset(dfn)]
			}
			if nf := checkObj(ce, obj, r, 0); nf < 2 {
				c.Fail(rule, "floor", FuncName(dfn), "result fields", c.P.InstrPos(r), "fewer than the two cost tables flow into the result")
			}
		}
	}
	// (d) a table is decoded into a fresh object: the map decoder leaves fields the schedule does not list as they are, and the
	// zero-field check then passes on what was there before — decoding over prices in force (the live schedule or a copy of it)
	// accepts a partial schedule and mixes two of them
	nd := 0
	for _, s := range c.P.EffectSitesBelow(e, "c16mapdecode", isDecode) {
		call := s.In.(*ssa.Call)
		nd++
		construct := "decode target of " + s.Env.Term(call.Call.Args[1]) + " in " + s.Chain()
		state, what := decodeTargetFresh(s.Env, call.Call.Args[1], 0)
		switch state {
		case 1:
			c.OK(rule, FuncName(s.In.Parent()), construct, c.P.InstrPos(call), "decoded into "+what)
		case 0:
			c.FailX(Oblig{Rule: rule, Func: FuncName(s.In.Parent()), Construct: construct, Pos: c.P.InstrPos(call), Kind: "violation",
				Detail:   "the new schedule is decoded into " + what + ": entries it does not list keep the price that was there and pass the zero-field check, so a partial schedule is accepted and the result is a mixture of two schedules",
				Expected: "decode into a freshly allocated, zero-valued object and swap it in as a whole"})
		default:
			c.Fail(rule, "undecided", FuncName(s.In.Parent()), construct, c.P.InstrPos(call), "cannot tell whether the decode target is fresh: "+what)
		}
	}
	if nd == 0 {
		c.Anchor(rule, "calls of the map decoder below GasScheduleChange")
	}
	// (c) the reflective zero check looks at uint64/uint32/uint fields only: every field of both tables must be one of those
	for _, tn := range []string{"BaseOperationCost", "BuiltInCost"} {
		nt := c.P.NamedType("", tn)
		if nt == nil {
			c.Anchor(rule, "type vmcommon."+tn)
			continue
		}
		st := nt.Underlying().(*types.Struct)
		bad := ""
		for i := 0; i < st.NumFields(); i++ {
			b, ok := st.Field(i).Type().Underlying().(*types.Basic)
			if !ok || (b.Kind() != types.Uint64 && b.Kind() != types.Uint32 && b.Kind() != types.Uint) {
				bad = st.Field(i).Name() + " " + st.Field(i).Type().String()
			}
		}
		if bad == "" {
			c.OK(rule, "-", tn+": every field is checked for zero", "-", fmt.Sprintf("%d fields, all uint64/uint32/uint", st.NumFields()))
		} else {
			c.Fail(rule, "violation", "-", tn+": every field is checked for zero", "-", "field "+bad+" is skipped by the reflective zero check")
		}
	}
}

// recvOffset: call arguments include the receiver, so do Params: no shift is needed (kept for clarity at the use site).
func recvOffset(fn *ssa.Function) int { return 0 }

// valueDependsOn: v is computed from w through operands only (conversions, loads, calls with it among the arguments).
func valueDependsOn(v, w ssa.Value, depth int) bool {
	if v == w {
		return true
	}
	if depth > 8 {
		return false
	}
	in, ok := v.(ssa.Instruction)
	if !ok {
		return false
	}
	for _, op := range in.Operands(nil) {
		if *op != nil && valueDependsOn(*op, w, depth+1) {
			return true
		}
	}
	return false
}

// decodeTargetFresh: 1 when the object behind the pointer is allocated zero-valued below GasScheduleChange and not assigned as a
// whole before, 0 when it is existing state (a field of a longer-lived object, or a copy of one), -1 when unknown.
func decodeTargetFresh(e *Env, v ssa.Value, depth int) (int, string) {
	if depth > 12 {
		return -1, "too deep"
	}
	switch x := v.(type) {
	case *ssa.MakeInterface:
		return decodeTargetFresh(e, x.X, depth+1)
	case *ssa.ChangeType:
		return decodeTargetFresh(e, x.X, depth+1)
	case *ssa.FieldAddr:
		return decodeTargetFresh(e, x.X, depth+1)
	case *ssa.Parameter:
		if a, pe := e.actual(x); a != nil {
			return decodeTargetFresh(pe, a, depth+1)
		}
		return -1, "parameter " + x.Name() + " of an entry function"
	case *ssa.Alloc:
		if x.Referrers() != nil {
			for _, ref := range *x.Referrers() {
				if st, ok := ref.(*ssa.Store); ok && st.Addr == ssa.Value(x) {
					if k, isK := st.Val.(*ssa.Const); isK && k.Value == nil {
						continue
					}
					if _, isPtr := x.Type().(*types.Pointer).Elem().Underlying().(*types.Pointer); isPtr {
						continue // a pointer variable: judged where it is loaded
					}
					return 0, "a copy of " + e.Term(st.Val) + " (made at " + e.P.InstrPos(st) + ")"
				}
			}
		}
		return 1, "a fresh " + x.Type().(*types.Pointer).Elem().String()
	case *ssa.Phi:
		res, what := 1, ""
		for _, ed := range x.Edges {
			r, w := decodeTargetFresh(e, ed, depth+1)
			if r < res {
				res = r
			}
			if r != 1 || what == "" {
				what = w
			}
		}
		return res, what
	case *ssa.UnOp:
		if x.Op != token.MUL {
			break
		}
		if f := forwarded(x); f != nil {
			return decodeTargetFresh(e, f, depth+1)
		}
		if w, we := e.ctorField(x); w != nil {
			return decodeTargetFresh(we, w, depth+1)
		}
		if _, ok := x.X.(*ssa.FieldAddr); ok {
			return 0, "the object held in " + e.Term(x.X) + " (state that outlives the call)"
		}
		if _, ok := x.X.(*ssa.Global); ok {
			return 0, "the package-level object " + e.Term(x.X)
		}
		return -1, e.Term(x)
	case *ssa.Extract:
		if call, ok := x.Tuple.(*ssa.Call); ok {
			return decodeTargetFreshResult(e, call, x.Index, depth)
		}
	case *ssa.Call:
		return decodeTargetFreshResult(e, x, 0, depth)
	}
	return -1, e.Term(v)
}

func decodeTargetFreshResult(e *Env, call *ssa.Call, idx int, depth int) (int, string) {
	sc := call.Call.StaticCallee()
	if sc == nil || len(sc.Blocks) == 0 || sc.Pkg == nil || !strings.HasPrefix(sc.Pkg.Pkg.Path(), modPath) || e.depth >= maxDepth {
		return -1, "the result of " + CalleeName(call)
	}
	sub := e.Sub(call, sc)
	res, what := 1, ""
	for _, r := range returnsOf(sc) {
		if idx >= len(r.Results) {
			return -1, "the result of " + CalleeName(call)
		}
		if k, isK := r.Results[idx].(*ssa.Const); isK && k.Value == nil {
			continue
		}
		rr, w := decodeTargetFresh(sub, retval(r, idx), depth+1)
		if rr < res {
			res = rr
		}
		if rr != 1 || what == "" {
			what = w
		}
	}
	return res, what
}

// c16r4: the own cost is charged on every sender-side success path.
func c16r4(c *Ctx) {
	const rule = "C16-R4"
	c.Rule(rule, "every sender-side success path of a priced function passes a charge of its own cost", 15)
	regs := c.P.RegByName()
	for _, sp := range loadRegSpec() {
		if sp.Cost == nil {
			continue
		}
		r, ok := regs[sp.Name]
		if !ok || r.Entry == nil {
			continue
		}
		pr, ok := pricingOf(c, rule, sp, r)
		if !ok {
			c.Fail(rule, "undecided", FuncName(r.Entry), sp.Name+": own cost field", c.P.Pos(r.Entry.Pos()), "cannot determine the receiver field holding the own cost (see C16-R1)")
			continue
		}
		x, _ := entryContext(r.Entry)
		recv := "P:" + paramName(r.Entry.Params[0])
		costTerm := "*" + recv + "." + pr.costField
		ok2, why := chargedOnSuccess(c.P, c.P.Env(r.Entry), costTerm, x, sp.Name == "SetUserName", 0)
		construct := sp.Name + ": charge of " + costTerm
		if ok2 {
			c.OK(rule, FuncName(r.Entry), construct, c.P.Pos(r.Entry.Pos()), why)
		} else {
			c.FailX(Oblig{Rule: rule, Func: FuncName(r.Entry), Construct: construct, Pos: c.P.Pos(r.Entry.Pos()), Kind: "violation",
				Detail:   "a sender-side success path of " + sp.Name + " never subtracts the function's own cost: " + why,
				Expected: "GasRemaining = GasProvided - " + pr.costField + " (- per-byte components) or the saturating helper applied to " + pr.costField + " on every path on which the sender account is present"})
		}
	}
}

// isChargeInstr: a store to GasRemaining (or a value later stored there) that subtracts the own cost.
// includesCost: the unsigned value is cost + (non-negative terms): the cost field itself, a sum with a summand that
// includes it, a product with it, or a loop accumulator whose every incoming value includes it.
func includesCost(e *Env, v ssa.Value, costTerm string, assumed map[*ssa.Phi]bool) bool {
	// the running total threaded through a helper (`used, err = k.processPair(…, used)`): every successful return of the helper
	// hands back a value that includes the cost, given that what it was handed does
	helperResult := func(call *ssa.Call, idx int) bool {
		sc := call.Call.StaticCallee()
		if sc == nil || len(sc.Blocks) == 0 || sc.Pkg == nil || !strings.HasPrefix(sc.Pkg.Pkg.Path(), modPath) || e.depth >= maxDepth {
			return false
		}
		sub := e.Sub(call, sc)
		n := 0
		for _, r := range returnsOf(sc) {
			if idx >= len(r.Results) {
				return false
			}
			if lastIsError(sc) && !isSuccessReturn(r) {
				continue
			}
			n++
			if !includesCost(sub, retval(r, idx), costTerm, assumed) {
				return false
			}
		}
		return n > 0
	}
	switch x := v.(type) {
	case *ssa.Extract:
		if call, ok := x.Tuple.(*ssa.Call); ok && helperResult(call, x.Index) {
			return true
		}
	case *ssa.Call:
		if helperResult(x, 0) {
			return true
		}
	}
	switch x := v.(type) {
	case *ssa.Convert:
		return includesCost(e, x.X, costTerm, assumed)
	case *ssa.Parameter:
		if a, pe := e.actual(x); a != nil {
			return includesCost(pe, a, costTerm, assumed)
		}
	case *ssa.BinOp:
		switch x.Op {
		case token.ADD:
			return includesCost(e, x.X, costTerm, assumed) || includesCost(e, x.Y, costTerm, assumed)
		case token.MUL:
			return e.Term(x.X) == costTerm || e.Term(x.Y) == costTerm
		}
	case *ssa.Phi:
		if assumed[x] {
			return true
		}
		assumed[x] = true
		for _, ed := range x.Edges {
			if !includesCost(e, ed, costTerm, assumed) {
				return false
			}
		}
		return true
	case *ssa.UnOp:
		if x.Op == token.MUL {
			if f := forwarded(x); f != nil {
				return includesCost(e, f, costTerm, assumed)
			}
			if w, we := e.ctorField(x); w != nil {
				return includesCost(we, w, costTerm, assumed) // a field of a request object filled by the validating phase
			}
		}
	case *ssa.Call:
		// an extracted cost computation: every return of the helper includes the cost
		if sc := x.Call.StaticCallee(); sc != nil && len(sc.Blocks) > 0 && sc.Pkg != nil && strings.HasPrefix(sc.Pkg.Pkg.Path(), modPath) && e.depth < maxDepth && x.Call.Signature().Results().Len() == 1 {
			sub := e.Sub(x, sc)
			n := 0
			for _, r := range returnsOf(sc) {
				if !includesCost(sub, retval(r, 0), costTerm, map[*ssa.Phi]bool{}) {
					return false
				}
				n++
			}
			if n > 0 {
				return true
			}
		}
	}
	return e.Term(v) == costTerm
}

// subtractsCost: v = base - … - y - … where some subtrahend includes the cost.
func subtractsCost(e *Env, v ssa.Value, costTerm string) bool {
	return subtractsCostRec(e, v, costTerm, map[ssa.Value]bool{})
}

func subtractsCostRec(e *Env, v ssa.Value, costTerm string, seen map[ssa.Value]bool) bool {
	if seen[v] {
		return true // a value carried around a loop: decided by its other incoming values
	}
	seen[v] = true
	switch x := v.(type) {
	case *ssa.Convert:
		return subtractsCostRec(e, x.X, costTerm, seen)
	case *ssa.Parameter:
		if a, pe := e.actual(x); a != nil {
			return subtractsCostRec(pe, a, costTerm, seen)
		}
	case *ssa.Phi:
		for _, ed := range x.Edges {
			if !subtractsCostRec(e, ed, costTerm, seen) {
				return false
			}
		}
		return len(x.Edges) > 0
	case *ssa.UnOp:
		if x.Op == token.MUL {
			if f := forwarded(x); f != nil {
				return subtractsCostRec(e, f, costTerm, seen)
			}
			if w, we := e.ctorField(x); w != nil {
				return subtractsCostRec(we, w, costTerm, seen)
			}
		}
	case *ssa.BinOp:
		if x.Op == token.SUB {
			return includesCost(e, x.Y, costTerm, map[*ssa.Phi]bool{}) || subtractsCostRec(e, x.X, costTerm, seen)
		}
	}
	return false
}

func isChargeInstr(e *Env, in ssa.Instruction, costTerm string) bool {
	mentions := func(v ssa.Value) bool { return subtractsCost(e, v, costTerm) }
	switch x := in.(type) {
	case *ssa.Store:
		fa, ok := x.Addr.(*ssa.FieldAddr)
		if !ok || !isFieldOf(fa, "VMOutput", "GasRemaining") {
			return false
		}
		if mentions(x.Val) {
			return true
		}
		// the result of a helper that received the cost (saturating helper): GasRemaining = helper(…, cost)
		var call *ssa.Call
		switch v := x.Val.(type) {
		case *ssa.Call:
			call = v
		case *ssa.Extract:
			call, _ = v.Tuple.(*ssa.Call)
		}
		if call != nil {
			for _, a := range call.Call.Args {
				if e.Term(a) == costTerm {
					return true
				}
			}
		}
	}
	return false
}

// chargedOnSuccess: every success return of e.Fn that is not excused (sender absent; relay) is reached only through a
// charge: a charging instruction of this function, or a call to a helper all of whose success returns are charged.
func chargedOnSuccess(p *Prog, e *Env, costTerm string, x entryCtx, relay bool, depth int) (bool, string) {
	fn := e.Fn
	chargeBlocks := map[*ssa.BasicBlock]string{}
	for _, b := range fn.Blocks {
		for _, in := range b.Instrs {
			if isChargeInstr(e, in, costTerm) {
				chargeBlocks[b] = "charge at " + p.InstrPos(in)
			}
			if call, ok := in.(*ssa.Call); ok && depth < 3 {
				sc := call.Call.StaticCallee()
				if sc != nil && len(sc.Blocks) > 0 && sc.Pkg != nil && PkgOf(sc) == "builtInFunctions" && sc != fn {
					// a function that produces the output (a method of the same object, or a shared output builder that is
					// handed the cost): charged if all its (success) returns are
					if res := sc.Signature.Results(); (res.Len() == 2 || res.Len() == 1) && strings.HasSuffix(res.At(0).Type().String(), "VMOutput") {
						if ok, _ := chargedOnSuccess(p, e.Sub(call, sc), costTerm, x, relay, depth+1); ok {
							chargeBlocks[b] = "charged inside " + sc.Name()
						}
					}
				}
			}
		}
	}
	// a value computed before the output literal exists: gasRemaining := helper(snd, GasProvided, cost) later stored
	for _, b := range fn.Blocks {
		for _, in := range b.Instrs {
			if call, ok := in.(*ssa.Call); ok {
				for _, a := range call.Call.Args {
					unsignedRes := isUnsignedT(call.Type())
					if tup, ok := call.Type().(*types.Tuple); ok {
						for i := 0; i < tup.Len(); i++ {
							if isUnsignedT(tup.At(i).Type()) {
								unsignedRes = true // (remaining, enough) = helper(snd, GasProvided, cost)
							}
						}
					}
					if e.Term(a) == costTerm && unsignedRes {
						// the result must flow into every GasRemaining store that follows: accept the call as the charge point
						chargeBlocks[b] = "charge computed by " + call.Call.Value.Name() + " at " + p.InstrPos(in)
					}
				}
			}
		}
	}
	excused := func(f Fact) bool {
		if f.Lin || !f.Pos {
			return false
		}
		if f.Atom == nilAtom(x.snd) {
			return true
		}
		return relay && f.Atom == nilAtom(x.dst)
	}
	cut := errorEdgesOfFn(fn) // single-exit style: paths that deliver an error into the common return do not count
	for ed, fs := range e.EdgeFacts() {
		for _, f := range fs {
			if excused(f) {
				cut[ed] = true
			}
		}
	}
	for b := range chargeBlocks {
		for _, s := range b.Succs {
			cut[edge{b, s}] = true
		}
	}
	var whys []string
	for _, w := range chargeBlocks {
		whys = append(whys, w)
	}
	sort.Strings(whys)
	n := 0
	for _, r := range returnsOf(fn) {
		if lastIsError(fn) && !isSuccessReturn(r) {
			continue
		}
		n++
		if _, inCharge := chargeBlocks[r.Block()]; inCharge {
			continue
		}
		if reachableAvoiding(fn.Blocks[0], r.Block(), cut) {
			return false, "success return at " + p.InstrPos(r) + " in " + fn.Name() + " is reachable without a charge (path " + strings.Join(pathAvoiding(fn.Blocks[0], r.Block(), cut), ">") + ")"
		}
	}
	if n == 0 {
		return false, "no success return"
	}
	// uncharged refills: a plain GasProvided stored after the charge must be excused
	for _, b := range fn.Blocks {
		for _, in := range b.Instrs {
			st, ok := in.(*ssa.Store)
			if !ok {
				continue
			}
			fa, ok := st.Addr.(*ssa.FieldAddr)
			if !ok || !isFieldOf(fa, "VMOutput", "GasRemaining") || !isGasProvidedTerm(e.Term(st.Val)) {
				continue
			}
			if _, ok := e.CutAt(st, excused, nil); ok {
				continue
			}
			// followed by a charge on every path to a success return?
			after := map[edge]bool{}
			for cb := range chargeBlocks {
				if cb != b {
					for _, s := range cb.Succs {
						after[edge{cb, s}] = true
					}
				}
			}
			for _, r := range returnsOf(fn) {
				if isSuccessReturn(r) && r.Block() != b && reachableAvoiding(b, r.Block(), after) {
					if _, inCharge := chargeBlocks[r.Block()]; !inCharge {
						return false, "GasRemaining is reset to the full GasProvided at " + p.InstrPos(st) + " on a sender-side path and returned uncharged"
					}
				}
			}
		}
	}
	return true, strings.Join(uniq(whys), " ; ")
}
