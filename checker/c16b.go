package main

// C16-R5: the per-byte store price multiplies the bytes that are stored. For the three functions that write caller-supplied
// bytes into an NFT entry (create, add URIs, update attributes) the length that is multiplied by StorePerByte must cover
// every argument that is stored into the entry: a price computed from the first URI only leaves the others unpriced.

import (
	"fmt"
	"go/token"
	"regexp"
	"sort"
	"strings"

	"golang.org/x/tools/go/ssa"
)

// argRange: a half-open range of positions of the call's argument list; hi < 0 means "to the end".
type argRange struct{ lo, hi int64 }

func (r argRange) String() string {
	if r.hi < 0 {
		return fmt.Sprintf("[%d:]", r.lo)
	}
	if r.hi == r.lo+1 {
		return fmt.Sprintf("[%d]", r.lo)
	}
	return fmt.Sprintf("[%d:%d]", r.lo, r.hi)
}

func (r argRange) covers(o argRange) bool {
	if o.lo < r.lo {
		return false
	}
	if r.hi < 0 {
		return true
	}
	return o.hi >= 0 && o.hi <= r.hi
}

var (
	argElemTermRe  = regexp.MustCompile(`^\*\*P:[A-Za-z_0-9]+\.VMInput\.Arguments\[(\d+)\]$`)
	argSliceTermRe = regexp.MustCompile(`^\*P:[A-Za-z_0-9]+\.VMInput\.Arguments\[(\d*):(\d*)\]$`)
	argListTermRe  = regexp.MustCompile(`^\*P:[A-Za-z_0-9]+\.VMInput\.Arguments$`)
)

// argRangeOfTerm: the positions of the argument list a term denotes (an element, a sub-list, the whole list).
func argRangeOfTerm(t string) (argRange, bool) {
	if m := argElemTermRe.FindStringSubmatch(t); m != nil {
		var k int64
		fmt.Sscan(m[1], &k)
		return argRange{k, k + 1}, true
	}
	if m := argSliceTermRe.FindStringSubmatch(t); m != nil {
		var lo, hi int64 = 0, -1
		if m[1] != "" {
			fmt.Sscan(m[1], &lo)
		}
		if m[2] != "" {
			fmt.Sscan(m[2], &hi)
		}
		return argRange{lo, hi}, true
	}
	if argListTermRe.MatchString(t) {
		return argRange{0, -1}, true
	}
	return argRange{}, false
}

// pricedRanges: the positions of the argument list whose byte lengths make up v: len(Arguments[k]), a sum of such, or the
// accumulated length of every element of a (sub-)list in a loop, possibly computed by a helper.
func pricedRanges(e *Env, v ssa.Value, depth int, seen map[ssa.Value]bool) ([]argRange, bool) {
	if depth > 10 || seen[v] {
		return nil, false
	}
	seen[v] = true
	defer delete(seen, v)
	switch x := v.(type) {
	case *ssa.Convert:
		return pricedRanges(e, x.X, depth+1, seen)
	case *ssa.ChangeType:
		return pricedRanges(e, x.X, depth+1, seen)
	case *ssa.Const:
		if k, ok := constInt(x); ok && k == 0 {
			return nil, true
		}
	case *ssa.Parameter:
		if a, pe := e.actual(x); a != nil {
			return pricedRanges(pe, a, depth+1, seen)
		}
	case *ssa.UnOp:
		if f := forwarded(x); f != nil {
			return pricedRanges(e, f, depth+1, seen)
		}
	case *ssa.BinOp:
		if x.Op == token.ADD {
			a, ok1 := pricedRanges(e, x.X, depth+1, seen)
			b, ok2 := pricedRanges(e, x.Y, depth+1, seen)
			return append(a, b...), ok1 && ok2
		}
	case *ssa.Call:
		if bi, ok := x.Call.Value.(*ssa.Builtin); ok && bi.Name() == "len" {
			arg := x.Call.Args[0]
			if r, ok := argRangeOfTerm(e.Term(arg)); ok && r.hi == r.lo+1 {
				return []argRange{r}, true
			}
			// the head of a list that a loop consumes one element at a time (`for ; len(xs) > 0; xs = xs[1:] { … xs[0] … }`)
			if ld, ok := arg.(*ssa.UnOp); ok && ld.Op == token.MUL {
				if ia, ok := ld.X.(*ssa.IndexAddr); ok {
					if ph, isPhi := ia.X.(*ssa.Phi); isPhi {
						if k, isK := constInt(ia.Index); isK && k == 0 {
							if init, adv, ok := e.sliceInduction(ph); ok && len(adv.c) == 1 && adv.k == 0 {
								one := false
								for _, cf := range adv.c {
									one = cf == 1
								}
								if one {
									ie, iv := e, init
									if par, isPar := init.(*ssa.Parameter); isPar {
										if a, pe := e.actual(par); a != nil {
											ie, iv = pe, a
										}
									}
									if r, ok := argRangeOfTerm(ie.Term(iv)); ok {
										return []argRange{r}, true
									}
								}
							}
						}
					}
				}
			}
			// the element of a list that a loop walks: every position of that list
			if ld, ok := arg.(*ssa.UnOp); ok && ld.Op == token.MUL {
				if ia, ok := ld.X.(*ssa.IndexAddr); ok {
					if _, isPhi := ia.Index.(*ssa.Phi); isPhi || isLoopCounter(ia.Index) {
						if be, base, off, ok := e.sliceBase(ia.X, 0); ok && off.isConst() {
							if r, ok := argRangeOfTerm(be.Term(base)); ok {
								return []argRange{{r.lo + off.k, r.hi}}, true
							}
						}
						if r, ok := argRangeOfTerm(e.Term(ia.X)); ok {
							return []argRange{r}, true
						}
					}
				}
			}
			return nil, false
		}
		if sc := x.Call.StaticCallee(); sc != nil && len(sc.Blocks) > 0 && sc.Pkg != nil && strings.HasPrefix(sc.Pkg.Pkg.Path(), modPath) && e.depth < maxDepth {
			sub := e.Sub(x, sc)
			var out []argRange
			for _, r := range returnsOf(sc) {
				if len(r.Results) != 1 {
					return nil, false
				}
				rs, ok := pricedRanges(sub, r.Results[0], depth+1, seen)
				if !ok {
					return nil, false
				}
				out = append(out, rs...)
			}
			return out, true
		}
	case *ssa.Phi:
		// an accumulator: 0 (or a priced start) plus priced lengths added around the loop
		var out []argRange
		for _, ed := range x.Edges {
			if bo, ok := ed.(*ssa.BinOp); ok && bo.Op == token.ADD && (bo.X == ssa.Value(x) || bo.Y == ssa.Value(x)) {
				other := bo.Y
				if bo.Y == ssa.Value(x) {
					other = bo.X
				}
				rs, ok := pricedRanges(e, other, depth+1, seen)
				if !ok {
					return nil, false
				}
				out = append(out, rs...)
				continue
			}
			rs, ok := pricedRanges(e, ed, depth+1, seen)
			if !ok {
				return nil, false
			}
			out = append(out, rs...)
		}
		return out, true
	}
	return nil, false
}

// isLoopCounter: the index is the (hidden) counter of a range loop: φ + 1 or a φ.
func isLoopCounter(v ssa.Value) bool {
	switch x := v.(type) {
	case *ssa.Phi:
		return true
	case *ssa.BinOp:
		if x.Op == token.ADD {
			_, a := x.X.(*ssa.Phi)
			_, b := x.Y.(*ssa.Phi)
			return a || b
		}
	}
	return false
}

func c16r5(c *Ctx) {
	const rule = "C16-R5"
	c.Rule(rule, "the per-byte store price multiplies the length of every argument that is stored into the entry", 3)
	regs := c.P.RegByName()
	for _, sp := range loadRegSpec() {
		hasStore := false
		for _, pb := range sp.PerByte {
			if pb == "StorePerByte" {
				hasStore = true
			}
		}
		r, ok := regs[sp.Name]
		if !hasStore || !ok || r.Entry == nil {
			continue
		}
		x, okx := entryContext(r.Entry)
		if !okx {
			continue
		}
		// what is stored: caller-supplied arguments written into fields of a token entry or its metadata
		isEntryStore := func(in ssa.Instruction) (string, bool) {
			st, ok := in.(*ssa.Store)
			if !ok {
				return "", false
			}
			fa, ok := st.Addr.(*ssa.FieldAddr)
			if !ok {
				return "", false
			}
			t := fa.X.Type().String()
			if strings.HasSuffix(t, "esdt.MetaData") || strings.HasSuffix(t, "esdt.ESDigitalToken") {
				return "entry", true
			}
			return "", false
		}
		var stored []argRange
		storedAt := map[string]string{}
		for _, s := range c.P.EffectSitesBelow(c.P.Env(r.Entry), "c16entrystore", isEntryStore) {
			st := s.In.(*ssa.Store)
			vals := []ssa.Value{st.Val}
			if call, ok := st.Val.(*ssa.Call); ok {
				if bi, ok := call.Call.Value.(*ssa.Builtin); ok && bi.Name() == "append" {
					vals = []ssa.Value{call.Call.Args[1]}
				}
			}
			for _, v := range vals {
				if rg, ok := argRangeOfTerm(s.Env.Term(v)); ok {
					stored = append(stored, rg)
					storedAt[rg.String()] = c.P.InstrPos(st)
				}
			}
		}
		if len(stored) == 0 {
			continue // stores no caller-supplied bytes into an entry (SaveKeyValue prices the change of its values: C06 / R2)
		}
		// what is priced: the other operand of every multiplication by the store price
		isMul := func(in ssa.Instruction) (string, bool) {
			bo, ok := in.(*ssa.BinOp)
			if !ok || bo.Op != token.MUL {
				return "", false
			}
			return "mul", true
		}
		var priced []argRange
		nmul, undecided := 0, ""
		for _, s := range c.P.EffectSitesBelow(c.P.Env(r.Entry), "c16mul", isMul) {
			bo := s.In.(*ssa.BinOp)
			var other ssa.Value
			if strings.HasSuffix(s.Env.Term(bo.X), ".StorePerByte") {
				other = bo.Y
			} else if strings.HasSuffix(s.Env.Term(bo.Y), ".StorePerByte") {
				other = bo.X
			}
			if other == nil {
				continue
			}
			nmul++
			rs, ok := pricedRanges(s.Env, other, 0, map[ssa.Value]bool{})
			if !ok {
				undecided = "the quantity multiplied by the store price at " + c.P.InstrPos(bo) + " (" + s.Env.Term(other) + ") is not a sum of argument lengths"
			}
			priced = append(priced, rs...)
		}
		_ = x
		construct := sp.Name + ": stored argument bytes are priced"
		pos := c.P.Pos(r.Entry.Pos())
		if nmul == 0 {
			c.Fail(rule, "violation", FuncName(r.Entry), construct, pos, "arguments are stored into the entry but nothing is multiplied by the store price")
			continue
		}
		if undecided != "" {
			c.Fail(rule, "undecided", FuncName(r.Entry), construct, pos, undecided)
			continue
		}
		var missing []string
		for _, sr := range stored {
			ok := false
			for _, pr := range priced {
				if pr.covers(sr) {
					ok = true
				}
			}
			if !ok {
				missing = append(missing, "Arguments"+sr.String()+" (stored at "+storedAt[sr.String()]+")")
			}
		}
		var ps []string
		for _, pr := range priced {
			ps = append(ps, pr.String())
		}
		sort.Strings(ps)
		if len(missing) == 0 {
			c.OK(rule, FuncName(r.Entry), construct, pos, "priced positions {"+strings.Join(uniq(ps), ", ")+"} cover every stored argument")
		} else {
			sort.Strings(missing)
			c.FailX(Oblig{Rule: rule, Func: FuncName(r.Entry), Construct: construct, Pos: pos, Kind: "violation",
				Detail:   "the store price is charged for Arguments{" + strings.Join(uniq(ps), ", ") + "} only, but " + strings.Join(uniq(missing), ", ") + " is stored as well: those bytes are written for free",
				Expected: "StorePerByte × the total length of everything stored"})
		}
	}
}

// hasPriceComponent: the number v contains a component priced by the named schedule field on every way it is computed —
// as a linear form, as a φ all of whose alternatives do, or as the result of a module function all of whose returns do.
func hasPriceComponent(e *Env, v ssa.Value, field string, depth int) bool {
	if depth > 4 {
		return false
	}
	if strings.Contains(e.LE(v).String(), field) {
		return true
	}
	switch x := v.(type) {
	case *ssa.Phi:
		if len(x.Edges) == 0 {
			return false
		}
		for _, ed := range x.Edges {
			if ed == ssa.Value(x) {
				continue
			}
			if !hasPriceComponent(e, ed, field, depth+1) {
				return false
			}
		}
		return true
	case *ssa.BinOp:
		if x.Op == token.ADD {
			return hasPriceComponent(e, x.X, field, depth+1) || hasPriceComponent(e, x.Y, field, depth+1)
		}
	case *ssa.Extract:
		// one result of a helper that prices a pair and reports something else as well (`cost, changed := price(…)`)
		call, ok := x.Tuple.(*ssa.Call)
		if !ok {
			return false
		}
		sc := call.Call.StaticCallee()
		if sc == nil || len(sc.Blocks) == 0 || sc.Pkg == nil || !strings.HasPrefix(sc.Pkg.Pkg.Path(), modPath) || e.depth >= maxDepth {
			return false
		}
		sub := e.Sub(call, sc)
		rets := returnsOf(sc)
		for _, r := range rets {
			if x.Index >= len(r.Results) || !hasPriceComponent(sub, retval(r, x.Index), field, depth+1) {
				return false
			}
		}
		return len(rets) > 0
	case *ssa.Call:
		sc := x.Call.StaticCallee()
		if sc == nil || len(sc.Blocks) == 0 || sc.Pkg == nil || !strings.HasPrefix(sc.Pkg.Pkg.Path(), modPath) || e.depth >= maxDepth {
			return false
		}
		sub := e.Sub(x, sc)
		rets := returnsOf(sc)
		for _, r := range rets {
			if len(r.Results) == 0 || !hasPriceComponent(sub, retval(r, 0), field, depth+1) {
				return false
			}
		}
		return len(rets) > 0
	}
	return false
}

// c16r7: "stored bytes for … key-value saves": SaveKeyValue charges every listed pair its persist price
// (len(key)+len(value))·PersistPerByte — also a pair whose value turns out to be what is stored already. In the loop over
// the pairs no turn reaches the next one without having added a PersistPerByte component to the gas that is charged; a
// charge moved behind the "unchanged value" shortcut makes such pairs free.
func c16r7(c *Ctx) {
	const rule = "C16-R7"
	c.Rule(rule, "SaveKeyValue adds the persist price of every listed pair: no turn of the pair loop reaches the next one uncharged", 1)
	r, ok := c.P.RegByName()["SaveKeyValue"]
	if !ok || r.Entry == nil {
		c.Anchor(rule, "entry point of SaveKeyValue")
		return
	}
	fn := r.Entry
	e := c.P.Env(fn)
	// charge sites: additions whose value has a PersistPerByte component
	charges := map[*ssa.BasicBlock]bool{}
	for _, b := range fn.Blocks {
		for _, in := range b.Instrs {
			bo, ok := in.(*ssa.BinOp)
			if !ok || bo.Op != token.ADD || !isUnsignedT(bo.Type()) {
				continue
			}
			px, py := hasPriceComponent(e, bo.X, "PersistPerByte", 0), hasPriceComponent(e, bo.Y, "PersistPerByte", 0)
			if (px || py) && !(px && py) {
				charges[b] = true // the step that brings the component in (not a later sum that merely carries it)
			}
		}
	}
	// … and calls of helpers that add the component on every path to a successful return (the charge moved into a per-pair
	// step of a split execution)
	var chargesAlways func(f *ssa.Function, depth int) bool
	chargesAlways = func(f *ssa.Function, depth int) bool {
		if f == nil || len(f.Blocks) == 0 || depth > 3 || !c.P.InPkgs(f, "builtInFunctions") {
			return false
		}
		fe := c.P.Env(f)
		bar := map[ssa.Instruction]bool{}
		for _, b := range f.Blocks {
			for _, in := range b.Instrs {
				switch x := in.(type) {
				case *ssa.BinOp:
					if x.Op == token.ADD && isUnsignedT(x.Type()) {
						px, py := hasPriceComponent(fe, x.X, "PersistPerByte", 0), hasPriceComponent(fe, x.Y, "PersistPerByte", 0)
						if (px || py) && !(px && py) {
							bar[in] = true
						}
					}
				case *ssa.Call:
					if sc := x.Call.StaticCallee(); sc != nil && sc != f && chargesAlways(sc, depth+1) {
						bar[in] = true
					}
				}
			}
		}
		if len(bar) == 0 {
			return false
		}
		for _, r := range returnsOf(f) {
			if lastIsError(f) && !isSuccessReturn(r) {
				continue
			}
			if bar[f.Blocks[0].Instrs[0]] {
				continue
			}
			if reachesAvoiding(f, f.Blocks[0].Instrs[0], r, bar, nil) {
				return false
			}
		}
		return true
	}
	for _, b := range fn.Blocks {
		for _, in := range b.Instrs {
			if call, ok := in.(*ssa.Call); ok {
				if sc := call.Call.StaticCallee(); sc != nil && sc != fn && chargesAlways(sc, 0) {
					charges[b] = true
				}
			}
		}
	}
	n := 0
	writeLoops := 0
	for _, h := range fn.Blocks {
		// the loop over the pairs: a loop header (a back edge arrives from a block it dominates) whose loop contains the
		// storage write of the pairs, directly or in a helper — whatever drives it (a counter, a slice consumed two at a time)
		isHeader := false
		for _, pb := range h.Preds {
			if pb != h && h.Dominates(pb) {
				isHeader = true
			}
		}
		if !isHeader {
			continue
		}
		inLoop := func(b *ssa.BasicBlock) bool { return b != h && h.Dominates(b) && blockReaches(b, h, nil) }
		writes := false
		for _, b := range fn.Blocks {
			if !inLoop(b) {
				continue
			}
			for _, in := range b.Instrs {
				ci, ok := in.(ssa.CallInstruction)
				if !ok {
					continue
				}
				if InvokeName(ci) == "AccountDataHandler.SaveKeyValue" {
					writes = true
				} else if sc := ci.Common().StaticCallee(); sc != nil && len(sc.Blocks) > 0 && reachesInvoke(c.P, sc, "AccountDataHandler.SaveKeyValue", 0) {
					writes = true
				}
			}
		}
		if !writes {
			continue
		}
		writeLoops++
		has := false
		for b := range charges {
			if inLoop(b) {
				has = true
			}
		}
		if !has {
			if len(charges) > 0 {
				// the pairs are written here but priced somewhere else (a pass of its own before the first write)
				n++
				c.FailX(Oblig{Rule: rule, Func: FuncName(fn), Construct: "pair loop at " + c.P.InstrPos(h.Instrs[0]) + ": every turn adds a PersistPerByte component", Pos: c.P.InstrPos(h.Instrs[0]), Kind: "violation",
					Detail:   "the loop that writes the pairs adds no per-byte charge: the pairs are priced in a separate pass, against the values stored before the call — a key listed twice is charged for growth it does not cause (or not for growth it does), so the gas consumed is not the schedule's price of what was stored",
					Expected: "each pair is priced in the turn that writes it, against what the account holds at that moment"})
			}
			continue
		}
		n++
		construct := "pair loop at " + c.P.InstrPos(h.Instrs[0]) + ": every turn adds a PersistPerByte component"
		skipped := ""
		for _, s := range h.Succs {
			if !inLoop(s) && !charges[s] {
				continue
			}
			vis := map[*ssa.BasicBlock]bool{}
			var walk func(x *ssa.BasicBlock) bool
			walk = func(x *ssa.BasicBlock) bool {
				if x == h {
					return true
				}
				if vis[x] || charges[x] {
					return false
				}
				vis[x] = true
				for _, y := range x.Succs {
					if walk(y) {
						return true
					}
				}
				return false
			}
			if walk(s) {
				skipped = "a turn entering at b" + fmt.Sprint(s.Index) + " reaches the next pair without any PersistPerByte component having been added"
			}
		}
		if skipped == "" {
			c.OK(rule, FuncName(fn), construct, c.P.InstrPos(h.Instrs[0]), "the persist charge lies on every path through a turn")
		} else {
			c.FailX(Oblig{Rule: rule, Func: FuncName(fn), Construct: construct, Pos: c.P.InstrPos(h.Instrs[0]), Kind: "violation",
				Detail:   skipped + ": a listed pair (e.g. one whose value equals the stored one) is not charged its documented persist price, so a successful call consumes less than the schedule says",
				Expected: "useGas += (len(key)+len(value)) * PersistPerByte for every listed pair, before any shortcut"})
		}
	}
	_ = writeLoops
	if n == 0 {
		c.Anchor(rule, "the pair loop of SaveKeyValue with its persist charge")
	}
}
