package main

// C17 — a failing dependency is never reported as success (E-ERR).
// For every call below an entry point that can fail — an injected-dependency method returning error (except the
// fail-soft RetrieveValue) or any module function returning error (a carrier) — assume the error is non-nil and explore
// the CFG from the call, pruning only on tests of that very error value: every reachable return must carry a non-nil
// error. By induction over the call depth a dependency failure reaches the caller of ProcessBuiltinFunction.

import (
	"fmt"
	"go/token"
	"go/types"
	"sort"
	"strings"

	"golang.org/x/tools/go/ssa"
)

func init() {
	register(&Property{
		ID:    "C17",
		Level: "proof",
		Explanation: "For every error-returning call site reachable from the 19 ProcessBuiltinFunction implementations (dependency methods SaveKeyValue/LoadAccount/SaveAccount/Marshal/Unmarshal/IsPayable/" +
			"AddToBalance/ChangeOwnerAddress/ClaimDeveloperRewards/CheckAllowedToExecute and every module function returning error) the checker assumes the returned error is non-nil and explores all CFG paths " +
			"from the call, pruning only on nil-tests of that same value (and errors.Is against a module sentinel, which a dependency fault is not — checked where it is used: for every sentinel a caller tolerates on a carrier call, no block of the carrier entered through the failure edge of a dependency loads that sentinel, to return it or to wrap it): every reachable return of the enclosing function must return a " +
			"definitely non-nil error (the value itself, a never-reassigned Err* global, fmt.Errorf/errors.New, another error on its non-nil edge). Entry points return (nil, err) on those paths (R2). " +
			"By induction over call depth a failing dependency call always surfaces as an error of ProcessBuiltinFunction, for every input and every fault position. Excluded by the property: RetrieveValue and the " +
			"pause lookup (IsPaused). Not decided: panics, dependencies that signal failure without an error.",
		Trusted: []string{"A-deps: a dependency signals failure by a non-nil error", "no panics on the explored paths (C11)"},
		Rules:   []func(*Ctx){c17r1, c17r2},
	})
}

func isErrorType(t types.Type) bool { return t.String() == "error" }

// definitelyNonNilErr: v is a non-nil error given that every value in `known` is non-nil.
func definitelyNonNilErr(p *Prog, v ssa.Value, known map[ssa.Value]bool) (string, bool) {
	if known[v] {
		return "the failing error itself", true
	}
	switch x := v.(type) {
	case *ssa.Const:
		return "nil", false
	case *ssa.UnOp:
		if x.Op == token.MUL {
			if g, ok := x.X.(*ssa.Global); ok && p.sentinelError(g) {
				return "sentinel " + g.Name(), true
			}
		}
	case *ssa.Call:
		switch CalleeName(x) {
		case "fmt.Errorf", "errors.New":
			return CalleeName(x), true
		}
		if testedNonNil(x) {
			return "error on its own non-nil edge", true
		}
	case *ssa.MakeInterface:
		return "concrete error value", true
	case *ssa.Extract:
		if testedNonNil(x) {
			return "error on its own non-nil edge", true
		}
	case *ssa.Phi:
		for _, ed := range x.Edges {
			if _, ok := definitelyNonNilErr(p, ed, known); !ok {
				return "φ with a possibly nil arm", false
			}
		}
		return "φ of non-nil errors", true
	}
	return "value not known to be non-nil", false
}

// testedNonNil is used for return operands only: every return that uses v sits in a block entered solely through the
// non-nil edge of a test `v != nil` / `v == nil`.
func testedNonNil(v ssa.Value) bool {
	refs := v.Referrers()
	if refs == nil {
		return false
	}
	found := false
	for _, r := range *refs {
		ret, ok := r.(*ssa.Return)
		if !ok {
			continue
		}
		b := ret.Block()
		if len(b.Preds) != 1 {
			return false
		}
		pb := b.Preds[0]
		iff, ok := pb.Instrs[len(pb.Instrs)-1].(*ssa.If)
		if !ok {
			return false
		}
		bo, ok := iff.Cond.(*ssa.BinOp)
		if !ok || !(bo.X == v && isNilConst(bo.Y)) {
			return false
		}
		if !(bo.Op == token.NEQ && pb.Succs[0] == b || bo.Op == token.EQL && pb.Succs[1] == b) {
			return false
		}
		found = true
	}
	return found
}

var sentinelCache = map[*ssa.Global]int{}

// sentinelError: package-level error variable initialised once (errors.New / fmt.Errorf) and never reassigned.
func (p *Prog) sentinelError(g *ssa.Global) bool {
	if r, ok := sentinelCache[g]; ok {
		return r == 1
	}
	res := 0
	if isErrorType(g.Type().(*types.Pointer).Elem()) {
		n, good := 0, true
		for _, fn := range p.allFuncsIncludingInit() {
			for _, b := range fn.Blocks {
				for _, in := range b.Instrs {
					if st, ok := in.(*ssa.Store); ok && st.Addr == ssa.Value(g) {
						n++
						if fn.Name() != "init" {
							good = false
						}
						if c, ok := st.Val.(*ssa.Call); !ok || (CalleeName(c) != "errors.New" && CalleeName(c) != "fmt.Errorf") {
							good = false
						}
					}
				}
			}
		}
		if n == 1 && good {
			res = 1
		}
	}
	sentinelCache[g] = res
	return res == 1
}

type errSite struct {
	call *ssa.Call
	kind string
	name string
}

// errorSites: calls in fn whose last result is an error and that the property covers.
func errorSites(p *Prog, fn *ssa.Function) []errSite {
	var out []errSite
	for _, b := range fn.Blocks {
		for _, in := range b.Instrs {
			call, ok := in.(*ssa.Call)
			if !ok {
				continue
			}
			res := call.Call.Signature().Results()
			if res.Len() == 0 || !isErrorType(res.At(res.Len()-1).Type()) {
				continue
			}
			cc := call.Common()
			if cc.IsInvoke() {
				recv := cc.Value.Type()
				n, ok := recv.(*types.Named)
				if !ok || n.Obj().Pkg() == nil || n.Obj().Pkg().Path() != modPath {
					continue
				}
				if cc.Method.Name() == "RetrieveValue" {
					continue // fail-soft by interface design (excluded by the property)
				}
				kind := "dependency"
				if len(p.Callees(call)) > 0 {
					kind = "carrier(interface)"
				}
				out = append(out, errSite{call, kind, n.Obj().Name() + "." + cc.Method.Name()})
				continue
			}
			sc := cc.StaticCallee()
			if sc == nil {
				if _, isBuiltin := cc.Value.(*ssa.Builtin); !isBuiltin {
					out = append(out, errSite{call, "dynamic", "call through a function value"})
				}
				continue
			}
			if sc.Pkg != nil && strings.HasPrefix(sc.Pkg.Pkg.Path(), modPath) {
				out = append(out, errSite{call, "carrier", FuncName(sc)})
			}
		}
	}
	return out
}

func errValueOf(call *ssa.Call) ssa.Value {
	res := call.Call.Signature().Results()
	if res.Len() == 1 {
		return call
	}
	for _, r := range *call.Referrers() {
		if ex, ok := r.(*ssa.Extract); ok && ex.Index == res.Len()-1 {
			return ex
		}
	}
	return nil
}

// explore walks all paths from the instruction after `call`, assuming the values in known are non-nil errors.
// It returns a description of the first return that may report success, or "".
func exploreErr(p *Prog, call *ssa.Call, ev ssa.Value) (bad string, path []string, returns int) {
	fn := call.Parent()
	seen := map[errState]bool{}
	keyOf := func(known map[ssa.Value]bool) string {
		var s []string
		for v := range known {
			s = append(s, v.Name())
		}
		sort.Strings(s)
		return strings.Join(s, ",")
	}
	// condition value -> (is a nil test of a known value, truth when non-nil)
	condTruth := func(c ssa.Value, known map[ssa.Value]bool) (bool, bool) {
		neg := false
		for {
			if u, ok := c.(*ssa.UnOp); ok && u.Op == token.NOT {
				neg = !neg
				c = u.X
				continue
			}
			break
		}
		switch x := c.(type) {
		case *ssa.BinOp:
			if (x.Op == token.NEQ || x.Op == token.EQL) && (isNilConst(x.Y) && known[x.X] || isNilConst(x.X) && known[x.Y]) {
				return true, (x.Op == token.NEQ) != neg
			}
		case *ssa.Call:
			// errors.Is(ev, Sentinel): a dependency fault is not a module sentinel
			if CalleeName(x) == "errors.Is" && known[x.Call.Args[0]] {
				if u, ok := x.Call.Args[1].(*ssa.UnOp); ok {
					if g, ok := u.X.(*ssa.Global); ok && p.sentinelError(g) {
						return true, false != neg
					}
				}
			}
		}
		return false, false
	}
	var walk func(b *ssa.BasicBlock, i int, known map[ssa.Value]bool, trail []string) string
	walk = func(b *ssa.BasicBlock, i int, known map[ssa.Value]bool, trail []string) string {
		for ; i < len(b.Instrs); i++ {
			switch in := b.Instrs[i].(type) {
			case *ssa.Store:
				// spill into a local cell (result variable of a function with defer): the cell now holds a known value
				if al, ok := in.Addr.(*ssa.Alloc); ok && known[in.Val] {
					known = cloneKnown(known)
					known[al] = true
				}
			case *ssa.UnOp:
				if in.Op == token.MUL {
					if al, ok := in.X.(*ssa.Alloc); ok && known[al] {
						known = cloneKnown(known)
						known[in] = true
					}
				}
			case *ssa.ChangeInterface:
				if known[in.X] {
					known = cloneKnown(known)
					known[in] = true
				}
			case *ssa.Return:
				returns++
				if len(in.Results) == 0 || !isErrorType(in.Results[len(in.Results)-1].Type()) {
					return "return at " + p.InstrPos(in) + " has no error result: the failure is swallowed"
				}
				rv := retval(in, len(in.Results)-1)
				if why, ok := definitelyNonNilErr(p, rv, known); !ok {
					return "return at " + p.InstrPos(in) + " is reachable with the error set but returns " + why
				}
				if len(in.Results) == 2 && strings.HasSuffix(in.Results[0].Type().String(), "VMOutput") {
					// entry-point shape is C17-R2's business
				}
				return ""
			case *ssa.If:
				if isTest, truth := condTruth(in.Cond, known); isTest {
					s := b.Succs[1]
					if truth {
						s = b.Succs[0]
					}
					return stepInto(p, b, s, known, trail, seen, keyOf, walk)
				}
			case *ssa.Panic:
				return ""
			}
		}
		for _, s := range b.Succs {
			if w := stepInto(p, b, s, known, trail, seen, keyOf, walk); w != "" {
				return w
			}
		}
		return ""
	}
	known := map[ssa.Value]bool{ev: true}
	_ = fn
	bad = walk(call.Block(), indexIn(call)+1, known, []string{fmt.Sprintf("b%d", call.Block().Index)})
	return bad, lastTrail, returns
}

var lastTrail []string

type errState struct {
	b   *ssa.BasicBlock
	key string
}

func cloneKnown(m map[ssa.Value]bool) map[ssa.Value]bool {
	n := map[ssa.Value]bool{}
	for k, v := range m {
		n[k] = v
	}
	return n
}

func stepInto(p *Prog, from, to *ssa.BasicBlock, known map[ssa.Value]bool, trail []string,
	seen map[errState]bool, keyOf func(map[ssa.Value]bool) string,
	walk func(b *ssa.BasicBlock, i int, known map[ssa.Value]bool, trail []string) string) string {
	// φ's of `to` take the value flowing in from `from`
	nk := known
	pi := -1
	for i, pr := range to.Preds {
		if pr == from {
			pi = i
		}
	}
	for _, in := range to.Instrs {
		ph, ok := in.(*ssa.Phi)
		if !ok {
			break
		}
		if pi >= 0 && known[ph.Edges[pi]] {
			if nk[ph] {
				continue
			}
			nk = cloneKnown(nk)
			nk[ph] = true
		} else if nk[ph] {
			nk = cloneKnown(nk)
			delete(nk, ph)
		}
	}
	st := errState{to, keyOf(nk)}
	if seen[st] {
		return ""
	}
	seen[st] = true
	t2 := append(append([]string{}, trail...), fmt.Sprintf("b%d", to.Index))
	w := walk(to, 0, nk, t2)
	if w != "" && lastTrail == nil {
		lastTrail = t2
	}
	return w
}

// carriesDepFailure: fn (transitively) contains an error-returning call on an injected dependency.
func carriesDepFailure(p *Prog, fn *ssa.Function, seen map[*ssa.Function]bool) bool {
	if fn == nil || seen[fn] || len(fn.Blocks) == 0 {
		return false
	}
	seen[fn] = true
	for _, s := range errorSites(p, fn) {
		switch s.kind {
		case "dependency", "dynamic":
			return true
		default:
			for _, callee := range p.Callees(s.call) {
				if carriesDepFailure(p, callee, seen) {
					return true
				}
			}
		}
	}
	// calls without error result cannot carry one
	return false
}

func c17r1(c *Ctx) {
	const rule = "C17-R1"
	c.Rule(rule, "a non-nil error from a dependency or carrier call reaches every return reachable from it", 120)
	c.Axiom("A-deps")
	entries := c.P.EntryPoints()
	if len(entries) < 15 {
		c.Anchor(rule, fmt.Sprintf("implementations of vmcommon.BuiltinFunction.ProcessBuiltinFunction (found %d)", len(entries)))
	}
	reach := c.P.ReachableFrom(entries)
	c.Count("entry points", len(entries))
	c.Count("functions reachable from entry points", len(reach))
	var fns []*ssa.Function
	for fn := range reach {
		if c.P.InPkgs(fn, "builtInFunctions") {
			fns = append(fns, fn)
		}
	}
	sort.Slice(fns, func(i, j int) bool { return FuncName(fns[i]) < FuncName(fns[j]) })
	ndep := 0
	for _, fn := range fns {
		if c.P.implementsMethod(fn, "ESDTPauseHandler", "IsPaused") {
			c.Note("excluded by the property: pause lookup %s (fail-soft by interface design)", FuncName(fn))
			continue
		}
		seenConstruct := map[string]int{}
		for _, s := range errorSites(c.P, fn) {
			e := c.P.Env(fn)
			construct := s.kind + " " + s.name + "(" + e.termList(s.call.Call.Args) + ")"
			seenConstruct[construct]++
			if n := seenConstruct[construct]; n > 1 {
				construct += fmt.Sprintf(" #%d", n)
			}
			if s.kind == "dependency" {
				ndep++
			}
			pos := c.P.InstrPos(s.call)
			if s.kind == "carrier" && !carriesDepFailure(c.P, s.call.Call.StaticCallee(), map[*ssa.Function]bool{}) {
				c.Triv(rule, FuncName(fn), construct, pos, "callee reaches no dependency that can fail: it cannot carry a dependency failure (its own errors are validation results)")
				continue
			}
			ev := errValueOf(s.call)
			if ev == nil {
				c.FailX(Oblig{Rule: rule, Func: FuncName(fn), Construct: construct, Pos: pos, Kind: "violation",
					Detail: "the error result of this call is discarded (never extracted): a failure here is invisible to the caller", Expected: "err checked and returned"})
				continue
			}
			lastTrail = nil
			bad, trail, nret := exploreErr(c.P, s.call, ev)
			if bad != "" {
				c.FailX(Oblig{Rule: rule, Func: FuncName(fn), Construct: construct, Pos: pos, Kind: "violation",
					Detail: "with this call failing, " + bad, Path: trail, Expected: "every path from the failing call returns a non-nil error"})
				continue
			}
			c.OK(rule, FuncName(fn), construct, pos, fmt.Sprintf("all %d returns reachable with the error set return a non-nil error", nret))
		}
	}
	// a tolerated sentinel (`err != nil && !errors.Is(err, ErrX)` lets the call go on) rests on "a dependency fault is not a
	// module sentinel": the function whose error is tested must not report a failed dependency *as* that sentinel
	for _, fn := range fns {
		for _, b := range fn.Blocks {
			for _, in := range b.Instrs {
				is, ok := in.(*ssa.Call)
				if !ok || CalleeName(is) != "errors.Is" || len(is.Call.Args) != 2 {
					continue
				}
				ld, ok := is.Call.Args[1].(*ssa.UnOp)
				if !ok {
					continue
				}
				g, ok := ld.X.(*ssa.Global)
				if !ok || !c.P.sentinelError(g) {
					continue
				}
				src := errSourceCall(is.Call.Args[0], 0)
				if src == nil {
					continue
				}
				sc := src.Call.StaticCallee()
				if sc == nil || len(sc.Blocks) == 0 || sc.Pkg == nil || !strings.HasPrefix(sc.Pkg.Pkg.Path(), modPath) {
					continue
				}
				construct := "tolerated sentinel " + g.Name() + " of " + sc.Name() + " in " + fn.Name()
				if at := sentinelOnFailurePath(c.P, sc, g, map[*ssa.Function]bool{}); at != "" {
					c.FailX(Oblig{Rule: rule, Func: FuncName(fn), Construct: construct, Pos: c.P.InstrPos(is), Kind: "violation",
						Detail:   sc.Name() + " reports a failed dependency as " + g.Name() + " (" + at + "), and " + fn.Name() + " goes on when the error is that sentinel: the failure is swallowed and the call reports success",
						Expected: "a dependency failure is returned as it is, never as (or wrapped into) a sentinel that callers tolerate"})
				} else {
					c.OK(rule, FuncName(fn), construct, c.P.InstrPos(is), "no path from a failed dependency in "+sc.Name()+" builds or returns that sentinel")
				}
			}
		}
	}
	c.Count("dependency call sites", ndep)
	if ndep < 25 {
		c.Fail(rule, "floor", "-", "dependency-sites", "-", fmt.Sprintf("only %d dependency call sites found below the entry points (>= 25 confirmed by hand)", ndep))
	}
}

// errSourceCall: the call whose error result the value is (through φ's of the same call's result and nil).
func errSourceCall(v ssa.Value, depth int) *ssa.Call {
	if depth > 4 {
		return nil
	}
	switch x := v.(type) {
	case *ssa.Call:
		return x
	case *ssa.Extract:
		if c, ok := x.Tuple.(*ssa.Call); ok {
			return c
		}
	case *ssa.Phi:
		var found *ssa.Call
		for _, ed := range x.Edges {
			if isNilConst(ed) {
				continue
			}
			c := errSourceCall(ed, depth+1)
			if c == nil || (found != nil && c != found) {
				return nil
			}
			found = c
		}
		return found
	}
	return nil
}

// sentinelOnFailurePath: somewhere in fn (or in a module function it calls) the sentinel is loaded — to be returned, or to be
// wrapped by fmt.Errorf — in a block that is reachable only after a dependency or carrier call has failed. Returns where.
func sentinelOnFailurePath(p *Prog, fn *ssa.Function, g *ssa.Global, seen map[*ssa.Function]bool) string {
	if seen[fn] || len(seen) > 12 {
		return ""
	}
	seen[fn] = true
	// blocks entered through the failure edge of an error test of a call that can carry a dependency failure
	failed := map[*ssa.BasicBlock]string{}
	for _, s := range errorSites(p, fn) {
		if s.kind == "carrier" && !carriesDepFailure(p, s.call.Call.StaticCallee(), map[*ssa.Function]bool{}) {
			continue
		}
		ev := errValueOf(s.call)
		if ev == nil || ev.Referrers() == nil {
			continue
		}
		for _, u := range *ev.Referrers() {
			bo, ok := u.(*ssa.BinOp)
			if !ok || !(bo.Op == token.NEQ || bo.Op == token.EQL) || !isNilConst(bo.Y) || bo.Referrers() == nil {
				continue
			}
			for _, w := range *bo.Referrers() {
				iff, ok := w.(*ssa.If)
				if !ok || len(iff.Block().Succs) != 2 {
					continue
				}
				fb := iff.Block().Succs[0]
				if bo.Op == token.EQL {
					fb = iff.Block().Succs[1]
				}
				// everything dominated by the failure branch
				for _, b := range fn.Blocks {
					if b == fb || fb.Dominates(b) {
						if len(fb.Preds) == 1 {
							failed[b] = s.name + " at " + p.InstrPos(s.call)
						}
					}
				}
			}
		}
	}
	for _, b := range fn.Blocks {
		for _, in := range b.Instrs {
			if ld, ok := in.(*ssa.UnOp); ok && ld.X == ssa.Value(g) {
				if dep, isFailed := failed[b]; isFailed {
					return "loaded at " + p.InstrPos(ld) + " after the failure of " + dep
				}
			}
			if call, ok := in.(*ssa.Call); ok {
				if sc := call.Call.StaticCallee(); sc != nil && len(sc.Blocks) > 0 && sc.Pkg != nil && strings.HasPrefix(sc.Pkg.Pkg.Path(), modPath) {
					if at := sentinelOnFailurePath(p, sc, g, seen); at != "" {
						return at
					}
				}
			}
		}
	}
	return ""
}

// R2: entry points return (nil, err) or (out, nil): whenever the error operand of a return is not the nil constant the
// output operand is the nil constant (so no caller can mistake a failed call for a result).
func c17r2(c *Ctx) {
	resultShapeRule(c, "C17-R2")
}

// knownNilAt: block b is dominated by the nil side of a nil test of v (or v is the nil constant).
func knownNilAt(v ssa.Value, b *ssa.BasicBlock) bool {
	if isNilConst(v) {
		return true
	}
	refs := v.Referrers()
	if refs == nil {
		return false
	}
	for _, u := range *refs {
		bo, ok := u.(*ssa.BinOp)
		if !ok || !(bo.Op == token.NEQ || bo.Op == token.EQL) || !isNilConst(bo.Y) || bo.Referrers() == nil {
			continue
		}
		for _, w := range *bo.Referrers() {
			iff, ok := w.(*ssa.If)
			if !ok || len(iff.Block().Succs) != 2 {
				continue
			}
			t := iff.Block().Succs[1]
			if bo.Op == token.EQL {
				t = iff.Block().Succs[0]
			}
			if len(t.Preds) == 1 && t.Dominates(b) {
				return true
			}
		}
	}
	return false
}

// mergedShape follows an (output, error) pair backwards through the φ's that merge it: "" if on every incoming path the
// pair is (nil, _) with a non-nil-constant error or (output, error known nil); a description of the offending path
// otherwise; "?" if the structure is not understood.
func mergedShape(out, er ssa.Value, b *ssa.BasicBlock, depth int) string {
	if depth > 8 {
		return "?"
	}
	po, isPO := out.(*ssa.Phi)
	pe, isPE := er.(*ssa.Phi)
	switch {
	case isPO && isPE && po.Block() == pe.Block():
		for k := range po.Edges {
			if w := mergedShape(po.Edges[k], pe.Edges[k], po.Block().Preds[k], depth+1); w != "" {
				return w
			}
		}
		return ""
	case isPO && (!isPE || po.Block() != pe.Block()) && (!isPE || pe.Block().Dominates(po.Block())):
		for k := range po.Edges {
			if w := mergedShape(po.Edges[k], er, po.Block().Preds[k], depth+1); w != "" {
				return w
			}
		}
		return ""
	case isPE:
		for k := range pe.Edges {
			if w := mergedShape(out, pe.Edges[k], pe.Block().Preds[k], depth+1); w != "" {
				return w
			}
		}
		return ""
	}
	switch {
	case isNilConst(out) && isNilConst(er):
		return "a path returns (nil, nil): neither an output nor an error"
	case isNilConst(out):
		return ""
	case knownNilAt(er, b):
		return ""
	case definitelyError(er, b, map[ssa.Value]bool{}):
		return "a path returns an output together with an error"
	}
	return "a path returns an output while the error may be non-nil"
}

func resultShapeRule(c *Ctx, rule string) {
	c.Rule(rule, "entry points never return an output together with an error", 100)
	for _, fn := range c.P.EntryPoints() {
		fns := []*ssa.Function{fn}
		// helpers with the same (*VMOutput, error) result shape that the entry point tail-calls
		for g := range c.P.ReachableFrom([]*ssa.Function{fn}) {
			if g != fn && c.P.InPkgs(g, "builtInFunctions") && g.Signature.Results().Len() == 2 &&
				strings.HasSuffix(g.Signature.Results().At(0).Type().String(), "VMOutput") && isErrorType(g.Signature.Results().At(1).Type()) {
				fns = append(fns, g)
			}
		}
		for _, g := range fns {
			for _, r := range returnsOf(g) {
				if len(r.Results) != 2 {
					continue
				}
				out, er := retval(r, 0), retval(r, 1)
				construct := "return " + c.P.Env(g).Term(out) + ", " + c.P.Env(g).Term(er) + " @" + fmt.Sprint(r.Block().Index)
				switch {
				case isNilConst(er) && !isNilConst(out):
					c.Triv(rule, FuncName(g), construct, c.P.InstrPos(r), "success: output, nil")
				case isNilConst(out) && !isNilConst(er):
					c.OK(rule, FuncName(g), construct, c.P.InstrPos(r), "failure: nil output")
				case isNilConst(out) && isNilConst(er):
					c.FailX(Oblig{Rule: rule, Func: FuncName(g), Construct: construct, Pos: c.P.InstrPos(r), Kind: "violation", Detail: "returns (nil, nil): neither an output nor an error"})
				default:
					// tail call `return f(...)`: both operands are extracts of the same call with the same shape
					if ex0, ok := out.(*ssa.Extract); ok {
						if ex1, ok := er.(*ssa.Extract); ok && ex0.Tuple == ex1.Tuple {
							c.OK(rule, FuncName(g), construct, c.P.InstrPos(r), "tail call: shape checked in the callee")
							continue
						}
					}
					// single exit `return out, err` after nested branches: follow the two merged values edge by edge
					if why := mergedShape(out, er, r.Block(), 0); why == "" {
						c.OK(rule, FuncName(g), construct, c.P.InstrPos(r), "single exit: on every incoming path the pair is (nil, error) or (output, error known nil)")
						continue
					} else if why != "?" {
						c.FailX(Oblig{Rule: rule, Func: FuncName(g), Construct: construct, Pos: c.P.InstrPos(r), Kind: "violation", Detail: why, Expected: "(nil, err) or (output, nil)"})
						continue
					}
					c.FailX(Oblig{Rule: rule, Func: FuncName(g), Construct: construct, Pos: c.P.InstrPos(r), Kind: "violation",
						Detail: "returns a possibly non-nil output together with a possibly non-nil error", Expected: "(nil, err) or (output, nil)"})
				}
			}
		}
	}
}
