package main

// C18 — activation follows confirmed epochs; the registry is complete and correctly bound.

import (
	"fmt"
	"go/token"
	"go/types"
	"regexp"
	"sort"
	"strings"

	"golang.org/x/tools/go/ssa"
)

func init() {
	register(&Property{
		ID:    "C18",
		Level: "proof",
		Explanation: "R1 (registry, finite): the factory's Add calls all lie on the spine of CreateBuiltInFunctionContainer (each one's success edge cuts the success return), their keys fold to 23 pairwise different strings equal to the set of " +
			"BuiltInFunction* constants of the root package, each key is bound to the constructor and constant flags of T-REG, and nothing calls Remove/Replace on the container. R2 (activation, finite): every EpochConfirmed implementation " +
			"passes exactly `epoch >= activationEpoch` to the flag writer; the writer stores the constant the reader compares with when given true and a different constant when given false, by plain stores/swaps that do not depend on the previous value " +
			"(so regressions and repeats follow the last confirmed epoch); IsActive returns that reader; nothing else in builtInFunctions writes the flag; activationEpoch is stored only by the constructor from the parameter the factory feeds with the " +
			"configured ESDTNFTImprovementV1ActivationEpoch; the constructor registers the object with the notifier before every success return; exactly the table's epoch rows use the epoch-driven IsActive, all others return constant true. " +
			"R3: the container's key listing appends every key it reads (no filter by activity or anything else), so what the container reports is what was registered. The activation epoch may be stored in a helper (resolved through all its call sites to the epoch parameter of registered constructors) and may be kept by the factory in a literal map asked with the protocol name (the row of that name). " +
			"A flag held by pointer must be an object allocated for the function object itself (a flag looked up in a shared table lets one function's notifications decide another's activation). All obligations are structural and finite; none is assumed.",
		Trusted: []string{"sync/atomic", "the epoch notifier calls EpochConfirmed for every confirmed epoch", "T-REG (spec/registry.json)"},
		Rules:   []func(*Ctx){c18r1, c18r2, c18r3},
	})
}

func c18r1(c *Ctx) {
	const rule = "C18-R1"
	c.Rule(rule, "the factory registers exactly the protocol's 23 names, each bound to its table constructor and flags, on every successful path", 70)
	fac := c.P.FactoryFunc()
	if fac == nil {
		c.Anchor(rule, "the factory method that fills the container")
		return
	}
	regs := c.P.Registrations()

	spec := map[string]RegSpec{}
	for _, s := range loadRegSpec() {
		spec[s.Name] = s
	}
	// (a) the set of names
	want := map[string]string{}
	sc := c.P.Pkg[""].Pkg.Scope()
	for _, n := range sc.Names() {
		if k, ok := sc.Lookup(n).(*types.Const); ok && strings.HasPrefix(n, "BuiltInFunction") {
			if s, ok := constStringVal(k.Val()); ok {
				want[s] = n
			}
		}
	}
	got := map[string]int{}
	for _, r := range regs {
		got[r.Key]++
	}
	var names []string
	for n := range want {
		names = append(names, n)
	}
	sort.Strings(names)
	for _, n := range names {
		construct := "name " + n + " (" + want[n] + ")"
		switch {
		case got[n] == 1 && spec[n].Name == n:
			c.OK(rule, FuncName(fac), construct, c.P.Pos(fac.Pos()), "registered once; listed in T-REG")
		case got[n] == 0:
			c.Fail(rule, "violation", FuncName(fac), construct, c.P.Pos(fac.Pos()), "protocol name "+n+" is never registered by the factory")
		case got[n] > 1:
			c.Fail(rule, "violation", FuncName(fac), construct, c.P.Pos(fac.Pos()), "protocol name "+n+" is registered twice (the second Add fails and aborts the construction)")
		default:
			c.Fail(rule, "violation", FuncName(fac), construct, c.P.Pos(fac.Pos()), "protocol constant "+want[n]+" has no row in T-REG: the statement fixes the set at 23 names")
		}
	}
	if len(want) != 23 || len(spec) != 23 {
		c.Fail(rule, "violation", FuncName(fac), "23 names", c.P.Pos(fac.Pos()), fmt.Sprintf("%d BuiltInFunction* constants, %d table rows (expected 23/23)", len(want), len(spec)))
	}
	for _, r := range regs {
		pos := c.P.InstrPos(r.Add)
		if _, ok := want[r.Key]; !ok {
			c.Fail(rule, "violation", FuncName(fac), "registration under "+fmt.Sprintf("%q", r.Key), pos, "the factory registers a name that is not one of the protocol's BuiltInFunction* constants")
			continue
		}
		s := spec[r.Key]
		// (b) binding
		construct := r.Key + " -> constructor and flags"
		ctor := "?"
		if r.Ctor != nil {
			ctor = r.Ctor.Name()
		}
		if ctor == s.Ctor && fmt.Sprint(r.Flags) == fmt.Sprint(s.Flags) {
			c.OK(rule, FuncName(fac), construct, pos, fmt.Sprintf("%s%v", ctor, r.Flags))
		} else {
			c.FailX(Oblig{Rule: rule, Func: FuncName(fac), Construct: construct, Pos: pos, Kind: "violation",
				Detail: fmt.Sprintf("%s is bound to %s%v, the protocol binds it to %s%v", r.Key, ctor, r.Flags, s.Ctor, s.Flags), Expected: fmt.Sprintf("%s%v", s.Ctor, s.Flags)})
		}
		// (c) on the spine: the Add's success edge cuts every success return; and the constructor's error is checked
		// (through helpers of the factory: each call of the chain must do so in its own function)
		okAll := true
		if r.Table {
			// registered by the loop over the literal table: the loop visits every element (a range loop), a failing creator
			// or a failing Add ends in an error return, and nothing but the loop's natural exit leads to success
			okAll = tableLoopRegistersAll(c.P, r)
		}
		for _, l := range r.Chain {
			if r.Table && l.call == r.Add {
				continue // judged by the loop rule above
			}
			call := l.call
			pred := func(f Fact) bool { return !f.Lin && f.Pos && f.Call == call && strings.HasPrefix(f.Atom, "ok:") }
			for _, ret := range returnsOf(l.env.Fn) {
				if !isSuccessReturn(ret) {
					continue
				}
				if _, ok := l.env.CutAt(ret, pred, nil); !ok {
					okAll = false
				}
			}
		}
		if okAll {
			c.OK(rule, FuncName(fac), r.Key+" registered on every successful path", pos, "the success edge of this Add cuts the success return")
		} else {
			c.Fail(rule, "violation", FuncName(fac), r.Key+" registered on every successful path", pos, "the container can be returned without "+r.Key+" having been added (conditional registration or unchecked Add)")
		}
	}
	// (d) the returned container is the one filled, and nobody removes or replaces
	bad := ""
	for _, fn := range c.P.Funcs {
		if !c.P.InPkgs(fn, "builtInFunctions") {
			continue
		}
		for _, b := range fn.Blocks {
			for _, in := range b.Instrs {
				if ci, ok := in.(ssa.CallInstruction); ok {
					if n := InvokeName(ci); n == "BuiltInFunctionContainer.Remove" || n == "BuiltInFunctionContainer.Replace" {
						bad = n + " in " + FuncName(fn) + " at " + c.P.InstrPos(in)
					}
				}
			}
		}
	}
	if bad == "" {
		c.OK(rule, FuncName(fac), "no Remove / Replace on the container", c.P.Pos(fac.Pos()), "no call site in builtInFunctions")
	} else {
		c.Fail(rule, "violation", FuncName(fac), "no Remove / Replace on the container", c.P.Pos(fac.Pos()), bad)
	}
}

// tableLoopRegistersAll: in the function that contains the Add of a table-driven registration: (1) the Add lies in a loop
// whose counter is the hidden counter of a `range` (φ[-1, +1], continues while counter+1 < len); (2) from the loop header
// in an iteration, the back edge is not reachable without the Add having succeeded (a failing creator / Add returns an
// error; no `continue`); (3) every success return is reached through the loop's exit edge.
func tableLoopRegistersAll(p *Prog, r Registration) bool {
	add, ok := r.Add.(ssa.Instruction)
	if !ok {
		return false
	}
	fn := add.Parent()
	var lvl *Env
	for _, l := range r.Chain {
		if l.call == r.Add {
			lvl = l.env
		}
	}
	if lvl == nil {
		return false
	}
	// the range header: a block with a φ [-1, φ+1] and an If on (φ+1) < len
	var hdr *ssa.BasicBlock
	for _, b := range fn.Blocks {
		for _, in := range b.Instrs {
			ph, ok := in.(*ssa.Phi)
			if !ok {
				break
			}
			start, step := false, false
			for _, ed := range ph.Edges {
				if k, ok := constInt(ed); ok && k == -1 {
					start = true
				} else if bo, ok := ed.(*ssa.BinOp); ok && bo.Op == token.ADD && bo.X == ssa.Value(ph) {
					if k, ok := constInt(bo.Y); ok && k == 1 {
						step = true
					}
				}
			}
			if start && step && b.Dominates(add.Block()) {
				hdr = b
			}
		}
	}
	if hdr == nil || len(hdr.Succs) != 2 {
		return false
	}
	body, exit := hdr.Succs[0], hdr.Succs[1]
	if !body.Dominates(add.Block()) {
		return false
	}
	// (2) back edge only through the successful Add
	okAdd := map[edge]bool{}
	for ed, fs := range lvl.EdgeFacts() {
		for _, f := range fs {
			if !f.Lin && f.Pos && f.Call == r.Add && strings.HasPrefix(f.Atom, "ok:") {
				okAdd[ed] = true
			}
		}
	}
	if len(okAdd) == 0 || reachableAvoiding(body, hdr, okAdd) {
		return false
	}
	// (3) success only through the loop exit
	cut := map[edge]bool{{hdr, exit}: true}
	for _, ret := range returnsOf(fn) {
		if isSuccessReturn(ret) && reachableAvoiding(fn.Blocks[0], ret.Block(), cut) {
			return false
		}
	}
	return true
}

// flagMethodWrites: constants written to the flag by method m (following calls to other methods of the same type)
// on the blocks selected by sel; ok=false if a write is not a plain constant store/swap.
func flagMethodWrites(p *Prog, m *ssa.Function, sel func(b *ssa.BasicBlock) bool, depth int) (map[int64]bool, string) {
	out := map[int64]bool{}
	if depth > 3 {
		return out, "recursion too deep"
	}
	for _, b := range m.Blocks {
		if sel != nil && !sel(b) {
			continue
		}
		for _, in := range b.Instrs {
			ci, ok := in.(ssa.CallInstruction)
			if !ok {
				continue
			}
			name := CalleeName(ci)
			switch {
			case strings.HasPrefix(name, "sync/atomic.Store") || strings.HasPrefix(name, "sync/atomic.Swap"):
				k, ok := constInt(ci.Common().Args[1])
				if !ok {
					return out, "non-constant value written by " + name
				}
				out[k] = true
			case strings.HasPrefix(name, "sync/atomic.Add") || strings.HasPrefix(name, "sync/atomic.CompareAndSwap"):
				return out, "the flag is written by " + name + ", which depends on the previous value"
			case strings.HasPrefix(name, "sync/atomic.Load"):
			default:
				if sc := ci.Common().StaticCallee(); sc != nil && sc.Signature.Recv() != nil && m.Signature.Recv() != nil && types.Identical(sc.Signature.Recv().Type(), m.Signature.Recv().Type()) {
					w, why := flagMethodWrites(p, sc, nil, depth+1)
					if why != "" {
						return out, why
					}
					for k := range w {
						out[k] = true
					}
				}
			}
		}
	}
	return out, ""
}

// derefNamed: the named type behind T or *T.
func derefNamed(t types.Type) *types.Named {
	if pt, ok := t.Underlying().(*types.Pointer); ok {
		t = pt.Elem()
	}
	n, _ := t.(*types.Named)
	return n
}

// freshValue: v is an object allocated in fn or by a module function all of whose results are allocated by it.
func freshValue(p *Prog, fn *ssa.Function, v ssa.Value, depth int) (bool, string) {
	switch x := v.(type) {
	case *ssa.Alloc:
		return true, ""
	case *ssa.Call:
		if sc := x.Call.StaticCallee(); sc != nil && x.Call.Signature().Results().Len() == 1 {
			return freshResult(p, sc, 0, depth+1)
		}
	case *ssa.Phi:
		for _, ed := range x.Edges {
			if ok, why := freshValue(p, fn, ed, depth+1); !ok {
				return false, why
			}
		}
		return len(x.Edges) > 0, "no value"
	case *ssa.ChangeType:
		return freshValue(p, fn, x.X, depth)
	case *ssa.TypeAssert:
		return false, "taken out of " + p.Env(fn).Term(x.X) + " at " + p.InstrPos(x)
	}
	return false, p.Env(fn).Term(v)
}

func c18r2(c *Ctx) {
	const rule = "C18-R2"
	c.Rule(rule, "the activation flag is `epoch >= activationEpoch` of the last confirmed epoch; epoch rows follow it, all others are constantly active", 36)
	n := c.P.NamedType("", "EpochSubscriberHandler")
	if n == nil {
		c.Anchor(rule, "interface vmcommon.EpochSubscriberHandler")
		return
	}
	impls := c.P.Implementations(n.Underlying().(*types.Interface), "EpochConfirmed")
	var confirmed []*ssa.Function
	seen := map[*ssa.Function]bool{}
	for _, f := range impls {
		if c.P.InPkgs(f, "builtInFunctions") && !seen[f] {
			seen[f] = true
			confirmed = append(confirmed, f)
		}
	}
	if len(confirmed) == 0 {
		c.Anchor(rule, "EpochConfirmed implementation in builtInFunctions")
		return
	}
	var writer, reader *ssa.Function
	flagByPointer := false
	var flagField, epochField string
	var baseType types.Type
	for _, fn := range confirmed {
		e := c.P.Env(fn)
		recv := "P:" + paramName(fn.Params[0])
		epoch := "P:" + paramName(fn.Params[1])
		found := false
		for _, b := range fn.Blocks {
			for _, in := range b.Instrs {
				call, ok := in.(*ssa.Call)
				if !ok {
					continue
				}
				sc := call.Call.StaticCallee()
				if sc == nil || sc.Signature.Recv() == nil || len(call.Call.Args) != 2 || call.Call.Args[1].Type().String() != "bool" {
					continue
				}
				rt := e.Term(call.Call.Args[0])
				if strings.HasPrefix(rt, "*"+recv+".") {
					// the flag is held by pointer: each function object must own its flag object (checked below)
					rt = strings.TrimPrefix(rt, "*")
					flagByPointer = true
				}
				if !strings.HasPrefix(rt, recv+".") {
					continue
				}
				found = true
				writer, flagField, baseType = sc, strings.TrimPrefix(rt, recv+"."), fn.Signature.Recv().Type()
				fs := e.decode(call.Call.Args[1], true, "")
				construct := "flag := " + e.Term(call.Call.Args[1])
				good := false
				for _, f := range fs {
					// a direct comparison of the two epochs: a difference computed first (`int32(activation - epoch) <= 0`) is the same
					// inequality over ideal integers only — in 32-bit machine arithmetic it wraps for epochs 2^31 apart
					if f.Lin && !f.arith && len(f.LE.c) == 2 && f.LE.k == 0 && f.LE.c[epoch] == 1 {
						for a, k := range f.LE.c {
							if k == -1 && strings.HasPrefix(a, "*"+recv+".") {
								good = true
								epochField = strings.TrimPrefix(a, "*"+recv+".")
							}
						}
					}
				}
				if good {
					c.OK(rule, FuncName(fn), construct, c.P.InstrPos(call), "the value handed to the flag writer is exactly epoch >= "+epochField)
					// the write happens for every notification: no path through EpochConfirmed avoids it (a skipped notification makes the flag follow
					// something else than the most recently confirmed epoch)
					cut := map[edge]bool{}
					for _, s := range b.Succs {
						cut[edge{b, s}] = true
					}
					skipped := ""
					for _, r := range returnsOf(fn) {
						if r.Block() != b && reachableAvoiding(fn.Blocks[0], r.Block(), cut) {
							skipped = "return at " + c.P.InstrPos(r) + " is reachable without the flag having been rewritten (path " + strings.Join(pathAvoiding(fn.Blocks[0], r.Block(), cut), ">") + ")"
						}
					}
					if skipped == "" {
						c.OK(rule, FuncName(fn), "flag rewritten on every notification", c.P.InstrPos(call), "the write lies on every path through EpochConfirmed")
					} else {
						c.FailX(Oblig{Rule: rule, Func: FuncName(fn), Construct: "flag rewritten on every notification", Pos: c.P.InstrPos(call), Kind: "violation",
							Detail: "some notifications are ignored, so the flag is not `epoch >= activationEpoch` of the most recently confirmed epoch (regressions / repeats): " + skipped})
					}
				} else {
					c.FailX(Oblig{Rule: rule, Func: FuncName(fn), Construct: construct, Pos: c.P.InstrPos(call), Kind: "violation",
						Detail: "the value handed to the flag writer is not `epoch >= activationEpoch`", Expected: "epoch >= <activation epoch field of the receiver>"})
				}
			}
		}
		if !found {
			c.Anchor(rule, "the flag write in "+FuncName(fn))
		}
	}
	if writer == nil {
		return
	}
	// reader = what IsActive of the same type returns
	ms := c.P.SSA.MethodSets.MethodSet(baseType)
	if sel := ms.Lookup(nil, "IsActive"); sel != nil {
		isActive := unwrapSynthetic(c.P.SSA.MethodValue(sel))
		e := c.P.Env(isActive)
		for _, r := range returnsOf(isActive) {
			if call, ok := retval(r, 0).(*ssa.Call); ok && call.Call.StaticCallee() != nil && len(call.Call.Args) == 1 &&
				strings.HasSuffix(e.Term(call.Call.Args[0]), "."+flagField) {
				reader = call.Call.StaticCallee()
				c.OK(rule, FuncName(isActive), "IsActive returns the flag reader", c.P.InstrPos(r), reader.Name()+"() on ."+flagField)
			} else {
				c.Fail(rule, "violation", FuncName(isActive), "IsActive returns the flag reader", c.P.InstrPos(r), "IsActive of the epoch-driven base does not return the flag written by EpochConfirmed: "+e.Term(retval(r, 0)))
			}
		}
	}
	if reader == nil {
		c.Anchor(rule, "IsActive of the epoch-driven base type")
		return
	}
	// writer(true) / writer(false) / reader constants
	var trueBlocks, falseBlocks map[*ssa.BasicBlock]bool
	if len(writer.Params) == 2 {
		for _, b := range writer.Blocks {
			if iff, ok := b.Instrs[len(b.Instrs)-1].(*ssa.If); ok && iff.Cond == ssa.Value(writer.Params[1]) {
				trueBlocks, falseBlocks = onlyVia(writer, b, 0), onlyVia(writer, b, 1)
			}
		}
	}
	if trueBlocks == nil {
		c.Fail(rule, "undecided", FuncName(writer), "flag writer", c.P.Pos(writer.Pos()), "the writer does not branch on its boolean parameter in a recognised form")
		return
	}
	wt, why1 := flagMethodWrites(c.P, writer, func(b *ssa.BasicBlock) bool { return trueBlocks[b] }, 0)
	wf, why2 := flagMethodWrites(c.P, writer, func(b *ssa.BasicBlock) bool { return falseBlocks[b] }, 0)
	// reader: return Load(&value) == C
	var readC int64 = -1
	re := c.P.Env(reader)
	for _, r := range returnsOf(reader) {
		if bo, ok := retval(r, 0).(*ssa.BinOp); ok && bo.Op == token.EQL {
			if k, ok := constInt(bo.Y); ok {
				if call, ok := bo.X.(*ssa.Call); ok && strings.HasPrefix(CalleeName(call), "sync/atomic.Load") {
					readC = k
				}
			}
		}
		_ = re
	}
	construct := "writer(true) stores what the reader tests; writer(false) stores something else; no dependence on the previous value"
	switch {
	case why1 != "" || why2 != "":
		c.Fail(rule, "violation", FuncName(writer), construct, c.P.Pos(writer.Pos()), why1+why2)
	case readC < 0:
		c.Fail(rule, "undecided", FuncName(reader), construct, c.P.Pos(reader.Pos()), "the reader is not `atomic.Load(&value) == constant`")
	case len(wt) != 1 || !wt[readC]:
		c.Fail(rule, "violation", FuncName(writer), construct, c.P.Pos(writer.Pos()), fmt.Sprintf("writer(true) stores %v but the reader tests == %d", keysOf(wt), readC))
	case len(wf) != 1 || wf[readC]:
		c.Fail(rule, "violation", FuncName(writer), construct, c.P.Pos(writer.Pos()), fmt.Sprintf("writer(false) stores %v; the reader tests == %d: a regression of the epoch would not deactivate", keysOf(wf), readC))
	default:
		c.OK(rule, FuncName(writer), construct, c.P.Pos(writer.Pos()), fmt.Sprintf("true -> %v, false -> %v, reader == %d", keysOf(wt), keysOf(wf), readC))
	}
	// a flag held by pointer: every store into that field puts an object there that was allocated for this function object
	// (in the constructor or a helper that returns a new one) — a flag looked up in a package-level table is shared by every
	// function that resolves to it, and one function's notification history then decides another's activation
	if flagByPointer {
		nst := 0
		for _, fn := range c.P.Funcs {
			if !c.P.InPkgs(fn, "builtInFunctions") {
				continue
			}
			for _, b := range fn.Blocks {
				for _, in := range b.Instrs {
					st, ok := in.(*ssa.Store)
					if !ok {
						continue
					}
					fa, ok := st.Addr.(*ssa.FieldAddr)
					if !ok || fieldName(fa.X.Type(), fa.Field) != flagField || !sameBase(fa.X.Type(), baseType) {
						continue
					}
					nst++
					construct := "own flag object: store into ." + flagField + " in " + fn.Name()
					if fresh, why := freshValue(c.P, fn, st.Val, 0); fresh {
						c.OK(rule, FuncName(fn), construct, c.P.InstrPos(st), "a newly allocated flag")
					} else {
						c.FailX(Oblig{Rule: rule, Func: FuncName(fn), Construct: construct, Pos: c.P.InstrPos(st), Kind: "violation",
							Detail:   "the activation flag object put into the function is not allocated for it (" + why + "): functions that resolve to the same object overwrite each other's state — a function then reports active or inactive according to another one's last notification, not its own",
							Expected: "one flag per function object (`&atomic.Flag{}` in the constructor)"})
					}
				}
			}
		}
		if nst == 0 {
			c.Anchor(rule, "a store of the flag object into ."+flagField)
		}
	}
	// nothing else in builtInFunctions touches the flag
	flagType := writer.Signature.Recv().Type()
	for _, fn := range c.P.Funcs {
		if !c.P.InPkgs(fn, "builtInFunctions") {
			continue
		}
		for _, b := range fn.Blocks {
			for _, in := range b.Instrs {
				ci, ok := in.(ssa.CallInstruction)
				if !ok {
					continue
				}
				sc := ci.Common().StaticCallee()
				if sc == nil || sc.Signature.Recv() == nil || !types.Identical(sc.Signature.Recv().Type(), flagType) {
					continue
				}
				construct := "flag access " + sc.Name() + " in " + fn.Name()
				switch {
				case sc == reader:
					c.Triv(rule, FuncName(fn), construct, c.P.InstrPos(in), "read")
				case sc == writer && seen[fn]:
					c.OK(rule, FuncName(fn), construct, c.P.InstrPos(in), "the write in EpochConfirmed")
				default:
					c.Fail(rule, "violation", FuncName(fn), construct, c.P.InstrPos(in), "the activation flag is written outside EpochConfirmed")
				}
			}
		}
	}
	// activation epoch: stored only by registered constructors, from a parameter fed with the configured epoch
	regs := c.P.Registrations()
	ctorOf := map[*ssa.Function]Registration{}
	for _, r := range regs {
		if r.Ctor != nil {
			ctorOf[r.Ctor] = r
		}
	}
	fac := c.P.FactoryFunc()
	facRecv := ""
	if fac != nil {
		facRecv = "P:" + paramName(fac.Params[0])
	}
	nstores := 0
	for _, fn := range c.P.Funcs {
		if !c.P.InPkgs(fn, "builtInFunctions") {
			continue
		}
		e := c.P.Env(fn)
		for _, b := range fn.Blocks {
			for _, in := range b.Instrs {
				st, ok := in.(*ssa.Store)
				if !ok {
					continue
				}
				fa, ok := st.Addr.(*ssa.FieldAddr)
				if !ok || fieldName(fa.X.Type(), fa.Field) != epochField || !sameBase(fa.X.Type(), baseType) {
					continue
				}
				nstores++
				construct := "store ." + epochField + " = " + e.Term(st.Val) + " in " + fn.Name()
				par, isPar := st.Val.(*ssa.Parameter)
				// the store sits in a registered constructor, or in a helper that only such constructors call with their own
				// epoch parameter (`newBaseEnabled(name, activationEpoch)`)
				type feed struct {
					r   Registration
					idx int
				}
				var feeds []feed
				okFeeds := isPar
				var resolve func(f *ssa.Function, q *ssa.Parameter, depth int)
				resolve = func(f *ssa.Function, q *ssa.Parameter, depth int) {
					idx := -1
					for i, x := range f.Params {
						if x == q {
							idx = i
						}
					}
					if r, isCtor := ctorOf[f]; isCtor && idx >= 0 {
						feeds = append(feeds, feed{r, idx})
						return
					}
					callers := c.P.Callers[f]
					if idx < 0 || depth > 2 || len(callers) == 0 {
						okFeeds = false
						return
					}
					for _, cs := range callers {
						args := cs.Common().Args
						if idx >= len(args) {
							okFeeds = false
							return
						}
						cp, isP := args[idx].(*ssa.Parameter)
						if !isP {
							okFeeds = false
							return
						}
						resolve(cs.Parent(), cp, depth+1)
					}
				}
				if isPar {
					resolve(fn, par, 0)
				}
				if !okFeeds || len(feeds) == 0 {
					c.Fail(rule, "violation", FuncName(fn), construct, c.P.InstrPos(st), "the activation epoch is set outside a registered constructor or not from its parameter")
					continue
				}
				for _, fd := range feeds {
					fed := fd.r.ArgTerms[fd.idx]
					src := factoryFieldSource(c.P, strings.TrimPrefix(fed, "*"+facRecv+"."))
					cons := construct
					if len(feeds) > 1 || fd.r.Ctor != fn {
						cons += " (for " + fd.r.Ctor.Name() + ")"
					}
					// a table of epochs kept by the factory and asked by the protocol name: the row of that name
					if m := lookupTermRe.FindStringSubmatch(fed); m != nil && m[1] == facRecv {
						if row, ok := factoryMapRow(c.P, m[2], m[3]); ok {
							src = row
							fed = "*" + facRecv + "." + m[2] + "[" + m[3] + "]"
						} else {
							src = "no row " + m[3] + " in the table " + m[2] + " (the lookup yields 0: active from genesis)"
						}
					}
					if strings.HasPrefix(fed, "*"+facRecv+".") && strings.HasSuffix(src, ".ESDTNFTImprovementV1ActivationEpoch") {
						c.OK(rule, FuncName(fn), cons, c.P.InstrPos(st), "fed by the factory with "+fed+" <- "+src)
					} else {
						c.Fail(rule, "violation", FuncName(fn), cons, c.P.InstrPos(st), "the constructor's activation epoch is fed with "+fed+" (<- "+src+"), not the configured ESDTNFTImprovementV1ActivationEpoch")
					}
				}
			}
		}
	}
	if nstores == 0 {
		c.Anchor(rule, "stores of the activation epoch field")
	}
	// per registration: activation kind and notifier registration
	for _, s := range loadRegSpec() {
		r, ok := c.P.RegByName()[s.Name]
		if !ok || r.Type == nil {
			continue
		}
		kind := "?"
		if sel := c.P.SSA.MethodSets.MethodSet(r.Type).Lookup(nil, "IsActive"); sel != nil {
			m := unwrapSynthetic(c.P.SSA.MethodValue(sel))
			kind = "other"
			allTrue, viaReader := true, true
			for _, ret := range returnsOf(m) {
				rv := retval(ret, 0)
				if k, ok := boolConst(rv); !ok || !k {
					allTrue = false
				}
				if call, ok := rv.(*ssa.Call); !ok || call.Call.StaticCallee() != reader {
					viaReader = false
				}
			}
			if allTrue {
				kind = "always"
			} else if viaReader {
				kind = "epoch"
			}
		}
		construct := s.Name + ": activation kind"
		if kind == s.Active {
			c.OK(rule, FuncName(r.Ctor), construct, c.P.Pos(r.Ctor.Pos()), kind)
		} else {
			c.Fail(rule, "violation", FuncName(r.Ctor), construct, c.P.Pos(r.Ctor.Pos()), "IsActive of "+s.Name+" is "+kind+", the protocol says "+s.Active)
		}
		if s.Active != "epoch" {
			continue
		}
		// the constructor registers the object it returns with the notifier before every success return
		okAll, n := true, 0
		e := c.P.Env(r.Ctor)
		for _, ret := range returnsOf(r.Ctor) {
			if !isSuccessReturn(ret) {
				continue
			}
			n++
			obj := e.Term(retval(ret, 0))
			found := false
			for _, b := range r.Ctor.Blocks {
				for _, in := range b.Instrs {
					if ci, ok := in.(ssa.CallInstruction); ok && InvokeName(ci) == "EpochNotifier.RegisterNotifyHandler" {
						if e.Term(ci.Common().Args[0]) == obj && (b == ret.Block() || b.Dominates(ret.Block())) {
							if _, isPar := ci.Common().Value.(*ssa.Parameter); isPar {
								found = true
							}
						}
					}
				}
			}
			if !found {
				okAll = false
			}
		}
		construct = s.Name + ": constructor subscribes the object to epoch notifications"
		if okAll && n > 0 {
			c.OK(rule, FuncName(r.Ctor), construct, c.P.Pos(r.Ctor.Pos()), "RegisterNotifyHandler(returned object) dominates every success return")
		} else {
			c.Fail(rule, "violation", FuncName(r.Ctor), construct, c.P.Pos(r.Ctor.Pos()), "the constructed function is never told about confirmed epochs: it stays inactive (or active) forever")
		}
		// and the notifier is the one the factory was configured with
		for i, par := range r.Ctor.Params {
			if strings.HasSuffix(par.Type().String(), ".EpochNotifier") {
				if strings.HasPrefix(r.ArgTerms[i], "*"+facRecv+".") && strings.HasSuffix(factoryFieldSource(c.P, strings.TrimPrefix(r.ArgTerms[i], "*"+facRecv+".")), ".EpochNotifier") {
					c.OK(rule, FuncName(fac), s.Name+": notifier argument", c.P.InstrPos(r.CtorCall), r.ArgTerms[i])
				} else {
					c.Fail(rule, "violation", FuncName(fac), s.Name+": notifier argument", c.P.InstrPos(r.CtorCall), "constructed with notifier "+r.ArgTerms[i])
				}
			}
		}
	}
}

func keysOf(m map[int64]bool) []int64 {
	var out []int64
	for k := range m {
		out = append(out, k)
	}
	sort.Slice(out, func(i, j int) bool { return out[i] < out[j] })
	return out
}

// onlyVia: blocks reachable from successor si of b but not from the other successor (the exclusive part of a branch).
func onlyVia(fn *ssa.Function, b *ssa.BasicBlock, si int) map[*ssa.BasicBlock]bool {
	reach := func(s *ssa.BasicBlock) map[*ssa.BasicBlock]bool {
		m := map[*ssa.BasicBlock]bool{s: true}
		w := []*ssa.BasicBlock{s}
		for len(w) > 0 {
			x := w[len(w)-1]
			w = w[:len(w)-1]
			for _, y := range x.Succs {
				if !m[y] {
					m[y] = true
					w = append(w, y)
				}
			}
		}
		return m
	}
	a, o := reach(b.Succs[si]), reach(b.Succs[1-si])
	out := map[*ssa.BasicBlock]bool{}
	for x := range a {
		if !o[x] {
			out[x] = true
		}
	}
	return out
}

func sameBase(t types.Type, base types.Type) bool {
	strip := func(t types.Type) types.Type {
		if p, ok := t.(*types.Pointer); ok {
			return p.Elem()
		}
		return t
	}
	return types.Identical(strip(t), strip(base))
}

// factoryFieldSource: the term stored into the factory's field `field` by its constructor (single store expected).
var lookupTermRe = regexp.MustCompile(`^lookup\(\*(P:[A-Za-z_0-9]+)\.([A-Za-z_0-9]+),("[^"]*")\)$`)

// factoryMapRow: the factory field is assigned, once, a map built as a literal (directly or by a module function that returns
// the literal); the value of the row with the given constant key.
func factoryMapRow(p *Prog, field, quotedKey string) (string, bool) {
	fac := p.FactoryFunc()
	if fac == nil {
		return "", false
	}
	var vals []ssa.Value
	var envs []*Env
	for _, fn := range p.Funcs {
		if !p.InPkgs(fn, "builtInFunctions") {
			continue
		}
		for _, b := range fn.Blocks {
			for _, in := range b.Instrs {
				if st, ok := in.(*ssa.Store); ok {
					if fa, ok := st.Addr.(*ssa.FieldAddr); ok && fieldName(fa.X.Type(), fa.Field) == field && sameBase(fa.X.Type(), fac.Signature.Recv().Type()) {
						vals = append(vals, st.Val)
						envs = append(envs, p.Env(fn))
					}
				}
			}
		}
	}
	if len(vals) != 1 {
		return "", false
	}
	v, e := vals[0], envs[0]
	if call, ok := v.(*ssa.Call); ok {
		sc := call.Call.StaticCallee()
		if sc == nil || len(sc.Blocks) == 0 || sc.Pkg == nil || !strings.HasPrefix(sc.Pkg.Pkg.Path(), modPath) {
			return "", false
		}
		rets := returnsOf(sc)
		if len(rets) != 1 || len(rets[0].Results) != 1 {
			return "", false
		}
		e = e.Sub(call, sc)
		v = rets[0].Results[0]
	}
	mk, ok := v.(*ssa.MakeMap)
	if !ok || mk.Referrers() == nil {
		return "", false
	}
	row, n := "", 0
	for _, ref := range *mk.Referrers() {
		switch x := ref.(type) {
		case *ssa.MapUpdate:
			k, isK := x.Key.(*ssa.Const)
			if !isK {
				return "", false // a row whose name is computed: the table is not a literal
			}
			if ks, ok := constStringVal(k.Value); ok && fmt.Sprintf("%q", ks) == quotedKey {
				row = e.Term(x.Value)
				n++
			}
		case *ssa.Return, *ssa.Store:
		default:
			if _, isDbg := ref.(*ssa.DebugRef); !isDbg {
				return "", false // the map is handed on or changed elsewhere
			}
		}
	}
	return row, n == 1
}

func factoryFieldSource(p *Prog, field string) string {
	fac := p.FactoryFunc()
	if fac == nil {
		return "?"
	}
	src := "?"
	n := 0
	for _, fn := range p.Funcs {
		if !p.InPkgs(fn, "builtInFunctions") {
			continue
		}
		e := p.Env(fn)
		for _, b := range fn.Blocks {
			for _, in := range b.Instrs {
				if st, ok := in.(*ssa.Store); ok {
					if fa, ok := st.Addr.(*ssa.FieldAddr); ok && fieldName(fa.X.Type(), fa.Field) == field && sameBase(fa.X.Type(), fac.Signature.Recv().Type()) {
						n++
						src = e.Term(st.Val)
					}
				}
			}
		}
	}
	if n != 1 {
		return fmt.Sprintf("?(%d stores)", n)
	}
	return src
}

// c18r3: "contains exactly the 23 names": what the container reports is what was added. In the container's key listing
// (the method returning the set of names) every key of the underlying map that is a string reaches the insertion into the
// result: after the key's type test has succeeded neither the next key nor a return is reachable without it. A listing
// that filters (by activity, by anything) makes the container look smaller than it is, and the schedule broadcast, which
// walks the listing, skips what is filtered.
func c18r3(c *Ctx) {
	const rule = "C18-R3"
	c.Rule(rule, "the container's key listing reports every registered name", 1)
	n := 0
	for _, fn := range c.P.Funcs {
		if !c.P.InPkgs(fn, "builtInFunctions") || fn.Signature.Recv() == nil || fn.Signature.Results().Len() != 1 {
			continue
		}
		if fn.Signature.Results().At(0).Type().String() != "map[string]struct{}" {
			continue
		}
		// the insertion into the returned set
		var upd *ssa.MapUpdate
		var next ssa.Instruction
		var ta ssa.Instruction
		okCut := map[edge]bool{}
		for _, b := range fn.Blocks {
			for _, in := range b.Instrs {
				switch x := in.(type) {
				case *ssa.MapUpdate:
					upd = x
				case *ssa.Next:
					next = x
				case *ssa.TypeAssert:
					if x.CommaOk {
						ta = x
					}
				case *ssa.UnOp, *ssa.IndexAddr:
				}
			}
		}
		// a slice-driven loop has no Next: the loop header is the block holding the index φ
		if next == nil {
			for _, b := range fn.Blocks {
				for _, in := range b.Instrs {
					if ph, ok := in.(*ssa.Phi); ok && isInteger(ph.Type()) && next == nil {
						// the first non-φ instruction of the header
						for _, in2 := range b.Instrs {
							if _, isPhi := in2.(*ssa.Phi); !isPhi {
								next = in2
								break
							}
						}
					}
				}
			}
		}
		if upd == nil || next == nil {
			continue
		}
		n++
		construct := fn.Name() + ": every key reaches the result set"
		from := ta
		if from == nil {
			from = next
		} else {
			// the key is not a string: nothing to report
			for ed, fs := range c.P.Env(fn).EdgeFacts() {
				for _, f := range fs {
					if !f.Lin && !f.Pos && strings.HasPrefix(f.Atom, "cond:ok(") {
						okCut[ed] = true
					}
				}
			}
		}
		barriers := map[ssa.Instruction]bool{upd: true}
		bad := ""
		if from != next && reachesAvoiding(fn, from, next, barriers, okCut) {
			bad = "the loop can go on to the next key"
		}
		if bad != "" {
			c.FailX(Oblig{Rule: rule, Func: FuncName(fn), Construct: construct, Pos: c.P.InstrPos(upd), Kind: "violation",
				Detail:   "after a key has been read " + bad + " without the key having been put into the result: the listing leaves out registered names (Len and Get still know them; the gas-schedule broadcast, which walks the listing, skips them)",
				Expected: "every string key of the underlying map is reported"})
		} else {
			c.OK(rule, FuncName(fn), construct, c.P.InstrPos(upd), "after the key's type test every path to the next key passes the insertion")
		}
	}
	if n == 0 {
		c.Anchor(rule, "the container method that lists the registered names (returns map[string]struct{})")
	}
}
