package main

// C19 — the container, the atomics and gas reconfiguration are safe under concurrency (lockset argument).

import (
	"fmt"
	"go/token"
	"go/types"
	"sort"
	"strings"

	"golang.org/x/tools/go/ssa"
)

func init() {
	register(&Property{
		ID:    "C19",
		Level: "other",
		Explanation: "Interleavings are not enumerated; the classical sound static argument is decided instead. R1 (lockset): a forward dataflow of {unlocked, read, write} per mutex over every function that locks; every exit is unlocked, lock/unlock pair up on " +
			"every path; the fields written under the write lock outside constructors (inferred: MutexMap.values; the cost and per-byte-price fields of the 15 priced function objects) are read only under >= read lock and written only under the write lock — " +
			"in the method itself or, for helpers, at every call site. R2: each ProcessBuiltinFunction of those types takes the read lock before the first guarded read and releases it only by the deferred call (so one execution sees one schedule); " +
			"SetNewGasConfig writes all guarded fields inside one write-locked region. R3: every MutexMap method has exactly one locked region containing all accesses to the map, and each container method's result flows from a single MutexMap call. " +
			"R4: the value fields of package atomic are touched only through sync/atomic (or atomic.Value methods); no method pairs an atomic load with a later atomic store of the same field. R5: all other fields of the function objects are written only by " +
			"their constructor (listed exception: the payable handler, configuration time). R1 also covers state-holding fields touched through methods called on their address (atomic values, sync.Map, the module's atomic wrappers): written under the lock somewhere means guarded; a lock-free atomic read is accepted, an atomic write outside every critical section is reported (a snapshot published after the unlock races with the invalidation under the write lock). Does NOT decide: linearizability of recorded histories as such, the race detector's dynamic view.",
		Trusted: []string{"sync.RWMutex and sync/atomic semantics", "objects are published to other goroutines only after their constructor returned"},
		Rules:   []func(*Ctx){c19r1, c19r3, c19r4, c19r5, c19r6, c19r7},
	})
}

const (
	lkU = 0
	lkR = 1
	lkW = 2
	lkX = 3 // inconsistent
)

var lkName = []string{"unlocked", "read-locked", "write-locked", "inconsistent"}

func mutexOp(c ssa.CallInstruction) (string, ssa.Value) {
	n := CalleeName(c)
	for _, p := range []string{"(*sync.RWMutex).", "(*sync.Mutex)."} {
		if strings.HasPrefix(n, p) {
			return strings.TrimPrefix(n, p), c.Common().Args[0]
		}
	}
	return "", nil
}

type lockAnalysis struct {
	fn     *ssa.Function
	mutex  string                  // term of the (single) mutex the function uses
	in     map[*ssa.BasicBlock]int // state at block entry
	state  map[ssa.Instruction]int // state before each instruction
	defers []string                // deferred unlock ops
	errs   []string
}

func transferLock(st int, op string) (int, string) {
	switch op {
	case "Lock":
		if st == lkU {
			return lkW, ""
		}
		return lkX, "Lock while " + lkName[st] + " (self-deadlock)"
	case "RLock":
		if st == lkU {
			return lkR, ""
		}
		return lkX, "RLock while " + lkName[st]
	case "Unlock":
		if st == lkW {
			return lkU, ""
		}
		return lkX, "Unlock while " + lkName[st]
	case "RUnlock":
		if st == lkR {
			return lkU, ""
		}
		return lkX, "RUnlock while " + lkName[st]
	}
	return st, ""
}

// analyseLocks runs the forward dataflow for the one mutex used in fn, starting in state `entry`.
func analyseLocks(p *Prog, fn *ssa.Function, entry int) *lockAnalysis {
	e := p.Env(fn)
	la := &lockAnalysis{fn: fn, in: map[*ssa.BasicBlock]int{}, state: map[ssa.Instruction]int{}}
	// find the mutex term
	for _, b := range fn.Blocks {
		for _, in := range b.Instrs {
			var cc ssa.CallInstruction
			switch x := in.(type) {
			case *ssa.Call:
				cc = x
			case *ssa.Defer:
				cc = x
			}
			if cc == nil {
				continue
			}
			if op, m := mutexOp(cc); op != "" {
				t := e.Term(m)
				if la.mutex == "" {
					la.mutex = t
				} else if la.mutex != t {
					la.errs = append(la.errs, "two different mutexes in one function: "+la.mutex+" and "+t)
				}
			}
		}
	}
	la.in[fn.Blocks[0]] = entry
	work := []*ssa.BasicBlock{fn.Blocks[0]}
	seen := map[*ssa.BasicBlock]bool{}
	for len(work) > 0 {
		b := work[0]
		work = work[1:]
		st := la.in[b]
		var deferred []string
		_ = deferred
		for _, in := range b.Instrs {
			la.state[in] = st
			switch x := in.(type) {
			case *ssa.Call:
				if op, _ := mutexOp(x); op != "" {
					ns, why := transferLock(st, op)
					if why != "" {
						la.errs = append(la.errs, why+" at "+p.InstrPos(in))
					}
					st = ns
				}
			case *ssa.Defer:
				if op, _ := mutexOp(x); op != "" {
					la.defers = append(la.defers, op)
				}
			case *ssa.RunDefers:
				for i := len(la.defers) - 1; i >= 0; i-- {
					ns, why := transferLock(st, la.defers[i])
					if why != "" {
						la.errs = append(la.errs, "deferred "+why+" at "+p.InstrPos(in))
					}
					st = ns
				}
			case *ssa.Return:
				if st != entry {
					la.errs = append(la.errs, "returns "+lkName[st]+" at "+p.InstrPos(in)+" (entered "+lkName[entry]+")")
				}
			}
		}
		for _, s := range b.Succs {
			if s == fn.Recover {
				continue
			}
			if old, ok := la.in[s]; ok && seen[s] {
				if old != st {
					la.errs = append(la.errs, fmt.Sprintf("paths join at block %d with different lock states (%s / %s)", s.Index, lkName[old], lkName[st]))
				}
				continue
			}
			la.in[s] = st
			if !seen[s] {
				seen[s] = true
				work = append(work, s)
			}
		}
	}
	la.errs = uniq(la.errs)
	return la
}

// structWithMutex: named struct types of the module having a sync.RWMutex / sync.Mutex field.
func typesWithMutex(p *Prog) map[*types.Named]string {
	out := map[*types.Named]string{}
	for _, sp := range p.Pkg {
		if short(sp.Pkg.Path()) == "mock" {
			continue
		}
		for _, m := range sp.Members {
			t, ok := m.(*ssa.Type)
			if !ok {
				continue
			}
			n, ok := t.Type().(*types.Named)
			if !ok {
				continue
			}
			st, ok := n.Underlying().(*types.Struct)
			if !ok {
				continue
			}
			for i := 0; i < st.NumFields(); i++ {
				if ts := st.Field(i).Type().String(); ts == "sync.RWMutex" || ts == "sync.Mutex" {
					out[n] = st.Field(i).Name()
				}
			}
		}
	}
	return out
}

func methodsOf(p *Prog, n *types.Named) []*ssa.Function {
	var out []*ssa.Function
	seen := map[*ssa.Function]bool{}
	for _, t := range []types.Type{n, types.NewPointer(n)} {
		ms := p.SSA.MethodSets.MethodSet(t)
		for i := 0; i < ms.Len(); i++ {
			f := p.SSA.MethodValue(ms.At(i))
			if f != nil && f.Synthetic == "" && !seen[f] && len(f.Blocks) > 0 {
				seen[f] = true
				out = append(out, f)
			}
		}
	}
	sort.Slice(out, func(i, j int) bool { return out[i].Name() < out[j].Name() })
	return out
}

type fieldAccess struct {
	fn    *ssa.Function
	in    ssa.Instruction
	field string
	write bool
	// the write is made by a shared tail helper that is handed the receiver's own mutex and a pointer to the field and
	// stores through the pointer inside its Lock…Unlock (`setCost(&e.mut, &e.cost, &new.cost)`): write-locked by construction
	viaLockedHelper bool
	// a method of a sync/atomic (or module atomic) typed field called on its address: lock-free reads are legitimate, and a
	// write is safe in either lock mode — what it must not be is outside every critical section (a publication that races
	// with an invalidation made under the write lock)
	atomicObj bool
}

var lockedHelperCache = map[*ssa.Function][]int{}

// lockedStoreHelper: a module function with a *sync.(RW)Mutex parameter that is balanced on exactly that mutex and stores
// through pointer parameters only while it holds it for writing. Returns the index of the mutex parameter followed by the
// indices of the pointer parameters written; nil otherwise.
func lockedStoreHelper(p *Prog, sc *ssa.Function) []int {
	if r, ok := lockedHelperCache[sc]; ok {
		return r
	}
	lockedHelperCache[sc] = nil
	if sc == nil || len(sc.Blocks) == 0 || sc.Pkg == nil || !strings.HasPrefix(sc.Pkg.Pkg.Path(), modPath) {
		return nil
	}
	mi := -1
	for i, q := range sc.Params {
		if t := q.Type().String(); t == "*sync.RWMutex" || t == "*sync.Mutex" {
			mi = i
		}
	}
	if mi < 0 {
		return nil
	}
	la := analyseLocks(p, sc, lkU)
	if la.mutex != "P:"+paramName(sc.Params[mi]) || len(la.errs) > 0 {
		return nil
	}
	out := []int{mi}
	for _, b := range sc.Blocks {
		for _, in := range b.Instrs {
			st, ok := in.(*ssa.Store)
			if !ok {
				continue
			}
			par, ok := st.Addr.(*ssa.Parameter)
			if !ok {
				continue
			}
			if la.state[in] != lkW {
				return nil // writes through a pointer without holding the lock
			}
			for i, q := range sc.Params {
				if q == par {
					out = append(out, i)
				}
			}
		}
	}
	if len(out) < 2 {
		return nil
	}
	lockedHelperCache[sc] = out
	return out
}

// fieldAccesses of receiver fields in a method (loads and stores through FieldAddr on the receiver; map updates / lookups / ranges count
// as write / read of the field that holds the map).
var progForLocks *Prog

func fieldAccesses(fn *ssa.Function) []fieldAccess {
	var out []fieldAccess
	if fn.Signature.Recv() == nil {
		return nil
	}
	recv := fn.Params[0]
	for _, b := range fn.Blocks {
		for _, in := range b.Instrs {
			fa, ok := in.(*ssa.FieldAddr)
			if !ok || fa.X != ssa.Value(recv) {
				continue
			}
			name := fieldName(fa.X.Type(), fa.Field)
			for _, r := range *fa.Referrers() {
				switch u := r.(type) {
				case *ssa.Call:
					// a method of the field's own type called on &recv.field (an atomic.Value, a sync.Map, one of the module's
					// atomic wrappers, an embedded cache object): an access to the state the field holds; anything but a
					// recognised reader counts as a write
					if op, _ := mutexOp(u); op == "" && len(u.Call.Args) > 0 && u.Call.Args[0] == ssa.Value(fa) && !u.Call.IsInvoke() {
						if sc := u.Call.StaticCallee(); sc != nil && sc.Signature.Recv() != nil {
							out = append(out, fieldAccess{fn, u, name, !objectReader(sc.Name()), false, isAtomicType(fa.Type())})
						}
					}
					// &recv.field handed to a locked-store helper together with &recv.<mutex>
					if hp := lockedStoreHelper(progForLocks, u.Call.StaticCallee()); hp != nil {
						mutOK := false
						if hp[0] < len(u.Call.Args) {
							if mfa, ok := u.Call.Args[hp[0]].(*ssa.FieldAddr); ok && mfa.X == ssa.Value(recv) {
								mutOK = true
							}
						}
						for _, di := range hp[1:] {
							if mutOK && di < len(u.Call.Args) && u.Call.Args[di] == ssa.Value(fa) {
								out = append(out, fieldAccess{fn: fn, in: u, field: name, write: true, viaLockedHelper: true})
							}
						}
					}
				case *ssa.Store:
					if u.Addr == ssa.Value(fa) {
						out = append(out, fieldAccess{fn: fn, in: u, field: name, write: true})
					}
				case *ssa.UnOp:
					out = append(out, fieldAccess{fn: fn, in: u, field: name})
					// what is done with a loaded map counts as access to the field
					if _, isMap := u.Type().Underlying().(*types.Map); isMap {
						for _, rr := range *u.Referrers() {
							switch m := rr.(type) {
							case *ssa.MapUpdate:
								out = append(out, fieldAccess{fn: fn, in: m, field: name, write: true})
							case *ssa.Lookup:
								out = append(out, fieldAccess{fn: fn, in: m, field: name})
							case *ssa.Range:
								out = append(out, fieldAccess{fn: fn, in: m, field: name})
								// the iteration itself (Next) happens later: find the Next instructions
								for _, nr := range *m.Referrers() {
									if nx, ok := nr.(*ssa.Next); ok {
										out = append(out, fieldAccess{fn: fn, in: nx, field: name})
									}
								}
							case ssa.CallInstruction:
								if bi, ok := m.Common().Value.(*ssa.Builtin); ok {
									out = append(out, fieldAccess{fn: fn, in: m, field: name, write: bi.Name() == "delete"})
								}
							}
						}
					}
				}
			}
		}
	}
	return out
}

func c19r1(c *Ctx) {
	const rule = "C19-R1"
	c.Rule(rule, "lock discipline: balanced on every path; guarded fields read under >= read lock and written under the write lock", 60)
	c.Rule("C19-R2", "one schedule per execution: read lock first and released only by defer; all guarded fields rewritten in one write-locked region", 30)
	progForLocks = c.P
	tm := typesWithMutex(c.P)
	c.Count("types with a mutex", len(tm))
	var names []*types.Named
	for n := range tm {
		names = append(names, n)
	}
	sort.Slice(names, func(i, j int) bool { return names[i].String() < names[j].String() })
	ctors := map[*ssa.Function]bool{}
	for _, r := range c.P.Registrations() {
		if r.Ctor != nil {
			ctors[r.Ctor] = true
		}
	}
	for _, n := range names {
		mutField := tm[n]
		ms := methodsOf(c.P, n)
		tname := n.Obj().Name()
		// pass 1: lock analysis of every method that uses the mutex, entry state unlocked
		las := map[*ssa.Function]*lockAnalysis{}
		for _, m := range ms {
			la := analyseLocks(c.P, m, lkU)
			las[m] = la
			if la.mutex == "" {
				continue
			}
			construct := tname + "." + m.Name() + ": balanced locking of " + la.mutex
			if len(la.errs) == 0 {
				c.OK(rule, FuncName(m), construct, c.P.Pos(m.Pos()), "every path returns unlocked; no double lock, no unlock of an unheld lock")
			} else {
				for i, e := range la.errs {
					c.FailX(Oblig{Rule: rule, Func: FuncName(m), Construct: fmt.Sprintf("%s #%d", construct, i+1), Pos: c.P.Pos(m.Pos()), Kind: "violation", Detail: e})
				}
			}
		}
		// guarded fields: written while the lock is held in some non-constructor method
		guarded := map[string]bool{}
		for _, m := range ms {
			la := las[m]
			for _, a := range fieldAccesses(m) {
				if a.viaLockedHelper && la.state[a.in] == lkU && a.field != mutField {
					guarded[a.field] = true
					continue
				}
				if a.write && a.field != mutField && (la.mutex == "" || la.state[a.in] == lkU) && !ctors[m] {
					// a helper that stores while its callers hold the write lock (`e.mut.Lock(); e.setCost(c); e.mut.Unlock()`)
					if held, _ := heldAtCallSites(c.P, m, las, lkW, 0); held {
						guarded[a.field] = true
					}
				}
				if la.mutex == "" {
					continue
				}
				if a.write && a.field != mutField && (la.state[a.in] == lkW || la.state[a.in] == lkR) && !ctors[m] {
					// written while the mutex is held in either mode: the field is meant to be guarded (a write under the read
					// lock is then reported below as a write without the write lock)
					guarded[a.field] = true
				}
			}
		}
		if len(guarded) == 0 {
			c.Fail(rule, "anchor", "-", tname+": guarded fields", "-", "type has a mutex but no field is written under its write lock")
			continue
		}
		var gl []string
		for g := range guarded {
			gl = append(gl, g)
		}
		sort.Strings(gl)
		c.Note("%s: fields guarded by .%s = {%s}", tname, mutField, strings.Join(gl, ", "))
		// pass 2: every access to a guarded field in a method holds the lock — in the method, or at every call site (helpers)
		for _, m := range ms {
			la := las[m]
			for _, a := range fieldAccesses(m) {
				if !guarded[a.field] {
					continue
				}
				need := lkR
				kind := "read"
				if a.write {
					need, kind = lkW, "write"
				}
				if a.atomicObj {
					if !a.write {
						continue // a lock-free atomic read
					}
					need, kind = lkR, "atomic write"
				}
				construct := fmt.Sprintf("%s.%s: %s of .%s @%s", tname, m.Name(), kind, a.field, valueName(a.in))
				st := la.state[a.in]
				if la.mutex == "" {
					st = lkU
				}
				if a.viaLockedHelper {
					if st == lkU {
						st = lkW // the helper takes the write lock itself
					} else {
						st = lkX // calling it while the lock is held would self-deadlock
					}
				}
				okHere := st == lkW || (st == lkR && need == lkR)
				if okHere {
					c.OK(rule, FuncName(m), construct, c.P.InstrPos(a.in), lkName[st]+" in the method")
					continue
				}
				// helper: all call sites (methods of the same type) must hold the lock at the call
				held, why := heldAtCallSites(c.P, m, las, need, 0)
				if held {
					c.OK(rule, FuncName(m), construct, c.P.InstrPos(a.in), why)
				} else {
					c.FailX(Oblig{Rule: rule, Func: FuncName(m), Construct: construct, Pos: c.P.InstrPos(a.in), Kind: "violation",
						Detail:   kind + " of guarded field ." + a.field + " without the " + map[int]string{lkR: "read", lkW: "write"}[need] + " lock: " + why,
						Expected: "hold ." + mutField + " (" + map[int]string{lkR: "RLock or Lock", lkW: "Lock"}[need] + ") around the access"})
				}
			}
		}
		// R2 for function objects: ProcessBuiltinFunction / SetNewGasConfig
		var proc, set *ssa.Function
		for _, m := range ms {
			switch m.Name() {
			case "ProcessBuiltinFunction":
				proc = m
			case "SetNewGasConfig":
				set = m
			}
		}
		if proc != nil && set != nil {
			la := las[proc]
			// read lock is taken in the entry block before any guarded read and released only by the deferred call
			good := la.mutex != "" && len(la.defers) == 1 && la.defers[0] == "RUnlock"
			explicit := 0
			for _, b := range proc.Blocks {
				for _, in := range b.Instrs {
					if call, ok := in.(*ssa.Call); ok {
						if op, _ := mutexOp(call); op == "RUnlock" || op == "Unlock" {
							explicit++
						}
					}
				}
			}
			first := ""
			for _, in := range proc.Blocks[0].Instrs {
				if call, ok := in.(*ssa.Call); ok {
					if op, _ := mutexOp(call); op != "" {
						first = op
						break
					}
				}
			}
			construct := tname + ".ProcessBuiltinFunction: one read-locked region spanning the execution"
			if good && explicit == 0 && first == "RLock" {
				c.OK("C19-R2", FuncName(proc), construct, c.P.Pos(proc.Pos()), "RLock in the entry block, released only by defer RUnlock")
			} else {
				c.FailX(Oblig{Rule: "C19-R2", Func: FuncName(proc), Construct: construct, Pos: c.P.Pos(proc.Pos()), Kind: "violation",
					Detail: fmt.Sprintf("the execution is not one read-locked region (first lock op %q, deferred %v, explicit unlocks %d): a schedule change can interleave and the call is charged by a mixture of two schedules", first, la.defers, explicit)})
			}
			// SetNewGasConfig: all guarded fields written in one region
			ls := las[set]
			regions := 0
			for _, b := range set.Blocks {
				for _, in := range b.Instrs {
					if call, ok := in.(*ssa.Call); ok {
						if op, _ := mutexOp(call); op == "Lock" {
							regions++
						}
					}
				}
			}
			written := map[string]bool{}
			helperCalls := map[ssa.Instruction]bool{}
			for _, a := range fieldAccesses(set) {
				if a.viaLockedHelper && ls.state[a.in] == lkU {
					written[a.field] = true
					helperCalls[a.in] = true
					continue
				}
				if a.write && ls.state[a.in] == lkW {
					written[a.field] = true
				}
			}
			// writes made by helper methods of the same object called inside the write-locked region
			var below func(fn *ssa.Function, depth int)
			below = func(fn *ssa.Function, depth int) {
				for _, b := range fn.Blocks {
					for _, in := range b.Instrs {
						call, ok := in.(*ssa.Call)
						if !ok || call.Call.StaticCallee() == nil || len(call.Call.Args) == 0 || call.Call.Args[0] != ssa.Value(fn.Params[0]) {
							continue
						}
						h := call.Call.StaticCallee()
						if _, isMethod := las[h]; !isMethod || depth > 2 || (fn == set && ls.state[in] != lkW) {
							continue
						}
						for _, a := range fieldAccesses(h) {
							if a.write {
								written[a.field] = true
							}
						}
						below(h, depth+1)
					}
				}
			}
			below(set, 0)
			regions += len(helperCalls) // each call of a locked-store helper is one write-locked region
			missing := []string{}
			for g := range guarded {
				if !written[g] {
					missing = append(missing, g)
				}
			}
			construct = tname + ".SetNewGasConfig: all guarded fields in one write-locked region"
			if regions == 1 && len(missing) == 0 {
				c.OK("C19-R2", FuncName(set), construct, c.P.Pos(set.Pos()), "one Lock…Unlock writing {"+strings.Join(gl, ", ")+"}")
			} else {
				c.FailX(Oblig{Rule: "C19-R2", Func: FuncName(set), Construct: construct, Pos: c.P.Pos(set.Pos()), Kind: "violation",
					Detail: fmt.Sprintf("%d write-locked regions; guarded fields not rewritten under the lock: %v — an execution between two regions sees one schedule's base cost and the other's per-byte price", regions, missing)})
			}
		}
	}
}

// heldAtCallSites: every call site of helper m (from methods of the same type) holds at least `need`.
func heldAtCallSites(p *Prog, m *ssa.Function, las map[*ssa.Function]*lockAnalysis, need int, depth int) (bool, string) {
	if isExportedAPI(m) {
		return false, "exported method callable without the lock"
	}
	sites := p.Callers[m]
	if len(sites) == 0 || depth > 3 {
		return false, "no call site establishes the lock"
	}
	var whys []string
	for _, cs := range sites {
		caller := cs.Parent()
		if !p.Src(caller) {
			continue
		}
		la, ok := las[caller]
		if !ok {
			return false, "called from " + caller.Name() + ", which is not a method of the same object"
		}
		st := la.state[cs]
		if la.mutex == "" {
			st = lkU
		}
		if st == lkW || (st == lkR && need == lkR) {
			whys = append(whys, lkName[st]+" at the call in "+caller.Name())
			continue
		}
		ok2, why := heldAtCallSites(p, caller, las, need, depth+1)
		if !ok2 {
			return false, "call site in " + caller.Name() + " at " + p.InstrPos(cs) + " is " + lkName[st] + "; " + why
		}
		whys = append(whys, why)
	}
	if len(whys) == 0 {
		return false, "no call site"
	}
	return true, "helper: " + strings.Join(uniq(whys), " | ")
}

// isAtomicType: *T for a T of sync/atomic or of the module's atomic package.
func isAtomicType(t types.Type) bool {
	if pt, ok := t.Underlying().(*types.Pointer); ok {
		t = pt.Elem()
	}
	n, ok := t.(*types.Named)
	if !ok || n.Obj().Pkg() == nil {
		return false
	}
	pp := n.Obj().Pkg().Path()
	return pp == "sync/atomic" || pp == modPath+"/atomic"
}

// helperUnderLock: an unexported method without lock operations of its own, every call site of which (in methods of the same
// type) holds the mutex — for writing, unless the helper only reads.
func helperUnderLock(p *Prog, n *types.Named, m *ssa.Function, onlyReads bool) (bool, string) {
	if m.Object() == nil || m.Object().Exported() {
		return false, ""
	}
	las := map[*ssa.Function]*lockAnalysis{}
	for _, x := range methodsOf(p, n) {
		las[x] = analyseLocks(p, x, lkU)
	}
	if las[m] == nil || las[m].mutex != "" {
		return false, ""
	}
	need := lkW
	if onlyReads {
		need = lkR
	}
	for _, a := range fieldAccesses(m) {
		if a.write {
			need = lkW
		}
	}
	return heldAtCallSites(p, m, las, need, 0)
}

// objectReader: method names of state-holding field types that only read (sync/atomic, sync.Map, the module's atomic package).
func objectReader(name string) bool {
	switch name {
	case "Load", "Get", "IsSet", "GetUint64", "Len", "Range", "String", "Value", "Has":
		return true
	}
	return false
}

// c19r3: single critical section per MutexMap method; container results flow from one MutexMap call.
func c19r3(c *Ctx) {
	const rule = "C19-R3"
	c.Rule(rule, "every map operation is one critical section; every container method is one map operation", 14)
	mm := c.P.NamedType("container", "MutexMap")
	if mm == nil {
		c.Anchor(rule, "container.MutexMap")
		return
	}
	mapMethods := map[*ssa.Function]bool{}
	for _, m := range methodsOf(c.P, mm) {
		mapMethods[m] = true
		regions, unlockedAccess := 0, ""
		la := analyseLocks(c.P, m, lkU)
		for _, b := range m.Blocks {
			for _, in := range b.Instrs {
				if call, ok := in.(*ssa.Call); ok {
					if op, _ := mutexOp(call); op == "Lock" || op == "RLock" {
						regions++
					}
				}
			}
		}
		for _, a := range fieldAccesses(m) {
			if a.field == "values" && la.state[a.in] == lkU {
				unlockedAccess = "access to the map at " + c.P.InstrPos(a.in) + " outside the critical section"
			}
		}
		// results computed from locals: a returned value must not be a load of the map field performed after the unlock
		construct := "MutexMap." + m.Name() + ": one critical section containing every map access"
		if regions == 1 && unlockedAccess == "" {
			c.OK(rule, FuncName(m), construct, c.P.Pos(m.Pos()), "1 locked region; all accesses to .values inside it")
		} else if regions == 0 && len(fieldAccesses(m)) == 0 {
			c.Triv(rule, FuncName(m), construct, c.P.Pos(m.Pos()), "no map access")
		} else if held, why := helperUnderLock(c.P, mm, m, true); regions == 0 && held {
			c.Triv(rule, FuncName(m), construct, c.P.Pos(m.Pos()), "a helper without a critical section of its own: "+why)
		} else {
			d := fmt.Sprintf("%d locked regions", regions)
			if unlockedAccess != "" {
				d += "; " + unlockedAccess
			}
			c.FailX(Oblig{Rule: rule, Func: FuncName(m), Construct: construct, Pos: c.P.Pos(m.Pos()), Kind: "violation",
				Detail: "the operation is not atomic: " + d + " (check-then-act across regions is not linearizable)"})
		}
	}
	// container methods
	fc := c.P.NamedType("builtInFunctions", "functionContainer")
	if fc == nil {
		c.Anchor(rule, "builtInFunctions.functionContainer")
		return
	}
	for _, m := range methodsOf(c.P, fc) {
		n := 0
		var ops []string
		var opInstrs []ssa.Instruction
		feedsOnlyCapacity := 0
		for _, b := range m.Blocks {
			for _, in := range b.Instrs {
				call, ok := in.(*ssa.Call)
				if !ok {
					continue
				}
				sc := call.Call.StaticCallee()
				if sc != nil && mapMethods[sc] {
					n++
					ops = append(ops, sc.Name())
					opInstrs = append(opInstrs, in)
				}
				// a critical section of the container's own (a second piece of shared state next to the map, e.g. a memorised key set)
				if op, _ := mutexOp(call); op == "Lock" || op == "RLock" {
					n++
					ops = append(ops, "own "+op+" region")
					opInstrs = append(opInstrs, in)
				}
				// a call to another container method (f.Len() inside Keys()) whose result only sizes an allocation
				if sc != nil && sc.Signature.Recv() != nil && sameBase(sc.Signature.Recv().Type(), fc) && sc != m {
					only := call.Referrers() != nil && len(*call.Referrers()) > 0
					for _, r := range *call.Referrers() {
						if _, isMake := r.(*ssa.MakeMap); !isMake {
							if _, isMS := r.(*ssa.MakeSlice); !isMS {
								only = false
							}
						}
					}
					if only {
						feedsOnlyCapacity++
					} else {
						n++
						ops = append(ops, sc.Name())
						opInstrs = append(opInstrs, in)
					}
				}
			}
		}
		// operations on different branches exclude each other: what counts is how many lie on one path
		if n > 1 {
			onePath := false
			for _, a := range opInstrs {
				for _, b := range opInstrs {
					if a != b && instrReaches(m, a, b, nil) {
						onePath = true
					}
				}
			}
			if !onePath {
				ops = append(ops, "(on mutually exclusive paths)")
				n = 1
			}
		}
		construct := "functionContainer." + m.Name() + ": result flows from one map operation"
		switch {
		case n <= 1:
			by := fmt.Sprintf("%d map operation %v", n, ops)
			if feedsOnlyCapacity > 0 {
				by += "; an extra Len() feeds only a capacity hint"
			}
			c.OK(rule, FuncName(m), construct, c.P.Pos(m.Pos()), by)
		default:
			c.FailX(Oblig{Rule: rule, Func: FuncName(m), Construct: construct, Pos: c.P.Pos(m.Pos()), Kind: "violation",
				Detail: fmt.Sprintf("the method combines %d separately locked map operations %v: another goroutine can interleave between them", n, ops)})
		}
	}
}

// c19r4: atomics.
func c19r4(c *Ctx) {
	const rule = "C19-R4"
	c.Rule(rule, "atomic wrapper fields are touched only through sync/atomic; no load-then-store update", 20)
	for _, fn := range c.P.Funcs {
		if !c.P.InPkgs(fn, "atomic") {
			continue
		}
		var bad []string
		loads, stores := map[string]ssa.Instruction{}, map[string][]ssa.Instruction{}
		e := c.P.Env(fn)
		for _, b := range fn.Blocks {
			for _, in := range b.Instrs {
				fa, ok := in.(*ssa.FieldAddr)
				if !ok {
					continue
				}
				ft := e.Term(fa)
				for _, r := range *fa.Referrers() {
					ci, ok := r.(ssa.CallInstruction)
					if !ok {
						bad = append(bad, "field address "+ft+" used by a non-call ("+r.String()+") at "+c.P.InstrPos(r)+": plain memory access")
						continue
					}
					n := CalleeName(ci)
					switch {
					case strings.HasPrefix(n, "sync/atomic.Load") || n == "(*sync/atomic.Value).Load":
						loads[ft] = ci
					case strings.HasPrefix(n, "sync/atomic.Store") || n == "(*sync/atomic.Value).Store":
						stores[ft] = append(stores[ft], ci)
					case strings.HasPrefix(n, "sync/atomic.") || strings.HasPrefix(n, "(*sync/atomic.Value)."):
					default:
						bad = append(bad, "field address "+ft+" passed to "+n+" at "+c.P.InstrPos(r))
					}
				}
			}
		}
		for ft, ld := range loads {
			for _, st := range stores[ft] {
				if instrReaches(fn, ld, st, nil) {
					bad = append(bad, "atomic load of "+ft+" at "+c.P.InstrPos(ld)+" followed by an atomic store at "+c.P.InstrPos(st)+": a concurrent update in between is lost (use Add/Swap/CompareAndSwap)")
				}
			}
		}
		if fn.Signature.Recv() == nil && len(bad) == 0 {
			continue
		}
		construct := fn.Name() + ": atomic discipline"
		if fn.Signature.Recv() != nil {
			construct = FuncName(fn) + ": atomic discipline"
		}
		if len(bad) == 0 {
			c.OK(rule, FuncName(fn), construct, c.P.Pos(fn.Pos()), "only sync/atomic operations on the wrapped field; no load-then-store")
		} else {
			for i, b := range bad {
				c.FailX(Oblig{Rule: rule, Func: FuncName(fn), Construct: fmt.Sprintf("%s #%d", construct, i+1), Pos: c.P.Pos(fn.Pos()), Kind: "violation", Detail: b})
			}
		}
	}
	_ = token.ADD
}

// c19r5: O-recv — everything else on a function object is immutable after construction.
func c19r5(c *Ctx) {
	const rule = "C19-R5"
	c.Rule(rule, "fields of the function objects are written only by their constructor, SetNewGasConfig (under the lock) or the listed configuration setter", 19)
	byType := map[string]Registration{}
	for _, r := range c.P.Registrations() {
		if r.Type != nil {
			byType[r.Type.String()] = r
		}
	}
	var keys []string
	for k := range byType {
		keys = append(keys, k)
	}
	sort.Strings(keys)
	for _, k := range keys {
		r := byType[k]
		var bad []string
		n := 0
		for _, fn := range c.P.Funcs {
			if !c.P.InPkgs(fn, "builtInFunctions") {
				continue
			}
			for _, b := range fn.Blocks {
				for _, in := range b.Instrs {
					st, ok := in.(*ssa.Store)
					if !ok {
						continue
					}
					fa, ok := st.Addr.(*ssa.FieldAddr)
					if !ok || !sameBase(fa.X.Type(), r.Type) {
						continue
					}
					n++
					f := fieldName(fa.X.Type(), fa.Field)
					switch {
					case fn == r.Ctor:
					case fn.Name() == "SetNewGasConfig" && fn.Signature.Recv() != nil:
						// lock state checked by R1
					case c.P.implementsMethod(fn, "AcceptPayableHandler", "SetPayableHandler") && strings.HasSuffix(fa.Type().(*types.Pointer).Elem().String(), ".PayableHandler"):
						// listed exception: configuration time
					case onlyBelowSetters(c.P, fn, r.Ctor, 0):
						// an unexported helper reached only from the constructor / SetNewGasConfig: lock state checked by R1
					default:
						bad = append(bad, "field ."+f+" written in "+fn.Name()+" at "+c.P.InstrPos(st))
					}
				}
			}
		}
		construct := strings.TrimPrefix(k, "*"+modPath+"/") + ": immutable after construction"
		if len(bad) == 0 {
			c.OK(rule, FuncName(r.Ctor), construct, c.P.Pos(r.Ctor.Pos()), fmt.Sprintf("%d field stores, all in the constructor / SetNewGasConfig / SetPayableHandler", n))
		} else {
			for _, b := range bad {
				c.FailX(Oblig{Rule: rule, Func: FuncName(r.Ctor), Construct: construct, Pos: c.P.Pos(r.Ctor.Pos()), Kind: "violation", Detail: b + ": concurrent executions read this field without synchronisation"})
			}
		}
	}
}

// onlyBelowSetters: fn is an unexported function whose every call site lies in the constructor, in a SetNewGasConfig method
// or in another function of which the same holds.
func onlyBelowSetters(p *Prog, fn, ctor *ssa.Function, depth int) bool {
	if depth > 3 || isExportedAPI(fn) || len(p.Callers[fn]) == 0 {
		return false
	}
	n := 0
	for _, cs := range p.Callers[fn] {
		caller := cs.Parent()
		if !p.Src(caller) {
			continue
		}
		n++
		if caller == ctor || caller.Name() == "SetNewGasConfig" && caller.Signature.Recv() != nil {
			continue
		}
		if !onlyBelowSetters(p, caller, ctor, depth+1) {
			return false
		}
	}
	return n > 0
}

// c19r6: "execute concurrently without data races": executions hold only the read lock, so an append onto a shared base
// must allocate — the base has no spare capacity (C13-R2).
func c19r6(c *Ctx) {
	c.shareRule(c13r2, "C13-R2", "C19-R6", "shared append bases have no spare capacity (read-locked executions never write shared memory)", nil)
}

// c19r7: "each execution is charged wholly by one schedule": besides the locking (R2) this needs every repricing to hand the
// functions one complete schedule — a freshly decoded, validated object, stored and broadcast as a whole (shared with
// C16-R3). Decoding a new schedule into the live object mixes two schedules without any concurrency.
func c19r7(c *Ctx) {
	c.shareRule(c16r3, "C16-R3", "C19-R7", "a repricing hands every function one complete, freshly decoded schedule (no mixture of two schedules)", nil)
}
