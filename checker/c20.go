package main

// C20 — shared helper types obey their algebraic laws (structural clauses only).

import (
	"fmt"
	"go/token"
	"go/types"
	"regexp"
	"sort"
	"strings"

	"golang.org/x/tools/go/ssa"
)

func init() {
	register(&Property{
		ID:    "C20",
		Level: "other",
		Explanation: "R1: for CodeMetadata, ESDTGlobalMetadata and ESDTUserMetadata the (byte index, mask, field) triples written by ToBytes equal those read by FromBytes, masks are single bits and pairwise distinct per byte, the length allocated " +
			"equals the length tested, and any other length yields the zero value. R2: every index / slice expression of the root package (address classification, code metadata, GetFirstReturnData) is entailed in-range by its guards; " +
			"IsSmartContractOnMetachain returns true only under IsSmartContractAddress. R3: the merge functions never store through, map-write into, append onto or big.Int-mutate anything rooted at the merged-in parameter, and never assign a pointer/slice " +
			"taken from the parameter to a field of the receiver that they later mutate in place (BalanceDelta, OutputTransfers). R4: SafeSubUint64 returns the error exactly under a < b and a - b otherwise. R5: the address classifiers read exactly the byte ranges their constants document — contract: [0, NumInit-VMTypeLen) (plus the whole-address emptiness test), " +
			"metachain contract: [NumInit, NumInit+15) — so that classification never depends on the VM-type bytes. R6: every path through MergeOutputAccounts reads Nonce, BalanceDelta, StorageUpdates and OutputTransfers of the merged-in account (a path that returns " +
			"without reading a field cannot keep the highest nonce / add the delta / let later updates win / append the new transfers). R2 also: no loop folds the bytes of its parameter into a fixed-width word without a length bound. R3 also: a module object found in the result's own collections (possibly adopted by pointer from an account merged in earlier) is never rewritten in place. R7: the merged transfer list is the own list followed by the tail of the other from the own length on. R8: every turn of the loop over the merged-in storage updates stores that turn's (key, update) before the next turn or a return, and nothing is deleted from an update map below the merge. Does NOT decide: the merge laws as equations, " +
			"exhaustive byte-pair round trips as executions, the classification of concrete addresses.",
		Trusted: []string{"A-len"},
		Rules:   []func(*Ctx){c20r1, c20r2, c20r3, c20r4, c20r5, c20r6, c20r7, c20r8},
	})
}

type flagTriple struct {
	idx   int64
	mask  int64
	field string
}

func (t flagTriple) String() string { return fmt.Sprintf("byte[%d]&%#x<->%s", t.idx, t.mask, t.field) }

// toBytesTriples: if m.F { b[i] |= M }
// toBytesTriples: the (byte index, mask, field) triples written by ToBytes and the length it allocates. A flag write is a
// store `buf[i] = buf[i] | mask` (constant i and mask, in the writer's terms) that executes exactly under a test of a field
// of the receiver; writes made by a helper that is handed the field value and the mask are read in the helper, in the
// writer's terms.
func toBytesTriples(p *Prog, fn *ssa.Function) ([]flagTriple, int64, string) {
	var out []flagTriple
	var mk int64 = -1
	recv := "P:" + paramName(fn.Params[0])
	why := ""
	// where each write happens, seen from the writer itself (the store, or the writer's call that leads to it), and whether it
	// assigns the mask instead of OR-ing it in
	var tops []ssa.Instruction
	var over []bool
	var walk func(e *Env, depth int, top ssa.Instruction)
	walk = func(e *Env, depth int, top0 ssa.Instruction) {
		for _, b := range e.Fn.Blocks {
			for _, in := range b.Instrs {
				top := top0
				if depth == 0 {
					top = in
				}
				switch x := in.(type) {
				case *ssa.MakeSlice:
					if k, ok := constInt(x.Len); ok {
						mk = k
					}
				case *ssa.Slice: // make with a constant size is `new [n]T` sliced
					if al, ok := x.X.(*ssa.Alloc); ok {
						if at, ok := al.Type().(*types.Pointer).Elem().Underlying().(*types.Array); ok && x.Low == nil {
							mk = at.Len()
							if x.High != nil {
								if k, ok := constInt(x.High); ok {
									mk = k
								}
							}
						}
					}
				case *ssa.Call:
					if sc := x.Call.StaticCallee(); sc != nil && len(sc.Blocks) > 0 && sc.Pkg != nil && strings.HasPrefix(sc.Pkg.Pkg.Path(), modPath) && depth < 3 && sc != e.Fn {
						walk(e.Sub(x, sc), depth+1, top)
					}
				case *ssa.Store:
					ia, ok := x.Addr.(*ssa.IndexAddr)
					if !ok || !isInteger(x.Val.Type()) {
						continue
					}
					il := e.LE(ia.Index)
					if !il.isConst() {
						// rows of a literal table iterated in a loop: `for _, f := range flags { if f.isSet { b[f.index] |= f.mask } }`
						if rows := tableFlagRows(e, x, ia, b, recv); rows != nil {
							for _, t := range rows {
								out = append(out, t)
								tops = append(tops, top)
								over = append(over, false)
							}
							continue
						}
						if depth > 0 && top != nil {
							if rows := tableFlagRowsAt(e, x, ia, p.Env(fn), top.Block(), recv); rows != nil {
								for _, t := range rows {
									out = append(out, t)
									tops = append(tops, top)
									over = append(over, false)
								}
								continue
							}
						}
						why = "non-constant byte index at " + p.InstrPos(x)
						return
					}
					var ml LE
					assigns := false
					if bo, ok := x.Val.(*ssa.BinOp); ok && bo.Op == token.OR {
						ml = e.LE(bo.Y)
						if !ml.isConst() {
							ml = e.LE(bo.X)
						}
					} else if ml = e.LE(x.Val); ml.isConst() {
						assigns = true // `b[i] = mask`: the same as |= only while nothing else was written into that byte
					} else {
						why = "a byte is written by something else than a mask (|= mask or = mask)"
						return
					}
					if !ml.isConst() {
						why = "non-constant mask"
						return
					}
					// the field under which the write executes
					field := ""
					for _, f := range e.factsAt(b, x, nil) {
						if !f.Lin && f.Pos && strings.HasPrefix(f.Atom, "cond:*"+recv+".") {
							field = strings.TrimPrefix(f.Atom, "cond:*"+recv+".")
						}
					}
					if field == "" {
						why = "flag write is not guarded by a test of a field of the receiver"
						return
					}
					out = append(out, flagTriple{il.k, ml.k, field})
					tops = append(tops, top)
					over = append(over, assigns)
				}
			}
		}
	}
	walk(p.Env(fn), 0, nil)
	if why != "" {
		return nil, mk, why
	}
	for k := range out {
		if !over[k] {
			continue
		}
		if mk < 0 {
			return nil, mk, "a byte of a buffer that is not allocated here is assigned a mask"
		}
		for j := range out {
			if j != k && out[j].idx == out[k].idx && (tops[j] == tops[k] || instrReaches(fn, tops[j], tops[k], nil)) {
				return nil, mk, fmt.Sprintf("VIOLATION: byte %d is assigned the mask of %s at %s after the mask of %s may have been put into it: %s is lost whenever both flags are set",
					out[k].idx, out[k].field, p.InstrPos(tops[k]), out[j].field, out[j].field)
			}
		}
	}
	return out, mk, ""
}

// tableFlagRows: the store `b[row.index] |= row.mask` executed under `row.isSet`, where row is the element of a literal table
// selected by the loop index: one (index, mask, field) triple per row — the index and the mask are the row's constants, the
// field is the receiver field whose value the row's condition holds.
func tableFlagRows(e *Env, st *ssa.Store, ia *ssa.IndexAddr, b *ssa.BasicBlock, recv string) []flagTriple {
	return tableFlagRowsAt(e, st, ia, e, b, recv)
}

func tableFlagRowsAt(e *Env, st *ssa.Store, ia *ssa.IndexAddr, ge *Env, gb *ssa.BasicBlock, recv string) []flagTriple {
	bo, ok := st.Val.(*ssa.BinOp)
	if !ok || bo.Op != token.OR {
		return nil
	}
	idxAlts := e.tableFieldAlts(ia.Index)
	maskAlts := e.tableFieldAlts(bo.Y)
	if maskAlts == nil {
		maskAlts = e.tableFieldAlts(bo.X)
	}
	if idxAlts == nil || len(idxAlts) != len(maskAlts) {
		return nil
	}
	// the condition under which the block executes: the true side of an If that dominates it
	var condAlts []structAlt
	for d := gb; d != nil && condAlts == nil; d = d.Idom() {
		id := d.Idom()
		if id == nil {
			break
		}
		iff, ok := id.Instrs[len(id.Instrs)-1].(*ssa.If)
		if !ok || id.Succs[0] != d || len(d.Preds) != 1 {
			continue
		}
		if alts := ge.tableFieldAlts(iff.Cond); len(alts) == len(idxAlts) {
			condAlts = alts
		}
	}
	if condAlts == nil {
		return nil
	}
	var out []flagTriple
	for k := range idxAlts {
		i, ok1 := constInt(idxAlts[k].val)
		m, ok2 := constInt(maskAlts[k].val)
		if !ok1 {
			if l := idxAlts[k].env.LE(idxAlts[k].val); l.isConst() {
				i, ok1 = l.k, true
			}
		}
		if !ok2 {
			if l := maskAlts[k].env.LE(maskAlts[k].val); l.isConst() {
				m, ok2 = l.k, true
			}
		}
		ft := condAlts[k].env.Term(condAlts[k].val)
		if !ok1 || !ok2 || !strings.HasPrefix(ft, "*"+recv+".") {
			return nil
		}
		out = append(out, flagTriple{i, m, strings.TrimPrefix(ft, "*"+recv+".")})
	}
	return out
}

// fromBytesTriples: F: (b[i] & M) != 0 ; plus the tested length and whether the other-length return is the zero value
var flagReadRe = regexp.MustCompile(`^\(\(\*(.+)\[(\d+)\] & (\d+)\) != 0\)$`)

// flagRead: v is `(par[i] & mask) != 0`, directly or as the result of a boolean helper whose other returns are the constant
// false under a length test of par (which then is the tested length).
func flagRead(e *Env, v ssa.Value, par string) (i, m, tested int64, why string) {
	tested = -1
	if mm := flagReadRe.FindStringSubmatch(e.Term(v)); mm != nil {
		if mm[1] != par {
			return 0, 0, -1, "the reader does not index its parameter"
		}
		fmt.Sscan(mm[2], &i)
		fmt.Sscan(mm[3], &m)
		return i, m, -1, ""
	}
	call, ok := v.(*ssa.Call)
	if !ok {
		// a flag computed from more than one byte of the input: a bit of another byte decodes as this flag
		t := e.Term(v)
		idx := map[string]bool{}
		for _, m := range regexp.MustCompile(regexp.QuoteMeta(par)+`\[(\d+)\]`).FindAllStringSubmatch(t, -1) {
			idx[m[1]] = true
		}
		if len(idx) > 1 {
			return 0, 0, -1, "VIOLATION: the flag is read from more than one byte of the input (" + t + "): a bit set in the other byte decodes as this flag and is written back into a different place — the byte form does not round-trip"
		}
		return 0, 0, -1, "is not computed as (byte & mask) != 0 but as " + t
	}
	sc := call.Call.StaticCallee()
	if sc == nil || len(sc.Blocks) == 0 || sc.Pkg == nil || !strings.HasPrefix(sc.Pkg.Pkg.Path(), modPath) || e.depth >= 3 {
		return 0, 0, -1, "is not computed as (byte & mask) != 0 but as " + e.Term(v)
	}
	sub := e.Sub(call, sc)
	found := false
	for _, r := range returnsOf(sc) {
		rv := retval(r, 0)
		if k, isK := boolConst(rv); isK {
			if k {
				return 0, 0, -1, "the helper " + sc.Name() + " can report a flag as set without reading it"
			}
			// constant false: only for another length
			okLen := false
			for _, f := range sub.factsAt(r.Block(), r, nil) {
				if !f.Lin && !f.Pos && strings.HasPrefix(f.Atom, "zero(len("+par+") - ") {
					fmt.Sscan(strings.TrimSuffix(strings.TrimPrefix(f.Atom, "zero(len("+par+") - "), ")"), &tested)
					okLen = true
				}
			}
			if !okLen {
				return 0, 0, -1, "the helper " + sc.Name() + " reports false on a path that is not the wrong-length path"
			}
			continue
		}
		i2, m2, _, w := flagRead(sub, rv, par)
		if w != "" {
			return 0, 0, -1, w
		}
		if found && (i2 != i || m2 != m) {
			return 0, 0, -1, "the helper " + sc.Name() + " reads different bits on different paths"
		}
		i, m, found = i2, m2, true
	}
	if !found {
		return 0, 0, -1, "the helper " + sc.Name() + " never reads the flag"
	}
	return i, m, tested, ""
}

func fromBytesTriples(p *Prog, fn *ssa.Function) ([]flagTriple, int64, string) {
	var out []flagTriple
	var tested int64 = -1
	e := p.Env(fn)
	par := "P:" + paramName(fn.Params[0])
	for _, b := range fn.Blocks {
		for _, in := range b.Instrs {
			if iff, ok := in.(*ssa.If); ok {
				if bo, ok := iff.Cond.(*ssa.BinOp); ok && (bo.Op == token.NEQ || bo.Op == token.EQL) {
					if k, ok := constInt(bo.Y); ok && e.LE(bo.X).String() == "len("+par+")" {
						tested = k
						// the branch taken for another length must return the zero value (no field stores, constant-free literal)
						other := b.Succs[0]
						if bo.Op == token.EQL {
							other = b.Succs[1]
						}
						for _, oi := range other.Instrs {
							if st, ok := oi.(*ssa.Store); ok {
								if _, isFA := st.Addr.(*ssa.FieldAddr); isFA {
									return nil, tested, "the wrong-length branch sets a field: it must return the empty value"
								}
							}
						}
					}
				}
			}
			st, ok := in.(*ssa.Store)
			if !ok {
				continue
			}
			fa, ok := st.Addr.(*ssa.FieldAddr)
			if !ok {
				continue
			}
			i, m, t2, w := flagRead(e, st.Val, par)
			if w != "" {
				return nil, tested, "field " + fieldName(fa.X.Type(), fa.Field) + " " + w
			}
			if t2 >= 0 {
				if tested >= 0 && tested != t2 {
					return nil, tested, "two different lengths are tested"
				}
				tested = t2
			}
			out = append(out, flagTriple{i, m, fieldName(fa.X.Type(), fa.Field)})
		}
	}
	return out, tested, ""
}

func c20r1(c *Ctx) {
	const rule = "C20-R1"
	c.Rule(rule, "flag byte tables of the writer and the reader agree", 3)
	type pair struct{ pkg, typ, from string }
	for _, x := range []pair{{"", "CodeMetadata", "CodeMetadataFromBytes"}, {"builtInFunctions", "ESDTGlobalMetadata", "ESDTGlobalMetadataFromBytes"}, {"builtInFunctions", "ESDTUserMetadata", "ESDTUserMetadataFromBytes"}} {
		pk := x.pkg
		if pk == "" {
			pk = "vmcommon"
		}
		to := c.P.FuncByName("(*" + pk + "." + x.typ + ").ToBytes")
		from := c.P.FuncByName(pk + "." + x.from)
		if to == nil || from == nil {
			c.Anchor(rule, x.typ+".ToBytes / "+x.from)
			continue
		}
		w, made, werr := toBytesTriples(c.P, to)
		r, tested, rerr := fromBytesTriples(c.P, from)
		construct := x.typ + " flag table"
		pos := c.P.Pos(to.Pos())
		key := func(ts []flagTriple) string {
			var s []string
			for _, t := range ts {
				s = append(s, t.String())
			}
			sort.Strings(s)
			return strings.Join(s, ", ")
		}
		switch {
		case strings.HasPrefix(werr, "VIOLATION: "):
			c.FailX(Oblig{Rule: rule, Func: FuncName(to), Construct: construct, Pos: pos, Kind: "violation", Detail: strings.TrimPrefix(werr, "VIOLATION: "),
				Expected: "flags that share a byte are OR-ed into it"})
		case werr != "":
			c.Fail(rule, "undecided", FuncName(to), construct, pos, "writer table cannot be extracted: "+werr)
		case rerr != "":
			if strings.Contains(rerr, "VIOLATION: ") {
				c.FailX(Oblig{Rule: rule, Func: FuncName(from), Construct: construct, Pos: c.P.Pos(from.Pos()), Kind: "violation", Detail: strings.Replace(rerr, "VIOLATION: ", "", 1),
					Expected: "each flag is read as (byte[i] & mask) != 0 from the one byte the writer puts it into"})
			} else {
				c.Fail(rule, "undecided", FuncName(from), construct, c.P.Pos(from.Pos()), "reader table cannot be extracted: "+rerr)
			}
		case len(w) == 0 || len(r) == 0:
			c.Fail(rule, "undecided", FuncName(to), construct, pos, "no flag found in writer or reader")
		case key(w) != key(r):
			c.FailX(Oblig{Rule: rule, Func: FuncName(to), Construct: construct, Pos: pos, Kind: "violation",
				Detail: "writer and reader disagree: ToBytes writes {" + key(w) + "}, " + x.from + " reads {" + key(r) + "}", Expected: "identical (byte, mask, field) triples"})
		case made != tested || made < 1:
			d := fmt.Sprintf("ToBytes allocates %d bytes but %s accepts exactly %d", made, x.from, tested)
			if tested < 0 {
				d = fmt.Sprintf("ToBytes allocates %d bytes but %s does not insist on exactly that length: bytes of another length are decoded into flags instead of yielding the empty value", made, x.from)
			}
			c.FailX(Oblig{Rule: rule, Func: FuncName(to), Construct: construct, Pos: pos, Kind: "violation", Detail: d})
		default:
			bad := ""
			seen := map[string]bool{}
			for _, t := range w {
				if t.mask <= 0 || t.mask&(t.mask-1) != 0 || t.mask > 255 {
					bad = "mask " + fmt.Sprintf("%#x", t.mask) + " is not a single bit of a byte"
				}
				k := fmt.Sprintf("%d/%d", t.idx, t.mask)
				if seen[k] {
					bad = "two flags share " + k
				}
				seen[k] = true
				if t.idx < 0 || t.idx >= made {
					bad = fmt.Sprintf("byte index %d outside the %d allocated bytes", t.idx, made)
				}
			}
			if bad != "" {
				c.Fail(rule, "violation", FuncName(to), construct, pos, bad)
			} else {
				c.OK(rule, FuncName(to), construct, pos, "{"+key(w)+"}, length "+fmt.Sprint(made))
			}
		}
	}
}

func rootScope(p *Prog, fn *ssa.Function) bool { return p.InPkgs(fn, "") }

func c20r2(c *Ctx) {
	indexRule(c, "C20-R2", "every index / slice expression of the root package is in range on every path", rootScope, 10)
	// a classifier that folds the bytes of an identifier / address into a fixed-width word forgets the leading ones
	shiftAccumulateRule(c, "C20-R2", rootScope)
	const rule = "C20-R2b"
	c.Rule(rule, "a metachain contract address is a contract address", 1)
	fn := c.P.FuncByName("vmcommon.IsSmartContractOnMetachain")
	if fn == nil || len(fn.Params) != 2 {
		c.Anchor(rule, "vmcommon.IsSmartContractOnMetachain")
		return
	}
	e := c.P.Env(fn)
	addr := "P:" + paramName(fn.Params[1])
	pred := func(f Fact) bool {
		return !f.Lin && f.Pos && f.Atom == "call:vmcommon.IsSmartContractAddress("+addr+")"
	}
	for _, r := range returnsOf(fn) {
		rv := retval(r, 0)
		construct := fmt.Sprintf("return %s @b%d", e.Term(rv), r.Block().Index)
		if k, ok := boolConst(rv); ok && !k {
			c.Triv(rule, FuncName(fn), construct, c.P.InstrPos(r), "false")
			continue
		}
		if fs, ok := e.CutAt(r, pred, nil); ok {
			c.OK(rule, FuncName(fn), construct, c.P.InstrPos(r), "only under "+fs[0].String())
		} else {
			c.Fail(rule, "violation", FuncName(fn), construct, c.P.InstrPos(r), "can classify an address as a metachain contract without it being a contract address")
		}
	}
}

func c20r3(c *Ctx) {
	const rule = "C20-R3"
	c.Rule(rule, "merging never writes through, nor keeps mutable references into, the merged-in account", 2)
	for _, name := range []string{"(*vmcommon.OutputAccount).MergeOutputAccounts", "(*vmcommon.OutputAccount).MergeStorageUpdates"} {
		fn := c.P.FuncByName(name)
		if fn == nil || len(fn.Params) != 2 {
			c.Anchor(rule, name)
			continue
		}
		recv, par := "P:"+paramName(fn.Params[0]), "P:"+paramName(fn.Params[1])
		rooted := func(t string) bool {
			return strings.HasPrefix(strings.TrimLeft(t, "*"), par+".") || strings.TrimLeft(t, "*") == par
		}
		// the merge function and every module helper it calls, each analysed in the merge function's terms
		var envs []*Env
		var collect func(e *Env, d int)
		collect = func(e *Env, d int) {
			envs = append(envs, e)
			if d > 3 {
				return
			}
			for _, b := range e.Fn.Blocks {
				for _, in := range b.Instrs {
					if call, ok := in.(*ssa.Call); ok {
						if sc := call.Call.StaticCallee(); sc != nil && len(sc.Blocks) > 0 && sc.Pkg != nil && strings.HasPrefix(sc.Pkg.Pkg.Path(), modPath) && sc != fn {
							collect(e.Sub(call, sc), d+1)
						}
					}
				}
			}
		}
		collect(c.P.Env(fn), 0)
		// derived: the value is (possibly, on some path) a pointer / slice taken from the parameter
		var derived func(e *Env, v ssa.Value, d int) bool
		derived = func(e *Env, v ssa.Value, d int) bool {
			if d > 8 {
				return false
			}
			if t := e.Term(v); rooted(t) || strings.Contains(t, "*"+par+".") {
				return true
			}
			switch x := v.(type) {
			case *ssa.Phi:
				for _, ed := range x.Edges {
					if derived(e, ed, d+1) {
						return true
					}
				}
			case *ssa.Parameter:
				if a, pe := e.actual(x); a != nil {
					return derived(pe, a, d+1)
				}
			case *ssa.Slice:
				return derived(e, x.X, d+1)
			case *ssa.ChangeType:
				return derived(e, x.X, d+1)
			}
			return false
		}
		var bad []string
		mutFields := map[string]bool{}
		for _, e := range envs {
			for _, b := range e.Fn.Blocks {
				for _, in := range b.Instrs {
					switch x := in.(type) {
					case ssa.CallInstruction:
						cc := x.Common()
						if m := bigMethod(x); m != "" && bigMutators[m] {
							rt := e.Term(cc.Args[0])
							if derived(e, cc.Args[0], 0) {
								bad = append(bad, m+" mutates "+rt+" at "+c.P.InstrPos(in))
							}
							if strings.HasPrefix(rt, "*"+recv+".") {
								mutFields[strings.TrimPrefix(rt, "*"+recv+".")] = true
							}
						}
						if bi, ok := cc.Value.(*ssa.Builtin); ok && (bi.Name() == "append" || bi.Name() == "copy") {
							dt := e.Term(cc.Args[0])
							if derived(e, cc.Args[0], 0) {
								bad = append(bad, bi.Name()+" writes into "+dt+" at "+c.P.InstrPos(in))
							}
							if strings.HasPrefix(dt, "*"+recv+".") {
								mutFields[strings.TrimPrefix(dt, "*"+recv+".")] = true
							}
						}
					case *ssa.MapUpdate:
						if derived(e, x.Map, 0) {
							bad = append(bad, "map write into "+e.Term(x.Map)+" at "+c.P.InstrPos(in))
						}
					}
				}
			}
		}
		for _, e := range envs {
			for _, b := range e.Fn.Blocks {
				for _, in := range b.Instrs {
					st, ok := in.(*ssa.Store)
					if !ok {
						continue
					}
					at := e.Term(st.Addr)
					if rooted(at) {
						bad = append(bad, "store through "+at+" at "+c.P.InstrPos(in))
					}
					// the result adopts merged-in objects by pointer (storage updates): an object found in the result's own
					// collections may belong to an account merged in earlier, so it is never written in place either
					if fa, ok := st.Addr.(*ssa.FieldAddr); ok && !rooted(at) {
						_, fresh := fa.X.(*ssa.Alloc)
						if bt := e.Term(fa.X); !fresh && bt != recv && !strings.HasPrefix(bt, "P:") {
							if pt, ok := fa.X.Type().Underlying().(*types.Pointer); ok {
								if nt, ok := pt.Elem().(*types.Named); ok && nt.Obj().Pkg() != nil && nt.Obj().Pkg().Path() == modPath {
									bad = append(bad, "store into "+at+" at "+c.P.InstrPos(in)+": an object taken from the result's own collection (it may have been adopted from an account merged in earlier) is rewritten in place")
								}
							}
						}
					}
					if strings.HasPrefix(at, recv+".") {
						f := strings.TrimPrefix(at, recv+".")
						if mutFields[f] && derived(e, st.Val, 0) {
							// append(o.F, outAcc.F[k:]...) copies elements, it does not alias: the stored value is the append result on an own base
							if call, isCall := st.Val.(*ssa.Call); isCall {
								if bi, ok := call.Call.Value.(*ssa.Builtin); ok && bi.Name() == "append" && !derived(e, call.Call.Args[0], 0) {
									continue
								}
							}
							bad = append(bad, "receiver field "+f+" (mutated in place by the merge) is assigned "+e.Term(st.Val)+", a reference into the merged-in account, at "+c.P.InstrPos(in))
						}
					}
				}
			}
		}
		if len(bad) == 0 {
			var mf []string
			for f := range mutFields {
				mf = append(mf, f)
			}
			sort.Strings(mf)
			c.OK(rule, FuncName(fn), "no write through / alias of the parameter", c.P.Pos(fn.Pos()), fmt.Sprintf("%d functions analysed; fields mutated in place: {%s}; none is assigned from the parameter", len(envs), strings.Join(mf, ", ")))
		} else {
			for _, b := range uniq(bad) {
				c.FailX(Oblig{Rule: rule, Func: FuncName(fn), Construct: "no write through / alias of the parameter", Pos: c.P.Pos(fn.Pos()), Kind: "violation", Detail: b})
			}
		}
	}
}

func c20r4(c *Ctx) {
	const rule = "C20-R4"
	c.Rule(rule, "SafeSubUint64 errors exactly on underflow", 2)
	fn := c.P.FuncByName("vmcommon.SafeSubUint64")
	if fn == nil || len(fn.Params) != 2 {
		c.Anchor(rule, "vmcommon.SafeSubUint64")
		return
	}
	e := c.P.Env(fn)
	a, b := leAtom("P:"+paramName(fn.Params[0])), leAtom("P:"+paramName(fn.Params[1]))
	under := b.minus(a).addK(-1).String() // a < b
	fine := a.minus(b).String()           // a >= b
	for _, r := range returnsOf(fn) {
		construct := fmt.Sprintf("return %s, %s @b%d", e.Term(retval(r, 0)), e.Term(retval(r, 1)), r.Block().Index)
		if isSuccessReturn(r) {
			_, cut := e.CutAt(r, func(f Fact) bool { return f.Lin && f.LE.String() == fine }, nil)
			if cut && e.LE(retval(r, 0)).String() == fine {
				c.OK(rule, FuncName(fn), construct, c.P.InstrPos(r), "a - b, only when a >= b")
			} else {
				c.Fail(rule, "violation", FuncName(fn), construct, c.P.InstrPos(r), "the success return is not `a - b` under exactly a >= b")
			}
		} else {
			if _, cut := e.CutAt(r, func(f Fact) bool { return f.Lin && f.LE.String() == under }, nil); cut {
				c.OK(rule, FuncName(fn), construct, c.P.InstrPos(r), "error only when a < b")
			} else {
				c.Fail(rule, "violation", FuncName(fn), construct, c.P.InstrPos(r), "the error return is not taken under exactly a < b")
			}
		}
	}
}

// readsFlagBits: below fn the idx-th parameter is read as flag bytes: some `par[i] & mask` (the parameter possibly handed on
// to a module helper).
func readsFlagBits(p *Prog, fn *ssa.Function, idx int, depth int) bool {
	if fn == nil || depth > 3 || idx >= len(fn.Params) || len(fn.Blocks) == 0 {
		return false
	}
	par := fn.Params[idx]
	for _, b := range fn.Blocks {
		for _, in := range b.Instrs {
			switch x := in.(type) {
			case *ssa.BinOp:
				if x.Op != token.AND {
					continue
				}
				for _, op := range []ssa.Value{x.X, x.Y} {
					if ld, ok := op.(*ssa.UnOp); ok && ld.Op == token.MUL {
						if ia, ok := ld.X.(*ssa.IndexAddr); ok && ia.X == ssa.Value(par) {
							return true
						}
					}
				}
			case *ssa.Call:
				sc := x.Call.StaticCallee()
				if sc == nil || sc.Pkg == nil || !strings.HasPrefix(sc.Pkg.Pkg.Path(), modPath) {
					continue
				}
				for i, a := range x.Call.Args {
					if a == ssa.Value(par) && readsFlagBits(p, sc, i, depth+1) {
						return true
					}
				}
			}
		}
	}
	return false
}

// writesFlagBytes: fn returns bytes it allocates and fills by `buf[i] |= mask` (itself or in a module helper it returns from).
func writesFlagBytes(p *Prog, fn *ssa.Function, depth int) bool {
	if fn == nil || depth > 3 || len(fn.Blocks) == 0 {
		return false
	}
	res := fn.Signature.Results()
	if res.Len() != 1 || res.At(0).Type().String() != "[]byte" {
		return false
	}
	for _, b := range fn.Blocks {
		for _, in := range b.Instrs {
			switch x := in.(type) {
			case *ssa.Store:
				if _, ok := x.Addr.(*ssa.IndexAddr); ok {
					if bo, ok := x.Val.(*ssa.BinOp); ok && bo.Op == token.OR {
						return true
					}
				}
			case *ssa.Call:
				if sc := x.Call.StaticCallee(); sc != nil && sc != fn && sc.Pkg != nil && strings.HasPrefix(sc.Pkg.Pkg.Path(), modPath) && writesFlagBytes(p, sc, depth+1) {
					return true
				}
			}
		}
	}
	return false
}
