package main

// C20-R5 (byte ranges read by the address classifiers), C20-R6 (the merge reads every merged field on every path).

import (
	"fmt"
	"go/token"
	"go/types"
	"regexp"
	"sort"
	"strings"

	"golang.org/x/tools/go/ssa"
)

var addrRangeRe = regexp.MustCompile(`^\*?P:[A-Za-z_0-9]+(\[[^\]]*\])?`)

// addressReads: the byte ranges of parameter par read below fn (through module helpers, in fn's terms): "[lo:hi]", "[i]",
// or "whole" when the parameter is handed on / compared as a whole. Reads made inside `through` (a function that
// receives the whole parameter) are reported as "via <name>".
func addressReads(p *Prog, e *Env, par string, through map[*ssa.Function]bool, depth int, out map[string]bool) {
	if depth > 4 {
		return
	}
	note := func(v ssa.Value) {
		t := e.Term(v)
		base := strings.TrimPrefix(t, "*")
		if !strings.HasPrefix(base, par) {
			return
		}
		rest := base[len(par):]
		switch {
		case rest == "":
			out["whole"] = true
		case strings.HasPrefix(rest, "["):
			out[rest[:strings.Index(rest, "]")+1]] = true
		}
	}
	for _, b := range e.Fn.Blocks {
		for _, in := range b.Instrs {
			switch x := in.(type) {
			case *ssa.Slice:
				if strings.TrimPrefix(e.Term(x.X), "*") == par {
					note(x)
				}
			case *ssa.IndexAddr:
				if strings.HasPrefix(strings.TrimPrefix(e.Term(x.X), "*"), par) {
					if strings.TrimPrefix(e.Term(x.X), "*") == par {
						note(x)
					} else {
						note(x.X)
					}
				}
			case *ssa.Call:
				if bi, ok := x.Call.Value.(*ssa.Builtin); ok && (bi.Name() == "len" || bi.Name() == "cap") {
					continue
				}
				sc := x.Call.StaticCallee()
				for _, a := range x.Call.Args {
					t := strings.TrimPrefix(e.Term(a), "*")
					if !strings.HasPrefix(t, par) || a.Type().String() != "[]byte" && a.Type().String() != "string" {
						continue
					}
					if sc != nil && len(sc.Blocks) > 0 && sc.Pkg != nil && strings.HasPrefix(sc.Pkg.Pkg.Path(), modPath) {
						if t == par && through[sc] {
							out["via "+sc.Name()] = true
							continue
						}
						addressReads(p, e.Sub(x, sc), par, through, depth+1, out)
					} else {
						note(a) // handed to a library function (bytes.Equal …): read as given
					}
				}
			}
		}
	}
}

func c20r5(c *Ctx) {
	const rule = "C20-R5"
	c.Rule(rule, "the address classifiers read exactly the byte ranges their constants document; never the VM-type bytes", 2)
	konst := func(name string) (int64, bool) {
		k, ok := c.P.Obj("", name).(*types.Const)
		if !ok {
			c.Anchor(rule, "constant vmcommon."+name)
			return 0, false
		}
		var v int64
		fmt.Sscan(k.Val().ExactString(), &v)
		return v, true
	}
	numInit, ok1 := konst("NumInitCharactersForScAddress")
	vmLen, ok2 := konst("VMTypeLen")
	meta, ok3 := konst("numInitCharactersForOnMetachainSC")
	isSC := c.P.FuncByName("vmcommon.IsSmartContractAddress")
	isMeta := c.P.FuncByName("vmcommon.IsSmartContractOnMetachain")
	isEmpty := c.P.FuncByName("vmcommon.IsEmptyAddress")
	if !ok1 || !ok2 || !ok3 || isSC == nil || isMeta == nil || isEmpty == nil {
		c.Anchor(rule, "vmcommon.IsSmartContractAddress / IsSmartContractOnMetachain / IsEmptyAddress")
		return
	}
	type want struct {
		fn      *ssa.Function
		par     int
		ranges  map[string]bool
		through map[*ssa.Function]bool
		doc     string
		needVia bool // the delegated test is part of the definition (not merely subsumed by the own range)
	}
	render := func(lo, hi int64) []string {
		var out []string
		if lo == 0 {
			out = append(out, fmt.Sprintf("[:%d]", hi))
		}
		return append(out, fmt.Sprintf("[%d:%d]", lo, hi))
	}
	mk := func(rs ...[]string) map[string]bool {
		m := map[string]bool{}
		for _, r := range rs {
			for _, x := range r {
				m[x] = true
			}
		}
		return m
	}
	for _, w := range []want{
		{isSC, 0, mk(render(0, numInit-vmLen)), map[*ssa.Function]bool{isEmpty: true}, fmt.Sprintf("bytes [0,%d) zero, or the whole address zero", numInit-vmLen), false},
		{isMeta, 1, mk(render(numInit, numInit+meta)), map[*ssa.Function]bool{isSC: true}, fmt.Sprintf("a contract address with bytes [%d,%d) zero", numInit, numInit+meta), true},
	} {
		if w.par >= len(w.fn.Params) {
			c.Anchor(rule, "parameters of "+FuncName(w.fn))
			continue
		}
		par := "P:" + paramName(w.fn.Params[w.par])
		got := map[string]bool{}
		addressReads(c.P, c.P.Env(w.fn), par, w.through, 0, got)
		var gs []string
		for g := range got {
			gs = append(gs, g)
		}
		sort.Strings(gs)
		construct := w.fn.Name() + ": byte ranges of " + par + " read"
		bad := ""
		seenWant, seenVia := false, false
		for _, g := range gs {
			switch {
			case w.ranges[g]:
				seenWant = true
			case strings.HasPrefix(g, "via "):
				seenVia = true
			default:
				bad = "reads " + par + g + ", which is not the documented range (" + w.doc + ")"
				if g == "whole" {
					bad = "compares / hands on the whole address outside the documented helper (" + w.doc + ")"
				}
			}
		}
		switch {
		case bad != "":
			c.FailX(Oblig{Rule: rule, Func: FuncName(w.fn), Construct: construct, Pos: c.P.Pos(w.fn.Pos()), Kind: "violation",
				Detail: bad + ": the classification depends on bytes it must ignore (e.g. the VM-type bytes) or ignores bytes it must test", Expected: w.doc})
		case !seenWant || (w.needVia && !seenVia):
			c.FailX(Oblig{Rule: rule, Func: FuncName(w.fn), Construct: construct, Pos: c.P.Pos(w.fn.Pos()), Kind: "violation",
				Detail: "the documented test is missing: read {" + strings.Join(gs, ", ") + "}", Expected: w.doc})
		default:
			c.OK(rule, FuncName(w.fn), construct, c.P.Pos(w.fn.Pos()), "{"+strings.Join(gs, ", ")+"}")
		}
	}
}

// mustReadField: every path from the entry of e.Fn to a return executes a load of <par>.<field>, directly or inside a
// module callee that is handed the value and must-reads it itself.
func mustReadField(p *Prog, e *Env, par, field string, depth int) (bool, string) {
	fn := e.Fn
	pass := map[ssa.Instruction]bool{}
	for _, b := range fn.Blocks {
		for _, in := range b.Instrs {
			switch x := in.(type) {
			case *ssa.FieldAddr:
				if fieldName(x.X.Type(), x.Field) == field && e.Term(x.X) == par {
					pass[in] = true
				}
			case *ssa.Field:
				if fieldName(x.X.Type(), x.Field) == field && e.Term(x.X) == par {
					pass[in] = true
				}
			case *ssa.Call:
				sc := x.Call.StaticCallee()
				if sc == nil || len(sc.Blocks) == 0 || sc.Pkg == nil || !strings.HasPrefix(sc.Pkg.Pkg.Path(), modPath) || depth >= 3 || sc == fn {
					continue
				}
				hands := false
				for _, a := range x.Call.Args {
					if e.Term(a) == par {
						hands = true
					}
				}
				if hands {
					if ok, _ := mustReadField(p, e.Sub(x, sc), par, field, depth+1); ok {
						pass[in] = true
					}
				}
			}
		}
	}
	if len(fn.Blocks) == 0 || len(fn.Blocks[0].Instrs) == 0 {
		return false, "no body"
	}
	// walk from the entry; a pass instruction stops the walk
	seen := map[*ssa.BasicBlock]bool{}
	var scan func(b *ssa.BasicBlock) string
	scan = func(b *ssa.BasicBlock) string {
		for _, in := range b.Instrs {
			if pass[in] {
				return ""
			}
			if r, ok := in.(*ssa.Return); ok {
				return "return at " + p.InstrPos(r) + " in " + fn.Name()
			}
		}
		for _, s := range b.Succs {
			if seen[s] {
				continue
			}
			seen[s] = true
			if w := scan(s); w != "" {
				return w
			}
		}
		return ""
	}
	seen[fn.Blocks[0]] = true
	if w := scan(fn.Blocks[0]); w != "" {
		return false, w
	}
	return true, ""
}

func c20r6(c *Ctx) {
	const rule = "C20-R6"
	c.Rule(rule, "every path through MergeOutputAccounts reads Nonce, BalanceDelta, StorageUpdates and OutputTransfers of the merged-in account", 4)
	fn := c.P.FuncByName("(*vmcommon.OutputAccount).MergeOutputAccounts")
	if fn == nil || len(fn.Params) != 2 {
		c.Anchor(rule, "(*vmcommon.OutputAccount).MergeOutputAccounts")
		return
	}
	par := "P:" + paramName(fn.Params[1])
	law := map[string]string{"Nonce": "keep the highest nonce", "BalanceDelta": "add the balance deltas", "StorageUpdates": "let later storage updates win", "OutputTransfers": "append the new output transfers"}
	for _, f := range []string{"Nonce", "BalanceDelta", "StorageUpdates", "OutputTransfers"} {
		construct := "merge reads " + par + "." + f + " on every path"
		if ok, w := mustReadField(c.P, c.P.Env(fn), par, f, 0); ok {
			c.OK(rule, FuncName(fn), construct, c.P.Pos(fn.Pos()), "every path to a return loads the field (directly or in a helper that always does)")
		} else {
			c.FailX(Oblig{Rule: rule, Func: FuncName(fn), Construct: construct, Pos: c.P.Pos(fn.Pos()), Kind: "violation",
				Detail: "a path through the merge never looks at " + f + " of the merged-in account (" + w + " is reachable without reading it): on that path the merge cannot " + law[f]})
		}
	}
}

// ---------------------------------------------------------------- R7: what the merged transfer list is made of

// c20r7: "appends only the new output transfers": whatever is stored into the result's transfer list consists of the
// result's own list followed by the tail of the merged-in list that starts at the own list's length — by append on the own
// list, or on a fresh slice that was filled by copy from the own list. Elements of the merged-in list from any other
// position (a copy of its head over the own transfers, the whole list) break the law.
func c20r7(c *Ctx) {
	const rule = "C20-R7"
	c.Rule(rule, "the merged transfer list is the own list followed by the merged-in list's tail from the own length on", 1)
	fn := c.P.FuncByName("(*vmcommon.OutputAccount).MergeOutputAccounts")
	if fn == nil || len(fn.Params) != 2 {
		c.Anchor(rule, "(*vmcommon.OutputAccount).MergeOutputAccounts")
		return
	}
	ownT := "*P:" + paramName(fn.Params[0]) + ".OutputTransfers"
	parT := "*P:" + paramName(fn.Params[1]) + ".OutputTransfers"
	ownLen := "len(" + ownT + ")"
	n := 0
	isStore := func(in ssa.Instruction) (string, bool) {
		if st, ok := in.(*ssa.Store); ok {
			if fa, ok := st.Addr.(*ssa.FieldAddr); ok && isFieldOf(fa, "OutputAccount", "OutputTransfers") {
				return "store", true
			}
		}
		return "", false
	}
	for _, s := range c.P.EffectSitesBelow(c.P.Env(fn), "c20otstore", isStore) {
		st := s.In.(*ssa.Store)
		e := s.Env
		if e.Term(st.Addr.(*ssa.FieldAddr).X) != "P:"+paramName(fn.Params[0]) {
			continue // not the result's list (R3 deals with writes elsewhere)
		}
		n++
		var origin func(v ssa.Value, depth int, seen map[ssa.Value]bool) []string
		origin = func(v ssa.Value, depth int, seen map[ssa.Value]bool) []string {
			if depth > 12 {
				return []string{"?"}
			}
			if seen[v] {
				return nil
			}
			seen[v] = true
			defer delete(seen, v)
			t := e.Term(v)
			if t == ownT {
				return []string{"own"}
			}
			if t == parT {
				return []string{"the whole merged-in list"}
			}
			if t == parT+"["+ownLen+":]" {
				return []string{"new-tail"} // also through a helper that returns the tail (its result is transparent)
			}
			switch x := v.(type) {
			case *ssa.Const:
				if x.Value == nil {
					return nil
				}
			case *ssa.Slice:
				xt := e.Term(x.X)
				switch {
				case xt == parT:
					if x.Low != nil && x.High == nil && e.LE(x.Low).String() == ownLen {
						return []string{"new-tail"}
					}
					lo := "0"
					if x.Low != nil {
						lo = e.LE(x.Low).String()
					}
					return []string{"the merged-in list from position " + lo}
				case xt == ownT:
					if x.Low == nil && x.High == nil {
						return []string{"own"}
					}
					return []string{"a part of the own list"}
				}
				if al, ok := x.X.(*ssa.Alloc); ok && al.Referrers() != nil {
					// a literal: its elements
					var out []string
					for _, ref := range *al.Referrers() {
						if ia, ok := ref.(*ssa.IndexAddr); ok && ia.Referrers() != nil {
							for _, r2 := range *ia.Referrers() {
								if es, ok := r2.(*ssa.Store); ok {
									out = append(out, origin(es.Val, depth+1, seen)...)
								}
							}
						}
					}
					return out
				}
				return origin(x.X, depth+1, seen)
			case *ssa.UnOp:
				// an element of the merged-in list: new only from the own length on
				if ia, ok := x.X.(*ssa.IndexAddr); ok && x.Op == token.MUL && e.Term(ia.X) == parT {
					if ph, ok := ia.Index.(*ssa.Phi); ok {
						for _, ed := range ph.Edges {
							if bo, isStep := ed.(*ssa.BinOp); isStep && bo.Op == token.ADD && bo.X == ssa.Value(ph) {
								continue
							}
							if e.LE(ed).String() != ownLen {
								return []string{"an element of the merged-in list at a position that does not start at the own length"}
							}
						}
						return []string{"new-tail"}
					}
					return []string{"element " + e.LE(ia.Index).String() + " of the merged-in list"}
				}
			case *ssa.MakeSlice:
				var out []string
				filled := false
				if x.Referrers() != nil {
					for _, ref := range *x.Referrers() {
						if call, ok := ref.(*ssa.Call); ok {
							if bi, ok := call.Call.Value.(*ssa.Builtin); ok && bi.Name() == "copy" && call.Call.Args[0] == ssa.Value(x) {
								filled = true
								out = append(out, origin(call.Call.Args[1], depth+1, seen)...)
							}
						}
					}
				}
				if !filled && e.LE(x.Len).String() != "0" {
					out = append(out, "empty transfers (a fresh slice of non-zero length that is never filled)")
				}
				return out
			case *ssa.Call:
				if bi, ok := x.Call.Value.(*ssa.Builtin); ok && bi.Name() == "append" {
					return append(origin(x.Call.Args[0], depth+1, seen), origin(x.Call.Args[1], depth+1, seen)...)
				}
			case *ssa.Phi:
				var out []string
				for _, ed := range x.Edges {
					out = append(out, origin(ed, depth+1, seen)...)
				}
				return out
			}
			return []string{"? (" + t + ")"}
		}
		os := uniq(origin(st.Val, 0, map[ssa.Value]bool{}))
		sort.Strings(os)
		construct := "store " + e.Term(st.Addr) + " = " + e.Term(st.Val)
		hasOwn := false
		var bad, unknown []string
		for _, o := range os {
			switch {
			case o == "own":
				hasOwn = true
			case o == "new-tail":
			case strings.HasPrefix(o, "?"):
				unknown = append(unknown, o)
			default:
				bad = append(bad, o)
			}
		}
		switch {
		case len(bad) > 0:
			c.FailX(Oblig{Rule: rule, Func: FuncName(s.In.Parent()), Construct: construct, Pos: c.P.InstrPos(st), Kind: "violation",
				Detail:   "the merged transfer list takes " + strings.Join(bad, " and ") + ": transfers the result already had are replaced, or transfers it already had are appended again",
				Expected: "own list ++ merged-in list[len(own list):]"})
		case len(unknown) > 0:
			c.Fail(rule, "undecided", FuncName(s.In.Parent()), construct, c.P.InstrPos(st), "cannot tell what the stored list consists of: "+strings.Join(unknown, ", "))
		case !hasOwn:
			c.FailX(Oblig{Rule: rule, Func: FuncName(s.In.Parent()), Construct: construct, Pos: c.P.InstrPos(st), Kind: "violation",
				Detail: "the merged transfer list does not start with the result's own transfers: they are lost", Expected: "own list ++ merged-in list[len(own list):]"})
		default:
			c.OK(rule, FuncName(s.In.Parent()), construct, c.P.InstrPos(st), "own list followed by the merged-in tail from the own length on")
		}
	}
	if n == 0 {
		c.Anchor(rule, "a store into the result's OutputTransfers below MergeOutputAccounts")
	}
}

// ---------------------------------------------------------------- R8: later storage updates win

// c20r8: "lets later storage updates win": below the two merge entry points, every turn of a loop over the merged-in
// account's storage updates stores that turn's key with that turn's update in a map (the result's own) before the next
// turn begins or the loop is left — no turn is skipped (`continue` on some updates), and nothing is deleted from the
// result's map. An update that carries empty data is a deletion the node has to see; dropping it lets the earlier write win.
func c20r8(c *Ctx) {
	const rule = "C20-R8"
	c.Rule(rule, "later storage updates win: every turn of the loop over the merged-in updates stores that turn's (key, update); nothing is deleted from the result", 1)
	var roots []*ssa.Function
	for _, n := range []string{"(*vmcommon.OutputAccount).MergeOutputAccounts", "(*vmcommon.OutputAccount).MergeStorageUpdates"} {
		if fn := c.P.FuncByName(n); fn != nil {
			roots = append(roots, fn)
		} else {
			c.Anchor(rule, n)
		}
	}
	isUpdMap := func(t types.Type) bool {
		m, ok := t.Underlying().(*types.Map)
		if !ok {
			return false
		}
		pt, ok := m.Elem().Underlying().(*types.Pointer)
		if !ok {
			return false
		}
		n, ok := pt.Elem().(*types.Named)
		return ok && n.Obj().Name() == "StorageUpdate"
	}
	var fns []*ssa.Function
	for fn := range c.P.ReachableFrom(roots) {
		if c.P.InPkgs(fn, "") && len(fn.Blocks) > 0 {
			fns = append(fns, fn)
		}
	}
	sort.Slice(fns, func(i, j int) bool { return FuncName(fns[i]) < FuncName(fns[j]) })
	loops := 0
	for _, fn := range fns {
		for _, b := range fn.Blocks {
			for _, in := range b.Instrs {
				// nothing is deleted from a storage-update map
				if call, ok := in.(ssa.CallInstruction); ok {
					if bi, ok := call.Common().Value.(*ssa.Builtin); ok && bi.Name() == "delete" && isUpdMap(call.Common().Args[0].Type()) {
						c.FailX(Oblig{Rule: rule, Func: FuncName(fn), Construct: "delete from a storage-update map below the merge", Pos: c.P.InstrPos(in), Kind: "violation",
							Detail: "the merge removes an entry from a storage-update map: an update made earlier or later is lost instead of the later one winning"})
					}
				}
				nx, ok := in.(*ssa.Next)
				if !ok || nx.IsString {
					continue
				}
				rg, ok := nx.Iter.(*ssa.Range)
				if !ok || !isUpdMap(rg.X.Type()) {
					continue
				}
				loops++
				construct := "loop over " + c.P.Env(fn).Term(rg.X) + ": every turn stores its own (key, update)"
				// the body: the successor taken when the iterator yielded an element
				var okv, keyv, valv ssa.Value
				if nx.Referrers() != nil {
					for _, r := range *nx.Referrers() {
						if ex, isEx := r.(*ssa.Extract); isEx {
							switch ex.Index {
							case 0:
								okv = ex
							case 1:
								keyv = ex
							case 2:
								valv = ex
							}
						}
					}
				}
				iff, _ := b.Instrs[len(b.Instrs)-1].(*ssa.If)
				if iff == nil || okv == nil || iff.Cond != okv {
					c.Fail(rule, "undecided", FuncName(fn), construct, c.P.InstrPos(nx), "the loop over the merged-in updates has a shape that is not recognised")
					continue
				}
				body := b.Succs[0]
				isTurnStore := func(x ssa.Instruction) bool {
					mu, ok := x.(*ssa.MapUpdate)
					if !ok || !isUpdMap(mu.Map.Type()) || keyv == nil || valv == nil {
						return false
					}
					if stripConv(mu.Key) != keyv {
						return false
					}
					if mu.Value == valv {
						return true
					}
					// a private copy of the update: a fresh object whose Data is that of this turn's update
					if al, ok := mu.Value.(*ssa.Alloc); ok && al.Referrers() != nil {
						for _, r := range *al.Referrers() {
							fa, ok := r.(*ssa.FieldAddr)
							if !ok || fieldName(fa.X.Type(), fa.Field) != "Data" || fa.Referrers() == nil {
								continue
							}
							for _, r2 := range *fa.Referrers() {
								if st, ok := r2.(*ssa.Store); ok && derivedFromField(st.Val, valv, "Data", 0) {
									return true
								}
							}
						}
					}
					return false
				}
				seen := map[*ssa.BasicBlock]bool{}
				var escape string
				var walk func(x *ssa.BasicBlock)
				walk = func(x *ssa.BasicBlock) {
					if seen[x] || escape != "" {
						return
					}
					seen[x] = true
					if x == b {
						escape = "the next turn begins"
						return
					}
					for _, xi := range x.Instrs {
						if isTurnStore(xi) {
							return
						}
						if _, isRet := xi.(*ssa.Return); isRet {
							escape = "the merge returns (" + c.P.InstrPos(xi) + ")"
							return
						}
					}
					for _, s := range x.Succs {
						walk(s)
					}
				}
				walk(body)
				if escape == "" {
					c.OK(rule, FuncName(fn), construct, c.P.InstrPos(nx), "every path through a turn passes m[key] = update of that turn")
				} else {
					c.FailX(Oblig{Rule: rule, Func: FuncName(fn), Construct: construct, Pos: c.P.InstrPos(nx), Kind: "violation",
						Detail:   "a turn of the loop can end without storing its update: " + escape + " on a path that bypasses the store — the skipped update (e.g. one that clears the value) does not win over the earlier one",
						Expected: "result.StorageUpdates[key] = update on every path through the loop body"})
				}
			}
		}
	}
	if loops == 0 {
		c.Anchor(rule, "a loop over the merged-in account's StorageUpdates below the merge functions")
	}
}

func stripConv(v ssa.Value) ssa.Value {
	for {
		switch x := v.(type) {
		case *ssa.ChangeType:
			v = x.X
		case *ssa.Convert:
			v = x.X
		case *ssa.MakeInterface:
			v = x.X
		default:
			return v
		}
	}
}

// derivedFromField: v is obj.<field>, a re-slice / copy-append of it.
func derivedFromField(v, obj ssa.Value, field string, depth int) bool {
	if depth > 6 {
		return false
	}
	switch x := v.(type) {
	case *ssa.UnOp:
		if fa, ok := x.X.(*ssa.FieldAddr); ok && x.Op == token.MUL && fa.X == obj && fieldName(fa.X.Type(), fa.Field) == field {
			return true
		}
	case *ssa.Slice:
		return derivedFromField(x.X, obj, field, depth+1)
	case *ssa.Call:
		if bi, ok := x.Call.Value.(*ssa.Builtin); ok && bi.Name() == "append" && len(x.Call.Args) == 2 {
			return derivedFromField(x.Call.Args[1], obj, field, depth+1)
		}
	case *ssa.MakeSlice:
		if x.Referrers() != nil {
			for _, r := range *x.Referrers() {
				if call, ok := r.(*ssa.Call); ok {
					if bi, ok := call.Call.Value.(*ssa.Builtin); ok && bi.Name() == "copy" && call.Call.Args[0] == ssa.Value(x) {
						return derivedFromField(call.Call.Args[1], obj, field, depth+1)
					}
				}
			}
		}
	}
	return false
}
