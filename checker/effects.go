package main

// E-EFFECT: enumeration of state-changing instructions below an entry point (context-sensitive: every call chain),
// and the "cut in context" query: an effect is guarded if, at some level of its call chain, the edges establishing the
// guard cut the path from that function's entry to the effect (resp. to the call leading to it).

import (
	"fmt"
	"go/types"
	"os"
	"sort"
	"strings"

	"golang.org/x/tools/go/ssa"
)

// world-state mutators of the injected dependencies (interfaces of the root package)
var mutatingDeps = map[string]bool{
	"SaveKeyValue": true, "AddToBalance": true, "ClaimDeveloperRewards": true, "ChangeOwnerAddress": true, "SetOwnerAddress": true,
	"SetUserName": true, "IncreaseNonce": true, "SaveAccount": true, "RemoveAccount": true, "Commit": true, "RevertToSnapshot": true, "RecreateTrie": true,
}

func depInvoke(c ssa.CallInstruction) (iface, method string, ok bool) {
	cc := c.Common()
	if !cc.IsInvoke() {
		return "", "", false
	}
	n, isNamed := cc.Value.Type().(*types.Named)
	if !isNamed || n.Obj().Pkg() == nil || n.Obj().Pkg().Path() != modPath {
		return "", "", false
	}
	return n.Obj().Name(), cc.Method.Name(), true
}

// worldEffect: the instruction changes the world state or emits an output transfer.
func worldEffect(in ssa.Instruction) (string, bool) {
	switch x := in.(type) {
	case ssa.CallInstruction:
		if _, m, ok := depInvoke(x); ok && mutatingDeps[m] {
			return m, true
		}
	case *ssa.Alloc:
		if strings.HasSuffix(x.Type().(*types.Pointer).Elem().String(), modPath+".OutputTransfer") {
			return "OutputTransfer{…}", true
		}
	}
	return "", false
}

type EffectSite struct {
	Env  *Env
	In   ssa.Instruction
	Name string
}

func (s EffectSite) Chain() string {
	var parts []string
	for x := s.Env; x != nil; x = x.Parent {
		parts = append([]string{x.Fn.Name()}, parts...)
	}
	return strings.Join(parts, " > ")
}

var reachEffCache = map[string]map[*ssa.Function]bool{}

// reachesEffect: functions that contain an effect or call (module-resolved) a function that does.
func (p *Prog) reachesEffect(id string, isEffect func(ssa.Instruction) (string, bool)) map[*ssa.Function]bool {
	if m, ok := reachEffCache[id]; ok {
		return m
	}
	m := map[*ssa.Function]bool{}
	for _, fn := range p.Funcs {
		for _, b := range fn.Blocks {
			for _, in := range b.Instrs {
				if _, ok := isEffect(in); ok {
					m[fn] = true
				}
			}
		}
	}
	for changed := true; changed; {
		changed = false
		for _, fn := range p.Funcs {
			if m[fn] {
				continue
			}
			for _, b := range fn.Blocks {
				for _, in := range b.Instrs {
					if c, ok := in.(ssa.CallInstruction); ok {
						for _, callee := range p.Callees(c) {
							if m[callee] && !m[fn] {
								m[fn] = true
								changed = true
							}
						}
					}
				}
			}
		}
	}
	reachEffCache[id] = m
	return m
}

// EffectSites enumerates the effect instructions below entry with their calling contexts.
func (p *Prog) EffectSites(entry *ssa.Function, id string, isEffect func(ssa.Instruction) (string, bool)) []EffectSite {
	reach := p.reachesEffect(id, isEffect)
	var out []EffectSite
	var walk func(e *Env, stack map[*ssa.Function]bool)
	walk = func(e *Env, stack map[*ssa.Function]bool) {
		if stack[e.Fn] || e.depth > 7 {
			return
		}
		stack[e.Fn] = true
		defer delete(stack, e.Fn)
		var dead map[*ssa.BasicBlock]bool
		if e.Parent != nil {
			dead = e.deadBlocks() // branches not taken in this calling context (a constant flag or an absent list handed in)
		}
		for _, b := range e.Fn.Blocks {
			if dead[b] {
				continue
			}
			for _, in := range b.Instrs {
				if name, ok := isEffect(in); ok {
					out = append(out, EffectSite{e, in, name})
				}
				if c, ok := in.(ssa.CallInstruction); ok {
					for _, callee := range e.CalleesIn(c) {
						if reach[callee] && len(callee.Blocks) > 0 {
							walk(e.Sub(c, callee), stack)
						}
					}
				}
			}
		}
	}
	walk(p.Env(entry), map[*ssa.Function]bool{})
	return out
}

// EffectSitesBelow: the effect sites of the function env is about, keeping env's calling context.
func (p *Prog) EffectSitesBelow(env *Env, id string, isEffect func(ssa.Instruction) (string, bool)) []EffectSite {
	reach := p.reachesEffect(id, isEffect)
	var out []EffectSite
	var walk func(e *Env, stack map[*ssa.Function]bool)
	walk = func(e *Env, stack map[*ssa.Function]bool) {
		if stack[e.Fn] || e.depth > 9 {
			return
		}
		stack[e.Fn] = true
		defer delete(stack, e.Fn)
		var dead map[*ssa.BasicBlock]bool
		if e.Parent != nil {
			dead = e.deadBlocks() // branches not taken in this calling context (a constant flag or an absent list handed in)
		}
		for _, b := range e.Fn.Blocks {
			if dead[b] {
				continue
			}
			for _, in := range b.Instrs {
				if name, ok := isEffect(in); ok {
					out = append(out, EffectSite{e, in, name})
				}
				if c, ok := in.(ssa.CallInstruction); ok {
					for _, callee := range e.CalleesIn(c) {
						if reach[callee] && len(callee.Blocks) > 0 {
							walk(e.Sub(c, callee), stack)
						}
					}
				}
			}
		}
	}
	walk(env, map[*ssa.Function]bool{})
	return out
}

// CutAt: within e.Fn, the edges carrying a fact accepted by pred (plus edges infeasible under assume) cut entry -> at.
// Returns the accepted facts that took part.
func (e *Env) CutAt(at ssa.Instruction, pred func(Fact) bool, assume []Fact) ([]Fact, bool) {
	if r, ok := at.(*ssa.Return); ok {
		for _, f := range e.tailCallFacts(r) {
			if sat(pred, f) {
				return []Fact{f}, true
			}
		}
	}
	ef := e.EdgeFactsUnder(assume)
	cut := map[edge]bool{}
	if r, ok := at.(*ssa.Return); ok && isSuccessReturn(r) {
		cut = errorEdges(r) // only for a return that may succeed: an error exit is reached exactly through those edges
	}
	// what is known at the instruction itself about values that cannot change (nil-ness and comparisons of parameters): a
	// path that contradicts it does not lead here (`if dst != nil { check }; …; if dst != nil { credit }`)
	var own []Fact
	for _, f := range e.factsAt(at.Block(), at, assume) {
		if !f.Lin && len(f.Or) == 0 && !strings.ContainsAny(f.Atom, "*#") && strings.Contains(f.Atom, "P:") {
			own = append(own, f)
		}
	}
	// facts computed for a block no feasible path reaches come in both polarities: they say nothing
	pol := map[string]bool{}
	for _, a := range own {
		if p0, seen := pol[a.Atom]; seen && p0 != a.Pos {
			own = nil
			break
		}
		pol[a.Atom] = a.Pos
	}
	if os.Getenv("VDEBUG") == "cutat" {
		for _, a := range own {
			fmt.Println("DEBUG cutat own", e.Fn.Name(), e.P.InstrPos(at), a.Key())
		}
	}
	var used []Fact
	usedEdges := map[string][]edge{}
	for ed, fs := range ef {
		for _, f := range fs {
			for _, a := range own {
				if contradicts(f, a) {
					cut[ed] = true
				}
			}
			if sat(pred, f) {
				cut[ed] = true
				if _, seen := usedEdges[f.Key()]; !seen {
					used = append(used, f)
				}
				usedEdges[f.Key()] = append(usedEdges[f.Key()], ed)
			}
			if f.Lin && f.LE.isConst() && f.LE.k < 0 {
				cut[ed] = true
			}
			for _, a := range assume {
				if contradicts(f, a) {
					cut[ed] = true
				}
			}
		}
	}
	if len(used) == 0 {
		return nil, false
	}
	if reachableAvoiding(e.Fn.Blocks[0], at.Block(), cut) {
		return nil, false
	}
	for _, f := range used {
		if e.killedBetween(f, usedEdges[f.Key()], at.Block(), at) {
			return nil, false
		}
	}
	sort.Slice(used, func(i, j int) bool { return used[i].Key() < used[j].Key() })
	return used, true
}

// CutInContext: the effect site is guarded at some level of its call chain.
func (s EffectSite) CutInContext(pred func(Fact) bool, assume []Fact) ([]Fact, string, bool) {
	at := s.In
	for x := s.Env; x != nil; x = x.Parent {
		if fs, ok := x.CutAt(at, pred, assume); ok {
			return fs, x.Fn.Name(), true
		}
		if x.Call == nil {
			break
		}
		at = x.Call
	}
	return nil, "", false
}

// witnessPath: a path from the entry of the site's own function to the effect that avoids all edges accepted by pred.
func (s EffectSite) witnessPath(pred func(Fact) bool) []string {
	e := s.Env
	cut := map[edge]bool{}
	for ed, fs := range e.EdgeFacts() {
		for _, f := range fs {
			if sat(pred, f) {
				cut[ed] = true
			}
		}
	}
	return pathAvoiding(e.Fn.Blocks[0], s.In.Block(), cut)
}

// CutInAllContexts: the instruction is guarded (by a fact accepted by mk(env)) in its own function, or — when that
// function is an unexported helper — in every calling context (recursively, depth <= 3).
func (p *Prog) CutInAllContexts(fn *ssa.Function, at ssa.Instruction, mk func(e *Env) func(Fact) bool) (string, bool, string) {
	return p.cutInCtx(p.Env(fn), at, mk, 0)
}

func (p *Prog) cutInCtx(e *Env, at ssa.Instruction, mk func(e *Env) func(Fact) bool, depth int) (string, bool, string) {
	s := EffectSite{Env: e, In: at}
	if fs, where, ok := s.CutInContext(mk(e), nil); ok {
		return "cut in " + where + " by " + fs[0].String(), true, ""
	}
	top := e
	for top.Parent != nil {
		top = top.Parent
	}
	if depth >= 3 || isExportedAPI(top.Fn) || len(p.Callers[top.Fn]) == 0 {
		return "", false, s.Chain()
	}
	var bys []string
	n := 0
	for _, cs := range p.Callers[top.Fn] {
		if !p.Src(cs.Parent()) {
			continue
		}
		n++
		by, ok, ctx := p.cutInCtx(rebuildChain(p, e, cs), at, mk, depth+1)
		if !ok {
			return "", false, ctx
		}
		bys = append(bys, by)
	}
	if n == 0 {
		return "", false, s.Chain()
	}
	return "in every calling context: " + strings.Join(uniq(bys), " | "), true, ""
}

// UnreachableUnder: at some level of the call chain the site (resp. the call leading to it) is unreachable under the assumptions.
func (s EffectSite) UnreachableUnder(assume []Fact) bool {
	if len(assume) == 0 {
		return false
	}
	at := s.In
	for x := s.Env; x != nil; x = x.Parent {
		if x.unreachableUnder(at.Block(), assume) {
			return true
		}
		if x.Call == nil {
			break
		}
		at = x.Call
	}
	return false
}

// regFlagAssumptions: the receiver fields that the constructor of registration r fills from constant boolean arguments, as facts about
// the entry point's receiver (e.g. ESDTWipe: wipe == true, freeze == false).
func regFlagAssumptions(p *Prog, r Registration) []Fact {
	if r.Ctor == nil || r.Entry == nil || r.CtorCall == nil {
		return nil
	}
	recv := "P:" + paramName(r.Entry.Params[0])
	var out []Fact
	for _, b := range r.Ctor.Blocks {
		for _, in := range b.Instrs {
			st, ok := in.(*ssa.Store)
			if !ok {
				continue
			}
			fa, ok := st.Addr.(*ssa.FieldAddr)
			if !ok {
				continue
			}
			par, ok := st.Val.(*ssa.Parameter)
			if !ok || par.Type().String() != "bool" {
				continue
			}
			for i, q := range r.Ctor.Params {
				if q == par && i < len(r.CtorCall.Call.Args) {
					arg := r.CtorCall.Call.Args[i]
					if i < len(r.ArgVals) {
						arg = r.ArgVals[i]
					}
					if bv, ok := boolConst(arg); ok {
						out = append(out, Fact{Atom: "cond:*" + recv + "." + fieldName(fa.X.Type(), fa.Field), Pos: bv, Why: "constant constructor flag of " + r.Key})
					}
				}
			}
		}
	}
	return out
}
