package main

// E-GUARD / E-INT core: canonical terms over SSA values, linear views of integer values, facts established
// on CFG edges (with validator summaries), and the Cut primitive.

import (
	"fmt"
	"go/constant"
	"go/token"
	"go/types"
	"os"
	"regexp"
	"sort"
	"strings"

	"golang.org/x/tools/go/ssa"
)

// ---------------------------------------------------------------- environments

// Env is a function analysed in a calling context: parameters are substituted by the caller's terms.
type Env struct {
	P        *Prog
	Fn       *ssa.Function
	Parent   *Env
	Call     ssa.CallInstruction
	ctx      string
	depth    int
	ef       map[edge][]Fact
	touch    *touchSet // collects SSA values visited while building terms (for staleness checks)
	inLenPhi map[*ssa.Phi]bool
	inPhi    map[*ssa.Phi]bool
	pending  []pendingSummary
	efUnder  map[string]map[edge][]Fact
	// for the body of a function literal: the MakeClosure that binds its free variables (Parent = env of the enclosing function)
	closure *ssa.MakeClosure
	// when the literal is CALLED (through a variable, a parameter or a field): Parent/Call describe the call site (parameters),
	// defEnv the env of the function in which the literal was created (free variables)
	defEnv *Env
	// a bound method value `f := x.m` called as f(args): the receiver x, in the env where the method value was made
	boundRecv ssa.Value
	boundEnv  *Env
	dead      map[*ssa.BasicBlock]bool
	deadBusy  bool
}

// ukey: a key that is unique per calling context (the printable ctx is built from function *names*, which methods of
// different types share — SetNewGasConfig.t3 of one type is not SetNewGasConfig.t3 of another).
func (e *Env) ukey() string {
	if e == nil {
		return ""
	}
	k := fmt.Sprintf("%p", e.Fn)
	if e.Call != nil {
		k += fmt.Sprintf("@%p", e.Call)
	}
	if e.closure != nil {
		k += fmt.Sprintf("^%p", e.closure)
	}
	if e.boundRecv != nil {
		k += fmt.Sprintf("~%p", e.boundRecv)
	}
	return e.Parent.ukey() + "/" + k
}

// defining: the env in which the free variables of this literal are bound.
func (e *Env) defining() *Env {
	if e.defEnv != nil {
		return e.defEnv
	}
	return e.Parent
}

// funcTarget: one function a func-typed value may denote, with what binds its free variables / receiver.
type funcTarget struct {
	fn        *ssa.Function
	mc        *ssa.MakeClosure
	defEnv    *Env
	boundRecv ssa.Value
}

// funcTargets resolves a func-typed value to the function literals, functions and bound methods it may denote, following
// parameters to call sites, local variables, captured variables and fields of parameter objects. nil = cannot tell.
func (e *Env) funcTargets(v ssa.Value, depth int) []funcTarget {
	if depth > 8 {
		return nil
	}
	switch x := v.(type) {
	case *ssa.Function:
		return []funcTarget{{fn: x}}
	case *ssa.MakeClosure:
		fn, _ := x.Fn.(*ssa.Function)
		if fn == nil {
			return nil
		}
		if fn.Synthetic != "" && len(x.Bindings) == 1 {
			if real := unwrapSynthetic(fn); real != nil && real != fn {
				return []funcTarget{{fn: real, defEnv: e, boundRecv: x.Bindings[0]}}
			}
		}
		return []funcTarget{{fn: fn, mc: x, defEnv: e}}
	case *ssa.Parameter:
		if a, pe := e.actual(x); a != nil {
			return pe.funcTargets(a, depth+1)
		}
	case *ssa.ChangeType:
		return e.funcTargets(x.X, depth+1)
	case *ssa.Phi:
		var out []funcTarget
		for _, ed := range x.Edges {
			if ed == ssa.Value(x) {
				continue
			}
			ts := e.funcTargets(ed, depth+1)
			if ts == nil {
				return nil
			}
			out = append(out, ts...)
		}
		return out
	case *ssa.Field:
		if w, we := e.structField(x.X, x.Field, 0); w != nil {
			return we.funcTargets(w, depth+1)
		}
	case *ssa.UnOp:
		if x.Op != token.MUL {
			return nil
		}
		if f := forwarded(x); f != nil {
			return e.funcTargets(f, depth+1)
		}
		if w, we := e.ctorField(x); w != nil {
			return we.funcTargets(w, depth+1)
		}
		if sv, _ := wholeStructForward(x); sv != nil {
			if fa, ok := x.X.(*ssa.FieldAddr); ok {
				if w, we := e.structField(sv, fa.Field, 0); w != nil {
					return we.funcTargets(w, depth+1)
				}
			}
		}
		if fv, ok := x.X.(*ssa.FreeVar); ok {
			if w, we := e.cellValue(fv); w != nil && we != nil {
				return we.funcTargets(w, depth+1)
			}
		}
		// a field of an object reached through parameters (pointer receiver / pointer parameter): every store into that field of
		// the allocation it denotes
		if fa, ok := x.X.(*ssa.FieldAddr); ok {
			base, env := fa.X, e
			for d := 0; d < 6; d++ {
				par, ok := base.(*ssa.Parameter)
				if !ok {
					break
				}
				a, pe := env.actual(par)
				if a == nil {
					return nil
				}
				base, env = a, pe
			}
			if al, ok := base.(*ssa.Alloc); ok && al.Referrers() != nil {
				var out []funcTarget
				for _, r := range *al.Referrers() {
					f2, ok := r.(*ssa.FieldAddr)
					if !ok || f2.Field != fa.Field || f2.Referrers() == nil {
						continue
					}
					for _, r2 := range *f2.Referrers() {
						if st, ok := r2.(*ssa.Store); ok && st.Addr == ssa.Value(f2) {
							ts := env.funcTargets(st.Val, depth+1)
							if ts == nil {
								return nil
							}
							out = append(out, ts...)
						}
					}
				}
				return out
			}
		}
		// a local variable holding a function
		if al, ok := x.X.(*ssa.Alloc); ok && al.Referrers() != nil {
			var out []funcTarget
			for _, r := range *al.Referrers() {
				if st, ok := r.(*ssa.Store); ok && st.Addr == ssa.Value(al) {
					ts := e.funcTargets(st.Val, depth+1)
					if ts == nil {
						return nil
					}
					out = append(out, ts...)
				}
			}
			return out
		}
	}
	return nil
}

// SubClosure: the env of the function literal created by mc in e's function.
func (e *Env) SubClosure(mc *ssa.MakeClosure) *Env {
	fn, _ := mc.Fn.(*ssa.Function)
	if fn == nil {
		return nil
	}
	return &Env{P: e.P, Fn: fn, Parent: e, closure: mc, depth: e.depth + 1, ctx: e.ctx + "/" + e.Fn.Name() + ".lit" + valueName(mc)}
}

// cellValue: the single value ever stored into the variable cell bound to free variable fv of this closure — by the
// enclosing function or by a sibling closure that captures the same cell — with the env to read it in.
func (e *Env) cellValue(fv *ssa.FreeVar) (ssa.Value, *Env) {
	if e.closure == nil || e.defining() == nil {
		return nil, nil
	}
	idx := -1
	for i, q := range e.Fn.FreeVars {
		if q == fv {
			idx = i
		}
	}
	if idx < 0 || idx >= len(e.closure.Bindings) {
		return nil, nil
	}
	cell, ok := e.closure.Bindings[idx].(*ssa.Alloc)
	if !ok || cell.Referrers() == nil {
		return nil, nil
	}
	var val ssa.Value
	var venv *Env
	n := 0
	for _, r := range *cell.Referrers() {
		switch x := r.(type) {
		case *ssa.Store:
			if x.Addr == ssa.Value(cell) {
				n++
				val, venv = x.Val, e.defining()
			}
		case *ssa.MakeClosure:
			f2, _ := x.Fn.(*ssa.Function)
			if f2 == nil {
				continue
			}
			for j, b := range x.Bindings {
				if b != ssa.Value(cell) || j >= len(f2.FreeVars) || f2.FreeVars[j].Referrers() == nil {
					continue
				}
				for _, r2 := range *f2.FreeVars[j].Referrers() {
					if st, ok := r2.(*ssa.Store); ok && st.Addr == ssa.Value(f2.FreeVars[j]) {
						n++
						val, venv = st.Val, e.defining().SubClosure(x)
					}
				}
			}
		}
	}
	if n != 1 {
		return nil, nil
	}
	return val, venv
}

type touchSet struct{ vals map[ssa.Value]bool }

func (p *Prog) Env(fn *ssa.Function) *Env { return &Env{P: p, Fn: fn} }

func (e *Env) Sub(call ssa.CallInstruction, callee *ssa.Function) *Env {
	sub := &Env{P: e.P, Fn: callee, Parent: e, Call: call, depth: e.depth + 1,
		ctx: e.ctx + "/" + call.Parent().Name() + "." + valueName(call)}
	cc := call.Common()
	if cc.IsInvoke() {
		return sub
	}
	if _, isFn := cc.Value.(*ssa.Function); isFn {
		return sub
	}
	if _, isB := cc.Value.(*ssa.Builtin); isB {
		return sub
	}
	// a call of a function value: bind the literal's free variables / the method value's receiver
	if call.Parent() == e.Fn {
		for _, t := range e.funcTargets(cc.Value, 0) {
			if t.fn != callee {
				continue
			}
			if t.mc != nil {
				sub.closure, sub.defEnv = t.mc, t.defEnv
			}
			if t.boundRecv != nil {
				sub.boundRecv, sub.boundEnv = t.boundRecv, t.defEnv
			}
			break
		}
	}
	return sub
}

func valueName(in ssa.Instruction) string {
	if v, ok := in.(ssa.Value); ok {
		return v.Name()
	}
	return fmt.Sprintf("i%d.%d", in.Block().Index, indexIn(in))
}

func indexIn(in ssa.Instruction) int {
	for i, x := range in.Block().Instrs {
		if x == in {
			return i
		}
	}
	return -1
}

// actual returns the caller-side value bound to parameter p, and the caller env.
func (e *Env) actual(p *ssa.Parameter) (ssa.Value, *Env) {
	if e.Parent == nil || e.Call == nil {
		return nil, nil
	}
	cc := e.Call.Common()
	for i, q := range e.Fn.Params {
		if q != p {
			continue
		}
		if e.boundRecv != nil && !cc.IsInvoke() {
			// f := x.m; f(a, b): parameter 0 is x, parameter i is argument i-1
			if i == 0 {
				return e.boundRecv, e.boundEnv
			}
			if i-1 < len(cc.Args) {
				return cc.Args[i-1], e.Parent
			}
			return nil, nil
		}
		if cc.IsInvoke() {
			if i == 0 {
				return cc.Value, e.Parent
			}
			if i-1 < len(cc.Args) {
				return cc.Args[i-1], e.Parent
			}
			return nil, nil
		}
		if i < len(cc.Args) {
			return cc.Args[i], e.Parent
		}
	}
	return nil, nil
}

func (e *Env) note(v ssa.Value) {
	if e.touch != nil {
		if _, ok := v.(ssa.Instruction); ok {
			e.touch.vals[v] = true
		}
	}
}

// paramName: blank parameters get their index so that two of them never share a term.
func paramName(v *ssa.Parameter) string {
	if v.Name() != "_" && v.Name() != "" {
		return v.Name()
	}
	for i, q := range v.Parent().Params {
		if q == v {
			return fmt.Sprintf("_%d", i)
		}
	}
	return "_"
}

// ---------------------------------------------------------------- store-to-load forwarding

// forwarded returns the value stored by the single store to the loaded location when that location is a field
// of a local allocation, or a local variable cell, the store dominates the load, and nothing else stores there.
func forwarded(u *ssa.UnOp) ssa.Value {
	if u.Op != token.MUL {
		return nil
	}
	var stores []*ssa.Store
	switch a := u.X.(type) {
	case *ssa.IndexAddr:
		// x[i] = v; … x[i] …  in one block, x a slice made in this function, same index value, nothing in between
		// that stores into x or calls out with x
		if _, ok := a.X.(*ssa.MakeSlice); !ok {
			return nil
		}
		blk := u.Block()
		instrs := blk.Instrs
		pos := -1
		for i, in := range instrs {
			if in == ssa.Instruction(u) {
				pos = i
			}
		}
		// … or in the blocks before it, as long as each has a single predecessor (a guard that returns early was put between
		// the store and the load: every path to the load still runs through the store, in this order)
		for hops := 0; hops < 8; hops++ {
			for i := pos - 1; i >= 0; i-- {
				switch in := instrs[i].(type) {
				case *ssa.Store:
					if ia, ok := in.Addr.(*ssa.IndexAddr); ok && ia.X == a.X {
						if ia.Index == a.Index {
							return in.Val
						}
						return nil
					}
				case ssa.CallInstruction:
					for _, arg := range in.Common().Args {
						if arg == a.X {
							return nil
						}
					}
				}
			}
			if len(blk.Preds) != 1 || blk.Preds[0] == blk {
				return nil
			}
			blk = blk.Preds[0]
			instrs = blk.Instrs
			pos = len(instrs)
		}
		return nil
	case *ssa.FieldAddr:
		var al ssa.Value
		switch b := a.X.(type) {
		case *ssa.Alloc:
			al = b
		case *ssa.Call:
			// an object freshly built by a module constructor is as private as a local literal
			if freshObjectCall(b) {
				al = b
			}
		}
		if al == nil || al.Referrers() == nil {
			return nil
		}
		escapes := false
		for _, r := range *al.Referrers() {
			switch r := r.(type) {
			case *ssa.FieldAddr:
				if r.Field != a.Field {
					continue
				}
				for _, rr := range *r.Referrers() {
					switch rr := rr.(type) {
					case *ssa.Store:
						if rr.Addr == r {
							stores = append(stores, rr)
						}
					case *ssa.UnOp:
					default:
						_ = rr
						escapes = true // address of the field taken for something else
					}
				}
			}
		}
		if escapes || len(stores) != 1 {
			return nil
		}
	case *ssa.Alloc:
		for _, r := range *a.Referrers() {
			switch r := r.(type) {
			case *ssa.Store:
				if r.Addr == a {
					stores = append(stores, r)
				} else {
					return nil
				}
			case *ssa.UnOp:
			case *ssa.MakeClosure:
				// a variable captured by a function literal that only reads it keeps its single definition
				if !closureOnlyReads(r, a, 0) {
					return nil
				}
			default:
				return nil
			}
		}
		if len(stores) != 1 {
			return nil
		}
	default:
		return nil
	}
	st := stores[0]
	if st.Block() == u.Block() {
		for _, in := range st.Block().Instrs {
			if in == st {
				return st.Val
			}
			if in == ssa.Instruction(u) {
				return nil
			}
		}
	}
	if st.Block().Dominates(u.Block()) {
		return st.Val
	}
	return nil
}

// closureOnlyReads: the function literal bound by mc only loads from the captured variable cell (no store, no hand-over of
// the cell's address except to nested literals of which the same holds).
func closureOnlyReads(mc *ssa.MakeClosure, cell ssa.Value, depth int) bool {
	fn, _ := mc.Fn.(*ssa.Function)
	if fn == nil || depth > 3 {
		return false
	}
	for i, b := range mc.Bindings {
		if b != cell {
			continue
		}
		if i >= len(fn.FreeVars) {
			return false
		}
		fv := fn.FreeVars[i]
		if fv.Referrers() == nil {
			continue
		}
		for _, r := range *fv.Referrers() {
			switch x := r.(type) {
			case *ssa.UnOp:
			case *ssa.MakeClosure:
				if !closureOnlyReads(x, fv, depth+1) {
					return false
				}
			case *ssa.DebugRef:
			default:
				return false
			}
		}
	}
	return true
}

// freshObjectCall: a call to a module function every return of which yields an object allocated in that function.
func freshObjectCall(c *ssa.Call) bool {
	sc := c.Call.StaticCallee()
	if sc == nil || len(sc.Blocks) == 0 || sc.Pkg == nil || !strings.HasPrefix(sc.Pkg.Pkg.Path(), modPath) || c.Call.Signature().Results().Len() != 1 {
		return false
	}
	n := 0
	for _, r := range returnsOf(sc) {
		if len(r.Results) != 1 {
			return false
		}
		if _, ok := retval(r, 0).(*ssa.Alloc); !ok {
			return false
		}
		n++
	}
	return n > 0
}

// wholeStructForward: load of field f of a local struct variable that is assigned exactly once, as a whole, by a store
// dominating the load (x := f(); … x.f …): returns the stored struct value and the field name.
// structField: field idx of a struct VALUE sv (a parameter object passed or returned by value): follows parameters to the
// call site and module functions that build the struct as a literal and return it, to the value stored into that field.
func (e *Env) structField(sv ssa.Value, idx int, depth int) (ssa.Value, *Env) {
	if depth > 6 {
		return nil, nil
	}
	switch x := sv.(type) {
	case *ssa.Parameter:
		if a, pe := e.actual(x); a != nil {
			return pe.structField(a, idx, depth+1)
		}
	case *ssa.Extract:
		// one of several results of an unexported helper (`item, rest := next(rest)`)
		if call, ok := x.Tuple.(*ssa.Call); ok {
			sc := call.Call.StaticCallee()
			if sc == nil || len(sc.Blocks) == 0 || sc.Pkg == nil || !strings.HasPrefix(sc.Pkg.Pkg.Path(), modPath) || e.depth >= maxDepth || isExportedAPI(sc) {
				return nil, nil
			}
			rets := returnsOf(sc)
			if len(rets) != 1 || x.Index >= len(rets[0].Results) {
				return nil, nil
			}
			return e.Sub(call, sc).structField(rets[0].Results[x.Index], idx, depth+1)
		}
	case *ssa.Call:
		sc := x.Call.StaticCallee()
		if sc == nil || len(sc.Blocks) == 0 || sc.Pkg == nil || !strings.HasPrefix(sc.Pkg.Pkg.Path(), modPath) || e.depth >= maxDepth {
			return nil, nil
		}
		// only unexported builders of parameter objects: the result of an exported decoder keeps its own name (rules speak of
		// "the Frozen field of what ESDTUserMetadataFromBytes returned")
		if isExportedAPI(sc) {
			return nil, nil
		}
		rets := returnsOf(sc)
		if len(rets) != 1 || len(rets[0].Results) != 1 {
			return nil, nil
		}
		return e.Sub(x, sc).structField(rets[0].Results[0], idx, depth+1)
	case *ssa.UnOp:
		if x.Op != token.MUL {
			return nil, nil
		}
		if g, ok := x.X.(*ssa.Global); ok {
			// a package-level table entry that nothing but its initialiser ever writes
			if w := e.P.globalStructField(g, idx); w != nil {
				return w, e
			}
			return nil, nil
		}
		al, ok := x.X.(*ssa.Alloc)
		if !ok || al.Referrers() == nil {
			return nil, nil
		}
		// a literal built in a local and loaded once as a whole: the store into the field
		var val ssa.Value
		n := 0
		for _, r := range *al.Referrers() {
			switch r := r.(type) {
			case *ssa.FieldAddr:
				if r.Referrers() == nil {
					continue
				}
				for _, rr := range *r.Referrers() {
					st, isStore := rr.(*ssa.Store)
					if !isStore {
						if _, isLoad := rr.(*ssa.UnOp); !isLoad {
							return nil, nil
						}
						continue
					}
					if r.Field == idx {
						n++
						val = st.Val
						// the store must be part of building the literal: it is executed on every path to the load
						if !(st.Block() == x.Block() && indexIn(st) < indexIn(x)) && !(st.Block() != x.Block() && st.Block().Dominates(x.Block())) {
							return nil, nil
						}
					}
				}
			case *ssa.UnOp, *ssa.DebugRef:
			case *ssa.Store:
				if r.Addr == ssa.Value(al) {
					// a spilled copy of another struct value
					return e.structField(r.Val, idx, depth+1)
				}
				return nil, nil
			default:
				return nil, nil
			}
		}
		if n == 1 {
			return val, e
		}
		if n == 0 {
			// not mentioned in the literal: the zero value
			if st, ok := al.Type().(*types.Pointer).Elem().Underlying().(*types.Struct); ok && idx < st.NumFields() {
				if bt, ok := st.Field(idx).Type().Underlying().(*types.Basic); ok {
					switch {
					case bt.Info()&types.IsInteger != 0:
						return ssa.NewConst(constant.MakeInt64(0), st.Field(idx).Type()), e
					case bt.Info()&types.IsBoolean != 0:
						return ssa.NewConst(constant.MakeBool(false), st.Field(idx).Type()), e
					}
				}
			}
		}
	}
	return nil, nil
}

func wholeStructForward(u *ssa.UnOp) (ssa.Value, string) {
	fa, ok := u.X.(*ssa.FieldAddr)
	if !ok {
		return nil, ""
	}
	al, ok := fa.X.(*ssa.Alloc)
	if !ok {
		return nil, ""
	}
	var whole []*ssa.Store
	for _, r := range *al.Referrers() {
		switch r := r.(type) {
		case *ssa.Store:
			if r.Addr == ssa.Value(al) {
				whole = append(whole, r)
			} else {
				return nil, "" // the address escapes
			}
		case *ssa.FieldAddr:
			for _, rr := range *r.Referrers() {
				if _, isLoad := rr.(*ssa.UnOp); isLoad {
					continue
				}
				// a store into a field on a branch from which this load cannot be reached does not concern it
				if fs, isStore := rr.(*ssa.Store); isStore && fs.Addr == ssa.Value(r) && !instrReaches(u.Parent(), fs, u, nil) {
					continue
				}
				return nil, "" // a field is stored to on the way / its address escapes
			}
		case *ssa.UnOp, *ssa.DebugRef:
		case *ssa.Call:
			// a method called on the local (value or pointer receiver) after this load cannot change what was loaded
			if instrReaches(u.Parent(), r, u, nil) {
				return nil, ""
			}
		default:
			return nil, ""
		}
	}
	if len(whole) != 1 {
		return nil, ""
	}
	st := whole[0]
	dom := st.Block().Dominates(u.Block()) && st.Block() != u.Block()
	if st.Block() == u.Block() {
		for _, in := range st.Block().Instrs {
			if in == ssa.Instruction(st) {
				dom = true
				break
			}
			if in == ssa.Instruction(u) {
				break
			}
		}
	}
	if !dom {
		return nil, ""
	}
	return st.Val, fieldName(fa.X.Type(), fa.Field)
}

// ---------------------------------------------------------------- terms

func constStringVal(v constant.Value) (string, bool) {
	if v == nil || v.Kind() != constant.String {
		return "", false
	}
	return constant.StringVal(v), true
}

func fieldName(t types.Type, i int) string {
	if p, ok := t.Underlying().(*types.Pointer); ok {
		t = p.Elem()
	}
	st, ok := t.Underlying().(*types.Struct)
	if !ok || i >= st.NumFields() {
		return fmt.Sprintf("f%d", i)
	}
	return st.Field(i).Name()
}

func isInteger(t types.Type) bool {
	b, ok := t.Underlying().(*types.Basic)
	return ok && b.Info()&types.IsInteger != 0
}
func isUnsignedT(t types.Type) bool {
	b, ok := t.Underlying().(*types.Basic)
	return ok && b.Info()&types.IsUnsigned != 0
}
func isBigIntPtr(t types.Type) bool { return t.String() == "*math/big.Int" }

var bigMutators = map[string]bool{"Add": true, "Sub": true, "Neg": true, "Set": true, "SetBytes": true, "SetUint64": true, "SetInt64": true,
	"Mul": true, "Div": true, "Mod": true, "Quo": true, "Rem": true, "Abs": true, "Exp": true, "Lsh": true, "Rsh": true, "SetString": true,
	"SetBit": true, "And": true, "Or": true, "Xor": true, "Not": true, "Sqrt": true, "GCD": true, "ModInverse": true, "DivMod": true, "QuoRem": true,
	"SetBits": true, "FillBytes": false, "Rand": true, "MulRange": true, "Binomial": true, "AndNot": true, "ModSqrt": true, "UnmarshalText": true,
	"UnmarshalJSON": true, "GobDecode": true, "Scan": true, "SetFrac": true}

func bigMethod(c ssa.CallInstruction) string {
	n := CalleeName(c)
	if strings.HasPrefix(n, "(*math/big.Int).") {
		return strings.TrimPrefix(n, "(*math/big.Int).")
	}
	return ""
}

// mutatedAsBig: v (a *big.Int value) is the receiver of a mutating big.Int method somewhere in its function, other
// than the call `except`, or is handed to a module function that mutates that parameter.
func (p *Prog) mutatedAsBig(v ssa.Value, except ssa.Instruction) bool {
	refs := v.Referrers()
	if refs == nil {
		return false
	}
	for _, r := range *refs {
		if r == except {
			continue
		}
		c, ok := r.(ssa.CallInstruction)
		if !ok {
			continue
		}
		cc := c.Common()
		if m := bigMethod(c); m != "" {
			if bigMutators[m] && len(cc.Args) > 0 && cc.Args[0] == v {
				return true
			}
			continue
		}
		for _, callee := range p.Callees(c) {
			for i, a := range cc.Args {
				idx := i
				if cc.IsInvoke() {
					idx = i + 1
				}
				if a == v && p.bigMutatesParam(callee, idx) {
					return true
				}
			}
		}
	}
	return false
}

// bigMutatesParam: callee may mutate the big.Int its i-th parameter points to (direct receiver use or passed on).
func (p *Prog) bigMutatesParam(fn *ssa.Function, i int) bool {
	return p.bigMutates(fn, i, map[string]bool{})
}
func (p *Prog) bigMutates(fn *ssa.Function, i int, seen map[string]bool) bool {
	if fn == nil || len(fn.Blocks) == 0 || i >= len(fn.Params) {
		return false
	}
	k := fmt.Sprintf("%p/%d", fn, i)
	if seen[k] {
		return false
	}
	seen[k] = true
	par := fn.Params[i]
	if !isBigIntPtr(par.Type()) {
		return false
	}
	for _, r := range *par.Referrers() {
		c, ok := r.(ssa.CallInstruction)
		if !ok {
			continue
		}
		cc := c.Common()
		if m := bigMethod(c); m != "" {
			if bigMutators[m] && len(cc.Args) > 0 && cc.Args[0] == par {
				return true
			}
			continue
		}
		for _, callee := range p.Callees(c) {
			for j, a := range cc.Args {
				idx := j
				if cc.IsInvoke() {
					idx = j + 1
				}
				if a == par && p.bigMutates(callee, idx, seen) {
					return true
				}
			}
		}
	}
	return false
}

// bigTerm gives a value-level term for a *big.Int when the value is a fresh, never-again-mutated construction.
func (e *Env) bigTerm(v ssa.Value) (string, bool) {
	c, ok := v.(*ssa.Call)
	if !ok {
		return "", false
	}
	name := CalleeName(c)
	args := c.Call.Args
	fresh := func(x ssa.Value) bool { // big.NewInt(k) used only as the receiver of this one call
		n, ok := x.(*ssa.Call)
		if !ok || CalleeName(n) != "math/big.NewInt" {
			return false
		}
		return !e.P.mutatedAsBig(n, c)
	}
	if e.P.mutatedAsBig(v, nil) {
		return "", false
	}
	switch name {
	case "math/big.NewInt":
		if k, ok := args[0].(*ssa.Const); ok && k.Value != nil {
			return "big(" + k.Value.ExactString() + ")", true
		}
		return "bigI(" + e.LE(args[0]).String() + ")", true
	case "(*math/big.Int).SetBytes":
		if fresh(args[0]) {
			return "bigBytes(" + e.Term(args[1]) + ")", true
		}
	case "(*math/big.Int).SetUint64":
		if fresh(args[0]) {
			return "bigU(" + e.LE(args[1]).String() + ")", true
		}
	case "(*math/big.Int).Set":
		if fresh(args[0]) {
			return "bigv(" + e.Term(args[1]) + ")", true
		}
	case "(*math/big.Int).Neg":
		if fresh(args[0]) {
			return "neg(" + e.Term(args[1]) + ")", true
		}
	}
	return "", false
}

// bigMutatorsOf: the calls in e.Fn that may change the content of the big.Int denoted by term rt (receiver of a mutating
// method, or argument of a module function that mutates that parameter).
func (e *Env) bigMutatorsOf(rt string) []ssa.Instruction {
	var out []ssa.Instruction
	for _, b := range e.Fn.Blocks {
		for _, in := range b.Instrs {
			c, ok := in.(ssa.CallInstruction)
			if !ok {
				continue
			}
			cc := c.Common()
			if m := bigMethod(c); m != "" {
				if bigMutators[m] && len(cc.Args) > 0 && e.termShallow(cc.Args[0]) == rt {
					out = append(out, in)
				}
				continue
			}
			for i, a := range cc.Args {
				if !isBigIntPtr(a.Type()) || e.termShallow(a) != rt {
					continue
				}
				idx := i
				if cc.IsInvoke() {
					idx = i + 1
				}
				for _, callee := range e.P.Callees(c) {
					if e.P.bigMutatesParam(callee, idx) {
						out = append(out, in)
					}
				}
			}
		}
	}
	return out
}

// termShallow: Term without entering the big-value layer (so that it can be used while computing versions).
func (e *Env) termShallow(v ssa.Value) string {
	if c, ok := v.(*ssa.Call); ok && isBigIntPtr(c.Type()) {
		return e.opaque(c)
	}
	return e.Term(v)
}

// instrReaches: `to` can be reached from just after `from` (or from the function entry when from == nil) without
// executing any instruction of barriers.
func instrReaches(fn *ssa.Function, from ssa.Instruction, to ssa.Instruction, barriers map[ssa.Instruction]bool) bool {
	type pos struct {
		b *ssa.BasicBlock
	}
	seen := map[*ssa.BasicBlock]bool{}
	var scan func(b *ssa.BasicBlock, i int) bool
	scan = func(b *ssa.BasicBlock, i int) bool {
		for ; i < len(b.Instrs); i++ {
			in := b.Instrs[i]
			if in == to {
				return true
			}
			if barriers[in] {
				return false
			}
		}
		for _, s := range b.Succs {
			if seen[s] {
				continue
			}
			seen[s] = true
			if scan(s, 0) {
				return true
			}
		}
		return false
	}
	if from == nil {
		seen[fn.Blocks[0]] = true
		return scan(fn.Blocks[0], 0)
	}
	return scan(from.Block(), indexIn(from)+1)
}

// bigRef renders a *big.Int operand of a content-reading call at instruction `at`: its value term when it is an
// immutable construction, else its pointer term qualified by the set of mutations that can reach `at` — two reads
// agree only if they see the same version of the object.
// versionZeroAt: no mutating big.Int call of this function on the number v can run before the instruction at (the number
// still is what the caller handed in).
func (e *Env) versionZeroAt(v ssa.Value, at ssa.Instruction) bool {
	r := (&Env{P: e.P, Fn: e.Fn}).bigRef(v, at)
	return !strings.Contains(r, "@v{") || strings.HasSuffix(r, "@v{0}")
}

func (e *Env) bigRef(v ssa.Value, at ssa.Instruction) string {
	if p, ok := v.(*ssa.Parameter); ok {
		if a, pe := e.actual(p); a != nil && e.Call != nil {
			return pe.bigRef(a, e.Call)
		}
	}
	if c, ok := v.(*ssa.Call); ok {
		if s, ok := e.bigTerm(c); ok {
			return s
		}
	}
	rt := e.termShallow(v)
	muts := e.bigMutatorsOf(rt)
	// a value defined by a mutating call that returns its receiver (x := big.NewInt(0).SetBytes(b)) starts a version
	if c, ok := v.(*ssa.Call); ok {
		if m := bigMethod(c); m != "" && bigMutators[m] {
			muts = append(muts, c)
		}
	}
	if len(muts) == 0 || at == nil || at.Parent() != e.Fn {
		return rt
	}
	barriers := map[ssa.Instruction]bool{}
	for _, m := range muts {
		barriers[m] = true
	}
	var vs []string
	if instrReaches(e.Fn, nil, at, barriers) {
		vs = append(vs, "0")
	}
	for _, m := range muts {
		if m == at {
			continue
		}
		if instrReaches(e.Fn, m, at, barriers) {
			vs = append(vs, valueName(m))
		}
	}
	sort.Strings(vs)
	return rt + "@v{" + strings.Join(vs, ",") + "}"
}

// bigReachingDefs: the mutating calls whose result the content of v at `at` may be (for taint: where do the bytes come from).
func (e *Env) bigReachingDefs(v ssa.Value, at ssa.Instruction) []*ssa.Call {
	rt := e.termShallow(v)
	muts := e.bigMutatorsOf(rt)
	if c, ok := v.(*ssa.Call); ok {
		if m := bigMethod(c); m != "" && bigMutators[m] {
			muts = append(muts, c)
		}
	}
	barriers := map[ssa.Instruction]bool{}
	for _, m := range muts {
		barriers[m] = true
	}
	var out []*ssa.Call
	for _, m := range muts {
		if c, ok := m.(*ssa.Call); ok && m != at && instrReaches(e.Fn, m, at, barriers) {
			out = append(out, c)
		}
	}
	return out
}

// bigValueAt: the number held by the big.Int v when instruction `at` executes, as a term, when exactly one definition
// reaches `at` on the paths that are feasible in this calling context (a conditional in-place negation under a flag of the
// parameter object is either always or never executed for a given caller).
func (e *Env) bigValueAt(v ssa.Value, at ssa.Instruction, depth int) (string, bool) {
	if depth > 6 || at == nil {
		return "", false
	}
	if p, ok := v.(*ssa.Parameter); ok {
		if a, pe := e.actual(p); a != nil && e.Call != nil {
			if ci, ok := e.Call.(ssa.Instruction); ok {
				return pe.bigValueAt(a, ci, depth+1)
			}
		}
		return "", false
	}
	if s, ok := e.bigTerm(v); ok {
		return s, true
	}
	if at.Parent() != e.Fn {
		return "", false
	}
	rt := e.termShallow(v)
	muts := e.bigMutatorsOf(rt)
	if c, ok := v.(*ssa.Call); ok {
		if m := bigMethod(c); m != "" && bigMutators[m] {
			muts = append(muts, c)
		}
	}
	if len(muts) == 0 {
		return "", false
	}
	cut := map[edge]bool{}
	for ed, fs := range e.EdgeFacts() {
		for _, f := range fs {
			if f.Lin && f.LE.isConst() && f.LE.k < 0 {
				cut[ed] = true
			}
		}
	}
	barriers := map[ssa.Instruction]bool{}
	for _, m := range muts {
		barriers[m] = true
	}
	var reaching []*ssa.Call
	for _, m := range muts {
		c, ok := m.(*ssa.Call)
		if !ok || m == at {
			continue
		}
		if !reachableAvoiding(e.Fn.Blocks[0], m.Block(), cut) {
			continue // never executed in this calling context
		}
		if reachesAvoiding(e.Fn, m, at, barriers, cut) {
			reaching = append(reaching, c)
		}
	}
	if len(reaching) != 1 {
		return "", false
	}
	d := reaching[0]
	args := d.Call.Args
	switch bigMethod(d) {
	case "Set":
		return e.bigValueAt(args[1], d, depth+1)
	case "SetBytes":
		return "bigBytes(" + e.Term(args[1]) + ")", true
	case "SetUint64":
		return "bigU(" + e.LE(args[1]).String() + ")", true
	case "Neg":
		if inner, ok := e.bigValueAt(args[1], d, depth+1); ok {
			if strings.HasPrefix(inner, "neg(") {
				return strings.TrimSuffix(strings.TrimPrefix(inner, "neg("), ")"), true
			}
			return "neg(" + inner + ")", true
		}
	}
	return "", false
}

var pureInvokes = map[string]bool{
	"Coordinator.ComputeId": true, "Coordinator.SelfId": true, "UserAccountHandler.AddressBytes": true,
	"UserAccountHandler.GetOwnerAddress": true, "UserAccountHandler.GetUserName": true,
}

var pureStatic = map[string]string{
	"(*math/big.Int).Uint64": "Uint64", "(*math/big.Int).Cmp": "cmp", "(*math/big.Int).Bytes": "Bytes", "(*math/big.Int).Sign": "Sign",
	"(*math/big.Int).IsUint64": "IsUint64", "(*math/big.Int).IsInt64": "IsInt64", "(*math/big.Int).Int64": "Int64", "(*math/big.Int).BitLen": "BitLen",
	"encoding/hex.EncodeToString": "hex", "bytes.Equal": "bytesEqual", "bytes.Compare": "bytesCompare",
}

// Term renders v canonically. Equal strings denote equal values provided the memory they read has not changed
// (see kills in HoldsAt) and the big.Int objects they name have not been mutated (bigTerm).
func (e *Env) Term(v ssa.Value) string {
	e.note(v)
	switch v := v.(type) {
	case *ssa.Parameter:
		if a, pe := e.actual(v); a != nil {
			return pe.Term(a)
		}
		return "P:" + paramName(v)
	case *ssa.FreeVar:
		if e.closure != nil && e.defining() != nil {
			for i, q := range e.Fn.FreeVars {
				if q == v && i < len(e.closure.Bindings) {
					return "&" + e.defining().Term(e.closure.Bindings[i])
				}
			}
		}
		return "FV:" + v.Name()
	case *ssa.Const:
		if v.Value == nil {
			return "nil"
		}
		return v.Value.ExactString()
	case *ssa.Global:
		return "G:" + short(v.Pkg.Pkg.Path()) + "." + v.Name()
	case *ssa.Function:
		return "F:" + FuncName(v)
	case *ssa.FieldAddr:
		return e.Term(v.X) + "." + fieldName(v.X.Type(), v.Field)
	case *ssa.Field:
		if w, we := e.structField(v.X, v.Field, 0); w != nil {
			return we.Term(w)
		}
		return e.Term(v.X) + "." + fieldName(v.X.Type(), v.Field)
	case *ssa.IndexAddr:
		if be, base, off, ok := e.sliceBase(v.X, 0); ok {
			return be.Term(base) + "[" + off.plus(e.LE(v.Index)).String() + "]" // x[a:b][i] is x[a+i]
		}
		return e.Term(v.X) + "[" + e.LE(v.Index).String() + "]"
	case *ssa.Index:
		return e.Term(v.X) + "[" + e.LE(v.Index).String() + "]"
	case *ssa.Lookup:
		return "lookup(" + e.Term(v.X) + "," + e.Term(v.Index) + ")"
	case *ssa.Slice:
		lo, hi := "", ""
		if v.Low != nil {
			lo = e.LE(v.Low).String()
		}
		if v.High != nil {
			hi = e.LE(v.High).String()
		}
		if lo == "" && hi == "" && v.Max == nil {
			return e.Term(v.X)
		}
		if be, base, off, ok := e.sliceBase(v.X, 0); ok {
			// x[a:b][c:d] is x[a+c:a+d]; x[a:b][c:] is x[a+c:b]
			nlo := off
			if v.Low != nil {
				nlo = off.plus(e.LE(v.Low))
			}
			nhi := ""
			if v.High != nil {
				nhi = off.plus(e.LE(v.High)).String()
			} else if in, ok := e.innerHigh(v.X, 0); ok {
				nhi = in
			}
			return be.Term(base) + "[" + nlo.String() + ":" + nhi + "]"
		}
		return e.Term(v.X) + "[" + lo + ":" + hi + "]"
	case *ssa.UnOp:
		if v.Op == token.MUL {
			if f := forwarded(v); f != nil {
				return e.Term(f)
			}
			if sv, fld := wholeStructForward(v); sv != nil {
				if fa, ok := v.X.(*ssa.FieldAddr); ok {
					if w, we := e.structField(sv, fa.Field, 0); w != nil {
						return we.Term(w) // a field of a parameter object passed by value
					}
				}
				return e.Term(sv) + "." + fld
			}
			if w, we := e.ctorField(v); w != nil {
				return we.Term(w)
			}
			if t := e.multiStoreFieldTerm(v); t != "" {
				return t
			}
			if fv, ok := v.X.(*ssa.FreeVar); ok {
				// a captured variable that is assigned exactly once (by the enclosing function or a sibling literal)
				if w, we := e.cellValue(fv); w != nil && we != nil && we.depth < 8 {
					return we.Term(w)
				}
			}
			return "*" + e.Term(v.X)
		}
		return v.Op.String() + e.Term(v.X)
	case *ssa.BinOp:
		if isInteger(v.Type()) && (v.Op == token.ADD || v.Op == token.SUB || v.Op == token.MUL) {
			return "(" + e.LE(v).String() + ")"
		}
		if isInteger(v.X.Type()) && isInteger(v.Y.Type()) {
			return "(" + e.LE(v.X).String() + " " + v.Op.String() + " " + e.LE(v.Y).String() + ")"
		}
		x, y := e.Term(v.X), e.Term(v.Y)
		if (v.Op == token.EQL || v.Op == token.NEQ) && y < x {
			x, y = y, x
		}
		return "(" + x + " " + v.Op.String() + " " + y + ")"
	case *ssa.Convert:
		if c, ok := v.X.(*ssa.Const); ok {
			if s, ok := constStringVal(c.Value); ok {
				return fmt.Sprintf("%q", s) // []byte("const") and "const" denote the same bytes
			}
		}
		return e.Term(v.X)
	case *ssa.ChangeType:
		return e.Term(v.X)
	case *ssa.ChangeInterface:
		return e.Term(v.X)
	case *ssa.MakeInterface:
		return e.Term(v.X)
	case *ssa.TypeAssert:
		return e.Term(v.X)
	case *ssa.Extract:
		if ta, ok := v.Tuple.(*ssa.TypeAssert); ok {
			if v.Index == 0 {
				return e.Term(ta.X)
			}
			return "ok(" + e.Term(ta.X) + "," + ta.AssertedType.String() + ")"
		}
		if call, ok := v.Tuple.(*ssa.Call); ok {
			if rv, sub := e.inlineResult(call, v.Index); rv != nil {
				return sub.Term(rv)
			}
		}
		return e.Term(v.Tuple) + "#" + fmt.Sprint(v.Index)
	case *ssa.Phi:
		// a φ whose incoming values all denote the same term is that term
		if e.inPhi == nil {
			e.inPhi = map[*ssa.Phi]bool{}
		}
		if e.inPhi[v] {
			return e.opaque(v)
		}
		e.inPhi[v] = true
		defer delete(e.inPhi, v)
		var t string
		same := true
		// in a calling context, values arriving from branches that the context rules out (a constant flag of a parameter
		// object: `if action.removesSupply { x = neg } else { x = pos }`) do not count
		var dead map[*ssa.BasicBlock]bool
		if e.Parent != nil && len(v.Edges) > 1 && len(v.Edges) == len(v.Block().Preds) {
			dead = e.deadBlocksCached()
		}
		for i, ed := range v.Edges {
			if ed == ssa.Value(v) {
				continue
			}
			if dead != nil && dead[v.Block().Preds[i]] {
				continue
			}
			s := e.termNoCycle(ed, v)
			if t == "" {
				t = s
			} else if s != t {
				same = false
			}
		}
		if same && t != "" && !strings.Contains(t, "#"+v.Name()+"@") {
			return t
		}
	case *ssa.Call:
		if b, ok := v.Call.Value.(*ssa.Builtin); ok {
			switch b.Name() {
			case "len":
				return "(" + e.lenOf(v.Call.Args[0]).String() + ")"
			}
			break
		}
		if s, ok := e.bigTerm(v); ok {
			return s
		}
		name := CalleeName(v)
		if pn, ok := pureStatic[name]; ok {
			if strings.HasPrefix(name, "(*math/big.Int).") {
				var parts []string
				for _, a := range v.Call.Args {
					if isBigIntPtr(a.Type()) {
						parts = append(parts, e.bigRef(a, v))
					} else {
						parts = append(parts, e.Term(a))
					}
				}
				return pn + "(" + strings.Join(parts, ",") + ")"
			}
			return pn + "(" + e.termList(v.Call.Args) + ")"
		}
		if in := InvokeName(v); in != "" && pureInvokes[in] {
			return in + "(" + e.Term(v.Call.Value) + "," + e.termList(v.Call.Args) + ")"
		}
		if v.Call.Signature().Results().Len() == 1 {
			if rv, sub := e.inlineResult(v, 0); rv != nil {
				return sub.Term(rv)
			}
		}
		if sc := v.Call.StaticCallee(); sc != nil && e.P.isPureFn(sc) {
			return FuncName(sc) + "(" + e.termList(v.Call.Args) + ")"
		}
	}
	return e.opaque(v)
}

// inlineResult makes extracted helpers transparent: when every (successful) return of a module function yields the
// same expression over its parameters for result i, the call's result IS that expression. It returns the callee's
// returned value and the callee env to render it in, or nil. Results of error-returning functions are taken from the
// success returns only, and only when every use of the result lies on the `err == nil` side of a test of that call's
// error (usedOnlyOnSuccess); big.Int and callee-allocated objects keep their own treatment (bigTerm, origins).
// singleCallee: the one module function the call executes: the static callee, or — for a call of a function value — the
// single literal / function / bound method it resolves to in this calling context.
func (e *Env) singleCallee(call *ssa.Call) *ssa.Function {
	if sc := call.Call.StaticCallee(); sc != nil {
		return sc
	}
	if call.Call.IsInvoke() || call.Parent() != e.Fn {
		return nil
	}
	if _, isB := call.Call.Value.(*ssa.Builtin); isB {
		return nil
	}
	ts := e.funcTargets(call.Call.Value, 0)
	if len(ts) != 1 {
		return nil
	}
	return ts[0].fn
}

func (e *Env) inlineResult(call *ssa.Call, i int) (ssa.Value, *Env) {
	sc := e.singleCallee(call)
	if sc == nil || len(sc.Blocks) == 0 || sc.Pkg == nil || !strings.HasPrefix(sc.Pkg.Pkg.Path(), modPath) || e.depth >= maxDepth {
		return nil, nil
	}
	for x := e; x != nil; x = x.Parent {
		if x.Fn == sc {
			return nil, nil
		}
	}
	res := sc.Signature.Results()
	if i >= res.Len() || res.At(i).Type().String() == "error" {
		return nil, nil
	}
	isBig := isBigIntPtr(res.At(i).Type())
	if isBig {
		// a number built by the helper (`value := big.NewInt(0).SetBytes(args[1]); return value, nil`) keeps its pure term,
		// provided neither the helper nor this caller mutates it afterwards
		var user ssa.Value = call
		if res.Len() > 1 {
			user = nil
			if call.Referrers() != nil {
				for _, r := range *call.Referrers() {
					if x, ok := r.(*ssa.Extract); ok && x.Index == i {
						user = x
					}
				}
			}
		}
		if user == nil || e.P.mutatedAsBig(user, nil) {
			return nil, nil
		}
	}
	key := inlineKey{e.ukey(), call, i}
	if r, ok := inlineCache[key]; ok {
		return r.v, r.e
	}
	inlineCache[key] = inlineRes{} // in progress: opaque
	sel := func(r *ssa.Return) bool { return true }
	if lastIsError(sc) {
		if !usedOnlyOnSuccess(call) {
			return nil, nil
		}
		sel = isSuccessReturn
	}
	sub := e.Sub(call, sc)
	var first ssa.Value
	t := ""
	n := 0
	_, sliceRes := res.At(i).Type().Underlying().(*types.Slice)
	for _, r := range returnsOf(sc) {
		if !sel(r) || i >= len(r.Results) {
			continue
		}
		rv := liveRetval(r, i)
		if sliceRes && isNilConst(rv) {
			continue // "nothing": a nil slice has no elements to name; its length keeps its own atom (lenOf does not inline)
		}
		s := sub.Term(rv)
		if n > 0 && s != t {
			return nil, nil
		}
		first, t = rv, s
		n++
	}
	if n == 0 || strings.Contains(t, "@"+sub.ctx) {
		return nil, nil
	}
	if isBig {
		if _, ok := sub.bigTerm(first); !ok {
			return nil, nil
		}
	}
	inlineCache[key] = inlineRes{first, sub}
	return first, sub
}

type inlineKey struct {
	ctx  string
	call *ssa.Call
	i    int
}
type inlineRes struct {
	v ssa.Value
	e *Env
}

var inlineCache = map[inlineKey]inlineRes{}

// usedOnlyOnSuccess: every use of a non-error result of the call is dominated by the `err == nil` edge of a test of
// the call's own error result.
func usedOnlyOnSuccess(call *ssa.Call) bool {
	n := call.Call.Signature().Results().Len()
	var errX *ssa.Extract
	var others []*ssa.Extract
	if call.Referrers() == nil {
		return false
	}
	for _, r := range *call.Referrers() {
		if x, ok := r.(*ssa.Extract); ok {
			if x.Index == n-1 {
				errX = x
			} else {
				others = append(others, x)
			}
		}
	}
	if errX == nil || errX.Referrers() == nil {
		return false
	}
	var okBlocks []*ssa.BasicBlock
	for _, r := range *errX.Referrers() {
		bo, ok := r.(*ssa.BinOp)
		if !ok || !(bo.Op == token.NEQ || bo.Op == token.EQL) || !isNilConst(bo.Y) || bo.Referrers() == nil {
			continue
		}
		for _, u := range *bo.Referrers() {
			iff, ok := u.(*ssa.If)
			if !ok || len(iff.Block().Succs) != 2 {
				continue
			}
			t := iff.Block().Succs[1]
			if bo.Op == token.EQL {
				t = iff.Block().Succs[0]
			}
			if len(t.Preds) == 1 {
				okBlocks = append(okBlocks, t)
			}
		}
	}
	if len(okBlocks) == 0 {
		return false
	}
	dominated := func(b *ssa.BasicBlock) bool {
		for _, k := range okBlocks {
			if k.Dominates(b) {
				return true
			}
		}
		return false
	}
	for _, x := range others {
		if x.Referrers() == nil {
			continue
		}
		for _, u := range *x.Referrers() {
			if _, ok := u.(*ssa.DebugRef); ok {
				continue
			}
			if ph, ok := u.(*ssa.Phi); ok {
				for k, ed := range ph.Edges {
					if ed == ssa.Value(x) && !dominated(ph.Block().Preds[k]) {
						return false
					}
				}
				continue
			}
			if !dominated(u.Block()) {
				return false
			}
		}
	}
	return true
}

// ctorField: u loads field f of an object built by a module constructor (`newX(a, b)` returning `&X{f: a, g: b}`, possibly
// reached through parameters: a parameter object handed to a method): returns the value the constructor stored into f and
// the env to read it in. Only for fields that nothing but that constructor ever assigns.
// ctorObjectField: u loads a field of an object built by a module constructor (reached through parameters): the fresh
// allocation, the constructor's env and every store the constructor makes into that field — when the constructor is the only
// function that ever assigns the field. For a field the builder assigns more than once (set to a default, overwritten under a
// condition) the load is named by the constructor's own address of it, so that the builder's facts about it apply.
func (e *Env) ctorObjectField(u *ssa.UnOp) (*ssa.Alloc, *Env, []*ssa.Store) {
	if u.Op != token.MUL {
		return nil, nil, nil
	}
	fa, ok := u.X.(*ssa.FieldAddr)
	if !ok {
		return nil, nil, nil
	}
	base, env := fa.X, e
	for d := 0; d < 6; d++ {
		par, ok := base.(*ssa.Parameter)
		if !ok {
			break
		}
		a, pe := env.actual(par)
		if a == nil {
			return nil, nil, nil
		}
		base, env = a, pe
	}
	var call *ssa.Call
	switch x := base.(type) {
	case *ssa.Call:
		call = x
	case *ssa.Extract:
		if c, ok := x.Tuple.(*ssa.Call); ok && x.Index == 0 {
			call = c
		}
	}
	if call == nil || env.depth >= 5 {
		return nil, nil, nil
	}
	sc := call.Call.StaticCallee()
	if sc == nil || len(sc.Blocks) == 0 || sc.Pkg == nil || !strings.HasPrefix(sc.Pkg.Pkg.Path(), modPath) {
		return nil, nil, nil
	}
	var obj *ssa.Alloc
	for _, r := range returnsOf(sc) {
		if len(r.Results) == 0 {
			return nil, nil, nil
		}
		if lastIsError(sc) && !isSuccessReturn(r) {
			continue
		}
		al, ok := retval(r, 0).(*ssa.Alloc)
		if !ok || obj != nil && al != obj {
			return nil, nil, nil
		}
		obj = al
	}
	if obj == nil || obj.Referrers() == nil || !e.P.fieldAssignedOnlyIn(obj.Type(), fa.Field, sc) {
		return nil, nil, nil
	}
	var stores []*ssa.Store
	for _, ref := range *obj.Referrers() {
		f2, ok := ref.(*ssa.FieldAddr)
		if !ok || f2.Field != fa.Field || f2.Referrers() == nil {
			continue
		}
		for _, r2 := range *f2.Referrers() {
			if st, ok := r2.(*ssa.Store); ok && st.Addr == ssa.Value(f2) {
				stores = append(stores, st)
			}
		}
	}
	return obj, env.Sub(call, sc), stores
}

// atomRange: atoms known to lie in a constant range (a builder's field that is only ever assigned constants).
var atomRange = map[string][2]int64{}

// multiStoreFieldTerm: the name of a constructor-object field that the constructor assigns more than once.
func (e *Env) multiStoreFieldTerm(u *ssa.UnOp) string {
	obj, sub, stores := e.ctorObjectField(u)
	if obj == nil || len(stores) < 2 {
		return ""
	}
	fa := u.X.(*ssa.FieldAddr)
	t := "*" + sub.Term(obj) + "." + fieldName(fa.X.Type(), fa.Field)
	lo, hi, all := int64(0), int64(0), true
	for i, st := range stores {
		k, ok := constInt(st.Val)
		if !ok {
			all = false
			break
		}
		if i == 0 || k < lo {
			lo = k
		}
		if i == 0 || k > hi {
			hi = k
		}
	}
	if all {
		atomRange[t] = [2]int64{lo, hi}
	}
	return t
}

// soleFieldStore: the one store instruction in the module that assigns field idx of an object of pointer type ptrT; nil if
// there is none or more than one.
var soleStoreCache = map[string]*ssa.Store{}
var soleStoreDone = map[string]bool{}

func (p *Prog) soleFieldStore(ptrT types.Type, idx int) *ssa.Store {
	key := ptrT.String() + "#" + fmt.Sprint(idx)
	if soleStoreDone[key] {
		return soleStoreCache[key]
	}
	soleStoreDone[key] = true
	var st *ssa.Store
	n := 0
	for _, fn := range p.Funcs {
		for _, b := range fn.Blocks {
			for _, in := range b.Instrs {
				s2, ok := in.(*ssa.Store)
				if !ok {
					continue
				}
				if f2, ok := s2.Addr.(*ssa.FieldAddr); ok && f2.Field == idx && types.Identical(f2.X.Type(), ptrT) {
					n++
					st = s2
				}
			}
		}
	}
	if n != 1 {
		st = nil
	}
	soleStoreCache[key] = st
	return st
}

// stepField: obj is a per-call object built in env.Fn (the orchestrator) and handed by address to step functions that run
// one after the other; the field read by u is assigned at exactly one place in the module — in a step S that the
// orchestrator calls directly with obj, on every successful path of S — and that call of S comes before the point from
// which the read is made (the read itself, or the orchestrator's call that leads to it). Then the value read is the value
// S stored. Returns that value in the environment of S as called by the orchestrator.
func (e *Env) stepField(obj *ssa.Alloc, env *Env, fa *ssa.FieldAddr, u *ssa.UnOp) (ssa.Value, *Env) {
	if env == nil || env.Fn != obj.Parent() || env.depth >= maxDepth {
		return nil, nil
	}
	// the only store into (T, field) in the module
	st := e.P.soleFieldStore(obj.Type(), fa.Field)
	if st == nil {
		return nil, nil
	}
	step := st.Parent()
	par, ok := st.Addr.(*ssa.FieldAddr).X.(*ssa.Parameter)
	if !ok || step == env.Fn {
		return nil, nil
	}
	pi := -1
	for i, q := range step.Params {
		if q == par {
			pi = i
		}
	}
	// stored on every successful path of the step
	for _, r := range returnsOf(step) {
		if lastIsError(step) && !isSuccessReturn(r) {
			continue
		}
		if !(st.Block() == r.Block() || st.Block().Dominates(r.Block())) {
			return nil, nil
		}
	}
	// the orchestrator's one call of the step with the object
	var cs *ssa.Call
	for _, b := range env.Fn.Blocks {
		for _, in := range b.Instrs {
			c, ok := in.(*ssa.Call)
			if !ok || c.Call.StaticCallee() != step || c.Call.IsInvoke() || pi < 0 || pi >= len(c.Call.Args) || c.Call.Args[pi] != ssa.Value(obj) {
				continue
			}
			if cs != nil {
				return nil, nil
			}
			cs = c
		}
	}
	if cs == nil {
		return nil, nil
	}
	// where the read is made from, seen from the orchestrator
	var at ssa.Instruction = u
	if e != env {
		at = nil
		for x := e; x != nil && x.Parent != nil; x = x.Parent {
			if x.Parent == env {
				if ci, ok := x.Call.(ssa.Instruction); ok {
					at = ci
				}
				break
			}
		}
	}
	if at == nil || at.Parent() != env.Fn || at == ssa.Instruction(cs) {
		return nil, nil
	}
	if at.Block() == cs.Block() {
		if indexIn(cs) >= indexIn(at) {
			return nil, nil
		}
	} else if !cs.Block().Dominates(at.Block()) {
		return nil, nil
	}
	return st.Val, env.Sub(cs, step)
}

func (e *Env) ctorField(u *ssa.UnOp) (ssa.Value, *Env) {
	if u.Op != token.MUL {
		return nil, nil
	}
	fa, ok := u.X.(*ssa.FieldAddr)
	if !ok {
		return nil, nil
	}
	base, env := fa.X, e
	// a field of a per-call object (handed in by address) that is assigned at one place in the module, read in the assigning
	// function itself after the assignment
	if _, isPar := base.(*ssa.Parameter); isPar {
		if st := e.P.soleFieldStore(fa.X.Type(), fa.Field); st != nil && st.Parent() == u.Parent() && st.Addr.(*ssa.FieldAddr).X == fa.X {
			if (st.Block() == u.Block() && indexIn(st) < indexIn(u)) || (st.Block() != u.Block() && st.Block().Dominates(u.Block())) {
				return st.Val, e
			}
		}
	}
	for d := 0; d < 6; d++ {
		par, ok := base.(*ssa.Parameter)
		if !ok {
			break
		}
		a, pe := env.actual(par)
		if a == nil {
			return nil, nil
		}
		base, env = a, pe
	}
	var call *ssa.Call
	switch x := base.(type) {
	case *ssa.Call:
		call = x
	case *ssa.Extract:
		if c, ok := x.Tuple.(*ssa.Call); ok && x.Index == 0 {
			call = c
		}
	case *ssa.Alloc:
		// a parameter object built as a local literal by a caller and handed down by address (`obj := T{…}; obj.run(…)`): the
		// value the caller stored into the field, provided nothing but that caller's function ever assigns this field
		if base == fa.X && x.Referrers() != nil && forwarded(u) == nil {
			// the function that built the per-call object reads a field one of its steps has filled in
			if w, we := e.stepField(x, env, fa, u); w != nil {
				return w, we
			}
		}
		if base != fa.X && x.Referrers() != nil {
			var stored ssa.Value
			n := 0
			for _, ref := range *x.Referrers() {
				f2, ok := ref.(*ssa.FieldAddr)
				if !ok || f2.Field != fa.Field || f2.Referrers() == nil {
					continue
				}
				for _, r2 := range *f2.Referrers() {
					if st, ok := r2.(*ssa.Store); ok && st.Addr == ssa.Value(f2) {
						n++
						stored = st.Val
					}
				}
			}
			if n == 1 && e.P.fieldAssignedOnlyInFuncs(x.Type(), fa.Field) {
				return stored, env
			}
			if n == 0 {
				if w, we := e.stepField(x, env, fa, u); w != nil {
					return w, we
				}
			}
			if n == 0 && e.P.fieldAssignedOnlyInFuncs(x.Type(), fa.Field) {
				// not mentioned in the literal: the zero value
				if st, ok := x.Type().(*types.Pointer).Elem().Underlying().(*types.Struct); ok && fa.Field < st.NumFields() {
					if bt, ok := st.Field(fa.Field).Type().Underlying().(*types.Basic); ok {
						switch {
						case bt.Info()&types.IsInteger != 0:
							return ssa.NewConst(constant.MakeInt64(0), st.Field(fa.Field).Type()), env
						case bt.Info()&types.IsBoolean != 0:
							return ssa.NewConst(constant.MakeBool(false), st.Field(fa.Field).Type()), env
						}
					}
				}
			}
		}
		return nil, nil
	}
	if call == nil || env.depth >= 5 {
		return nil, nil
	}
	sc := call.Call.StaticCallee()
	if sc == nil || len(sc.Blocks) == 0 || sc.Pkg == nil || !strings.HasPrefix(sc.Pkg.Pkg.Path(), modPath) {
		return nil, nil
	}
	// every return yields the same fresh allocation
	var obj *ssa.Alloc
	for _, r := range returnsOf(sc) {
		if len(r.Results) == 0 {
			return nil, nil
		}
		if lastIsError(sc) && !isSuccessReturn(r) {
			continue
		}
		al, ok := retval(r, 0).(*ssa.Alloc)
		if !ok || obj != nil && al != obj {
			return nil, nil
		}
		obj = al
	}
	if obj == nil || obj.Referrers() == nil {
		return nil, nil
	}
	var stored ssa.Value
	for _, ref := range *obj.Referrers() {
		f2, ok := ref.(*ssa.FieldAddr)
		if !ok || f2.Field != fa.Field || f2.Referrers() == nil {
			continue
		}
		for _, r2 := range *f2.Referrers() {
			if st, ok := r2.(*ssa.Store); ok && st.Addr == ssa.Value(f2) {
				if stored != nil {
					return nil, nil
				}
				stored = st.Val
			}
		}
	}
	if stored == nil {
		return nil, nil
	}
	if !e.P.fieldAssignedOnlyIn(obj.Type(), fa.Field, sc) && !(base == fa.X && builtInPlace(obj) && localFreshUntouched(base, fa.Field, u)) {
		return nil, nil
	}
	return stored, env.Sub(call, sc)
}

// builtInPlace: the constructor only stores into the fields of the allocation and returns it: it is not handed to other
// code (a decoder, a registry) that could fill or keep it.
func builtInPlace(obj *ssa.Alloc) bool {
	for _, ref := range *obj.Referrers() {
		switch r := ref.(type) {
		case *ssa.FieldAddr:
			if r.Referrers() == nil {
				continue
			}
			for _, r2 := range *r.Referrers() {
				if st, ok := r2.(*ssa.Store); !ok || st.Addr != ssa.Value(r) {
					if _, isLoad := r2.(*ssa.UnOp); !isLoad {
						return false
					}
				}
			}
		case *ssa.Return, *ssa.DebugRef:
		default:
			return false
		}
	}
	return true
}

// localFreshUntouched: obj is the fresh result of a constructor call made in this very function; between that call and the
// load u nothing can have changed its field idx: no store to the field and no hand-over of the object (or of the field's
// address) to other code can reach u.
func localFreshUntouched(obj ssa.Value, idx int, u *ssa.UnOp) bool {
	fn := u.Parent()
	oi, ok := obj.(ssa.Instruction)
	if !ok || oi.Parent() != fn || obj.Referrers() == nil {
		return false
	}
	for _, ref := range *obj.Referrers() {
		switch r := ref.(type) {
		case *ssa.FieldAddr:
			if r.Field != idx || r.Referrers() == nil {
				continue
			}
			for _, r2 := range *r.Referrers() {
				switch x := r2.(type) {
				case *ssa.UnOp:
				case *ssa.Store:
					if x.Addr != ssa.Value(r) || instrReaches(fn, x, u, nil) {
						return false
					}
				default:
					return false
				}
			}
		case *ssa.Return, *ssa.If, *ssa.DebugRef:
		case *ssa.BinOp:
			if !(r.Op == token.EQL || r.Op == token.NEQ) {
				return false
			}
		case *ssa.Extract:
			// the tuple's own projections
		default:
			// handed to other code (call argument, stored, merged): harmless only if that cannot happen before the load
			if instrReaches(fn, ref, u, nil) {
				return false
			}
		}
	}
	return true
}

var fieldOwnerCache = map[string]bool{}

var fieldLiteralOnlyCache = map[string]bool{}

// fieldAssignedOnlyInFuncs: field idx of the struct type is only ever stored into through a field address of a local
// allocation of that type (composite literals and locals), never through a pointer that came from elsewhere (a parameter, a
// load): so an object handed down by address keeps what its creator put there.
func (p *Prog) fieldAssignedOnlyInFuncs(ptrT types.Type, idx int) bool {
	key := ptrT.String() + "#" + fmt.Sprint(idx)
	if v, ok := fieldLiteralOnlyCache[key]; ok {
		return v
	}
	res := true
	for _, fn := range p.Funcs {
		for _, b := range fn.Blocks {
			for _, in := range b.Instrs {
				st, ok := in.(*ssa.Store)
				if !ok {
					continue
				}
				if f2, ok := st.Addr.(*ssa.FieldAddr); ok && f2.Field == idx && types.Identical(f2.X.Type(), ptrT) {
					if _, isLocal := f2.X.(*ssa.Alloc); !isLocal {
						res = false
					}
				}
			}
		}
	}
	fieldLiteralOnlyCache[key] = res
	return res
}

// fieldAssignedOnlyIn: no function of the module other than ctor stores into field idx of the struct type.
func (p *Prog) fieldAssignedOnlyIn(ptrT types.Type, idx int, ctor *ssa.Function) bool {
	key := ptrT.String() + "#" + fmt.Sprint(idx) + "#" + FuncName(ctor)
	if v, ok := fieldOwnerCache[key]; ok {
		return v
	}
	res := true
	for _, fn := range p.Funcs {
		if fn == ctor {
			continue
		}
		for _, b := range fn.Blocks {
			for _, in := range b.Instrs {
				st, ok := in.(*ssa.Store)
				if !ok {
					continue
				}
				if f2, ok := st.Addr.(*ssa.FieldAddr); ok && f2.Field == idx && types.Identical(f2.X.Type(), ptrT) {
					res = false
				}
			}
		}
	}
	fieldOwnerCache[key] = res
	return res
}

// sliceBase: v is (a parameter bound to, a forwarded load of) a re-slice x[lo:…] of a slice x: returns x, its env and the
// accumulated offset, so that elements of a sub-slice are named as elements of the slice they were cut from.
func (e *Env) sliceBase(v ssa.Value, depth int) (*Env, ssa.Value, LE, bool) {
	if depth > 6 {
		return nil, nil, LE{}, false
	}
	switch x := v.(type) {
	case *ssa.Parameter:
		if a, pe := e.actual(x); a != nil {
			return pe.sliceBase(a, depth+1)
		}
	case *ssa.UnOp:
		if x.Op == token.MUL {
			if f := forwarded(x); f != nil {
				return e.sliceBase(f, depth+1)
			}
		}
	case *ssa.Call:
		if x.Call.Signature().Results().Len() == 1 {
			if rv, sub := e.inlineResult(x, 0); rv != nil {
				return sub.sliceBase(rv, depth+1)
			}
		}
	case *ssa.Extract:
		if call, ok := x.Tuple.(*ssa.Call); ok {
			if rv, sub := e.inlineResult(call, x.Index); rv != nil {
				return sub.sliceBase(rv, depth+1)
			}
		}
	case *ssa.Phi:
		// a list consumed front to back in a loop: rest = φ(init, rest[c:]) is init[c·k:] in iteration k
		if init, adv, ok := e.sliceInduction(x); ok {
			if be, base, o2, ok := e.sliceBase(init, depth+1); ok {
				return be, base, o2.plus(adv), true
			}
			return e, init, adv, true
		}
		// `var rest [][]byte; if len(args) > k { rest = args[k:] }`: the nil alternative has no elements to name
		var only ssa.Value
		for _, ed := range x.Edges {
			if isNilConst(ed) {
				continue
			}
			if only != nil && only != ed {
				only = nil
				break
			}
			only = ed
		}
		if only != nil && only != ssa.Value(x) {
			return e.sliceBase(only, depth+1)
		}
	case *ssa.Slice:
		if _, isSlice := x.X.Type().Underlying().(*types.Slice); !isSlice {
			return nil, nil, LE{}, false
		}
		off := leConst(0)
		if x.Low != nil {
			off = e.LE(x.Low)
		}
		if be, base, o2, ok := e.sliceBase(x.X, depth+1); ok {
			return be, base, o2.plus(off), true
		}
		if x.Low == nil {
			return nil, nil, LE{}, false // x[:k] names the same elements as x
		}
		return e, x.X, off, true
	}
	return nil, nil, LE{}, false
}

// coupledInduction: phi = φ(a0, phi + c) with a constant step c, in a loop header that also carries the counter
// i = φ(k0, i + 1) (constant k0): at the header phi equals a0 + c·(i − k0). Only for a phi that is not itself such a counter
// (constant start and step 1), so that the counter keeps its own atom.
func (e *Env) coupledInduction(phi *ssa.Phi) (LE, bool) {
	if !isInteger(phi.Type()) || len(phi.Edges) != 2 || (e.inPhi != nil && e.inPhi[phi]) {
		return LE{}, false
	}
	latch := -1
	var c int64
	for i, ed := range phi.Edges {
		if bo, ok := ed.(*ssa.BinOp); ok && bo.Op == token.ADD && bo.X == ssa.Value(phi) {
			if k, ok := constInt(bo.Y); ok && k > 0 {
				latch, c = i, k
			}
		}
	}
	if latch < 0 {
		return LE{}, false
	}
	init := phi.Edges[1-latch]
	if _, isK := constInt(init); isK && c == 1 {
		return LE{}, false // a counter itself
	}
	for _, in := range phi.Block().Instrs {
		cnt, ok := in.(*ssa.Phi)
		if !ok {
			break
		}
		if cnt == phi || !isInteger(cnt.Type()) || len(cnt.Edges) != 2 {
			continue
		}
		k0, ok := constInt(cnt.Edges[1-latch])
		if !ok {
			continue
		}
		bo, ok := cnt.Edges[latch].(*ssa.BinOp)
		if !ok || bo.Op != token.ADD || bo.X != ssa.Value(cnt) {
			continue
		}
		if one, ok := constInt(bo.Y); !ok || one != 1 {
			continue
		}
		if e.inPhi == nil {
			e.inPhi = map[*ssa.Phi]bool{}
		}
		e.inPhi[phi] = true
		il := e.LE(init)
		delete(e.inPhi, phi)
		return il.plus(e.atomOf(cnt).addK(-k0).scale(c)), true
	}
	return LE{}, false
}

// sliceInduction: phi is a loop-carried slice φ(init, phi[c:]) with a constant c, in a loop header that also carries an
// integer counter φ(k0, counter+1): in the iteration where the counter is t the slice is init[c·(t−k0):]. Returns init and
// the advance c·(t−k0).
func (e *Env) sliceInduction(phi *ssa.Phi) (ssa.Value, LE, bool) {
	if len(phi.Edges) != 2 {
		return nil, LE{}, false
	}
	if _, isSlice := phi.Type().Underlying().(*types.Slice); !isSlice {
		return nil, LE{}, false
	}
	latch := -1
	var c int64
	for i, ed := range phi.Edges {
		if sl, ok := ed.(*ssa.Slice); ok && sl.X == ssa.Value(phi) && sl.High == nil && sl.Max == nil && sl.Low != nil {
			if k, ok := constInt(sl.Low); ok && k >= 0 {
				latch, c = i, k
			}
		}
		// the rest handed back by a helper that takes the head off: `item, rest = next(rest)` with next returning xs[c:]
		var call *ssa.Call
		idx := 0
		switch x := ed.(type) {
		case *ssa.Extract:
			call, _ = x.Tuple.(*ssa.Call)
			idx = x.Index
		case *ssa.Call:
			call = x
		}
		if call != nil && latch < 0 {
			if sc := call.Call.StaticCallee(); sc != nil && len(sc.Blocks) > 0 && sc.Pkg != nil && strings.HasPrefix(sc.Pkg.Pkg.Path(), modPath) && e.depth < maxDepth {
				rets := returnsOf(sc)
				if len(rets) == 1 && idx < len(rets[0].Results) {
					if sl, ok := rets[0].Results[idx].(*ssa.Slice); ok && sl.High == nil && sl.Max == nil && sl.Low != nil {
						if par, isPar := sl.X.(*ssa.Parameter); isPar {
							if k, ok := constInt(sl.Low); ok && k >= 0 {
								if a, _ := e.Sub(call, sc).actual(par); a == ssa.Value(phi) {
									latch, c = i, k
								}
							}
						}
					}
				}
			}
		}
	}
	if latch < 0 {
		return nil, LE{}, false
	}
	init := phi.Edges[1-latch]
	if init == ssa.Value(phi) {
		return nil, LE{}, false
	}
	for _, in := range phi.Block().Instrs {
		cnt, ok := in.(*ssa.Phi)
		if !ok {
			break
		}
		if cnt == phi || !isInteger(cnt.Type()) || len(cnt.Edges) != 2 {
			continue
		}
		k0, ok := constInt(cnt.Edges[1-latch])
		if !ok {
			continue
		}
		bo, ok := cnt.Edges[latch].(*ssa.BinOp)
		if !ok || bo.Op != token.ADD || bo.X != ssa.Value(cnt) {
			continue
		}
		if one, ok := constInt(bo.Y); !ok || one != 1 {
			continue
		}
		adv := e.LE(cnt).addK(-k0).scale(c)
		return init, adv, true
	}
	// no counter in the loop (`for rest := xs; len(rest) > 0; rest = rest[c:]`): the number of completed iterations is an
	// unknown non-negative integer of its own
	it := "iter(" + e.opaque(phi) + ")"
	atomUnsigned[it] = true
	return init, leAtom(it).scale(c), true
}

// innerHigh: the upper bound (in the base slice's indices) of an enclosing re-slice, as a string; "" if open.
func (e *Env) innerHigh(v ssa.Value, depth int) (string, bool) {
	if depth > 6 {
		return "", false
	}
	switch x := v.(type) {
	case *ssa.Parameter:
		if a, pe := e.actual(x); a != nil {
			return pe.innerHigh(a, depth+1)
		}
	case *ssa.UnOp:
		if x.Op == token.MUL {
			if f := forwarded(x); f != nil {
				return e.innerHigh(f, depth+1)
			}
		}
	case *ssa.Slice:
		if x.High == nil {
			return "", true
		}
		if _, _, off, ok := e.sliceBase(x.X, depth+1); ok {
			return off.plus(e.LE(x.High)).String(), true
		}
		return e.LE(x.High).String(), true
	}
	return "", false
}

func (e *Env) termNoCycle(v ssa.Value, phi *ssa.Phi) string {
	if p, ok := v.(*ssa.Phi); ok && p != phi {
		return e.opaque(p)
	}
	return e.Term(v)
}

func (e *Env) opaque(v ssa.Value) string {
	fn := "?"
	if in, ok := v.(ssa.Instruction); ok && in.Parent() != nil {
		fn = in.Parent().Name()
	}
	return fn + "#" + v.Name() + "@" + e.ctxFor(v)
}

func (e *Env) ctxFor(v ssa.Value) string {
	if e.ctx == "" {
		return "0"
	}
	return e.ctx
}

func (e *Env) termList(vs []ssa.Value) string {
	var s []string
	for _, v := range vs {
		s = append(s, e.Term(v))
	}
	return strings.Join(s, ",")
}

// isPureFn: a module function with no stores outside its own allocations, no interface calls, no calls to impure
// functions and no big.Int mutation of anything but fresh locals. Used to give calls a value term.
func (p *Prog) isPureFn(fn *ssa.Function) bool {
	return p.pure(fn, map[*ssa.Function]bool{})
}

var pureCache = map[*ssa.Function]int{}

func (p *Prog) pure(fn *ssa.Function, stack map[*ssa.Function]bool) bool {
	if fn == nil {
		return false
	}
	if r, ok := pureCache[fn]; ok {
		return r == 1
	}
	if len(fn.Blocks) == 0 {
		n := fn.String()
		switch n {
		case "bytes.Equal", "bytes.Compare", "bytes.HasPrefix", "encoding/hex.EncodeToString", "strings.Split", "bytes.Repeat":
			return true
		}
		return false
	}
	if fn.Pkg == nil || !strings.HasPrefix(fn.Pkg.Pkg.Path(), modPath) {
		return false
	}
	if stack[fn] {
		return true
	}
	stack[fn] = true
	defer delete(stack, fn)
	res := true
	for _, b := range fn.Blocks {
		for _, in := range b.Instrs {
			switch in := in.(type) {
			case *ssa.Store:
				if !localAddr(in.Addr) {
					res = false
				}
			case *ssa.MapUpdate, *ssa.Send, *ssa.Go, *ssa.Defer, *ssa.Panic:
				res = false
			case ssa.CallInstruction:
				cc := in.Common()
				if _, ok := cc.Value.(*ssa.Builtin); ok {
					if b := cc.Value.(*ssa.Builtin).Name(); b == "append" || b == "copy" || b == "delete" {
						res = false
					}
					continue
				}
				if cc.IsInvoke() {
					res = false
					continue
				}
				sc := cc.StaticCallee()
				if sc == nil {
					res = false
					continue
				}
				if m := bigMethod(in); m != "" {
					if bigMutators[m] {
						if _, ok := cc.Args[0].(*ssa.Call); !ok { // receiver must be a fresh construction
							res = false
						}
					}
					continue
				}
				if sc.String() == "math/big.NewInt" || sc.String() == "make" {
					continue
				}
				if !p.pure(sc, stack) {
					res = false
				}
			}
		}
	}
	if res {
		pureCache[fn] = 1
	} else {
		pureCache[fn] = 0
	}
	return res
}

func localAddr(a ssa.Value) bool {
	switch a := a.(type) {
	case *ssa.Alloc:
		return true
	case *ssa.FieldAddr:
		return localAddr(a.X)
	case *ssa.IndexAddr:
		return localAddr(a.X)
	}
	return false
}

// ---------------------------------------------------------------- linear views

var atomUnsigned = map[string]bool{}

func (e *Env) atomOf(v ssa.Value) LE {
	t := e.Term(v)
	if isUnsignedT(v.Type()) {
		atomUnsigned[t] = true
	}
	return leAtom(t)
}

func nonNegAtom(a string) bool {
	return strings.HasPrefix(a, "len(") || strings.HasPrefix(a, "mul(") && atomUnsigned[a] || atomUnsigned[a]
}

func constInt(v ssa.Value) (int64, bool) {
	c, ok := v.(*ssa.Const)
	if !ok || c.Value == nil || c.Value.Kind() != constant.Int {
		return 0, false
	}
	return constant.Int64Val(c.Value)
}

// LE gives the linear view of an integer-typed value. Conversions between integer types are the identity here;
// C11-R2 (bounded counts) is the obligation that makes that sound for attacker-chosen 64-bit values.
var inCopyLE bool

func (e *Env) LE(v ssa.Value) LE {
	e.note(v)
	switch v := v.(type) {
	case *ssa.Const:
		if i, ok := constInt(v); ok {
			return leConst(i)
		}
	case *ssa.Parameter:
		if a, pe := e.actual(v); a != nil {
			return pe.LE(a)
		}
	case *ssa.Convert:
		if isInteger(v.X.Type()) && isInteger(v.Type()) {
			return e.LE(v.X)
		}
	case *ssa.ChangeType:
		return e.LE(v.X)
	case *ssa.BinOp:
		switch v.Op {
		case token.ADD:
			return e.LE(v.X).plus(e.LE(v.Y))
		case token.SUB:
			return e.LE(v.X).minus(e.LE(v.Y))
		case token.MUL:
			if i, ok := constInt(v.X); ok {
				return e.LE(v.Y).scale(i)
			}
			if i, ok := constInt(v.Y); ok {
				return e.LE(v.X).scale(i)
			}
			x, y := e.LE(v.X), e.LE(v.Y)
			if x.isConst() {
				return y.scale(x.k)
			}
			if y.isConst() {
				return x.scale(y.k)
			}
			xs, ys := "("+x.String()+")", "("+y.String()+")"
			if ys < xs {
				xs, ys = ys, xs
			}
			a := "mul(" + xs + "," + ys + ")"
			if isUnsignedT(v.Type()) {
				atomUnsigned[a] = true
			}
			return leAtom(a)
		case token.QUO, token.SHR:
			// x / k and x >> s for a non-negative x and a positive constant: q with k*q <= x <= k*q + k - 1 (added by Proves)
			if k, ok := constInt(v.Y); ok && k > 0 && k < 62 {
				if v.Op == token.SHR {
					k = int64(1) << uint(k)
				}
				x := e.LE(v.X)
				if nonNegLE(x) {
					q := e.atomOf(v)
					for a := range q.c {
						quoAtoms[a] = quoDef{x, k}
						atomUnsigned[a] = true
					}
					return q
				}
			}
		}
	case *ssa.Call:
		if b, ok := v.Call.Value.(*ssa.Builtin); ok && b.Name() == "len" {
			return e.lenOf(v.Call.Args[0])
		}
		if b, ok := v.Call.Value.(*ssa.Builtin); ok && b.Name() == "copy" && !inCopyLE {
			// copy returns the smaller length; where the destination is known to hold the source (at the call, or at a call
			// site above it) that is the length of the source
			ld, ls := e.lenOf(v.Call.Args[0]), e.lenOf(v.Call.Args[1])
			inCopyLE = true
			res := e.P.proveLinIn(e, nil, v, func(*Env) []LE { return []LE{ld.minus(ls)} }, nil, 0)
			inCopyLE = false
			if res.OK {
				return ls
			}
		}
		if v.Call.Signature().Results().Len() == 1 && isInteger(v.Type()) {
			if rv, sub := e.inlineResult(v, 0); rv != nil {
				return sub.LE(rv)
			}
		}
	case *ssa.Extract:
		if call, ok := v.Tuple.(*ssa.Call); ok && isInteger(v.Type()) {
			if rv, sub := e.inlineResult(call, v.Index); rv != nil {
				return sub.LE(rv)
			}
		}
	case *ssa.UnOp:
		if v.Op == token.MUL {
			if f := forwarded(v); f != nil {
				return e.LE(f)
			}
			if w, we := e.ctorField(v); w != nil {
				return we.LE(w)
			}
			if t := e.multiStoreFieldTerm(v); t != "" && isInteger(v.Type()) {
				if isUnsignedT(v.Type()) {
					atomUnsigned[t] = true
				}
				return leAtom(t)
			}
			if sv, _ := wholeStructForward(v); sv != nil {
				if fa, ok := v.X.(*ssa.FieldAddr); ok {
					if w, we := e.structField(sv, fa.Field, 0); w != nil {
						return we.LE(w)
					}
				}
			}
			if _, isFA := v.X.(*ssa.FieldAddr); isFA && isInteger(v.Type()) {
				if lo, hi, ok := e.tableConstRange(v); ok {
					a := e.atomOf(v)
					for t := range a.c {
						atomRange[t] = [2]int64{lo, hi}
					}
					return a
				}
			}
		}
	case *ssa.Field:
		if w, we := e.structField(v.X, v.Field, 0); w != nil {
			return we.LE(w)
		}
		if isInteger(v.Type()) {
			if lo, hi, ok := e.tableConstRange(v); ok {
				a := e.atomOf(v)
				for t := range a.c {
					atomRange[t] = [2]int64{lo, hi}
				}
				return a
			}
		}
	case *ssa.Phi:
		// a second induction variable of a counted loop: a = φ(a0, a + c) next to i = φ(k0, i + 1) is a0 + c·(i − k0)
		if l, ok := e.coupledInduction(v); ok {
			return l
		}
		t := e.Term(v)
		if !strings.Contains(t, "#"+v.Name()+"@") && isInteger(v.Type()) {
			// all incoming values agree: use one of them
			for _, ed := range v.Edges {
				if ed != ssa.Value(v) {
					return e.LE(ed)
				}
			}
		}
	}
	return e.atomOf(v)
}

// lenOf: the length of a slice / string / array value as a linear expression.
func (e *Env) lenOf(x ssa.Value) LE {
	e.note(x)
	switch v := x.(type) {
	case *ssa.Parameter:
		if a, pe := e.actual(v); a != nil {
			return pe.lenOf(a)
		}
	case *ssa.Const:
		if s, ok := constStringVal(v.Value); ok {
			return leConst(int64(len(s)))
		}
		if v.Value == nil {
			return leConst(0)
		}
	case *ssa.MakeSlice:
		return e.LE(v.Len)
	case *ssa.Call:
		if v.Call.Signature().Results().Len() == 1 {
			if l, ok := e.mappedLen(v, 0); ok {
				return l
			}
		}
	case *ssa.Extract:
		if call, ok := v.Tuple.(*ssa.Call); ok {
			if l, ok := e.mappedLen(call, v.Index); ok {
				return l
			}
		}
	case *ssa.Slice:
		if pt, ok := v.X.Type().Underlying().(*types.Pointer); ok {
			if at, ok := pt.Elem().Underlying().(*types.Array); ok {
				lo, hi := leConst(0), leConst(at.Len())
				if v.Low != nil {
					lo = e.LE(v.Low)
				}
				if v.High != nil {
					hi = e.LE(v.High)
				}
				return hi.minus(lo)
			}
		}
		lo := leConst(0)
		if v.Low != nil {
			lo = e.LE(v.Low)
		}
		if v.High != nil {
			return e.LE(v.High).minus(lo)
		}
		return e.lenOf(v.X).minus(lo)
	case *ssa.UnOp:
		if v.Op == token.MUL {
			if f := forwarded(v); f != nil {
				return e.lenOf(f)
			}
			if w, we := e.ctorField(v); w != nil {
				return we.lenOf(w)
			}
			if g, ok := v.X.(*ssa.Global); ok {
				if n, ok := e.P.globalLen(g); ok {
					return leConst(n)
				}
			}
		}
	case *ssa.Convert:
		if c, ok := v.X.(*ssa.Const); ok {
			if s, ok := constStringVal(c.Value); ok {
				return leConst(int64(len(s)))
			}
		}
		return e.lenOf(v.X) // string <-> []byte keeps the length
	case *ssa.ChangeType:
		return e.lenOf(v.X)
	case *ssa.Phi:
		if e.inLenPhi == nil {
			e.inLenPhi = map[*ssa.Phi]bool{}
		}
		if e.inLenPhi[v] {
			break
		}
		e.inLenPhi[v] = true
		defer delete(e.inLenPhi, v)
		if init, adv, ok := e.sliceInduction(v); ok {
			return e.lenOf(init).minus(adv)
		}
		t := e.Term(v)
		if !strings.Contains(t, "#"+v.Name()+"@") {
			for _, ed := range v.Edges {
				if ed != ssa.Value(v) {
					return e.lenOf(ed)
				}
			}
		}
	}
	return leAtom("len(" + e.Term(x) + ")")
}

// mappedLen: the length of a slice returned by a module helper that builds it by appending exactly one element per element
// of a parameter slice, from index 0 (`for i := 0; i < len(xs); i++ { …; out = append(out, y) }; return out, nil`):
// on its successful returns len(result) == len(xs).
func (e *Env) mappedLen(call *ssa.Call, idx int) (LE, bool) {
	sc := call.Call.StaticCallee()
	if sc == nil || len(sc.Blocks) == 0 || sc.Pkg == nil || !strings.HasPrefix(sc.Pkg.Pkg.Path(), modPath) || e.depth >= maxDepth {
		return LE{}, false
	}
	var acc *ssa.Phi
	for _, r := range returnsOf(sc) {
		if lastIsError(sc) && !isSuccessReturn(r) {
			continue
		}
		if idx >= len(r.Results) {
			return LE{}, false
		}
		ph, ok := retval(r, idx).(*ssa.Phi)
		if !ok || acc != nil && ph != acc {
			return LE{}, false
		}
		acc = ph
	}
	if acc == nil || len(acc.Edges) != 2 {
		return LE{}, false
	}
	// accumulator: [empty, append(acc, one element)]
	emptyInit := func(v ssa.Value) bool {
		if isNilConst(v) {
			return true
		}
		if ms, ok := v.(*ssa.MakeSlice); ok {
			k, ok := constInt(ms.Len)
			return ok && k == 0
		}
		if sl, ok := v.(*ssa.Slice); ok {
			if k, ok := constInt(sl.High); ok && k == 0 {
				return true
			}
		}
		return false
	}
	oneAppend := func(v ssa.Value) bool {
		c, ok := v.(*ssa.Call)
		if !ok {
			return false
		}
		b, ok := c.Call.Value.(*ssa.Builtin)
		if !ok || b.Name() != "append" || c.Call.Args[0] != ssa.Value(acc) {
			return false
		}
		sl, ok := c.Call.Args[1].(*ssa.Slice)
		if !ok {
			return false
		}
		al, ok := sl.X.(*ssa.Alloc)
		if !ok {
			return false
		}
		at, ok := al.Type().(*types.Pointer).Elem().Underlying().(*types.Array)
		return ok && at.Len() == 1
	}
	if !(emptyInit(acc.Edges[0]) && oneAppend(acc.Edges[1]) || emptyInit(acc.Edges[1]) && oneAppend(acc.Edges[0])) {
		return LE{}, false
	}
	// counter in the same header: [0, i + 1], loop continues while i < len(param)
	hdr := acc.Block()
	iff, ok := hdr.Instrs[len(hdr.Instrs)-1].(*ssa.If)
	if !ok {
		return LE{}, false
	}
	cmp, ok := iff.Cond.(*ssa.BinOp)
	if !ok || cmp.Op != token.LSS {
		return LE{}, false
	}
	ctr, ok := cmp.X.(*ssa.Phi)
	if !ok || ctr.Block() != hdr || len(ctr.Edges) != 2 {
		return LE{}, false
	}
	zeroStart, stepOne := false, false
	for _, ed := range ctr.Edges {
		if k, ok := constInt(ed); ok && k == 0 {
			zeroStart = true
		} else if par, ok := ed.(*ssa.Parameter); ok {
			// a start index handed in: only the constant 0 at this call site
			for pi, q := range sc.Params {
				if q == par && pi < len(call.Call.Args) {
					if k, ok := constInt(call.Call.Args[pi]); ok && k == 0 {
						zeroStart = true
					}
				}
			}
		} else if bo, ok := ed.(*ssa.BinOp); ok && bo.Op == token.ADD && bo.X == ssa.Value(ctr) {
			if k, ok := constInt(bo.Y); ok && k == 1 {
				stepOne = true
			}
		}
	}
	if !zeroStart || !stepOne {
		return LE{}, false
	}
	lc, ok := cmp.Y.(*ssa.Call)
	if !ok {
		return LE{}, false
	}
	if b, ok := lc.Call.Value.(*ssa.Builtin); !ok || b.Name() != "len" {
		return LE{}, false
	}
	par, ok := lc.Call.Args[0].(*ssa.Parameter)
	if !ok {
		return LE{}, false
	}
	for pi, q := range sc.Params {
		if q == par && pi < len(call.Call.Args) {
			return e.lenOf(call.Call.Args[pi]), true
		}
	}
	return LE{}, false
}

// globalLen: length of a package-level slice that is stored exactly once (in the package initialiser) with a value of
// statically known length: bytes.Repeat(x, n) with len(x) known, []byte("const"), or a composite literal.
func (p *Prog) globalLen(g *ssa.Global) (int64, bool) {
	var stores []*ssa.Store
	for _, fn := range p.allFuncsIncludingInit() {
		for _, b := range fn.Blocks {
			for _, in := range b.Instrs {
				if st, ok := in.(*ssa.Store); ok && st.Addr == ssa.Value(g) {
					stores = append(stores, st)
				}
			}
		}
	}
	if len(stores) != 1 || stores[0].Parent().Name() != "init" {
		return 0, false
	}
	e := p.Env(stores[0].Parent())
	switch v := stores[0].Val.(type) {
	case *ssa.Call:
		if CalleeName(v) == "bytes.Repeat" {
			n, ok := constInt(v.Call.Args[1])
			l := e.lenOf(v.Call.Args[0])
			if ok && l.isConst() {
				return n * l.k, true
			}
		}
	case *ssa.Convert, *ssa.Slice:
		l := e.lenOf(v)
		if l.isConst() {
			return l.k, true
		}
	case *ssa.MakeSlice:
		// make([]byte, len(<another package-level slice of known length>)): initialisation is dependency-ordered
		if l := e.LE(v.Len); l.isConst() && l.k >= 0 {
			return l.k, true
		}
	}
	return 0, false
}

var initFuncs []*ssa.Function

var globalFieldCache = map[string]ssa.Value{}

// globalStructField: the constant that the package initialiser stores into field idx of the package-level struct g (the
// zero value if the literal does not mention the field), provided nothing else in the module writes the variable, one of its
// fields, or takes its address.
func (p *Prog) globalStructField(g *ssa.Global, idx int) ssa.Value {
	key := g.String() + "#" + fmt.Sprint(idx)
	if v, ok := globalFieldCache[key]; ok {
		return v
	}
	globalFieldCache[key] = nil
	st, ok := g.Type().(*types.Pointer).Elem().Underlying().(*types.Struct)
	if !ok || idx >= st.NumFields() {
		return nil
	}
	var val ssa.Value
	n := 0
	for _, fn := range p.allFuncsIncludingInit() {
		for _, b := range fn.Blocks {
			for _, in := range b.Instrs {
				for _, op := range in.Operands(nil) {
					if *op != ssa.Value(g) {
						continue
					}
					switch x := in.(type) {
					case *ssa.UnOp: // a load of the whole struct
					case *ssa.FieldAddr:
						if x.Referrers() == nil {
							continue
						}
						for _, r := range *x.Referrers() {
							switch y := r.(type) {
							case *ssa.UnOp:
							case *ssa.Store:
								if y.Addr != ssa.Value(x) || fn.Name() != "init" {
									return nil
								}
								if x.Field == idx {
									n++
									val = y.Val
								}
							default:
								return nil
							}
						}
					default:
						return nil // stored to as a whole, or its address handed on
					}
				}
			}
		}
	}
	if n > 1 {
		return nil
	}
	if n == 0 {
		bt, ok := st.Field(idx).Type().Underlying().(*types.Basic)
		if !ok {
			return nil
		}
		switch {
		case bt.Info()&types.IsInteger != 0:
			val = ssa.NewConst(constant.MakeInt64(0), st.Field(idx).Type())
		case bt.Info()&types.IsBoolean != 0:
			val = ssa.NewConst(constant.MakeBool(false), st.Field(idx).Type())
		default:
			return nil
		}
	}
	if _, isConst := val.(*ssa.Const); !isConst {
		return nil
	}
	globalFieldCache[key] = val
	return val
}

func (p *Prog) allFuncsIncludingInit() []*ssa.Function {
	if initFuncs == nil {
		seen := map[*ssa.Function]bool{}
		for _, f := range p.Funcs {
			seen[f] = true
			initFuncs = append(initFuncs, f)
		}
		for _, sp := range p.Pkg {
			if f := sp.Func("init"); f != nil && !seen[f] {
				initFuncs = append(initFuncs, f)
			}
		}
	}
	return initFuncs
}

// ---------------------------------------------------------------- facts

type Fact struct {
	Lin  bool
	LE   LE     // Lin: LE >= 0
	Atom string // literal
	Pos  bool
	Why  string
	// values of the analysed function the fact mentions (staleness) — blocks where they are defined
	defs []*ssa.BasicBlock
	// *big.Int operand terms whose content the fact depends on
	big []string
	// the comparison that produced the fact had an arithmetic operand (so the fact presumes that arithmetic did not wrap)
	arith bool
	// for literals about a call (ok:… = the call returned a nil error; call:… = boolean result): the call and its env
	Call ssa.CallInstruction
	Env  *Env
	// the field loads of the analysed function whose values the fact's terms were built from (a fact re-established by
	// crossing its edge again is only fresh if these loads are executed again)
	loads []*ssa.UnOp
	// disjunction: one of the alternatives (each a conjunction) holds; produced for a materialised `a || b` / `a && b`
	// value tested by a separate If (switch cases, named conditions)
	Or [][]Fact
	// for a literal zero(d) / !zero(d): the linear form d (a disequality combines with bounds: d >= 0 and d != 0 give d >= 1)
	zle  LE
	hasZ bool
}

// sat: pred accepts the fact; a disjunction is accepted when every alternative contains an accepted fact.
func sat(pred func(Fact) bool, f Fact) bool {
	if len(f.Or) == 0 {
		return pred(f)
	}
	for _, alt := range f.Or {
		ok := false
		for _, g := range alt {
			if sat(pred, g) {
				ok = true
				break
			}
		}
		if !ok {
			return false
		}
	}
	return true
}

func orFact(alts [][]Fact, why string) Fact {
	var parts []string
	for _, alt := range alts {
		var ks []string
		for _, g := range alt {
			ks = append(ks, g.Key())
		}
		sort.Strings(ks)
		parts = append(parts, strings.Join(ks, " & "))
	}
	return Fact{Atom: "or{" + strings.Join(parts, " | ") + "}", Pos: true, Why: why, Or: alts}
}

// hasArith: the integer value is computed by +, -, *, << (looking through conversions and forwarded loads).
func hasArith(v ssa.Value) bool {
	switch x := v.(type) {
	case *ssa.Convert:
		return hasArith(x.X)
	case *ssa.ChangeType:
		return hasArith(x.X)
	case *ssa.BinOp:
		return true
	case *ssa.UnOp:
		if f := forwarded(x); f != nil {
			return hasArith(f)
		}
	case *ssa.Phi:
		for _, ed := range x.Edges {
			if _, ok := ed.(*ssa.Phi); !ok && hasArith(ed) {
				return true
			}
		}
	case *ssa.Call:
		return calleeHasArith(x, 0)
	case *ssa.Extract:
		if call, ok := x.Tuple.(*ssa.Call); ok {
			return calleeHasArith(call, x.Index)
		}
	}
	return false
}

// calleeHasArith: result i of a module helper is computed by arithmetic on some return (the helper is transparent for
// terms — inlineResult — so it must be transparent for "this comparison presumes arithmetic did not wrap" too).
func calleeHasArith(call *ssa.Call, i int) bool {
	sc := call.Call.StaticCallee()
	if sc == nil || len(sc.Blocks) == 0 || sc.Pkg == nil || !strings.HasPrefix(sc.Pkg.Pkg.Path(), modPath) {
		return false
	}
	if hasArithBusy[sc] {
		return false
	}
	hasArithBusy[sc] = true
	defer delete(hasArithBusy, sc)
	for _, r := range returnsOf(sc) {
		if i < len(r.Results) && hasArith(retval(r, i)) {
			return true
		}
	}
	return false
}

var hasArithBusy = map[*ssa.Function]bool{}

func (f Fact) Key() string {
	if f.Lin {
		return "L:" + f.LE.String()
	}
	if f.Pos {
		return "B:" + f.Atom
	}
	return "B:!" + f.Atom
}

func (f Fact) String() string {
	if f.Lin {
		return f.LE.String() + " >= 0   [" + f.Why + "]"
	}
	if f.Pos {
		return f.Atom + "   [" + f.Why + "]"
	}
	return "!" + f.Atom + "   [" + f.Why + "]"
}

func lit(atom string, pos bool, why string) Fact { return Fact{Atom: atom, Pos: pos, Why: why} }

// nil-ness atom
func nilAtom(t string) string { return "nil(" + t + ")" }
func eqAtom(a, b string) string {
	if b < a {
		a, b = b, a
	}
	return "eq(" + a + "," + b + ")"
}

func isNilConst(v ssa.Value) bool {
	c, ok := v.(*ssa.Const)
	return ok && c.Value == nil && !isInteger(c.Type()) && c.Type().String() != "bool" && c.Type().String() != "string"
}

func boolConst(v ssa.Value) (bool, bool) {
	c, ok := v.(*ssa.Const)
	if !ok || c.Value == nil || c.Value.Kind() != constant.Bool {
		return false, false
	}
	return constant.BoolVal(c.Value), true
}

func negOp(op token.Token) token.Token {
	switch op {
	case token.LSS:
		return token.GEQ
	case token.GTR:
		return token.LEQ
	case token.LEQ:
		return token.GTR
	case token.GEQ:
		return token.LSS
	case token.EQL:
		return token.NEQ
	case token.NEQ:
		return token.EQL
	}
	return op
}

// decode turns "cond is truth" into facts. Unknown condition forms yield an opaque literal on the condition's term,
// so two tests of the same expression still agree.
func (e *Env) decode(c ssa.Value, truth bool, why string) []Fact {
	ts := &touchSet{vals: map[ssa.Value]bool{}}
	save := e.touch
	e.touch = ts
	out := e.decode0(c, truth, why)
	e.touch = save
	var defs []*ssa.BasicBlock
	var loads []*ssa.UnOp
	for v := range ts.vals {
		if in, ok := v.(ssa.Instruction); ok && in.Parent() == e.Fn && in.Block() != nil {
			defs = append(defs, in.Block())
			if u, ok := v.(*ssa.UnOp); ok && u.Op == token.MUL {
				if _, isFA := u.X.(*ssa.FieldAddr); isFA {
					loads = append(loads, u)
				}
			}
		}
	}
	for i := range out {
		if out[i].defs == nil {
			out[i].defs = defs
		}
		if out[i].loads == nil {
			out[i].loads = loads
		}
	}
	return out
}

func (e *Env) decode0(c ssa.Value, truth bool, why string) []Fact {
	e.note(c)
	if b, ok := boolConst(c); ok {
		if b != truth {
			return []Fact{{Lin: true, LE: leConst(-1), Why: why + " (constant condition: edge infeasible)"}}
		}
		return nil
	}
	switch b := c.(type) {
	case *ssa.UnOp:
		if b.Op == token.NOT {
			return e.decode0(b.X, !truth, why)
		}
		if b.Op == token.MUL {
			if f := forwarded(b); f != nil {
				return e.decode0(f, truth, why)
			}
			if w, we := e.ctorField(b); w != nil {
				return we.decode(w, truth, why)
			}
			if sv, _ := wholeStructForward(b); sv != nil {
				if fa, ok := b.X.(*ssa.FieldAddr); ok {
					if w, we := e.structField(sv, fa.Field, 0); w != nil {
						return we.decode(w, truth, why) // a flag of a parameter object / table entry
					}
				}
			}
		}
	case *ssa.Field:
		if w, we := e.structField(b.X, b.Field, 0); w != nil {
			return we.decode(w, truth, why)
		}
	case *ssa.Parameter:
		if a, pe := e.actual(b); a != nil {
			return pe.decode(a, truth, why)
		}
	case *ssa.Phi:
		// a && b  ==  φ[false (from the blocks where a failed), b];  a || b  ==  φ[true, b]
		var other ssa.Value
		var otherBlk *ssa.BasicBlock
		short := true
		for i, ed := range b.Edges {
			if k, ok := boolConst(ed); ok {
				if k == truth {
					short = false // the constant arm already gives `truth`: nothing is known about the other operand
				}
				continue
			}
			if other != nil {
				return []Fact{lit("cond:"+e.Term(c), truth, why)}
			}
			other, otherBlk = ed, b.Block().Preds[i]
		}
		if other != nil && short {
			out := e.decode0(other, truth, why)
			// the operand block is only reached when the earlier operands held
			for _, f := range e.factsAtBlock(otherBlk, nil) {
				f.defs = append(f.defs, otherBlk)
				out = append(out, f)
			}
			return out
		}
		if other != nil && !short {
			// `truth` is reached either through a constant arm (the operand tested in that predecessor decided) or
			// through the last operand: a disjunction of what each way guarantees
			var alts [][]Fact
			okAll := true
			for i, ed := range b.Edges {
				if _, isK := boolConst(ed); !isK {
					continue
				}
				pb := b.Block().Preds[i]
				iff, isIf := pb.Instrs[len(pb.Instrs)-1].(*ssa.If)
				if !isIf || len(pb.Succs) != 2 || pb.Succs[0] == pb.Succs[1] {
					okAll = false
					break
				}
				alts = append(alts, e.decode0(iff.Cond, pb.Succs[0] == b.Block(), why))
			}
			if okAll && len(alts) > 0 {
				last := e.decode0(other, truth, why)
				for _, f := range e.factsAtBlock(otherBlk, nil) {
					f.defs = append(f.defs, otherBlk)
					last = append(last, f)
				}
				alts = append(alts, last)
				return []Fact{orFact(alts, why), lit("cond:"+e.Term(c), truth, why)}
			}
		}
		return []Fact{lit("cond:"+e.Term(c), truth, why)}
	case *ssa.BinOp:
		op := b.Op
		if !truth {
			op = negOp(op)
		}
		// nil comparisons
		if isNilConst(b.Y) || isNilConst(b.X) {
			x := b.X
			if isNilConst(b.X) {
				x = b.Y
			}
			if op == token.EQL || op == token.NEQ {
				return []Fact{lit(nilAtom(e.Term(x)), op == token.EQL, why)}
			}
		}
		if isInteger(b.X.Type()) && isInteger(b.Y.Type()) {
			// bytes.Compare(a, b) ==/!= 0 is bytes.Equal(a, b)
			if op == token.EQL || op == token.NEQ {
				for _, pr := range [][2]ssa.Value{{b.X, b.Y}, {b.Y, b.X}} {
					if cl, ok := pr[0].(*ssa.Call); ok && CalleeName(cl) == "bytes.Compare" {
						if k, ok := constInt(pr[1]); ok && k == 0 {
							return []Fact{lit(eqAtom(e.Term(cl.Call.Args[0]), e.Term(cl.Call.Args[1])), op == token.EQL, why)}
						}
					}
				}
			}
			x, y := e.LE(b.X), e.LE(b.Y)
			var big []string
			for _, side := range []ssa.Value{b.X, b.Y} {
				if call, ok := side.(*ssa.Call); ok && CalleeName(call) == "(*math/big.Int).Cmp" {
					big = append(big, e.Term(call.Call.Args[0]), e.Term(call.Call.Args[1]))
				}
			}
			ar := hasArith(b.X) || hasArith(b.Y)
			mk := func(l LE) Fact { return Fact{Lin: true, LE: l, Why: why, big: big, arith: ar} }
			switch op {
			case token.GEQ:
				return []Fact{mk(x.minus(y))}
			case token.GTR:
				return []Fact{mk(x.minus(y).addK(-1))}
			case token.LEQ:
				return []Fact{mk(y.minus(x))}
			case token.LSS:
				return []Fact{mk(y.minus(x).addK(-1))}
			case token.EQL:
				return []Fact{mk(x.minus(y)), mk(y.minus(x)), {Atom: "zero(" + canonDiff(x.minus(y)) + ")", Pos: true, Why: why, big: big, zle: x.minus(y), hasZ: true}}
			case token.NEQ:
				d := x.minus(y)
				out := []Fact{{Atom: "zero(" + canonDiff(d) + ")", Pos: false, Why: why, big: big, zle: d, hasZ: true}}
				if nonNegLE(d) { // non-negative and not 0  =>  >= 1
					out = append(out, mk(d.addK(-1)))
				} else if nonNegLE(d.scale(-1)) {
					out = append(out, mk(d.scale(-1).addK(-1)))
				}
				return out
			}
		}
		if op == token.EQL || op == token.NEQ {
			return []Fact{lit(eqAtom(e.Term(b.X), e.Term(b.Y)), op == token.EQL, why)}
		}
	case *ssa.Call:
		name := CalleeName(b)
		args := b.Call.Args
		switch {
		case name == "bytes.Equal":
			return []Fact{lit(eqAtom(e.Term(args[0]), e.Term(args[1])), truth, why)}
		case strings.HasSuffix(name, "/check.IfNil"):
			return []Fact{lit(nilAtom(e.Term(args[0])), truth, why)}
		}
		if sc := e.singleCallee(b); sc != nil && len(sc.Blocks) > 0 && sc.Pkg != nil && strings.HasPrefix(sc.Pkg.Pkg.Path(), modPath) && e.depth < maxDepth {
			// boolean module function: add what its `return <truth>` paths guarantee (e.g. mustVerifyPayable)
			out := []Fact{{Atom: "call:" + FuncName(sc) + "(" + e.termList(args) + ")", Pos: truth, Why: why, Call: b, Env: e}}
			sub := e.Sub(b, sc)
			out = append(out, sub.boolReturnFacts(truth, why+" via "+sc.Name())...)
			return out
		}
		if in := InvokeName(b); in != "" {
			return []Fact{{Atom: "call:" + in + "(" + e.Term(b.Call.Value) + "," + e.termList(args) + ")", Pos: truth, Why: why, Call: b, Env: e}}
		}
		return []Fact{{Atom: "call:" + name + "(" + e.termList(args) + ")", Pos: truth, Why: why, Call: b, Env: e}}
	case *ssa.Extract:
		if call, ok := b.Tuple.(*ssa.Call); ok {
			out := []Fact{{Atom: "cond:" + e.Term(c), Pos: truth, Why: why, Call: call, Env: e}}
			// boolean result of a module helper with several results (`idx, found := search(list, x)`): what its
			// returns with that result == truth guarantee
			if sc := call.Call.StaticCallee(); sc != nil && len(sc.Blocks) > 0 && sc.Pkg != nil && strings.HasPrefix(sc.Pkg.Pkg.Path(), modPath) && e.depth < maxDepth && b.Type().String() == "bool" {
				out = append(out, e.Sub(call, sc).boolReturnFactsIdx(b.Index, truth, why+" via "+sc.Name())...)
			}
			return out
		}
		return []Fact{lit("cond:"+e.Term(c), truth, why)}
	}
	return []Fact{lit("cond:"+e.Term(c), truth, why)}
}

// canonDiff renders a difference up to sign (x - y and y - x give the same string): the first atom gets a positive coefficient.
func canonDiff(d LE) string {
	as := d.atoms()
	if len(as) > 0 && d.c[as[0]] < 0 || len(as) == 0 && d.k < 0 {
		d = d.scale(-1)
	}
	return d.String()
}

func nonNegLE(x LE) bool {
	if x.k < 0 {
		return false
	}
	for a, v := range x.c {
		if v < 0 || !nonNegAtom(a) {
			return false
		}
	}
	return true
}

// ---------------------------------------------------------------- returns

// retval resolves the i-th result of a return, looking through the local spill introduced for functions with defer.
func retval(r *ssa.Return, i int) ssa.Value {
	v := r.Results[i]
	if u, ok := v.(*ssa.UnOp); ok && u.Op == token.MUL {
		if al, ok := u.X.(*ssa.Alloc); ok {
			var last ssa.Value
			for _, in := range r.Block().Instrs {
				if st, ok := in.(*ssa.Store); ok && st.Addr == ssa.Value(al) {
					last = st.Val
				}
			}
			if last != nil {
				return last
			}
		}
	}
	return v
}

func returnsOf(fn *ssa.Function) []*ssa.Return {
	var out []*ssa.Return
	for _, b := range fn.Blocks {
		if len(b.Instrs) == 0 || b == fn.Recover {
			continue // the Recover block only runs after a recovered panic; nothing in the module recovers
		}
		if r, ok := b.Instrs[len(b.Instrs)-1].(*ssa.Return); ok {
			out = append(out, r)
		}
	}
	return out
}

func lastIsError(fn *ssa.Function) bool {
	res := fn.Signature.Results()
	return res.Len() > 0 && res.At(res.Len()-1).Type().String() == "error"
}

// isSuccessReturn: the return may deliver a nil error: the error result is the nil constant, or a value that is not
// definitely an error (`return helper(...)`, `return out, err` with err untested). Definitely an error: a package-level
// error variable, a freshly constructed error, or a value on the non-nil side of its own nil test.
func isSuccessReturn(r *ssa.Return) bool {
	if len(r.Results) == 0 {
		return false
	}
	rv := retval(r, len(r.Results)-1)
	if rv.Type().String() != "error" {
		return isNilConst(rv)
	}
	return !definitelyError(rv, r.Block(), map[ssa.Value]bool{})
}

func definitelyError(v ssa.Value, at *ssa.BasicBlock, seen map[ssa.Value]bool) bool {
	if seen[v] {
		return true
	}
	seen[v] = true
	if isNilConst(v) {
		return false
	}
	switch x := v.(type) {
	case *ssa.UnOp:
		if _, ok := x.X.(*ssa.Global); ok && x.Op == token.MUL {
			return true
		}
	case *ssa.MakeInterface:
		return true
	case *ssa.Call:
		switch CalleeName(x) {
		case "fmt.Errorf", "errors.New":
			return true
		}
		// a module function that builds an error (`return newErrNotOwner()`): every return of it is definitely an error
		if sc := x.Call.StaticCallee(); sc != nil && len(sc.Blocks) > 0 && sc.Pkg != nil && strings.HasPrefix(sc.Pkg.Pkg.Path(), modPath) &&
			sc.Signature.Results().Len() == 1 && sc.Signature.Results().At(0).Type().String() == "error" {
			all := true
			for _, r := range returnsOf(sc) {
				if len(r.Results) != 1 || !definitelyError(r.Results[0], r.Block(), seen) {
					all = false
				}
			}
			if all && len(returnsOf(sc)) > 0 {
				return true
			}
		}
	case *ssa.Phi:
		for _, ed := range x.Edges {
			if !definitelyError(ed, at, seen) {
				return testedNonNilAt(v, at)
			}
		}
		return true
	}
	return testedNonNilAt(v, at)
}

// errorEdges: for a return whose error value is merged from several predecessors (single-exit style: `return out, err`
// after nested if/else), the edges into the merge blocks along which that value is definitely an error. Obligations about
// successful returns ignore paths through them.
func errorEdges(r *ssa.Return) map[edge]bool {
	out := map[edge]bool{}
	if len(r.Results) == 0 {
		return out
	}
	rv := retval(r, len(r.Results)-1)
	if rv.Type().String() != "error" {
		return out
	}
	var walk func(v ssa.Value, seen map[ssa.Value]bool)
	walk = func(v ssa.Value, seen map[ssa.Value]bool) {
		phi, ok := v.(*ssa.Phi)
		if !ok || seen[v] {
			return
		}
		seen[v] = true
		for i, ed := range phi.Edges {
			pred := phi.Block().Preds[i]
			if isNilConst(ed) {
				continue
			}
			if definitelyError(ed, pred, map[ssa.Value]bool{}) || nonNilOnEdge(ed, pred, phi.Block()) {
				out[edge{pred, phi.Block()}] = true
				continue
			}
			walk(ed, seen)
		}
	}
	walk(rv, map[ssa.Value]bool{})
	// a test of the returned value itself: its non-nil branch cannot end in a successful return of that value
	if refs := rv.Referrers(); refs != nil {
		for _, u := range *refs {
			bo, ok := u.(*ssa.BinOp)
			if !ok || !(bo.Op == token.NEQ || bo.Op == token.EQL) || !isNilConst(bo.Y) || bo.Referrers() == nil {
				continue
			}
			for _, w := range *bo.Referrers() {
				iff, ok := w.(*ssa.If)
				if !ok || len(iff.Block().Succs) != 2 || iff.Block().Succs[0] == iff.Block().Succs[1] {
					continue
				}
				t := iff.Block().Succs[0]
				if bo.Op == token.EQL {
					t = iff.Block().Succs[1]
				}
				out[edge{iff.Block(), t}] = true
			}
		}
	}
	return out
}

// liveRetval: the i-th result of a successful execution of return r: a φ in the return's own block whose incoming
// values along the non-error edges all are one value is that value (single-exit style: `if err != nil { x = nil }; return x, err`).
func liveRetval(r *ssa.Return, i int) ssa.Value {
	v := retval(r, i)
	ee := errorEdges(r)
	if len(ee) == 0 {
		return v
	}
	for d := 0; d < 4; d++ {
		phi, ok := v.(*ssa.Phi)
		if !ok {
			return v
		}
		var one ssa.Value
		n := 0
		for k, ed := range phi.Edges {
			if ee[edge{phi.Block().Preds[k], phi.Block()}] {
				continue
			}
			// predecessors that are themselves only reachable through error edges
			if !reachableAvoiding(phi.Parent().Blocks[0], phi.Block().Preds[k], ee) {
				continue
			}
			if one == nil || one != ed {
				if one != nil {
					return v
				}
				one = ed
			}
			n++
		}
		if one == nil {
			return v
		}
		v = one
	}
	return v
}

// nonNilOnEdge: pred ends with a nil test of v whose non-nil branch is the edge pred -> blk.
func nonNilOnEdge(v ssa.Value, pred, blk *ssa.BasicBlock) bool {
	if len(pred.Instrs) == 0 || len(pred.Succs) != 2 || pred.Succs[0] == pred.Succs[1] {
		return false
	}
	iff, ok := pred.Instrs[len(pred.Instrs)-1].(*ssa.If)
	if !ok {
		return false
	}
	bo, ok := iff.Cond.(*ssa.BinOp)
	if !ok || !(bo.Op == token.NEQ || bo.Op == token.EQL) || !isNilConst(bo.Y) || bo.X != v {
		return false
	}
	t := pred.Succs[0]
	if bo.Op == token.EQL {
		t = pred.Succs[1]
	}
	return t == blk
}

// errorEdgesOfFn: the union over all returns.
func errorEdgesOfFn(fn *ssa.Function) map[edge]bool {
	out := map[edge]bool{}
	for _, r := range returnsOf(fn) {
		for ed := range errorEdges(r) {
			out[ed] = true
		}
	}
	return out
}

// testedNonNilAt: block `at` is dominated by the non-nil side of a nil test of v.
func testedNonNilAt(v ssa.Value, at *ssa.BasicBlock) bool {
	refs := v.Referrers()
	if refs == nil {
		return false
	}
	for _, r := range *refs {
		bo, ok := r.(*ssa.BinOp)
		if !ok || !(bo.Op == token.NEQ || bo.Op == token.EQL) || !isNilConst(bo.Y) || bo.Referrers() == nil {
			continue
		}
		for _, u := range *bo.Referrers() {
			iff, ok := u.(*ssa.If)
			if !ok || len(iff.Block().Succs) != 2 {
				continue
			}
			t := iff.Block().Succs[0]
			if bo.Op == token.EQL {
				t = iff.Block().Succs[1]
			}
			if len(t.Preds) == 1 && t.Dominates(at) {
				return true
			}
		}
	}
	return false
}

// ---------------------------------------------------------------- edges, Cut

type edge struct{ from, to *ssa.BasicBlock }

func (e edge) String() string { return fmt.Sprintf("b%d->b%d", e.from.Index, e.to.Index) }

// reachableAvoiding: is target reachable from start without traversing an edge of cut?
func reachableAvoiding(start, target *ssa.BasicBlock, cut map[edge]bool) bool {
	if start == target {
		return true
	}
	seen := map[*ssa.BasicBlock]bool{start: true}
	work := []*ssa.BasicBlock{start}
	for len(work) > 0 {
		b := work[len(work)-1]
		work = work[:len(work)-1]
		for _, s := range b.Succs {
			if cut[edge{b, s}] || seen[s] {
				continue
			}
			if s == target {
				return true
			}
			seen[s] = true
			work = append(work, s)
		}
	}
	return false
}

// pathAvoiding returns a witness path (block indices) from start to target avoiding cut, or nil.
func pathAvoiding(start, target *ssa.BasicBlock, cut map[edge]bool) []string {
	prev := map[*ssa.BasicBlock]*ssa.BasicBlock{start: nil}
	work := []*ssa.BasicBlock{start}
	for len(work) > 0 {
		b := work[0]
		work = work[1:]
		if b == target {
			var p []string
			for x := b; x != nil; x = prev[x] {
				p = append([]string{fmt.Sprintf("b%d", x.Index)}, p...)
			}
			return p
		}
		for _, s := range b.Succs {
			if cut[edge{b, s}] {
				continue
			}
			if _, ok := prev[s]; ok {
				continue
			}
			prev[s] = b
			work = append(work, s)
		}
	}
	return nil
}

// Cut: every path entry -> target traverses an edge in cut.
func Cut(fn *ssa.Function, target *ssa.BasicBlock, cut map[edge]bool) bool {
	return !reachableAvoiding(fn.Blocks[0], target, cut)
}

// ---------------------------------------------------------------- edge facts and summaries

func (e *Env) why(pos token.Pos) string {
	return e.Fn.Name() + ":" + e.P.Pos(pos)
}

// callTerm renders a call canonically: "Iface.Method(recv,args)" / "pkg.Func(args)".
func (e *Env) callTerm(c ssa.CallInstruction) string {
	cc := c.Common()
	if in := InvokeName(c); in != "" {
		return in + "(" + e.Term(cc.Value) + "," + e.termList(cc.Args) + ")"
	}
	if sc := cc.StaticCallee(); sc != nil {
		return FuncName(sc) + "(" + e.termList(cc.Args) + ")"
	}
	return "dyn(" + e.termList(cc.Args) + ")"
}

// errCallOf: v is the error result of a call (directly or via Extract); returns the call.
func errCallOf(v ssa.Value) *ssa.Call { return errCallOfRec(v, map[*ssa.Phi]bool{}) }

func errCallOfRec(v ssa.Value, seen map[*ssa.Phi]bool) *ssa.Call {
	switch x := v.(type) {
	case *ssa.Call:
		if x.Type().String() == "error" {
			return x
		}
	case *ssa.Extract:
		if c, ok := x.Tuple.(*ssa.Call); ok {
			sig := c.Call.Signature()
			if x.Index == sig.Results().Len()-1 && sig.Results().At(x.Index).Type().String() == "error" {
				return c
			}
		}
	case *ssa.Phi:
		// `err` re-assigned on several paths and tested once: only when all arms come from the same call
		if seen[x] {
			return nil // a value carried around a loop is not the result of one call
		}
		seen[x] = true
		var call *ssa.Call
		for _, ed := range x.Edges {
			c := errCallOfRec(ed, seen)
			if c == nil || (call != nil && c != call) {
				return nil
			}
			call = c
		}
		return call
	}
	return nil
}

type pendingSummary struct {
	call    *ssa.Call
	nilEdge edge
	why     string
}

// EdgeFacts computes, once per env, the facts established on each conditional edge of the function.
func (e *Env) EdgeFacts() map[edge][]Fact {
	if e.ef != nil {
		return e.ef
	}
	e.ef = map[edge][]Fact{}
	var pending []pendingSummary
	for _, b := range e.Fn.Blocks {
		if len(b.Instrs) == 0 {
			continue
		}
		iff, ok := b.Instrs[len(b.Instrs)-1].(*ssa.If)
		if !ok || len(b.Succs) != 2 || b.Succs[0] == b.Succs[1] {
			continue
		}
		why := e.why(iff.Cond.Pos())
		if !iff.Cond.Pos().IsValid() {
			why = e.Fn.Name() + ":" + e.P.InstrPos(iff)
		}
		tE, fE := edge{b, b.Succs[0]}, edge{b, b.Succs[1]}
		e.ef[tE] = append(e.ef[tE], e.decode(iff.Cond, true, why)...)
		e.ef[fE] = append(e.ef[fE], e.decode(iff.Cond, false, why)...)
		// validator summaries: `err == nil` edge of a module call gets what every success return of the callee guarantees
		if bo, ok := iff.Cond.(*ssa.BinOp); ok && (bo.Op == token.NEQ || bo.Op == token.EQL) && isNilConst(bo.Y) {
			if call := errCallOf(bo.X); call != nil {
				nilEdge, errEdge := fE, tE
				if bo.Op == token.EQL {
					nilEdge, errEdge = tE, fE
				}
				ct := e.callTerm(call)
				e.ef[nilEdge] = append(e.ef[nilEdge], Fact{Atom: "ok:" + ct, Pos: true, Why: why, Call: call, Env: e})
				e.ef[errEdge] = append(e.ef[errEdge], Fact{Atom: "ok:" + ct, Pos: false, Why: why, Call: call, Env: e})
			}
			if call := errCallOf(bo.X); call != nil && e.depth < maxDepth {
				nilEdge := fE
				if bo.Op == token.EQL {
					nilEdge = tE
				}
				pending = append(pending, pendingSummary{call, nilEdge, why})
			}
		}
	}
	// phase 2: validator summaries, computed under what the caller already knows at the call site (so that a callee
	// guard like `if nonce > 0 && x == nil { return err }` yields x != nil for a caller that has excluded nonce == 0)
	e.pending = pending
	for _, ps := range pending {
		e.ef[ps.nilEdge] = append(e.ef[ps.nilEdge], e.calleeSuccessFacts(ps.call, ps.why)...)
	}
	return e.ef
}

// EdgeFactsUnder: the edge facts with the validator summaries recomputed under extra assumptions of the rule that asks (a
// guard that a validating phase applies only `if quantity > 1` shows in its summary only to who assumes quantity > 1).
func (e *Env) EdgeFactsUnder(assume []Fact) map[edge][]Fact {
	base := e.EdgeFacts()
	if len(assume) == 0 || len(e.pending) == 0 {
		return base
	}
	var ks []string
	for _, a := range assume {
		ks = append(ks, a.Key())
	}
	sort.Strings(ks)
	key := strings.Join(ks, "&")
	if e.efUnder == nil {
		e.efUnder = map[string]map[edge][]Fact{}
	}
	if r, ok := e.efUnder[key]; ok {
		return r
	}
	out := map[edge][]Fact{}
	for ed, fs := range base {
		out[ed] = fs
	}
	e.efUnder[key] = out // in progress (recursion sees the plain facts)
	for _, ps := range e.pending {
		extra := e.calleeSuccessFactsA(ps.call, ps.why, assume)
		if len(extra) > 0 {
			out[ps.nilEdge] = append(append([]Fact{}, out[ps.nilEdge]...), extra...)
		}
	}
	return out
}

// calleeSuccessFacts: what every success return of the (single, module) callee guarantees, computed under what the
// caller knows at the call site and expressed in the caller's terms.
func (e *Env) calleeSuccessFacts(call *ssa.Call, why string) []Fact {
	return e.calleeSuccessFactsA(call, why, nil)
}

func (e *Env) calleeSuccessFactsA(call *ssa.Call, why string, extraAssume []Fact) []Fact {
	callees := e.P.Callees(call)
	if len(callees) != 1 {
		return nil
	}
	callee := callees[0]
	if len(callee.Blocks) == 0 || callee.Pkg == nil || !strings.HasPrefix(callee.Pkg.Pkg.Path(), modPath) || e.depth >= maxDepth {
		return nil
	}
	assume := append(append([]Fact{}, extraAssume...), e.factsAt(call.Block(), call, nil)...)
	// what the callers of this function knew when they called it (facts about parameters and the input only: nothing that
	// names a value of an intermediate function)
	for x := e; x.Parent != nil && x.Call != nil; x = x.Parent {
		if ci, ok := x.Call.(ssa.Instruction); ok && ci.Parent() == x.Parent.Fn {
			for _, f := range x.Parent.factsAt(ci.Block(), ci, nil) {
				if len(f.Or) == 0 && !strings.Contains(f.Key(), "#") {
					assume = append(assume, f)
				}
			}
		}
	}
	sub := e.Sub(call, callee)
	fs := sub.returnFactsA(isSuccessReturn, why+" via "+callee.Name(), assume)
	out := sub.rewriteResults(call, fs)
	if os.Getenv("VDEBUG") == callee.Name() {
		fmt.Fprintln(os.Stderr, "DEBUG summary of", callee.Name(), "ctx", sub.ctx)
		for _, a := range assume {
			fmt.Fprintln(os.Stderr, "   assume", a.Key())
		}
		for _, a := range fs {
			fmt.Fprintln(os.Stderr, "   fs", a.Key())
		}
	}
	// when the success returns have different reasons (a gate: exempt, or checked), also the disjunction of what each guarantees
	if alts := sub.returnAlternatives(isSuccessReturn, why+" via "+callee.Name(), assume); len(alts) > 1 {
		var ra [][]Fact
		for _, a := range alts {
			ra = append(ra, sub.rewriteResults(call, a))
		}
		out = append(out, orFact(ra, why+" via "+callee.Name()))
	}
	return out
}

// returnAlternatives: per selected (reachable) return, the facts that hold there; nil if there is at most one such return
// or more than eight.
func (e *Env) returnAlternatives(sel func(*ssa.Return) bool, why string, assume []Fact) [][]Fact {
	if e.depth > maxDepth {
		return nil
	}
	var alts [][]Fact
	for _, r := range returnsOf(e.Fn) {
		if !sel(r) {
			continue
		}
		if len(assume) > 0 && e.unreachableUnder(r.Block(), assume) {
			continue
		}
		var sets [][]Fact
		if blk := r.Block(); len(blk.Preds) > 1 {
			// a return shared by several guards (`if a || b { return nil }`): one alternative per way of arriving
			ee := errorEdges(r)
			for _, pb := range blk.Preds {
				if ee[edge{pb, blk}] || len(pb.Instrs) == 0 {
					continue
				}
				if len(assume) > 0 && e.unreachableUnder(pb, assume) {
					continue
				}
				// what decides this way of arriving also rules out earlier branches (`if n > 0 && x == nil {fail}` followed by
				// `if n == 0 && … {fail}`: arriving with n != 0 means the first test was passed with x != nil)
				fs := append([]Fact{}, e.factsAt(pb, pb.Instrs[len(pb.Instrs)-1], append(append([]Fact{}, assume...), e.decidingFacts(pb, blk)...))...)
				fs = append(fs, e.EdgeFacts()[edge{pb, blk}]...)
				fs = append(fs, e.tailCallFacts(r)...)
				sets = append(sets, fs)
			}
		} else {
			as2 := assume
			if blk := r.Block(); len(blk.Preds) == 1 {
				as2 = append(append([]Fact{}, assume...), e.decidingFacts(blk.Preds[0], blk)...)
			}
			fs := append([]Fact{}, e.factsAt(r.Block(), r, as2)...)
			fs = append(fs, e.tailCallFacts(r)...)
			// one return behind optional steps (`if needed { check }` … `return x, nil`): one alternative per way through the
			// function, each with what its own branches establish (loop-free functions with few ways only)
			if paths := e.successPaths(r, assume); len(paths) >= 2 {
				ef := e.EdgeFactsUnder(assume)
				for _, path := range paths {
					pf := append([]Fact{}, fs...)
					for _, ed := range path {
						for _, f := range ef[ed] {
							if !e.killedBetween(f, []edge{ed}, r.Block(), r) {
								pf = append(pf, f)
							}
						}
					}
					sets = append(sets, pf)
				}
			} else {
				sets = append(sets, fs)
			}
		}
		for _, fs0 := range sets {
			m := map[string]Fact{}
			for _, f := range fs0 {
				m[f.Key()] = f
			}
			e.resultFacts(r, m)
			var mk []string
			for k := range m {
				mk = append(mk, k)
			}
			sort.Strings(mk)
			var fs []Fact
			for _, k := range mk {
				fs = append(fs, m[k])
			}
			var keep []Fact
			for _, f := range fs {
				if f.Lin && f.LE.isConst() {
					continue
				}
				f.defs = nil
				if !strings.HasPrefix(f.Why, why) {
					f.Why = why + " <= " + f.Why
				}
				keep = append(keep, f)
				if len(keep) >= 60 {
					break
				}
			}
			alts = append(alts, keep)
		}
	}
	if len(alts) < 2 || len(alts) > 12 {
		return nil
	}
	return alts
}

// successPaths: the ways from the entry to the return, as edge lists, leaving out edges that end in an error, that are
// infeasible or that contradict the assumptions; nil when the function has a cycle on the way, fewer than two or more than eight
// ways, or no branch that carries a fact of its own.
func (e *Env) successPaths(r *ssa.Return, assume []Fact) [][]edge {
	fn := e.Fn
	if len(fn.Blocks) > 60 {
		return nil
	}
	cut := errorEdges(r)
	ef := e.EdgeFactsUnder(assume)
	for ed, fs := range ef {
		for _, f := range fs {
			if f.Lin && f.LE.isConst() && f.LE.k < 0 {
				cut[ed] = true
			}
			for _, a := range assume {
				if contradicts(f, a) {
					cut[ed] = true
				}
			}
		}
	}
	target := r.Block()
	// blocks from which the return is reachable
	canReach := map[*ssa.BasicBlock]bool{target: true}
	for changed := true; changed; {
		changed = false
		for _, b := range fn.Blocks {
			if canReach[b] {
				continue
			}
			for _, s := range b.Succs {
				if canReach[s] && !cut[edge{b, s}] {
					canReach[b] = true
					changed = true
				}
			}
		}
	}
	var out [][]edge
	onPath := map[*ssa.BasicBlock]bool{}
	cyclic, tooMany := false, false
	var walk func(b *ssa.BasicBlock, path []edge)
	walk = func(b *ssa.BasicBlock, path []edge) {
		if cyclic || tooMany {
			return
		}
		if b == target {
			out = append(out, append([]edge{}, path...))
			if len(out) > 8 {
				tooMany = true
			}
			return
		}
		onPath[b] = true
		defer delete(onPath, b)
		for _, s := range b.Succs {
			if cut[edge{b, s}] || !canReach[s] {
				continue
			}
			if onPath[s] {
				cyclic = true
				return
			}
			walk(s, append(path, edge{b, s}))
		}
	}
	walk(fn.Blocks[0], nil)
	if cyclic || tooMany || len(out) < 2 {
		return nil
	}
	return out
}

// decidingFacts: what the branch pb -> blk says about values that cannot change inside this function (parameters and values
// computed from them without reading memory), in this calling context's terms. Whether a condition reads memory is decided
// on the function's own terms, not on what the caller passed.
func (e *Env) decidingFacts(pb, blk *ssa.BasicBlock) []Fact {
	if len(pb.Instrs) == 0 {
		return nil
	}
	iff, ok := pb.Instrs[len(pb.Instrs)-1].(*ssa.If)
	if !ok || len(pb.Succs) != 2 || pb.Succs[0] == pb.Succs[1] {
		return nil
	}
	truth := blk == pb.Succs[0]
	local := e.P.Env(e.Fn).decode(iff.Cond, truth, "")
	mine := e.decode(iff.Cond, truth, e.Fn.Name()+":"+e.P.InstrPos(iff))
	if len(local) != len(mine) {
		return nil
	}
	var out []Fact
	for i, f := range local {
		if len(loadFree([]Fact{f})) == 1 {
			out = append(out, mine[i])
		}
	}
	return out
}

// loadFree: the facts that read no memory (parameters and values only): they hold wherever they are stated.
func loadFree(fs []Fact) []Fact {
	var out []Fact
	for _, f := range fs {
		if len(f.Or) > 0 || len(f.loads) > 0 || len(f.big) > 0 || strings.Contains(f.Key(), "*") || strings.Contains(f.Key(), "#") {
			continue
		}
		out = append(out, f)
	}
	return out
}

// tailCallFacts: for `return …, f(x)` (the returned error is the result of a call made in the returning block): if
// that return succeeds the call returned nil, so the facts of its `err == nil` edge hold at the return.
func (e *Env) tailCallFacts(r *ssa.Return) []Fact {
	if len(r.Results) == 0 {
		return nil
	}
	rv := retval(r, len(r.Results)-1)
	if isNilConst(rv) || rv.Type().String() != "error" {
		return nil
	}
	call := errCallOf(rv)
	if call == nil || call.Parent() != e.Fn {
		return nil
	}
	why := e.Fn.Name() + ":" + e.P.InstrPos(r) + " (tail call)"
	out := []Fact{{Atom: "ok:" + e.callTerm(call), Pos: true, Why: why, Call: call, Env: e}}
	return append(out, e.calleeSuccessFacts(call, why)...)
}

// boolReturnFacts: what every way of returning `truth` from the boolean function guarantees: the facts at the return
// block plus, for a non-constant returned expression, what that expression being `truth` means.
func (e *Env) boolReturnFacts(truth bool, why string) []Fact {
	return e.boolReturnFactsIdx(0, truth, why)
}

// boolReturnFactsIdx: the same for the idx-th (boolean) result of a function with several results.
func (e *Env) boolReturnFactsIdx(idx int, truth bool, why string) []Fact {
	var sets []map[string]Fact
	for _, r := range returnsOf(e.Fn) {
		if idx >= len(r.Results) {
			return nil
		}
		rv := retval(r, idx)
		k, isConst := boolConst(rv)
		if isConst && k != truth {
			continue
		}
		m := map[string]Fact{}
		for _, f := range e.factsAtBlock(r.Block(), nil) {
			m[f.Key()] = f
		}
		if !isConst {
			for _, f := range e.decode(rv, truth, why) {
				if f.Lin && f.LE.isConst() && f.LE.k < 0 {
					m = nil // this return cannot yield `truth`
					break
				}
				m[f.Key()] = f
			}
			if m == nil {
				continue
			}
		}
		// facts about the other results (`idx, found := search(list, x)`: found == true says something about idx), named ret#j
		for j := range r.Results {
			if j == idx {
				continue
			}
			ov := retval(r, j)
			rt := e.Term(ov)
			if a, k0, ok := e.resultAtom(ov); ok {
				for _, pf := range e.phiFacts() {
					if _, has := pf.LE.c[a]; has {
						m[pf.Key()] = pf
					}
				}
				for _, f := range m {
					if f.Lin {
						if _, has := f.LE.c[a]; has {
							g := f
							g.LE = substResult(f.LE, a, fmt.Sprintf("ret#%d", j), k0)
							m[g.Key()] = g
						}
					}
				}
				continue
			}
			if len(rt) <= 3 || strings.HasPrefix(rt, "nil") {
				continue
			}
			for k, f := range m {
				if strings.Contains(k, rt) {
					g := f
					if g.Lin {
						g.LE = renameLE(g.LE, rt, fmt.Sprintf("ret#%d", j))
					} else {
						g.Atom = strings.ReplaceAll(g.Atom, rt, fmt.Sprintf("ret#%d", j))
					}
					m[g.Key()] = g
				}
			}
		}
		sets = append(sets, m)
	}
	if len(sets) == 0 {
		// no return of the function can yield this truth value (it constantly returns the other one): the edge is infeasible
		if len(returnsOf(e.Fn)) > 0 {
			return []Fact{{Lin: true, LE: leConst(-1), Why: why + " (" + e.Fn.Name() + " never returns " + fmt.Sprint(truth) + ": edge infeasible)"}}
		}
		return nil
	}
	var keys []string
	for k := range sets[0] {
		keys = append(keys, k)
	}
	sort.Strings(keys)
	var out []Fact
	for _, k := range keys {
		all := true
		for _, s := range sets[1:] {
			if _, ok := s[k]; !ok {
				all = false
				break
			}
		}
		if all {
			f := sets[0][k]
			if !strings.HasPrefix(f.Why, why) {
				f.Why = why + " <= " + f.Why
			}
			f.defs = nil
			out = append(out, f)
		}
	}
	// in the caller's terms
	if call, ok := e.Call.(*ssa.Call); ok && e.Parent != nil && call.Call.Signature().Results().Len() > 1 {
		var keep []Fact
		internal := "@" + e.ctx
		n := call.Call.Signature().Results().Len()
		for _, f := range out {
			g := f
			for j := 0; j < n; j++ {
				tag, res := fmt.Sprintf("ret#%d", j), e.Parent.Term(call)+"#"+fmt.Sprint(j)
				if g.Lin {
					g.LE = renameLE(g.LE, tag, res)
				} else {
					g.Atom = strings.ReplaceAll(g.Atom, tag, res)
				}
			}
			if strings.Contains(g.Key(), "ret#") || g.Lin && strings.Contains(g.Key(), internal) {
				continue
			}
			keep = append(keep, g)
		}
		out = keep
	}
	return out
}

// returnFacts: facts (over the caller's terms for parameters) that hold at every return selected by sel.
func (e *Env) returnFacts(sel func(*ssa.Return) bool, why string) []Fact {
	return e.returnFactsA(sel, why, nil)
}

func (e *Env) returnFactsA(sel func(*ssa.Return) bool, why string, assume []Fact) []Fact {
	var sets []map[string]Fact
	for _, r := range returnsOf(e.Fn) {
		if !sel(r) {
			continue
		}
		m := map[string]Fact{}
		for _, f := range e.factsAt(r.Block(), r, assume) {
			m[f.Key()] = f
		}
		// `return f(x)`: when this return succeeds, f succeeded
		for _, f := range e.tailCallFacts(r) {
			m[f.Key()] = f
		}
		if len(assume) > 0 && e.unreachableUnder(r.Block(), assume) {
			continue // this return cannot be taken by a caller that knows `assume`
		}
		e.resultFacts(r, m)
		sets = append(sets, m)
	}
	if len(sets) == 0 {
		return nil
	}
	var keys []string
	for k := range sets[0] {
		keys = append(keys, k)
	}
	sort.Strings(keys)
	var out []Fact
	for _, k := range keys {
		all := true
		for _, s := range sets[1:] {
			if _, ok := s[k]; !ok {
				all = false
				break
			}
		}
		if all {
			f := sets[0][k]
			f.Why = why + " <= " + f.Why
			f.defs = nil // callee-internal definitions are irrelevant to the caller
			out = append(out, f)
		}
	}
	return out
}

// resultFacts adds, to the facts m holding at return r, the facts about the returned values themselves in terms of "ret#i".
func (e *Env) resultFacts(r *ssa.Return, m map[string]Fact) {
	// facts about the returned values themselves, in terms of "ret#i"
	for i := range r.Results {
		rv := liveRetval(r, i)
		rt := e.Term(rv)
		// an integer result that is a sum of several terms (`fixed + n*perByte`): a fact  X − result ≥ 0  (or X + result) is
		// stated over the result as a whole
		if isInteger(rv.Type()) {
			if R := e.LE(rv); len(R.c) >= 2 {
				tag := fmt.Sprintf("ret#%d", i)
				for _, f := range m {
					if !f.Lin {
						continue
					}
					for _, sgn := range []int64{1, -1} {
						rest := f.LE.add(R, sgn) // f = rest − sgn·R
						gone := true
						for a := range R.c {
							if _, still := rest.c[a]; still {
								gone = false
							}
						}
						if gone {
							g := f
							g.LE = rest.add(leAtom(tag), -sgn)
							m[g.Key()] = g
						}
					}
				}
			}
		}
		if a, k0, ok := e.resultAtom(rv); ok {
			// an integer result atom + k: linear facts over the atom become facts over the result
			for _, f := range m {
				if f.Lin {
					if _, has := f.LE.c[a]; has {
						g := f
						g.LE = substResult(f.LE, a, fmt.Sprintf("ret#%d", i), k0)
						m[g.Key()] = g
					}
				}
			}
			if k0 != 0 {
				continue
			}
			rt = a
		}
		for k, f := range m {
			if strings.Contains(k, rt) && !strings.HasPrefix(rt, "nil") && len(rt) > 3 {
				g := f
				if g.Lin {
					g.LE = renameLE(g.LE, rt, fmt.Sprintf("ret#%d", i))
				} else {
					g.Atom = strings.ReplaceAll(g.Atom, rt, fmt.Sprintf("ret#%d", i))
					g.hasZ = false
				}
				m[g.Key()] = g
			}
		}
	}
}

// deadBlocks: blocks that cannot be reached in this calling context (every path to them crosses an edge whose condition is
// constantly false here, e.g. a flag of the parameter object the caller passed).
func (e *Env) deadBlocks() map[*ssa.BasicBlock]bool {
	cut := map[edge]bool{}
	for ed, fs := range e.EdgeFacts() {
		for _, f := range fs {
			if f.Lin && f.LE.isConst() && f.LE.k < 0 {
				cut[ed] = true
			}
		}
	}
	out := map[*ssa.BasicBlock]bool{}
	if len(cut) == 0 {
		return out
	}
	for _, b := range e.Fn.Blocks {
		if !reachableAvoiding(e.Fn.Blocks[0], b, cut) {
			out[b] = true
		}
	}
	return out
}

// deadBlocksCached: deadBlocks, computed once per environment; empty while it is being computed.
func (e *Env) deadBlocksCached() map[*ssa.BasicBlock]bool {
	if e.dead != nil {
		return e.dead
	}
	if e.deadBusy {
		return nil
	}
	e.deadBusy = true
	d := e.deadBlocks()
	e.deadBusy = false
	e.dead = d
	return d
}

// unreachableUnder: every path from the entry to block p traverses an edge that contradicts the assumptions.
func (e *Env) unreachableUnder(p *ssa.BasicBlock, assume []Fact) bool {
	cut := map[edge]bool{}
	for ed, fs := range e.EdgeFacts() {
		for _, f := range fs {
			for _, a := range assume {
				if contradicts(f, a) {
					cut[ed] = true
				}
			}
		}
	}
	return len(cut) > 0 && !reachableAvoiding(e.Fn.Blocks[0], p, cut)
}

// substResult rewrites a linear fact over atom a into one over the result tag, when the returned value is a + k.
func substResult(l LE, a, tag string, k int64) LE {
	c, ok := l.c[a]
	if !ok {
		return l
	}
	r := newLE()
	r.k = l.k - c*k
	for x, v := range l.c {
		if x == a {
			r.c[tag] += v
		} else {
			r.c[x] += v
		}
	}
	if atomUnsigned[a] && k == 0 {
		atomUnsigned[tag] = true
	}
	return r
}

// resultAtom: the returned integer value as atom + constant, if it has that shape.
func (e *Env) resultAtom(v ssa.Value) (string, int64, bool) {
	if !isInteger(v.Type()) {
		return "", 0, false
	}
	l := e.LE(v)
	if len(l.c) != 1 {
		return "", 0, false
	}
	for a, c := range l.c {
		if c == 1 {
			return a, l.k, true
		}
	}
	return "", 0, false
}

func renameLE(l LE, from, to string) LE {
	r := newLE()
	r.k = l.k
	for a, v := range l.c {
		na := strings.ReplaceAll(a, from, to)
		if atomUnsigned[a] {
			atomUnsigned[na] = true
		}
		r.c[na] += v
	}
	return r
}

// rewriteResults maps "ret#i" in callee facts to the caller's term for the i-th result of call; facts that still
// mention callee-internal opaque values are dropped.
func (sub *Env) rewriteResults(call *ssa.Call, fs []Fact) []Fact {
	caller := sub.Parent
	n := call.Call.Signature().Results().Len()
	res := make([]string, n)
	if n == 1 {
		res[0] = caller.Term(call)
	} else {
		for i := 0; i < n; i++ {
			res[i] = caller.Term(call) + "#" + fmt.Sprint(i)
		}
	}
	internal := "@" + sub.ctx
	freshResult := false
	for _, r := range returnsOf(sub.Fn) {
		if len(r.Results) > 0 && (!lastIsError(sub.Fn) || isSuccessReturn(r)) {
			if al, ok := retval(r, 0).(*ssa.Alloc); ok && al.Heap {
				if _, isStruct := al.Type().(*types.Pointer).Elem().Underlying().(*types.Struct); isStruct {
					freshResult = true
				}
			}
			// … or hands back a number computed from such values (`return fixed + n*perByte, nil` after `if provided < … {fail}`):
			// the caller sees the number as that expression, so what the callee established about it still says something
			for i := range r.Results {
				if rv := retval(r, i); isInteger(rv.Type()) && strings.Contains(sub.LE(rv).String(), internal) {
					freshResult = true
				}
			}
		}
	}
	// … or fills a field of the per-call object it was handed (a step of a split execution): a later step reads the field as
	// that expression (stepField), so what this step established about it still says something
	if !freshResult {
		for _, b := range sub.Fn.Blocks {
			for _, in := range b.Instrs {
				st, ok := in.(*ssa.Store)
				if !ok || !isInteger(st.Val.Type()) {
					continue
				}
				fa, ok := st.Addr.(*ssa.FieldAddr)
				if !ok {
					continue
				}
				if _, isPar := fa.X.(*ssa.Parameter); isPar && sub.P.soleFieldStore(fa.X.Type(), fa.Field) == st && strings.Contains(sub.LE(st.Val).String(), internal) {
					freshResult = true
				}
			}
		}
	}
	var out []Fact
	for _, f := range fs {
		g := f
		for i := 0; i < n; i++ {
			tag := fmt.Sprintf("ret#%d", i)
			if g.Lin {
				g.LE = renameLE(g.LE, tag, res[i])
			} else {
				if strings.Contains(g.Atom, tag) {
					g.hasZ = false
				}
				g.Atom = strings.ReplaceAll(g.Atom, tag, res[i])
			}
		}
		k := g.Key()
		if strings.Contains(k, "ret#") {
			continue
		}
		if strings.Contains(k, internal) && (g.Lin || g.Call == nil) {
			// callee-internal values mean nothing to the caller — unless the callee hands out an object it built: its fields
			// carry those values to the caller (a validated request object), and linear facts about them travel along
			if !(g.Lin && freshResult) {
				continue // literals about a call keep their call and env
			}
		}
		out = append(out, g)
	}
	return out
}

var loadFieldRe = regexp.MustCompile(`\*[^\s(),\[\]]*?\.([A-Za-z_][A-Za-z0-9_]*)`)

// readFields: names of struct fields loaded in a term string (every load is rendered "*<addr>.<field>").
func readFields(s string) []string {
	var out []string
	for _, m := range loadFieldRe.FindAllStringSubmatch(s, -1) {
		out = append(out, m[1])
	}
	// nested: "*X.a.b" loads b of (X.a) – the regexp captures only the first field after the star; collect the rest
	for _, seg := range regexp.MustCompile(`\*[^\s(),\[\]]+`).FindAllString(s, -1) {
		parts := strings.Split(seg, ".")
		if len(parts) > 1 {
			out = append(out, parts[len(parts)-1])
		}
	}
	return uniq(out)
}

// factsAtBlock: all facts that hold on entry to block p: the edges establishing the fact (plus edges that are
// infeasible under `assume`) cut entry -> p, no mentioned value is redefined on the way from the edge to p, and no
// store / call on the way may change memory or big.Int content the fact reads.
func (e *Env) factsAtBlock(p *ssa.BasicBlock, assume []Fact) []Fact {
	return e.factsAt(p, nil, assume)
}

// factsAt is factsAtBlock refined to a program point: instructions of p after `at` are not considered as kills.
func (e *Env) factsAt(p *ssa.BasicBlock, at ssa.Instruction, assume []Fact) []Fact {
	ef := e.EdgeFacts()
	if len(assume) > 0 {
		// a disjunction of which all alternatives but one contradict what is assumed yields that alternative's facts
		ef2 := map[edge][]Fact{}
		for ed, fs := range ef {
			out := fs
			for _, f := range fs {
				if len(f.Or) == 0 {
					continue
				}
				var live [][]Fact
				for _, alt := range f.Or {
					dead := false
					for _, g := range alt {
						for _, a := range assume {
							if contradicts(g, a) {
								dead = true
							}
						}
					}
					if !dead {
						live = append(live, alt)
					}
				}
				if os.Getenv("VDEBUG") == e.Fn.Name() {
					fmt.Fprintln(os.Stderr, "DEBUG or-resolution in", e.Fn.Name(), ed, "alts", len(f.Or), "live", len(live))
					for _, alt := range live {
						for _, g := range alt {
							fmt.Fprintln(os.Stderr, "      live:", g.Key())
						}
						fmt.Fprintln(os.Stderr, "      --")
					}
				}
				if len(live) == 1 {
					out = append(append([]Fact{}, out...), live[0]...)
				}
			}
			ef2[ed] = out
		}
		ef = ef2
	}
	groups := map[string][]edge{}
	rep := map[string]Fact{}
	infeasibleEdges := map[edge]bool{}
	if r, ok := at.(*ssa.Return); ok {
		infeasibleEdges = errorEdges(r) // facts "at a successful return": paths that deliver an error do not count
	}
	for ed, fs := range ef {
		for _, f := range fs {
			k := f.Key()
			groups[k] = append(groups[k], ed)
			if _, ok := rep[k]; !ok {
				rep[k] = f
			} else {
				r := rep[k]
				r.defs = append(append([]*ssa.BasicBlock{}, r.defs...), f.defs...)
				rep[k] = r
			}
			if f.Lin && f.LE.isConst() && f.LE.k < 0 {
				infeasibleEdges[ed] = true
			}
			for _, a := range assume {
				if contradicts(f, a) {
					infeasibleEdges[ed] = true
				}
			}
		}
	}
	var keys []string
	for k := range groups {
		keys = append(keys, k)
	}
	sort.Strings(keys)
	var out []Fact
	for _, k := range keys {
		f := rep[k]
		if f.Lin && f.LE.isConst() {
			continue
		}
		cut := map[edge]bool{}
		for ed := range infeasibleEdges {
			cut[ed] = true
		}
		for _, ed := range groups[k] {
			cut[ed] = true
		}
		if reachableAvoiding(e.Fn.Blocks[0], p, cut) {
			continue
		}
		if e.killedBetween(f, groups[k], p, at) {
			continue
		}
		out = append(out, f)
	}
	return out
}

func contradicts(f, a Fact) bool {
	if f.Lin != a.Lin {
		return false
	}
	if !f.Lin {
		return f.Atom == a.Atom && f.Pos != a.Pos
	}
	return infeasible(append([]LE{f.LE, a.LE}, nonNegCons(f.LE, a.LE)...))
}

func nonNegCons(ls ...LE) []LE {
	seen := map[string]bool{}
	var out []LE
	for _, l := range ls {
		for a := range l.c {
			if nonNegAtom(a) && !seen[a] {
				seen[a] = true
				out = append(out, leAtom(a))
			}
		}
	}
	return out
}

// killedBetween: some instruction on a path from an establishing edge to p may change what the fact reads.
func (e *Env) killedBetween(f Fact, eds []edge, p *ssa.BasicBlock, at ssa.Instruction) bool {
	fields := readFields(f.Key())
	if len(fields) == 0 && len(f.big) == 0 {
		return false
	}
	// blocks between: reachable from an edge target and able to reach p
	between := map[*ssa.BasicBlock]bool{}
	for _, ed := range eds {
		if ed.from.Parent() != e.Fn {
			continue // fact imported from a φ operand block or a callee
		}
		seen := map[*ssa.BasicBlock]bool{ed.to: true}
		work := []*ssa.BasicBlock{ed.to}
		for len(work) > 0 {
			b := work[len(work)-1]
			work = work[:len(work)-1]
			if reachableAvoiding(b, p, nil) {
				between[b] = true
			}
			if b == p {
				continue
			}
			for _, s := range b.Succs {
				if !seen[s] {
					seen[s] = true
					work = append(work, s)
				}
			}
		}
	}
	cutS := map[edge]bool{}
	for _, ed := range eds {
		cutS[ed] = true
	}
	for b := range between {
		after := false // instructions of p behind the use: they matter only for a later iteration (stale-load criterion below)
		for _, in := range b.Instrs {
			if b == p && at != nil && in == at {
				after = true
				continue
			}
			if !e.mayKill(in, fields, f.big) {
				continue
			}
			// the killer matters only if p can be reached from it without the fact being re-established on the way
			if !after && (b == p || reachableAvoiding(b, p, cutS)) {
				return true
			}
			if after {
				cyc := false
				for _, sx := range b.Succs {
					if reachableAvoiding(sx, p, nil) {
						cyc = true
					}
				}
				if !cyc {
					continue
				}
			}
			// … and a re-established fact is only fresh if the loads it was computed from run again after the killer: a
			// `range x.f` loop compares its counter with a length read once before the loop; shrinking x.f inside the loop
			// leaves that comparison true and the fact about len(x.f) false
			if st, isStore := in.(*ssa.Store); isStore {
				if kfa, ok := st.Addr.(*ssa.FieldAddr); ok {
					kf := fieldName(kfa.X.Type(), kfa.Field)
					for _, ld := range f.loads {
						lfa := ld.X.(*ssa.FieldAddr)
						if fieldName(lfa.X.Type(), lfa.Field) != kf || ld.Block() == nil || ld.Parent() != e.Fn {
							continue // loads inside a callee run again whenever the call does
						}
						if ld.Block() == b {
							continue
						}
						// can the use be reached from the killer without the load running again?
						cutL := map[edge]bool{}
						for _, pb := range ld.Block().Preds {
							cutL[edge{pb, ld.Block()}] = true
						}
						reach := false
						if after {
							for _, sx := range b.Succs {
								if !cutL[edge{b, sx}] && (sx == p || reachableAvoiding(sx, p, cutL)) {
									reach = true
								}
							}
						} else {
							reach = reachableAvoiding(b, p, cutL)
						}
						if reach {
							return true
						}
					}
				}
			}
		}
	}
	return false
}

func (e *Env) mayKill(in ssa.Instruction, fields []string, bigs []string) bool {
	switch in := in.(type) {
	case *ssa.Store:
		if fa, ok := in.Addr.(*ssa.FieldAddr); ok {
			if _, local := fa.X.(*ssa.Alloc); local && forwardedField(fa) {
				return false
			}
			fn := fieldName(fa.X.Type(), fa.Field)
			for _, f := range fields {
				if f == fn {
					return true
				}
			}
		}
	case ssa.CallInstruction:
		cc := in.Common()
		if m := bigMethod(in); m != "" {
			if bigMutators[m] && len(bigs) > 0 && len(cc.Args) > 0 {
				rt := e.Term(cc.Args[0])
				// the receiver as a pointer term: compare against the operand terms of the fact
				for _, b := range bigs {
					if b == rt || strings.Contains(b, rt) && len(rt) > 6 {
						return true
					}
				}
				// receiver is a load: compare address-level terms as well
			}
			return false
		}
		if len(fields) > 0 {
			ms := e.P.mayStore(in)
			for _, f := range fields {
				if ms[f] {
					return true
				}
			}
		}
		if len(bigs) > 0 {
			for _, callee := range e.P.Callees(in) {
				for i, a := range cc.Args {
					idx := i
					if cc.IsInvoke() {
						idx = i + 1
					}
					if isBigIntPtr(a.Type()) && e.P.bigMutatesParam(callee, idx) {
						at := e.Term(a)
						for _, b := range bigs {
							if b == at {
								return true
							}
						}
					}
				}
			}
		}
	}
	return false
}

// forwardedField: the field address belongs to a local allocation whose field has a single store (composite literal
// initialisation) – such stores never kill facts about other objects.
func forwardedField(fa *ssa.FieldAddr) bool {
	al, ok := fa.X.(*ssa.Alloc)
	if !ok {
		return false
	}
	n := 0
	for _, r := range *al.Referrers() {
		if f2, ok := r.(*ssa.FieldAddr); ok && f2.Field == fa.Field {
			for _, rr := range *f2.Referrers() {
				if st, ok := rr.(*ssa.Store); ok && st.Addr == ssa.Value(f2) {
					n++
				}
			}
		}
	}
	return n == 1
}

// ---------------------------------------------------------------- may-store sets (field-name based)

var mayStoreCache = map[*ssa.Function]map[string]bool{}

// mayStore: names of struct fields that the call may store to (transitively, type/field-name based).
func (p *Prog) mayStore(c ssa.CallInstruction) map[string]bool {
	out := map[string]bool{}
	cc := c.Common()
	if cc.IsInvoke() && (cc.Method.Name() == "Unmarshal" || cc.Method.Name() == "UnmarshalTo") || strings.HasSuffix(CalleeName(c), ".Decode") || strings.HasSuffix(CalleeName(c), ".Unmarshal") {
		for _, a := range cc.Args {
			addAllFields(a, out)
		}
	}
	for _, callee := range p.Callees(c) {
		for f := range p.mayStoreFn(callee, map[*ssa.Function]bool{}) {
			out[f] = true
		}
	}
	return out
}

func addAllFields(a ssa.Value, out map[string]bool) {
	t := a.Type()
	if mi, ok := a.(*ssa.MakeInterface); ok {
		t = mi.X.Type()
	}
	var walk func(t types.Type, d int)
	walk = func(t types.Type, d int) {
		if d > 3 {
			return
		}
		if p, ok := t.Underlying().(*types.Pointer); ok {
			t = p.Elem()
		}
		st, ok := t.Underlying().(*types.Struct)
		if !ok {
			return
		}
		for i := 0; i < st.NumFields(); i++ {
			out[st.Field(i).Name()] = true
			walk(st.Field(i).Type(), d+1)
		}
	}
	walk(t, 0)
}

func (p *Prog) mayStoreFn(fn *ssa.Function, stack map[*ssa.Function]bool) map[string]bool {
	if r, ok := mayStoreCache[fn]; ok {
		return r
	}
	if stack[fn] || len(fn.Blocks) == 0 {
		return map[string]bool{}
	}
	stack[fn] = true
	out := map[string]bool{}
	for _, b := range fn.Blocks {
		for _, in := range b.Instrs {
			switch in := in.(type) {
			case *ssa.Store:
				if fa, ok := in.Addr.(*ssa.FieldAddr); ok {
					if _, local := fa.X.(*ssa.Alloc); local && forwardedField(fa) {
						continue
					}
					out[fieldName(fa.X.Type(), fa.Field)] = true
				}
			case ssa.CallInstruction:
				cc := in.Common()
				if cc.IsInvoke() && (cc.Method.Name() == "Unmarshal") || strings.HasSuffix(CalleeName(in), ".Decode") {
					for _, a := range cc.Args {
						if mi, ok := a.(*ssa.MakeInterface); ok {
							if _, fresh := mi.X.(*ssa.Alloc); fresh {
								continue // decoding into an object allocated in this callee cannot change what a caller's fact reads
							}
						}
						addAllFields(a, out)
					}
				}
				for _, callee := range p.Callees(in) {
					if callee.Pkg != nil && strings.HasPrefix(callee.Pkg.Pkg.Path(), modPath) {
						for f := range p.mayStoreFn(callee, stack) {
							out[f] = true
						}
					}
				}
			}
		}
	}
	delete(stack, fn)
	if len(stack) == 0 {
		mayStoreCache[fn] = out
	}
	return out
}

// ---------------------------------------------------------------- queries

// HoldsLit: the literal (atom, pos) holds at instruction `at`.
func (e *Env) HoldsLit(at ssa.Instruction, atom string, pos bool, assume []Fact) (Fact, bool) {
	for _, f := range e.factsAt(at.Block(), at, assume) {
		if !f.Lin && f.Atom == atom && f.Pos == pos {
			return f, true
		}
	}
	return Fact{}, false
}

// LinFactsAt: linear facts at instruction `at`, including inductive lower bounds of loop φ's.
func (e *Env) LinFactsAt(at ssa.Instruction, assume []Fact) []Fact {
	var out []Fact
	var diseq []Fact
	for _, f := range e.factsAt(at.Block(), at, assume) {
		if f.Lin {
			out = append(out, f)
		} else if !f.Pos && f.hasZ {
			diseq = append(diseq, f)
		}
	}
	out = append(out, e.phiFacts()...)
	out = append(out, e.libraryFacts()...)
	for _, a := range assume {
		if a.Lin {
			out = append(out, a)
		}
	}
	// disequalities sharpen bounds (`switch len(x) { case 0: … case 1: … default: x[1] }`): d != 0 with d >= 0 known gives
	// d >= 1; repeated, because one sharpening enables the next
	done := map[int]bool{}
	for round := 0; round < 4 && len(diseq) > 0; round++ {
		changed := false
		for i, f := range diseq {
			if done[i] {
				continue
			}
			switch {
			case Proves(out, f.zle):
				out = append(out, Fact{Lin: true, LE: f.zle.addK(-1), Why: f.Why + " (not zero and not negative)", big: f.big})
				done[i], changed = true, true
			case Proves(out, f.zle.scale(-1)):
				out = append(out, Fact{Lin: true, LE: f.zle.scale(-1).addK(-1), Why: f.Why + " (not zero and not positive)", big: f.big})
				done[i], changed = true, true
			}
		}
		if !changed {
			break
		}
	}
	return out
}

// Proves: facts entail goal >= 0.
func Proves(facts []Fact, goal LE) bool {
	var ls []LE
	for _, f := range facts {
		if f.Lin {
			ls = append(ls, f.LE)
		}
	}
	// definitions of quotient atoms that occur
	seen := map[string]bool{}
	var addQuo func(l LE)
	addQuo = func(l LE) {
		for a := range l.c {
			if d, ok := quoAtoms[a]; ok && !seen[a] {
				seen[a] = true
				q := leAtom(a)
				ls = append(ls, d.x.minus(q.scale(d.k)), q.scale(d.k).addK(d.k-1).minus(d.x))
				addQuo(d.x)
			}
		}
	}
	addQuo(goal)
	for _, l := range append([]LE{}, ls...) {
		addQuo(l)
	}
	// constant ranges of builder fields that occur
	if len(atomRange) > 0 {
		done := map[string]bool{}
		for _, l := range append([]LE{goal}, ls...) {
			for a := range l.c {
				if rg, ok := atomRange[a]; ok && !done[a] {
					done[a] = true
					ls = append(ls, leAtom(a).addK(-rg[0]), leConst(rg[1]).minus(leAtom(a)))
				}
			}
		}
	}
	return entails(ls, goal, nonNegAtom)
}

type quoDef struct {
	x LE
	k int64
}

// quoAtoms: atoms that denote floor(x / k) of a non-negative linear x.
var quoAtoms = map[string]quoDef{}

// libraryFacts: length facts of standard-library results: strings.Split(s, sep) with a non-empty constant sep returns at
// least one element (so a redundant `len(tokens) == 0` test may be removed without the index becoming unsafe).
func (e *Env) libraryFacts() []Fact {
	var out []Fact
	for _, b := range e.Fn.Blocks {
		for _, in := range b.Instrs {
			call, ok := in.(*ssa.Call)
			if !ok || CalleeName(call) != "strings.Split" {
				continue
			}
			if k, ok := call.Call.Args[1].(*ssa.Const); ok {
				if s, ok := constStringVal(k.Value); ok && s != "" {
					out = append(out, Fact{Lin: true, LE: e.lenOf(call).addK(-1), Why: "strings.Split with a non-empty separator returns at least one element"})
				}
			}
		}
	}
	return out
}

// phiFacts: inductive bounds for loop φ's: φ = [init, φ + c] with c >= 0 gives φ >= init.
func (e *Env) phiFacts() []Fact {
	var out []Fact
	for _, b := range e.Fn.Blocks {
		for _, in := range b.Instrs {
			ph, ok := in.(*ssa.Phi)
			if !ok {
				break
			}
			if !isInteger(ph.Type()) {
				continue
			}
			var init ssa.Value
			okAll := true
			for _, ed := range ph.Edges {
				if bo, ok := ed.(*ssa.BinOp); ok && bo.Op == token.ADD {
					if bo.X == ssa.Value(ph) {
						if i, ok := constInt(bo.Y); ok && i >= 0 {
							continue
						}
						if nonNegLE(e.LE(bo.Y)) {
							continue
						}
					}
					if bo.Y == ssa.Value(ph) {
						if i, ok := constInt(bo.X); ok && i >= 0 {
							continue
						}
					}
				}
				if init == nil {
					init = ed
					continue
				}
				okAll = false
			}
			if okAll && init != nil {
				out = append(out, Fact{Lin: true, LE: e.LE(ph).minus(e.LE(init)), Why: "loop induction: " + ph.Name() + " >= initial value"})
			}
			// a φ of constants lies between the smallest and the largest of them
			{
				allK := len(ph.Edges) > 0
				var lo, hi int64
				for i, ed := range ph.Edges {
					k, ok := constInt(ed)
					if !ok {
						allK = false
						break
					}
					if i == 0 || k < lo {
						lo = k
					}
					if i == 0 || k > hi {
						hi = k
					}
				}
				if allK {
					out = append(out, Fact{Lin: true, LE: e.LE(ph).addK(-lo), Why: "φ of constants: " + ph.Name() + " >= " + fmt.Sprint(lo)},
						Fact{Lin: true, LE: e.LE(ph).scale(-1).addK(hi), Why: "φ of constants: " + ph.Name() + " <= " + fmt.Sprint(hi)})
				}
			}
			// descending counters: φ = [init, φ - c] with c >= 0 gives φ <= init
			init, okAll = nil, true
			for _, ed := range ph.Edges {
				if bo, ok := ed.(*ssa.BinOp); ok && bo.X == ssa.Value(ph) {
					if i, ok := constInt(bo.Y); ok && (bo.Op == token.SUB && i >= 0 || bo.Op == token.ADD && i <= 0) {
						continue
					}
				}
				if init == nil {
					init = ed
					continue
				}
				okAll = false
			}
			if okAll && init != nil && !isUnsignedT(ph.Type()) {
				out = append(out, Fact{Lin: true, LE: e.LE(init).minus(e.LE(ph)), Why: "loop induction: " + ph.Name() + " <= initial value (descending)"})
			}
		}
	}
	return out
}

func factStrings(fs []Fact) []string {
	var s []string
	for _, f := range fs {
		s = append(s, f.String())
	}
	sort.Strings(s)
	return s
}

type ssaFunc = ssa.Function

// ---------------------------------------------------------------- proving in calling contexts

func isExportedAPI(fn *ssa.Function) bool {
	if fn.Parent() != nil {
		return false
	}
	o := fn.Object()
	return o != nil && o.Exported()
}

var contradictorySites int

type proofResult struct {
	OK    bool
	By    string
	Facts []string
	Ctx   string
}

// ProveLin proves goal(e) >= 0 for every goal at instruction `at` of fn. If the function's own guards do not suffice
// and fn is an unexported helper, the obligation becomes a precondition that every call site (recursively, up to
// depth 3) must establish.
func (p *Prog) ProveLin(fn *ssa.Function, at ssa.Instruction, goals func(e *Env) []LE, extra func(e *Env) []Fact) proofResult {
	return p.proveLinIn(p.Env(fn), []*Env{}, at, goals, extra, 0)
}

func (p *Prog) proveLinIn(e *Env, _ []*Env, at ssa.Instruction, goals func(e *Env) []LE, extra func(e *Env) []Fact, depth int) proofResult {
	// facts: at the instruction, plus at every call site up the context chain
	facts := e.LinFactsAt(at, nil)
	for x := e; x.Parent != nil; x = x.Parent {
		if x.Call != nil {
			if ci, ok := x.Call.(ssa.Instruction); ok && ci.Parent() == x.Parent.Fn {
				facts = append(facts, x.Parent.LinFactsAt(x.Call, nil)...)
			}
		}
		// a function literal: what held where it was created (facts about the input and parameters: nothing that names an
		// intermediate value, which could have changed by the time the literal runs)
		if x.closure != nil && x.defining() != nil && x.closure.Parent() == x.defining().Fn {
			for _, f := range x.defining().LinFactsAt(x.closure, nil) {
				if !strings.Contains(f.Key(), "#") {
					facts = append(facts, f)
				}
			}
		}
	}
	if extra != nil {
		facts = append(facts, extra(e)...)
	}
	gs := goals(e)
	all := true
	var used []string
	for _, g := range gs {
		if !Proves(facts, g) {
			all = false
		}
	}
	if all {
		for _, f := range facts {
			used = append(used, f.String())
		}
		by := summarizeBy(facts, gs)
		if Proves(facts, leConst(-1)) {
			by = "CONTRADICTORY-FACTS (site unreachable?): " + by
			contradictorySites++
		}
		return proofResult{OK: true, By: by, Facts: used, Ctx: e.ctx}
	}
	// push to callers of the outermost function of the chain
	top := e
	for top.Parent != nil {
		top = top.Parent
	}
	if top.Fn.Parent() != nil && top.closure == nil && depth < 3 {
		// a function literal judged on its own: judge it where it is created instead
		okAll, n := true, 0
		var bys []string
		for _, b := range top.Fn.Parent().Blocks {
			for _, in := range b.Instrs {
				mc, ok := in.(*ssa.MakeClosure)
				if !ok || mc.Fn != ssa.Value(top.Fn) {
					continue
				}
				n++
				ne := rebuildChainEnv(p, e, p.Env(top.Fn.Parent()).SubClosure(mc))
				r := p.proveLinIn(ne, nil, at, goals, extra, depth+1)
				if !r.OK {
					okAll = false
					r.Facts = append([]string{"where the literal is created in " + FuncName(top.Fn.Parent())}, r.Facts...)
					return r
				}
				bys = append(bys, r.By)
			}
		}
		if okAll && n > 0 {
			return proofResult{OK: true, By: "holds where the function literal is created: " + strings.Join(bys, " | ")}
		}
	}
	if depth >= 3 || isExportedAPI(top.Fn) || len(p.Callers[top.Fn]) == 0 {
		var gstr []string
		for _, g := range gs {
			gstr = append(gstr, g.String()+" >= 0")
		}
		return proofResult{OK: false, By: "", Facts: append(factStrings(facts), "GOAL: "+strings.Join(gstr, " ; ")), Ctx: e.ctx}
	}
	var bys []string
	for _, cs := range p.Callers[top.Fn] {
		caller := cs.Parent()
		if !p.Src(caller) {
			continue
		}
		// rebuild the chain under the new caller
		ne := rebuildChain(p, e, cs)
		r := p.proveLinIn(ne, nil, at, goals, extra, depth+1)
		if !r.OK {
			r.Facts = append([]string{"in calling context " + FuncName(caller) + " at " + p.InstrPos(cs)}, r.Facts...)
			return r
		}
		bys = append(bys, FuncName(caller)+": "+r.By)
	}
	return proofResult{OK: true, By: "precondition established at every call site: " + strings.Join(bys, " | ")}
}

// rebuildChainEnv re-creates env chain e (top … e) with newTop in place of its outermost env.
func rebuildChainEnv(p *Prog, e *Env, newTop *Env) *Env {
	var chain []*Env
	for x := e; x != nil; x = x.Parent {
		chain = append([]*Env{x}, chain...)
	}
	cur := newTop
	for _, x := range chain[1:] {
		cur = cur.Sub(x.Call, x.Fn)
	}
	return cur
}

// rebuildChain re-creates env chain e (top … e) beneath a new outermost caller reached through call site cs.
func rebuildChain(p *Prog, e *Env, cs ssa.CallInstruction) *Env {
	var chain []*Env
	for x := e; x != nil; x = x.Parent {
		chain = append([]*Env{x}, chain...)
	}
	cur := p.Env(cs.Parent())
	cur = cur.Sub(cs, chain[0].Fn)
	for _, x := range chain[1:] {
		cur = cur.Sub(x.Call, x.Fn)
	}
	return cur
}

func summarizeBy(facts []Fact, goals []LE) string {
	// name the facts that mention an atom of the goals: enough for a reader to see the guard
	atoms := map[string]bool{}
	for _, g := range goals {
		for a := range g.c {
			atoms[a] = true
		}
	}
	var s []string
	for _, f := range facts {
		if !f.Lin {
			continue
		}
		for a := range f.LE.c {
			if atoms[a] {
				s = append(s, f.String())
				break
			}
		}
	}
	s = uniq(s)
	if len(s) > 4 {
		s = s[:4]
	}
	if len(s) == 0 {
		return "constant arithmetic"
	}
	return strings.Join(s, " ; ")
}

// maxDepth bounds the length of a calling context (entry point = 0): helper results, summaries and effect sites are followed
// through at most this many calls. The longest chain on today's tree is five calls deep; two more leave room for extracted helpers.
const maxDepth = 7
