package main

// Index / slice-bound safety (E-INT): every IndexAddr / Slice on a slice in the given scope is discharged by linear
// entailment from the guards that cut it (own guards, validator summaries, call-site preconditions), or reported.

import (
	"fmt"
	"go/token"
	"go/types"
	"strings"

	"golang.org/x/tools/go/ssa"
)

type indexException struct{ fn, construct, reason string }

// assumed-safe sites: one named function per line, with the reason (DESIGN §2.4.4)
var indexExceptions = []indexException{
	{"(*data.BigIntCaster).MarshalTo", "P:buf[0]", "encoder contract: the generated marshaller sizes the buffer with Size() (>= 1 byte) before calling MarshalTo; Size/MarshalTo agreement is C14-R2"},
}

func sliceLike(t types.Type) bool {
	switch u := t.Underlying().(type) {
	case *types.Slice:
		return true
	case *types.Basic:
		return u.Info()&types.IsString != 0
	}
	return false
}

func indexGoals(e *Env, in ssa.Instruction) ([]LE, string, bool) {
	switch v := in.(type) {
	case *ssa.IndexAddr:
		if _, ok := v.X.Type().Underlying().(*types.Slice); !ok {
			// pointer to array: constant length
			pt, ok := v.X.Type().Underlying().(*types.Pointer)
			if !ok {
				return nil, "", false
			}
			at, ok := pt.Elem().Underlying().(*types.Array)
			if !ok {
				return nil, "", false
			}
			idx := e.LE(v.Index)
			g := []LE{leConst(at.Len()).minus(idx).addK(-1)}
			if !valueNonNeg(v.Index) {
				g = append(g, idx)
			}
			return g, fmt.Sprintf("%s[%s] (array of %d)", e.Term(v.X), idx, at.Len()), true
		}
		idx, ln := e.LE(v.Index), e.lenOf(v.X)
		g := []LE{ln.minus(idx).addK(-1)}
		if !valueNonNeg(v.Index) {
			g = append(g, idx)
		}
		return g, fmt.Sprintf("%s[%s]", e.Term(v.X), idx), true
	case *ssa.Index:
		if !sliceLike(v.X.Type()) {
			return nil, "", false
		}
		idx, ln := e.LE(v.Index), e.lenOf(v.X)
		g := []LE{ln.minus(idx).addK(-1)}
		if !valueNonNeg(v.Index) {
			g = append(g, idx)
		}
		return g, fmt.Sprintf("%s[%s]", e.Term(v.X), idx), true
	case *ssa.Slice:
		var ln LE
		if sliceLike(v.X.Type()) {
			ln = e.lenOf(v.X)
		} else if pt, ok := v.X.Type().Underlying().(*types.Pointer); ok {
			at, ok := pt.Elem().Underlying().(*types.Array)
			if !ok {
				return nil, "", false
			}
			ln = leConst(at.Len())
		} else {
			return nil, "", false
		}
		var g []LE
		hi := ln
		los, his := "", ""
		if v.High != nil {
			hi = e.LE(v.High)
			his = hi.String()
			g = append(g, ln.minus(hi)) // hi <= len (the capacity is not relied upon)
			if !valueNonNeg(v.High) {
				g = append(g, hi)
			}
		}
		if v.Low != nil {
			lo := e.LE(v.Low)
			los = lo.String()
			g = append(g, hi.minus(lo))
			if !valueNonNeg(v.Low) {
				g = append(g, lo)
			}
		}
		if len(g) == 0 {
			return nil, "", false
		}
		return g, fmt.Sprintf("%s[%s:%s]", e.Term(v.X), los, his), true
	}
	return nil, "", false
}

func valueNonNeg(v ssa.Value) bool {
	if k, ok := constInt(v); ok {
		return k >= 0
	}
	return isUnsignedT(v.Type())
}

// evenLoopFacts: parity lemma. For a φ i = [c0, i+2] with c0 even, a guard i < len(x) and a dominating fact
// len(x) % 2 == 0 (established on an edge or by a validator), i + 1 < len(x) holds as well.
func evenLoopFacts(e *Env, at ssa.Instruction, facts []Fact) []Fact {
	var out []Fact
	// a list consumed two at a time: from  L − 2·K − 1 ≥ 0  (the rest is not empty) and L even follows  L − 2·K − 2 ≥ 0
	// (any fact  L + even terms + odd constant ≥ 0  with L even has an odd left side, so it is ≥ 1: `2*j < len` gives `2*j + 1 < len`)
	for _, f := range facts {
		if !f.Lin || f.LE.k%2 == 0 || len(f.LE.c) < 2 {
			continue
		}
		la, it := "", "x"
		for a, k := range f.LE.c {
			switch {
			case k == 1 && strings.HasPrefix(a, "len(") && la == "":
				la = a
			case k%2 == 0:
			default:
				it = ""
			}
		}
		if la == "" || it == "" {
			continue
		}
		for _, g := range facts {
			if !g.Lin && g.Pos && (g.Atom == "zero(("+la+" % 2))" || g.Atom == "zero("+la+" % 2)") || g.Lin && g.LE.String() == "- ("+la+" % 2)" {
				out = append(out, Fact{Lin: true, LE: f.LE.addK(-1), Why: "parity: " + la + " even, consumed two at a time, rest not empty"})
				break
			}
		}
	}
	for _, b := range e.Fn.Blocks {
		for _, in := range b.Instrs {
			ph, ok := in.(*ssa.Phi)
			if !ok {
				break
			}
			if !isInteger(ph.Type()) || len(ph.Edges) != 2 {
				continue
			}
			evenInit, step2 := false, false
			for _, ed := range ph.Edges {
				if k, ok := constInt(ed); ok && k%2 == 0 && k >= 0 {
					evenInit = true
				} else if bo, ok := ed.(*ssa.BinOp); ok && bo.Op == token.ADD && bo.X == ssa.Value(ph) {
					if k, ok := constInt(bo.Y); ok && k == 2 {
						step2 = true
					}
				}
			}
			if !evenInit || !step2 {
				continue
			}
			phT := e.LE(ph)
			// for each fact "L - φ - 1 >= 0" (φ < L) where L is a length with an evenness fact: add "L - φ - 2 >= 0"
			for _, f := range facts {
				if !f.Lin {
					continue
				}
				rest := f.LE.plus(phT).addK(1) // = L if the fact is L - φ - 1
				if len(rest.c) != 1 || rest.k != 0 {
					continue
				}
				var la string
				for a, k := range rest.c {
					if k == 1 {
						la = a
					}
				}
				if la == "" || !strings.HasPrefix(la, "len(") {
					continue
				}
				even := false
				for _, g := range facts {
					if !g.Lin && g.Pos && g.Atom == "zero(("+la+" % 2))" || !g.Lin && g.Pos && g.Atom == "zero("+la+" % 2)" {
						even = true
					}
					if g.Lin && g.LE.String() == "- ("+la+" % 2)" {
						even = true
					}
				}
				if even {
					out = append(out, Fact{Lin: true, LE: leAtom(la).minus(phT).addK(-2), Why: "parity: " + la + " even, " + ph.Name() + " even and < " + la})
				}
			}
		}
	}
	return out
}

func indexRule(c *Ctx, rule, doc string, scope func(*Prog, *ssa.Function) bool, floor int) {
	c.Rule(rule, doc, floor)
	exc := map[string]string{}
	for _, x := range indexExceptions {
		exc[x.fn+"|"+x.construct] = x.reason
	}
	for _, fn := range c.P.Funcs {
		if !scope(c.P, fn) {
			continue
		}
		seen := map[string]int{}
		for _, b := range fn.Blocks {
			for _, in := range b.Instrs {
				e := c.P.Env(fn)
				_, desc, ok := indexGoals(e, in)
				if !ok {
					continue
				}
				seen[desc]++
				construct := desc
				if k := seen[desc]; k > 1 {
					construct += fmt.Sprintf(" #%d", k)
				}
				why, isExc := exc[FuncName(fn)+"|*"]
				if !isExc {
					why, isExc = exc[FuncName(fn)+"|"+construct]
				}
				if isExc {
					c.Triv(rule, FuncName(fn), construct, c.P.InstrPos(in), "assumed safe (listed exception): "+why)
					continue
				}
				r := c.P.ProveLin(fn, in, func(e *Env) []LE { g, _, _ := indexGoals(e, in); return g }, func(e *Env) []Fact {
					facts := e.LinFactsAt(in, nil)
					all := e.factsAt(in.Block(), in, nil)
					for x := e; x.Parent != nil; x = x.Parent {
						if x.Call == nil {
							// a function literal: what held where it was created, as far as it concerns the input and parameters
							if x.closure != nil && x.defining() != nil && x.closure.Parent() == x.defining().Fn {
								for _, f := range x.defining().factsAt(x.closure.Block(), x.closure, nil) {
									if !strings.Contains(f.Key(), "#") {
										all = append(all, f)
									}
								}
							}
							continue
						}
						if ci, ok := x.Call.(ssa.Instruction); ok && ci.Parent() == x.Parent.Fn {
							facts = append(facts, x.Parent.LinFactsAt(x.Call, nil)...)
							all = append(all, x.Parent.factsAt(x.Call.Block(), x.Call, nil)...)
						}
					}
					return evenLoopFacts(e, in, append(facts, all...))
				})
				if r.OK {
					if r.By == "constant arithmetic" {
						c.Triv(rule, FuncName(fn), construct, c.P.InstrPos(in), r.By)
					} else {
						c.OK(rule, FuncName(fn), construct, c.P.InstrPos(in), r.By)
					}
				} else {
					c.FailX(Oblig{Rule: rule, Func: FuncName(fn), Construct: construct, Pos: c.P.InstrPos(in), Kind: "violation",
						Detail:   "index / slice bound is not implied by the guards on the paths reaching it: out-of-range panic possible",
						Facts:    r.Facts,
						Expected: "a length guard (in the function, a validator it calls, or at every call site) entailing the goal"})
				}
			}
		}
	}
}
