package main

// Storage-key provenance (E-EFFECT key class): a key is append(P, part…) where P is initialised from a constant.

import (
	"go/token"
	"go/types"
	"strings"

	"golang.org/x/tools/go/ssa"
)

type KeyShape struct {
	Prefix string   // constant prefix ("" if none could be established)
	Parts  []string // terms appended after the prefix, in order
	Raw    string   // term when the value is not an append chain on a constant prefix
}

func (k *KeyShape) String() string {
	if k == nil {
		return "?"
	}
	if k.Raw != "" {
		return k.Raw
	}
	return `"` + k.Prefix + `"‖` + strings.Join(k.Parts, "‖")
}

// constPrefixOf: v is a load of a package-level variable or a struct field that is only ever initialised with
// []byte(<constant string>); returns that constant.
func (p *Prog) constPrefixOf(v ssa.Value) (string, bool) { return p.constPrefix(v, true) }

// constPrefixContent is constPrefixOf without the capacity requirement (content only).
func (p *Prog) constPrefixContent(v ssa.Value) (string, bool) { return p.constPrefix(v, false) }

var constPrefixDepth int

func (p *Prog) constPrefix(v ssa.Value, strict bool) (string, bool) {
	if constPrefixDepth > 6 {
		return "", false
	}
	constPrefixDepth++
	defer func() { constPrefixDepth-- }()
	u, ok := v.(*ssa.UnOp)
	if !ok || u.Op != token.MUL {
		return "", false
	}
	var vals []ssa.Value
	switch a := u.X.(type) {
	case *ssa.Global:
		for _, fn := range p.allFuncsIncludingInit() {
			for _, b := range fn.Blocks {
				for _, in := range b.Instrs {
					if st, ok := in.(*ssa.Store); ok && st.Addr == ssa.Value(a) {
						vals = append(vals, st.Val)
					}
				}
			}
		}
	case *ssa.FieldAddr:
		fname := fieldName(a.X.Type(), a.Field)
		for _, fn := range p.allFuncsIncludingInit() {
			for _, b := range fn.Blocks {
				for _, in := range b.Instrs {
					if st, ok := in.(*ssa.Store); ok {
						if fa, ok := st.Addr.(*ssa.FieldAddr); ok && fieldName(fa.X.Type(), fa.Field) == fname && types.Identical(fa.X.Type(), a.X.Type()) {
							vals = append(vals, st.Val)
						}
					}
				}
			}
		}
	default:
		return "", false
	}
	if len(vals) == 0 {
		return "", false
	}
	res := ""
	for i, val := range vals {
		s, ok := constBytesContent(val, strict)
		if !ok {
			// a copy of another object's prefix (a parameter object that carries the function object's prefix along)
			if ld, isLoad := val.(*ssa.UnOp); isLoad && ld.Op == token.MUL && ld != u {
				if _, isFA := ld.X.(*ssa.FieldAddr); isFA {
					s, ok = p.constPrefix(ld, strict)
				}
			}
		}
		if !ok || (i > 0 && s != res) {
			return "", false
		}
		res = s
	}
	return res, true
}

// constBytesContent: the value is []byte(<constant>) — or, when strict is false, a chain append([]byte(<c1>), <c2>...) whose content is constant
// (its capacity may exceed its length: good enough to classify a key, not good enough as a shared append base, C13-R2).
func constBytesContent(val ssa.Value, strict bool) (string, bool) {
	switch x := val.(type) {
	case *ssa.Convert:
		if k, ok := x.X.(*ssa.Const); ok {
			return constStringVal(k.Value)
		}
	case *ssa.Call:
		// a helper that returns the constant conversion (`func createKeyPrefix() []byte { return []byte(a + b) }`)
		if sc := x.Call.StaticCallee(); sc != nil && len(sc.Blocks) > 0 && sc.Pkg != nil && strings.HasPrefix(sc.Pkg.Pkg.Path(), modPath) && constPrefixDepth < 6 {
			constPrefixDepth++
			defer func() { constPrefixDepth-- }()
			res, n := "", 0
			for _, r := range returnsOf(sc) {
				if len(r.Results) != 1 {
					return "", false
				}
				s, ok := constBytesContent(r.Results[0], strict)
				if !ok || (n > 0 && s != res) {
					return "", false
				}
				res = s
				n++
			}
			return res, n > 0
		}
		if strict {
			return "", false
		}
		if bi, ok := x.Call.Value.(*ssa.Builtin); ok && bi.Name() == "append" && len(x.Call.Args) == 2 {
			base, ok := constBytesContent(x.Call.Args[0], false)
			if !ok {
				return "", false
			}
			switch a := x.Call.Args[1].(type) {
			case *ssa.Const:
				if s, ok := constStringVal(a.Value); ok {
					return base + s, true
				}
			case *ssa.Convert:
				if s, ok := constBytesContent(a, false); ok {
					return base + s, true
				}
			}
		}
	}
	return "", false
}

// keyShape follows append chains, parameters and small key-building helpers.
func keyShape(e *Env, v ssa.Value, depth int) *KeyShape {
	if depth > 14 {
		return nil
	}
	if s, ok := e.P.constPrefixContent(v); ok {
		return &KeyShape{Prefix: s} // the bare prefix, e.g. handed to a helper that appends to it
	}
	switch x := v.(type) {
	case *ssa.Parameter:
		if a, pe := e.actual(x); a != nil {
			return keyShape(pe, a, depth+1)
		}
		return nil
	case *ssa.Call:
		if b, ok := x.Call.Value.(*ssa.Builtin); ok && b.Name() == "append" && len(x.Call.Args) == 2 {
			base := x.Call.Args[0]
			var ks *KeyShape
			if s, ok := e.P.constPrefixContent(base); ok {
				ks = &KeyShape{Prefix: s}
			} else {
				ks = keyShape(e, base, depth+1)
			}
			if ks == nil || ks.Raw != "" {
				return nil
			}
			out := &KeyShape{Prefix: ks.Prefix, Parts: append(append([]string{}, ks.Parts...), e.Term(x.Call.Args[1]))}
			return out
		}
		return keyShapeCall(e, x, 0, depth)
	case *ssa.Extract:
		if call, ok := x.Tuple.(*ssa.Call); ok {
			return keyShapeCall(e, call, x.Index, depth)
		}
	case *ssa.UnOp:
		if w, we := e.ctorField(x); w != nil {
			return keyShape(we, w, depth+1)
		}
		if f := forwarded(x); f != nil {
			return keyShape(e, f, depth+1)
		}
	case *ssa.Phi:
		var first *KeyShape
		for _, ed := range x.Edges {
			ks := keyShape(e, ed, depth+1)
			if ks == nil {
				return nil
			}
			if first == nil {
				first = ks
			} else if first.String() != ks.String() {
				return nil
			}
		}
		return first
	}
	return nil
}

// keyShapeCall: the key is result idx of a module helper: every (successful) return yields the same shape.
func keyShapeCall(e *Env, call *ssa.Call, idx int, depth int) *KeyShape {
	sc := call.Call.StaticCallee()
	if sc == nil || len(sc.Blocks) == 0 || sc.Pkg == nil || !strings.HasPrefix(sc.Pkg.Pkg.Path(), modPath) || e.depth >= maxDepth {
		return nil
	}
	sub := e.Sub(call, sc)
	var first *KeyShape
	for _, r := range returnsOf(sc) {
		if idx >= len(r.Results) {
			return nil
		}
		if lastIsError(sc) && !isSuccessReturn(r) {
			continue
		}
		ks := keyShape(sub, liveRetval(r, idx), depth+1)
		if ks == nil {
			return nil
		}
		if first == nil {
			first = ks
		} else if first.String() != ks.String() {
			return nil
		}
	}
	return first
}

// accountOrigin classifies where an account value comes from: "param:<term>" for an account handed in by the caller of
// the entry point, "load(<address term>)" for AccountsAdapter.LoadAccount(address), "nil" for the nil constant.
func accountOrigin(e *Env, v ssa.Value, depth int) []string {
	if depth > 8 {
		return []string{"?"}
	}
	switch x := v.(type) {
	case *ssa.Parameter:
		if a, pe := e.actual(x); a != nil {
			return accountOrigin(pe, a, depth+1)
		}
		return []string{"param:" + e.Term(x)}
	case *ssa.Const:
		if x.Value == nil {
			return []string{"nil"}
		}
	case *ssa.UnOp:
		if f := forwarded(x); f != nil {
			return accountOrigin(e, f, depth+1) // a parameter kept in a variable cell (captured by a function literal)
		}
		if w, we := e.ctorField(x); w != nil {
			return accountOrigin(we, w, depth+1)
		}
		if fv, ok := x.X.(*ssa.FreeVar); ok {
			if w, we := e.cellValue(fv); w != nil && we != nil {
				return accountOrigin(we, w, depth+1)
			}
		}
	case *ssa.TypeAssert:
		return accountOrigin(e, x.X, depth+1)
	case *ssa.ChangeInterface:
		return accountOrigin(e, x.X, depth+1)
	case *ssa.MakeInterface:
		return accountOrigin(e, x.X, depth+1)
	case *ssa.Phi:
		var out []string
		for _, ed := range x.Edges {
			out = append(out, accountOrigin(e, ed, depth+1)...)
		}
		return uniq(out)
	case *ssa.Extract:
		if ta, ok := x.Tuple.(*ssa.TypeAssert); ok && x.Index == 0 {
			return accountOrigin(e, ta.X, depth+1)
		}
		if call, ok := x.Tuple.(*ssa.Call); ok {
			return accountOriginCall(e, call, x.Index, depth)
		}
	case *ssa.Call:
		return accountOriginCall(e, x, 0, depth)
	}
	return []string{"?" + e.Term(v)}
}

func accountOriginCall(e *Env, call *ssa.Call, idx int, depth int) []string {
	if in := InvokeName(call); in == "AccountsAdapter.LoadAccount" || in == "AccountsAdapter.GetExistingAccount" {
		return []string{"load(" + e.Term(call.Call.Args[0]) + ")"}
	}
	if sc := call.Call.StaticCallee(); sc != nil && len(sc.Blocks) > 0 && sc.Pkg != nil && strings.HasPrefix(sc.Pkg.Pkg.Path(), modPath) {
		sub := e.Sub(call, sc)
		var out []string
		for _, r := range returnsOf(sc) {
			if lastIsError(sc) && !isSuccessReturn(r) {
				continue // the account of a failed load is never used (C17: the error is returned)
			}
			if idx < len(r.Results) {
				out = append(out, accountOrigin(sub, retval(r, idx), depth+1)...)
			}
		}
		return uniq(out)
	}
	return []string{"?" + e.Term(call)}
}

// writtenAccount: for X.AccountDataHandler().SaveKeyValue / RetrieveValue, the account value X.
func writtenAccount(c ssa.CallInstruction) ssa.Value {
	cc := c.Common()
	if !cc.IsInvoke() {
		return nil
	}
	if inner, ok := cc.Value.(*ssa.Call); ok && inner.Call.IsInvoke() && inner.Call.Method.Name() == "AccountDataHandler" {
		return inner.Call.Value
	}
	return nil
}

// entryOrigin classifies a *ESDigitalToken value: "read:<account term>" when it is the result of a module reader that was
// given that account, "literal" when it is built in place, "decoded" when it is filled by Unmarshal from bytes that are
// not storage, "?" otherwise.
func entryOrigin(e *Env, v ssa.Value, depth int) string {
	if depth > 8 {
		return "?"
	}
	switch x := v.(type) {
	case *ssa.Parameter:
		if a, pe := e.actual(x); a != nil {
			return entryOrigin(pe, a, depth+1)
		}
		return "param:" + e.Term(x)
	case *ssa.Alloc:
		// a literal; it may afterwards be filled by Unmarshal(obj, bytes)
		for _, r := range *x.Referrers() {
			if mi, ok := r.(*ssa.MakeInterface); ok {
				for _, rr := range *mi.Referrers() {
					if c, ok := rr.(ssa.CallInstruction); ok && c.Common().IsInvoke() && c.Common().Method.Name() == "Unmarshal" {
						return "decoded"
					}
				}
			}
		}
		return "literal"
	case *ssa.UnOp:
		if f := forwarded(x); f != nil {
			return entryOrigin(e, f, depth+1)
		}
		if fv, ok := x.X.(*ssa.FreeVar); ok {
			if w, we := e.cellValue(fv); w != nil && we != nil {
				return entryOrigin(we, w, depth+1)
			}
		}
	case *ssa.Extract:
		if call, ok := x.Tuple.(*ssa.Call); ok && strings.HasSuffix(x.Type().String(), "esdt.ESDigitalToken") {
			return entryOriginCall(e, call, x.Index, depth)
		}
	case *ssa.Call:
		return entryOriginCall(e, x, 0, depth)
	case *ssa.Phi:
		first := ""
		for _, ed := range x.Edges {
			o := entryOrigin(e, ed, depth+1)
			if first == "" {
				first = o
			} else if o != first {
				return "?"
			}
		}
		return first
	}
	return "?"
}

func entryOriginCall(e *Env, call *ssa.Call, idx, depth int) string {
	sc := call.Call.StaticCallee()
	if sc == nil || sc.Pkg == nil || !strings.HasPrefix(sc.Pkg.Pkg.Path(), modPath) {
		return "?"
	}
	for _, a := range call.Call.Args {
		if strings.HasSuffix(a.Type().String(), modPath+".UserAccountHandler") {
			return "read:" + e.Term(a)
		}
	}
	// a helper without an account (it decodes a payload, or builds a literal): what its non-nil results are
	if len(sc.Blocks) > 0 && e.depth < maxDepth {
		sub := e.Sub(call, sc)
		first := ""
		for _, r := range returnsOf(sc) {
			if idx >= len(r.Results) {
				return "?"
			}
			if k, isK := r.Results[idx].(*ssa.Const); isK && k.Value == nil {
				continue
			}
			o := entryOrigin(sub, retval(r, idx), depth+1)
			if first == "" {
				first = o
			} else if o != first {
				return "?"
			}
		}
		if first != "" {
			return first
		}
	}
	return "?"
}
