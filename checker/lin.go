package main

// Linear expressions over integer-valued atoms and a small Fourier–Motzkin refutation procedure with
// integer tightening. Everything is exact int64 arithmetic on tiny systems; an overflow or a blow-up
// answers "not proved", never "proved".

import (
	"fmt"
	"sort"
	"strings"
)

type LE struct {
	c map[string]int64
	k int64
}

func newLE() LE { return LE{c: map[string]int64{}} }

func leAtom(s string) LE { r := newLE(); r.c[s] = 1; return r }
func leConst(k int64) LE { r := newLE(); r.k = k; return r }

func (a LE) add(b LE, s int64) LE {
	r := newLE()
	for x, v := range a.c {
		r.c[x] = v
	}
	for x, v := range b.c {
		r.c[x] += s * v
		if r.c[x] == 0 {
			delete(r.c, x)
		}
	}
	r.k = a.k + s*b.k
	return r
}

func (a LE) plus(b LE) LE    { return a.add(b, 1) }
func (a LE) minus(b LE) LE   { return a.add(b, -1) }
func (a LE) addK(k int64) LE { return a.add(leConst(k), 1) }

func (a LE) scale(s int64) LE {
	r := newLE()
	if s == 0 {
		return r
	}
	for x, v := range a.c {
		r.c[x] = v * s
	}
	r.k = a.k * s
	return r
}

func (a LE) isConst() bool { return len(a.c) == 0 }

func (a LE) atoms() []string {
	var ks []string
	for x := range a.c {
		ks = append(ks, x)
	}
	sort.Strings(ks)
	return ks
}

func (a LE) String() string {
	var sb strings.Builder
	for i, x := range a.atoms() {
		v := a.c[x]
		switch {
		case v == 1 && i == 0:
			sb.WriteString(x)
		case v == 1:
			sb.WriteString(" + " + x)
		case v == -1:
			sb.WriteString(" - " + x)
		case v < 0:
			fmt.Fprintf(&sb, " - %d*%s", -v, x)
		case i == 0:
			fmt.Fprintf(&sb, "%d*%s", v, x)
		default:
			fmt.Fprintf(&sb, " + %d*%s", v, x)
		}
	}
	if len(a.c) == 0 {
		return fmt.Sprintf("%d", a.k)
	}
	if a.k > 0 {
		fmt.Fprintf(&sb, " + %d", a.k)
	} else if a.k < 0 {
		fmt.Fprintf(&sb, " - %d", -a.k)
	}
	return strings.TrimSpace(sb.String())
}

func gcd64(a, b int64) int64 {
	if a < 0 {
		a = -a
	}
	if b < 0 {
		b = -b
	}
	for b != 0 {
		a, b = b, a%b
	}
	return a
}

func floorDiv(a, b int64) int64 {
	q := a / b
	if (a%b != 0) && ((a < 0) != (b < 0)) {
		q--
	}
	return q
}

func tighten(c LE) LE {
	var g int64
	for _, v := range c.c {
		g = gcd64(g, v)
	}
	if g > 1 {
		r := newLE()
		for x, v := range c.c {
			r.c[x] = v / g
		}
		r.k = floorDiv(c.k, g)
		return r
	}
	return c
}

const fmCoefLimit = int64(1) << 40

// infeasible: the conjunction of (c >= 0) for c in cons has no integer solution (sound, incomplete).
func infeasible(cons []LE) bool {
	cons = append([]LE{}, cons...)
	for iter := 0; iter < 16; iter++ {
		// dedupe + tighten
		seen := map[string]bool{}
		var next []LE
		for _, c := range cons {
			c = tighten(c)
			for _, v := range c.c {
				if v > fmCoefLimit || v < -fmCoefLimit {
					return false
				}
			}
			if c.k > fmCoefLimit*1024 || c.k < -fmCoefLimit*1024 {
				return false
			}
			if len(c.c) == 0 {
				if c.k < 0 {
					return true
				}
				continue
			}
			s := c.String()
			if !seen[s] {
				seen[s] = true
				next = append(next, c)
			}
		}
		cons = next
		vars := map[string]bool{}
		for _, c := range cons {
			for x := range c.c {
				vars[x] = true
			}
		}
		if len(vars) == 0 {
			return false
		}
		pick, best := "", 1<<30
		for x := range vars {
			p, n := 0, 0
			for _, c := range cons {
				if c.c[x] > 0 {
					p++
				} else if c.c[x] < 0 {
					n++
				}
			}
			if p*n < best || (p*n == best && x < pick) {
				best, pick = p*n, x
			}
		}
		var pos, neg, rest []LE
		for _, c := range cons {
			switch {
			case c.c[pick] > 0:
				pos = append(pos, c)
			case c.c[pick] < 0:
				neg = append(neg, c)
			default:
				rest = append(rest, c)
			}
		}
		for _, p := range pos {
			for _, n := range neg {
				a, b := p.c[pick], -n.c[pick]
				g := gcd64(a, b)
				rest = append(rest, p.scale(b/g).add(n.scale(a/g), 1))
			}
		}
		if len(rest) > 600 {
			return false
		}
		cons = rest
	}
	return false
}

// entails: facts (each >= 0) together with nonNeg atoms imply goal >= 0.
func entails(facts []LE, goal LE, nonNeg func(string) bool) bool {
	cons := append([]LE{}, facts...)
	atoms := map[string]bool{}
	for _, f := range facts {
		for a := range f.c {
			atoms[a] = true
		}
	}
	for a := range goal.c {
		atoms[a] = true
	}
	for a := range atoms {
		if nonNeg(a) {
			cons = append(cons, leAtom(a))
		}
	}
	cons = append(cons, goal.scale(-1).addK(-1)) // ¬(goal >= 0)  ==  -goal - 1 >= 0
	return infeasible(cons)
}
