package main

// Loading of /repo's current working tree: go/packages -> go/types -> go/ssa, the
// function universe, callers map and small lookup helpers shared by every rule.

import (
	"crypto/sha256"
	"fmt"
	"go/ast"
	"go/token"
	"go/types"
	"os"
	"path/filepath"
	"sort"
	"strings"

	"golang.org/x/tools/go/packages"
	"golang.org/x/tools/go/ssa"
	"golang.org/x/tools/go/ssa/ssautil"
)

const modPath = "github.com/ElrondNetwork/elrond-vm-common"

// Prog is the loaded, type-checked and SSA-built module.
type Prog struct {
	Dir    string
	GOARCH string
	Fset   *token.FileSet
	Pkgs   []*packages.Package
	SSA    *ssa.Program
	// module packages by short name ("" = root, "builtInFunctions", "parsers", ...)
	Pkg  map[string]*ssa.Package
	TPkg map[string]*packages.Package
	// Funcs: every function with a body declared in the module (incl. mock, excl. synthetic wrappers), sorted by position
	Funcs []*ssa.Function
	// Callers: static call sites per callee (module functions only)
	Callers map[*ssa.Function][]ssa.CallInstruction
}

func short(pkgPath string) string {
	s := strings.TrimPrefix(pkgPath, modPath)
	return strings.TrimPrefix(s, "/")
}

func hashFile(p string) string {
	b, err := os.ReadFile(p)
	if err != nil {
		return ""
	}
	return fmt.Sprintf("%x", sha256.Sum256(b))
}

// Load loads the module at dir. It never writes under dir: go.mod/go.sum are hashed before and
// after and restored should the go command have touched them.
func Load(dir, goarch string) (*Prog, error) {
	gomod, gosum := filepath.Join(dir, "go.mod"), filepath.Join(dir, "go.sum")
	modBytes, _ := os.ReadFile(gomod)
	sumBytes, sumErr := os.ReadFile(gosum)
	defer func() {
		if b, _ := os.ReadFile(gomod); string(b) != string(modBytes) && modBytes != nil {
			_ = os.WriteFile(gomod, modBytes, 0o644)
		}
		if sumErr == nil {
			if b, _ := os.ReadFile(gosum); string(b) != string(sumBytes) {
				_ = os.WriteFile(gosum, sumBytes, 0o644)
			}
		}
	}()
	env := []string{}
	for _, kv := range os.Environ() {
		if strings.HasPrefix(kv, "GOWORK=") || strings.HasPrefix(kv, "GOARCH=") || strings.HasPrefix(kv, "GOFLAGS=") ||
			strings.HasPrefix(kv, "GOPROXY=") || strings.HasPrefix(kv, "GOSUMDB=") || strings.HasPrefix(kv, "GOTOOLCHAIN=") {
			continue
		}
		env = append(env, kv)
	}
	env = append(env, "GOWORK=off", "GOFLAGS=-mod=mod", "GOPROXY=off", "GOSUMDB=off", "GOTOOLCHAIN=local", "CGO_ENABLED=0")
	if goarch != "" {
		env = append(env, "GOARCH="+goarch)
	}
	cfg := &packages.Config{
		Mode: packages.NeedName | packages.NeedFiles | packages.NeedCompiledGoFiles | packages.NeedImports |
			packages.NeedTypes | packages.NeedTypesSizes | packages.NeedSyntax | packages.NeedTypesInfo | packages.NeedModule,
		Dir:   dir,
		Env:   env,
		Tests: false,
	}
	pkgs, err := packages.Load(cfg, "./...")
	if err != nil {
		return nil, fmt.Errorf("packages.Load: %w", err)
	}
	if len(pkgs) == 0 {
		return nil, fmt.Errorf("no packages loaded from %s", dir)
	}
	var errs []string
	packages.Visit(pkgs, nil, func(p *packages.Package) {
		if !strings.HasPrefix(p.PkgPath, modPath) {
			return
		}
		for _, e := range p.Errors {
			errs = append(errs, e.Error())
		}
	})
	if len(errs) > 0 {
		return nil, fmt.Errorf("type/load errors: %s", strings.Join(errs, "; "))
	}
	sp, spkgs := ssautil.AllPackages(pkgs, ssa.InstantiateGenerics)
	sp.Build()
	p := &Prog{Dir: dir, GOARCH: goarch, Fset: sp.Fset, Pkgs: pkgs, SSA: sp, Pkg: map[string]*ssa.Package{}, TPkg: map[string]*packages.Package{},
		Callers: map[*ssa.Function][]ssa.CallInstruction{}}
	n := 0
	for i, pk := range pkgs {
		if spkgs[i] == nil {
			return nil, fmt.Errorf("no SSA for package %s", pk.PkgPath)
		}
		if strings.HasPrefix(pk.PkgPath, modPath) {
			p.Pkg[short(pk.PkgPath)] = spkgs[i]
			p.TPkg[short(pk.PkgPath)] = pk
			n++
		}
	}
	if n == 0 {
		return nil, fmt.Errorf("no module packages among %d loaded", len(pkgs))
	}
	p.buildUniverse()
	return p, nil
}

func (p *Prog) buildUniverse() {
	seen := map[*ssa.Function]bool{}
	var add func(fn *ssa.Function)
	add = func(fn *ssa.Function) {
		if fn == nil || seen[fn] {
			return
		}
		seen[fn] = true
		if len(fn.Blocks) > 0 && fn.Pkg != nil && strings.HasPrefix(fn.Pkg.Pkg.Path(), modPath) {
			p.Funcs = append(p.Funcs, fn)
		}
		for _, a := range fn.AnonFuncs {
			add(a)
		}
	}
	for _, sp := range p.Pkg {
		for _, m := range sp.Members {
			switch m := m.(type) {
			case *ssa.Function:
				add(m)
			case *ssa.Type:
				for _, t := range []types.Type{m.Type(), types.NewPointer(m.Type())} {
					ms := p.SSA.MethodSets.MethodSet(t)
					for i := 0; i < ms.Len(); i++ {
						add(p.SSA.MethodValue(ms.At(i)))
					}
				}
			}
		}
	}
	sort.Slice(p.Funcs, func(i, j int) bool {
		a, b := p.Fset.Position(p.Funcs[i].Pos()), p.Fset.Position(p.Funcs[j].Pos())
		if a.Filename != b.Filename {
			return a.Filename < b.Filename
		}
		if a.Offset != b.Offset {
			return a.Offset < b.Offset
		}
		return p.Funcs[i].String() < p.Funcs[j].String()
	})
	for _, fn := range p.Funcs {
		for _, b := range fn.Blocks {
			for _, in := range b.Instrs {
				if c, ok := in.(ssa.CallInstruction); ok {
					if sc := c.Common().StaticCallee(); sc != nil {
						p.Callers[sc] = append(p.Callers[sc], c)
					}
				}
			}
		}
	}
}

// PkgOf returns the short package name of fn ("" for root).
func PkgOf(fn *ssa.Function) string {
	if fn.Pkg == nil {
		if fn.Parent() != nil {
			return PkgOf(fn.Parent())
		}
		return "?"
	}
	return short(fn.Pkg.Pkg.Path())
}

// Src reports whether fn is hand-written library source: not synthetic, not mock, not generated.
func (p *Prog) Src(fn *ssa.Function) bool {
	if fn.Synthetic != "" {
		return false
	}
	pk := PkgOf(fn)
	if pk == "mock" || pk == "?" {
		return false
	}
	f := p.Fset.Position(fn.Pos()).Filename
	return !strings.HasSuffix(f, "_test.go")
}

func (p *Prog) Generated(fn *ssa.Function) bool {
	return strings.HasSuffix(p.Fset.Position(fn.Pos()).Filename, ".pb.go")
}

// InPkgs: fn is library source declared in one of the given short packages.
func (p *Prog) InPkgs(fn *ssa.Function, pkgs ...string) bool {
	if !p.Src(fn) {
		return false
	}
	pk := PkgOf(fn)
	for _, q := range pkgs {
		if q == pk {
			return true
		}
	}
	return false
}

// Pos renders a position relative to the repo root.
func (p *Prog) Pos(pos token.Pos) string {
	if !pos.IsValid() {
		return "-"
	}
	ps := p.Fset.Position(pos)
	rel, err := filepath.Rel(p.Dir, ps.Filename)
	if err != nil {
		rel = ps.Filename
	}
	return fmt.Sprintf("%s:%d", rel, ps.Line)
}

// InstrPos finds a usable position for an instruction (some SSA instructions carry NoPos).
func (p *Prog) InstrPos(in ssa.Instruction) string {
	if in.Pos().IsValid() {
		return p.Pos(in.Pos())
	}
	for _, op := range in.Operands(nil) {
		if *op != nil && (*op).Pos().IsValid() {
			return p.Pos((*op).Pos())
		}
	}
	// fall back to the nearest positioned instruction of the block, then the function
	if b := in.Block(); b != nil {
		for _, x := range b.Instrs {
			if x.Pos().IsValid() {
				return p.Pos(x.Pos())
			}
		}
	}
	if in.Parent() != nil {
		return p.Pos(in.Parent().Pos())
	}
	return "-"
}

// FuncName is the stable display / key name of a function: "(*T).M", "pkg.F", with anon suffixes.
func FuncName(fn *ssa.Function) string {
	if fn == nil {
		return "<nil>"
	}
	s := fn.String()
	s = strings.ReplaceAll(s, modPath+"/", "")
	s = strings.ReplaceAll(s, modPath, "vmcommon")
	return s
}

// FuncByName finds a function of the module by its display name (exact) — for oracle tables keyed by exported API.
func (p *Prog) FuncByName(name string) *ssa.Function {
	for _, fn := range p.Funcs {
		if FuncName(fn) == name {
			return fn
		}
	}
	return nil
}

// Lookup a package-level object.
func (p *Prog) Obj(pkg, name string) types.Object {
	sp := p.Pkg[pkg]
	if sp == nil {
		return nil
	}
	return sp.Pkg.Scope().Lookup(name)
}

func (p *Prog) NamedType(pkg, name string) *types.Named {
	o := p.Obj(pkg, name)
	if o == nil {
		return nil
	}
	n, _ := o.Type().(*types.Named)
	return n
}

// ConstString returns the value of a package-level string constant.
func (p *Prog) ConstString(pkg, name string) (string, bool) {
	o := p.Obj(pkg, name)
	c, ok := o.(*types.Const)
	if !ok {
		return "", false
	}
	return constStringVal(c.Val())
}

// Methods of all module types implementing a method named m on interface iface (CHA restricted to the module, non-mock).
type implKey struct {
	iface  *types.Interface
	method string
}

var implCache = map[implKey][]*ssa.Function{}

func (p *Prog) Implementations(iface *types.Interface, method string) []*ssa.Function {
	if r, ok := implCache[implKey{iface, method}]; ok {
		return r
	}
	out := p.implementationsUncached(iface, method)
	implCache[implKey{iface, method}] = out
	return out
}

func (p *Prog) implementationsUncached(iface *types.Interface, method string) []*ssa.Function {
	var out []*ssa.Function
	seen := map[*ssa.Function]bool{}
	for _, sp := range p.Pkg {
		if short(sp.Pkg.Path()) == "mock" {
			continue
		}
		for _, m := range sp.Members {
			t, ok := m.(*ssa.Type)
			if !ok {
				continue
			}
			if _, isIface := t.Type().Underlying().(*types.Interface); isIface {
				continue
			}
			for _, tt := range []types.Type{t.Type(), types.NewPointer(t.Type())} {
				if !types.Implements(tt, iface) {
					continue
				}
				ms := p.SSA.MethodSets.MethodSet(tt)
				for i := 0; i < ms.Len(); i++ {
					if ms.At(i).Obj().Name() == method {
						fn := p.SSA.MethodValue(ms.At(i))
						if fn != nil && !seen[fn] {
							seen[fn] = true
							out = append(out, fn)
						}
					}
				}
			}
		}
	}
	sort.Slice(out, func(i, j int) bool { return out[i].String() < out[j].String() })
	return out
}

// unwrapSynthetic follows a synthetic wrapper/thunk (promoted method of an embedded field, bound method) to the
// declared function it forwards to; returns fn itself when it is declared source.
func unwrapSynthetic(fn *ssa.Function) *ssa.Function {
	for i := 0; i < 4 && fn != nil && fn.Synthetic != ""; i++ {
		var next *ssa.Function
		for _, b := range fn.Blocks {
			for _, in := range b.Instrs {
				if c, ok := in.(ssa.CallInstruction); ok {
					if sc := c.Common().StaticCallee(); sc != nil {
						next = sc
					}
				}
			}
		}
		if next == nil {
			return fn
		}
		fn = next
	}
	return fn
}

// Callees resolves a call: static callee, or for interface invocations the module implementations (CHA, no mocks).
// Calls on injected dependencies have no module implementation and resolve to nothing.
func (p *Prog) Callees(c ssa.CallInstruction) []*ssa.Function {
	cc := c.Common()
	if sc := cc.StaticCallee(); sc != nil {
		return []*ssa.Function{unwrapSynthetic(sc)}
	}
	if cc.IsInvoke() {
		iface, ok := cc.Value.Type().Underlying().(*types.Interface)
		if !ok {
			return nil
		}
		var out []*ssa.Function
		for _, f := range p.Implementations(iface, cc.Method.Name()) {
			out = append(out, unwrapSynthetic(f))
		}
		return out
	}
	if _, isB := cc.Value.(*ssa.Builtin); isB {
		return nil
	}
	return p.dynCallees(c)
}

// CalleesIn: Callees, with calls of function values resolved in this calling context where that is possible (the literal a
// parameter object carries, the closure a caller passed).
func (e *Env) CalleesIn(c ssa.CallInstruction) []*ssa.Function {
	cc := c.Common()
	if cc.StaticCallee() != nil || cc.IsInvoke() || c.Parent() != e.Fn {
		return e.P.Callees(c)
	}
	if _, isB := cc.Value.(*ssa.Builtin); isB {
		return nil
	}
	if ts := e.funcTargets(cc.Value, 0); ts != nil {
		var out []*ssa.Function
		seen := map[*ssa.Function]bool{}
		for _, t := range ts {
			if !seen[t.fn] {
				seen[t.fn] = true
				out = append(out, t.fn)
			}
		}
		return out
	}
	return e.P.Callees(c)
}

var dynCalleeCache = map[ssa.CallInstruction][]*ssa.Function{}

// dynCallees: a call of a function value (literal held in a variable, func-typed parameter or field, method value): resolved
// in the function's own context where possible; otherwise every function of the module with that signature whose value is
// taken somewhere (conservative: used for reachability and effect enumeration).
func (p *Prog) dynCallees(c ssa.CallInstruction) []*ssa.Function {
	if r, ok := dynCalleeCache[c]; ok {
		return r
	}
	dynCalleeCache[c] = nil
	cc := c.Common()
	var out []*ssa.Function
	seen := map[*ssa.Function]bool{}
	if ts := p.Env(c.Parent()).funcTargets(cc.Value, 0); ts != nil {
		for _, t := range ts {
			if !seen[t.fn] {
				seen[t.fn] = true
				out = append(out, t.fn)
			}
		}
		dynCalleeCache[c] = out
		return out
	}
	sig, ok := cc.Value.Type().Underlying().(*types.Signature)
	if !ok {
		return nil
	}
	for _, fn := range p.addressTaken() {
		real := fn
		if fn.Synthetic != "" {
			real = unwrapSynthetic(fn)
		}
		if seen[real] || len(real.Blocks) == 0 {
			continue
		}
		// compare without the receiver (bound methods) for synthetic wrappers, the literal's own signature otherwise
		if types.Identical(fn.Signature.Params(), sig.Params()) && types.Identical(fn.Signature.Results(), sig.Results()) {
			seen[real] = true
			out = append(out, real)
		}
	}
	dynCalleeCache[c] = out
	return out
}

var addressTakenFns []*ssa.Function
var addressTakenDone bool

// addressTaken: functions of the module used as values (function literals, method values, named functions passed around).
func (p *Prog) addressTaken() []*ssa.Function {
	if addressTakenDone {
		return addressTakenFns
	}
	addressTakenDone = true
	seen := map[*ssa.Function]bool{}
	for _, fn := range p.Funcs {
		for _, b := range fn.Blocks {
			for _, in := range b.Instrs {
				if mc, ok := in.(*ssa.MakeClosure); ok {
					if f, ok := mc.Fn.(*ssa.Function); ok && !seen[f] {
						seen[f] = true
						addressTakenFns = append(addressTakenFns, f)
					}
				}
				var callValue ssa.Value
				if ci, ok := in.(ssa.CallInstruction); ok {
					callValue = ci.Common().Value
				}
				for _, op := range in.Operands(nil) {
					if f, ok := (*op).(*ssa.Function); ok && *op != callValue && !seen[f] && f.Pkg != nil && strings.HasPrefix(f.Pkg.Pkg.Path(), modPath) {
						seen[f] = true
						addressTakenFns = append(addressTakenFns, f)
					}
				}
			}
		}
	}
	return addressTakenFns
}

// InvokeName returns "Iface.Method" for an interface invocation ("" otherwise); Iface is the named interface type.
func InvokeName(c ssa.CallInstruction) string {
	cc := c.Common()
	if !cc.IsInvoke() {
		return ""
	}
	t := cc.Value.Type()
	name := t.String()
	if n, ok := t.(*types.Named); ok {
		name = n.Obj().Name()
	}
	return name + "." + cc.Method.Name()
}

// CalleeName: full name of the static callee ("" if none), e.g. "(*math/big.Int).Add", "bytes.Equal".
func CalleeName(c ssa.CallInstruction) string {
	if sc := c.Common().StaticCallee(); sc != nil {
		return sc.String()
	}
	return ""
}

// fileOf returns the syntax file containing pos in the module packages.
func (p *Prog) fileOf(pos token.Pos) *ast.File {
	for _, pk := range p.TPkg {
		for _, f := range pk.Syntax {
			if f.Pos() <= pos && pos <= f.End() {
				return f
			}
		}
	}
	return nil
}

// EntryPoints: the ProcessBuiltinFunction methods of every module type implementing vmcommon.BuiltinFunction.
func (p *Prog) EntryPoints() []*ssa.Function {
	n := p.NamedType("", "BuiltinFunction")
	if n == nil {
		return nil
	}
	iface, ok := n.Underlying().(*types.Interface)
	if !ok {
		return nil
	}
	return p.Implementations(iface, "ProcessBuiltinFunction")
}

// ReachableFrom: functions reachable from roots through static calls and module-resolved interface calls.
func (p *Prog) ReachableFrom(roots []*ssa.Function) map[*ssa.Function]bool {
	seen := map[*ssa.Function]bool{}
	var work []*ssa.Function
	for _, r := range roots {
		if r != nil && !seen[r] {
			seen[r] = true
			work = append(work, r)
		}
	}
	for len(work) > 0 {
		fn := work[len(work)-1]
		work = work[:len(work)-1]
		for _, a := range fn.AnonFuncs {
			if !seen[a] {
				seen[a] = true
				work = append(work, a)
			}
		}
		for _, b := range fn.Blocks {
			for _, in := range b.Instrs {
				c, ok := in.(ssa.CallInstruction)
				if !ok {
					continue
				}
				for _, callee := range p.Callees(c) {
					if callee != nil && !seen[callee] && len(callee.Blocks) > 0 && callee.Pkg != nil && strings.HasPrefix(callee.Pkg.Pkg.Path(), modPath) {
						seen[callee] = true
						work = append(work, callee)
					}
				}
			}
		}
	}
	return seen
}

// implementsMethod: fn is the implementation of method `method` of the root-package interface `iface` for its receiver type.
func (p *Prog) implementsMethod(fn *ssa.Function, ifaceName, method string) bool {
	if fn.Signature.Recv() == nil || fn.Name() != method {
		return false
	}
	n := p.NamedType("", ifaceName)
	if n == nil {
		return false
	}
	iface, ok := n.Underlying().(*types.Interface)
	if !ok {
		return false
	}
	return types.Implements(fn.Signature.Recv().Type(), iface)
}
