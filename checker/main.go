package main

// vcheck — repository-specific static checker for elrond-vm-common.
//   vcheck -p C06 [-tier quick|thorough] [-repo /repo] [-verif /verif]
//   vcheck -replay /verif/out/C06/C06-R1-1.json
// Exit 0: every obligation of the property discharged (known findings are printed, not counted).
// Exit 1: at least one violation / undecided / floor / anchor failure (one VIOLATION line each).
// Exit 2: no verdict (load or type-check failure, checker panic).

import (
	"os/exec"
	"path/filepath"

	"golang.org/x/tools/go/ssa"

	"encoding/json"
	"flag"
	"fmt"
	"os"
	"runtime/debug"
	"sort"
	"strings"
	"time"
)

type Property struct {
	ID          string
	Level       string
	Explanation string
	Trusted     []string
	Rules       []func(c *Ctx)
	// Thorough-only extra rules
	Thorough []func(c *Ctx)
}

var properties = map[string]*Property{}

var verbose bool

func register(p *Property) { properties[p.ID] = p }

var baseTrusted = []string{"go/packages + go/types (type-checked program of /repo's working tree)", "go/ssa of golang.org/x/tools v0.29.0", "the checker's own rule code (/verif/checker)"}

func main() {
	prop := flag.String("p", "", "property id (C01..C20) or 'all'")
	tier := flag.String("tier", "", "quick | thorough (default: $VERIF_TIER or quick)")
	repo := flag.String("repo", "/repo", "repository to analyse")
	verif := flag.String("verif", "/verif", "verif directory (evidence/, out/, known_findings.json)")
	replay := flag.String("replay", "", "replay a violation file")
	flag.StringVar(&knownPath, "known", "", "known-findings file (default <verif>/known_findings.json)")
	dump := flag.String("dump", "", "debug: dump edge facts of the named function")
	flag.BoolVar(&verbose, "v", false, "print every obligation")
	dumpobs := flag.String("dumpobs", "", "write every obligation as a JSON line to this file")
	flag.Parse()
	debug.SetGCPercent(400)
	if *tier == "" {
		*tier = os.Getenv("VERIF_TIER")
	}
	if *tier != "thorough" {
		*tier = "quick"
	}
	defer func() {
		if r := recover(); r != nil {
			fmt.Fprintf(os.Stderr, "vcheck: internal error (no verdict): %v\n%s\n", r, debug.Stack())
			os.Exit(2)
		}
	}()
	var replayOb *Oblig
	if *replay != "" {
		b, err := os.ReadFile(*replay)
		if err != nil {
			fmt.Fprintf(os.Stderr, "vcheck: %v\n", err)
			os.Exit(2)
		}
		replayOb = &Oblig{}
		if err := json.Unmarshal(b, replayOb); err != nil {
			fmt.Fprintf(os.Stderr, "vcheck: %v\n", err)
			os.Exit(2)
		}
		*prop = replayOb.Property
	}
	if *prop == "" {
		fmt.Fprintln(os.Stderr, "usage: vcheck -p Cxx [-tier quick|thorough]")
		os.Exit(2)
	}
	var ids []string
	if *prop == "all" {
		for id := range properties {
			ids = append(ids, id)
		}
		sort.Strings(ids)
	} else {
		for _, id := range strings.Split(*prop, ",") {
			if properties[id] == nil {
				fmt.Fprintf(os.Stderr, "vcheck: property %s is not claimed by this checker\n", id)
				os.Exit(2)
			}
			ids = append(ids, id)
		}
	}
	archs := []string{"amd64"}
	if *tier == "thorough" {
		archs = []string{"amd64", "386"}
	}
	exit := 0
	for _, id := range ids {
		start := time.Now()
		pr := properties[id]
		var ctx *Ctx
		for ai, arch := range archs {
			p, err := Load(*repo, arch)
			if err != nil {
				fmt.Fprintf(os.Stderr, "vcheck: cannot analyse %s (GOARCH=%s): %v\n", *repo, arch, err)
				os.Exit(2)
			}
			resetCaches()
			c := NewCtx(p, id, *tier)
			if *dump != "" {
				dumpFunc(p, *dump)
				return
			}
			for _, r := range pr.Rules {
				r(c)
			}
			if *tier == "thorough" {
				for _, r := range pr.Thorough {
					r(c)
				}
			}
			if ai == 0 {
				ctx = c
			} else {
				// second architecture: only failures are merged (same obligations, other word size)
				for _, o := range c.obs {
					if o.Kind != "ok" && o.Kind != "control" {
						o.Detail = "[GOARCH=" + arch + "] " + o.Detail
						ctx.obs = append(ctx.obs, o)
					}
				}
				ctx.Note("GOARCH=%s: %d obligations re-evaluated", arch, len(c.obs))
			}
		}
		if replayOb != nil {
			found := false
			still := false
			for _, o := range ctx.obs {
				if o.Rule == replayOb.Rule && o.Func == replayOb.Func && o.Construct == replayOb.Construct {
					found = true
					b, _ := json.MarshalIndent(o, "", " ")
					fmt.Println(string(b))
					if o.Kind != "ok" {
						still = true
					}
				}
			}
			if !found {
				fmt.Printf("obligation %s / %s / %s no longer exists in the tree\n", replayOb.Rule, replayOb.Func, replayOb.Construct)
				os.Exit(0)
			}
			if still {
				fmt.Printf("VIOLATION property=%s replay=%s\n", id, *replay)
				os.Exit(1)
			}
			os.Exit(0)
		}
		if *dumpobs != "" {
			dumpObligations(ctx, *dumpobs)
		}
		if *tier == "thorough" && os.Getenv("VCHECK_NO_EXTRAS") == "" && replayOb == nil {
			runThoroughExtras(ctx, *verif, id)
		}
		cmd := "bin/vcheck -p " + id + " -tier " + *tier
		if rc := ctx.Finish(*verif, start, pr.Level, pr.Explanation, append(append([]string{}, baseTrusted...), pr.Trusted...), cmd); rc > exit {
			exit = rc
		}
	}
	os.Exit(exit)
}

func resetCaches() {
	implCache = map[implKey][]*ssa.Function{}
	pureCache = map[*ssaFunc]int{}
	mayStoreCache = map[*ssaFunc]map[string]bool{}
	atomUnsigned = map[string]bool{}
	initFuncs = nil
	regCache = nil
	factoryCache = nil
	lockedHelperCache = map[*ssaFunc][]int{}
	fieldOwnerCache = map[string]bool{}
	globalFieldCache = map[string]ssa.Value{}
	atomRange = map[string][2]int64{}
	fieldLiteralOnlyCache = map[string]bool{}
	dynCalleeCache = map[ssa.CallInstruction][]*ssa.Function{}
	addressTakenFns, addressTakenDone = nil, false
	quoAtoms = map[string]quoDef{}
	inlineCache = map[inlineKey]inlineRes{}
	reachEffCache = map[string]map[*ssaFunc]bool{}
	sentinelCache = map[*ssa.Global]int{}
	perCallCache = map[string]bool{}
	globalRowsCache = map[*ssa.Global][]structAlt{}
	globalRowsDone = map[*ssa.Global]bool{}
	soleStoreCache = map[string]*ssa.Store{}
	soleStoreDone = map[string]bool{}
}

func dumpFunc(p *Prog, name string) {
	for _, fn := range p.Funcs {
		if fn.Name() != name && FuncName(fn) != name {
			continue
		}
		fmt.Println("==", FuncName(fn))
		fn.WriteTo(os.Stdout)
		e := p.Env(fn)
		ef := e.EdgeFacts()
		var keys []string
		m := map[string][]Fact{}
		for ed, fs := range ef {
			keys = append(keys, ed.String())
			m[ed.String()] = fs
		}
		sort.Strings(keys)
		for _, k := range keys {
			fmt.Println("  edge", k)
			for _, f := range m[k] {
				fmt.Println("      ", f.String())
			}
		}
		for _, b := range fn.Blocks {
			fmt.Printf("  facts at b%d:\n", b.Index)
			for _, f := range e.factsAtBlock(b, nil) {
				fmt.Println("      ", f.String())
			}
		}
	}
}

func dumpObligations(c *Ctx, path string) {
	f, err := os.Create(path)
	if err != nil {
		return
	}
	defer f.Close()
	enc := json.NewEncoder(f)
	for _, o := range c.obs {
		_ = enc.Encode(o)
	}
}

// runThoroughExtras: self-test on mutants and seeded changes, second-toolchain comparison, cross-reference tools (tools/thorough_extras.py).
// Their results are recorded in the evidence; a missed mutant or seed is a weakness of the checker, not a violation of /repo. A non-ok obligation
// that only the second toolchain's build reports is merged as a failure (the verdict must not depend on the SSA builder's version).
func runThoroughExtras(c *Ctx, verifDir, id string) {
	script := filepath.Join(verifDir, "tools", "thorough_extras.py")
	if _, err := os.Stat(script); err != nil {
		c.Note("thorough extras skipped: %s not found", script)
		return
	}
	tmp, err := os.MkdirTemp("", "vextras-")
	if err != nil {
		return
	}
	defer os.RemoveAll(tmp)
	primary := filepath.Join(tmp, "primary.jsonl")
	out := filepath.Join(tmp, "extras.json")
	dumpObligations(c, primary)
	cmd := exec.Command("python3", script, id, primary, out)
	cmd.Env = append(os.Environ(), "VERIF_REPO="+c.P.Dir)
	if b, err := cmd.CombinedOutput(); err != nil {
		c.Note("thorough extras failed to run: %v %s", err, string(b))
		return
	}
	b, err := os.ReadFile(out)
	if err != nil {
		return
	}
	var ex map[string]interface{}
	if json.Unmarshal(b, &ex) != nil {
		return
	}
	c.extras = ex
	if m, ok := ex["mutants"].(map[string]interface{}); ok {
		fmt.Printf("  self-test: mutants detected %v / %v, missed %v, false alarms %v\n", m["detected"], m["total"], m["missed"], m["false_alarms"])
	}
	if s, ok := ex["seeds"].([]interface{}); ok {
		det := 0
		for _, x := range s {
			if xm, ok := x.(map[string]interface{}); ok && xm["status"] == "detected" {
				det++
			}
		}
		fmt.Printf("  self-test: seeded changes detected %d / %d\n", det, len(s))
	}
	if r, ok := ex["refactorings"].(map[string]interface{}); ok {
		fmt.Printf("  self-test: behaviour-preserving refactorings silent %v / %v, false alarms %v\n", r["silent"], r["total"], r["false_alarms"])
	}
	if t, ok := ex["second_toolchain"].(map[string]interface{}); ok {
		fmt.Printf("  second toolchain (%v): identical=%v\n", t["toolchain"], t["identical"])
		if diffs, ok := t["differences"].([]interface{}); ok {
			for _, d := range diffs {
				dm := d.(map[string]interface{})
				if dm["kind"] != "ok" && dm["second"].(float64) > dm["primary"].(float64) {
					c.Fail(fmt.Sprint(dm["rule"]), "undecided", fmt.Sprint(dm["function"]), "second-toolchain divergence", "-",
						fmt.Sprintf("the checker built with %v reports a %v obligation here that the primary build discharges", t["toolchain"], dm["kind"]))
				}
			}
		}
	}
}
