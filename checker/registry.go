package main

// T-REG: the oracle table keyed by protocol name (embedded from spec/registry.json) and the registrations
// extracted from the factory (constant key of each Add call, constructor, constant flags, cost arguments).

import (
	_ "embed"
	"encoding/json"
	"fmt"
	"go/constant"
	"go/types"
	"sort"
	"strings"

	"golang.org/x/tools/go/ssa"
)

//go:embed spec/registry.json
var registryJSON []byte

type RegSpec struct {
	Name      string   `json:"name"`
	Ctor      string   `json:"ctor"`
	Flags     []bool   `json:"flags"`
	Cost      *string  `json:"cost"`
	PerByte   []string `json:"perByte"`
	Authority struct {
		Kind               string   `json:"kind"`
		Roles              []string `json:"roles"`
		IfQuantityAboveOne string   `json:"ifQuantityAboveOne"`
	} `json:"authority"`
	Supply string `json:"supply"`
	Active string `json:"active"`
}

func loadRegSpec() []RegSpec {
	var rs []RegSpec
	if err := json.Unmarshal(registryJSON, &rs); err != nil {
		panic("spec/registry.json: " + err.Error())
	}
	return rs
}

// Registration is one Add call of the factory.
type Registration struct {
	Key      string
	KeyConst string // name of the constant used, if any (informational)
	Add      ssa.CallInstruction
	Ctor     *ssa.Function
	CtorCall *ssa.Call
	Flags    []bool   // constant bool arguments of the constructor, in order
	ArgTerms []string // terms of all constructor arguments
	Type     types.Type
	Entry    *ssa.Function // ProcessBuiltinFunction of the registered type
}

// FactoryFunc: the method of the factory type that builds the container (role: the function containing Add calls on a
// BuiltInFunctionContainer and returning one).
func (p *Prog) FactoryFunc() *ssa.Function {
	var best *ssa.Function
	n := 0
	for _, fn := range p.Funcs {
		if !p.InPkgs(fn, "builtInFunctions") {
			continue
		}
		k := 0
		for _, b := range fn.Blocks {
			for _, in := range b.Instrs {
				if c, ok := in.(ssa.CallInstruction); ok && InvokeName(c) == "BuiltInFunctionContainer.Add" {
					k++
				}
			}
		}
		if k > n {
			n, best = k, fn
		}
	}
	return best
}

func traceCtor(v ssa.Value) *ssa.Call {
	for i := 0; i < 8; i++ {
		switch x := v.(type) {
		case *ssa.MakeInterface:
			v = x.X
		case *ssa.ChangeInterface:
			v = x.X
		case *ssa.Extract:
			v = x.Tuple
		case *ssa.Call:
			return x
		default:
			return nil
		}
	}
	return nil
}

var regCache []Registration

func (p *Prog) Registrations() []Registration {
	if regCache != nil {
		return regCache
	}
	fn := p.FactoryFunc()
	if fn == nil {
		return nil
	}
	e := p.Env(fn)
	var out []Registration
	for _, b := range fn.Blocks {
		for _, in := range b.Instrs {
			c, ok := in.(ssa.CallInstruction)
			if !ok || InvokeName(c) != "BuiltInFunctionContainer.Add" {
				continue
			}
			r := Registration{Add: c}
			if k, ok := c.Common().Args[0].(*ssa.Const); ok && k.Value != nil && k.Value.Kind() == constant.String {
				r.Key = constant.StringVal(k.Value)
			}
			if call := traceCtor(c.Common().Args[1]); call != nil {
				r.CtorCall = call
				r.Ctor = call.Call.StaticCallee()
				for _, a := range call.Call.Args {
					r.ArgTerms = append(r.ArgTerms, e.Term(a))
					if bv, ok := boolConst(a); ok {
						r.Flags = append(r.Flags, bv)
					}
				}
				if r.Ctor != nil && r.Ctor.Signature.Results().Len() > 0 {
					r.Type = r.Ctor.Signature.Results().At(0).Type()
					ms := p.SSA.MethodSets.MethodSet(r.Type)
					if sel := ms.Lookup(nil, "ProcessBuiltinFunction"); sel != nil {
						r.Entry = unwrapSynthetic(p.SSA.MethodValue(sel))
					}
				}
			}
			out = append(out, r)
		}
	}
	sort.Slice(out, func(i, j int) bool { return out[i].Key < out[j].Key })
	regCache = out
	return out
}

// RegByName joins spec rows with the extracted registrations; missing joins are reported by the caller.
func (p *Prog) RegByName() map[string]Registration {
	m := map[string]Registration{}
	for _, r := range p.Registrations() {
		m[r.Key] = r
	}
	return m
}

func (r Registration) String() string {
	ctor := "?"
	if r.Ctor != nil {
		ctor = r.Ctor.Name()
	}
	return fmt.Sprintf("%s -> %s(%s)", r.Key, ctor, strings.Join(r.ArgTerms, ", "))
}
