package main

// T-REG: the oracle table keyed by protocol name (embedded from spec/registry.json) and the registrations
// extracted from the factory (constant key of each Add call, constructor, constant flags, cost arguments).

import (
	_ "embed"
	"encoding/json"
	"fmt"
	"go/constant"
	"go/token"
	"go/types"
	"sort"
	"strings"

	"golang.org/x/tools/go/ssa"
)

//go:embed spec/registry.json
var registryJSON []byte

type RegSpec struct {
	Name      string   `json:"name"`
	Ctor      string   `json:"ctor"`
	Flags     []bool   `json:"flags"`
	Cost      *string  `json:"cost"`
	PerByte   []string `json:"perByte"`
	Authority struct {
		Kind               string   `json:"kind"`
		Roles              []string `json:"roles"`
		IfQuantityAboveOne string   `json:"ifQuantityAboveOne"`
	} `json:"authority"`
	Supply string `json:"supply"`
	Active string `json:"active"`
}

func loadRegSpec() []RegSpec {
	var rs []RegSpec
	if err := json.Unmarshal(registryJSON, &rs); err != nil {
		panic("spec/registry.json: " + err.Error())
	}
	return rs
}

// Registration is one Add call of the factory.
type Registration struct {
	Key      string
	KeyConst string // name of the constant used, if any (informational)
	Add      ssa.CallInstruction
	Ctor     *ssa.Function
	CtorCall *ssa.Call
	Flags    []bool      // constant bool arguments of the constructor, in order
	ArgTerms []string    // terms of all constructor arguments
	ArgVals  []ssa.Value // per table row: the row's own value of each constructor argument (nil otherwise)
	Type     types.Type
	Entry    *ssa.Function // ProcessBuiltinFunction of the registered type
	Env      *Env          // the function containing the Add, in its calling context below the factory method
	Chain    []callLevel   // the calls leading from the factory method down to the Add (the Add itself last)
	Table    bool          // registered by a loop over a literal table of (name, creator) pairs
}

// FactoryFunc: the method of the factory type that builds the container (role: the function from which the most Add
// calls on a BuiltInFunctionContainer are reached, directly or through helpers of the same package; among equals the
// outermost one).
func (p *Prog) FactoryFunc() *ssa.Function {
	if factoryCache != nil {
		return factoryCache
	}
	var count func(fn *ssa.Function, depth int, stack map[*ssa.Function]bool) int
	count = func(fn *ssa.Function, depth int, stack map[*ssa.Function]bool) int {
		if depth > 4 || stack[fn] {
			return 0
		}
		stack[fn] = true
		defer delete(stack, fn)
		k := 0
		for _, b := range fn.Blocks {
			for _, in := range b.Instrs {
				c, ok := in.(ssa.CallInstruction)
				if !ok {
					continue
				}
				if InvokeName(c) == "BuiltInFunctionContainer.Add" {
					k++
				} else if sc := c.Common().StaticCallee(); sc != nil && len(sc.Blocks) > 0 && p.InPkgs(sc, "builtInFunctions") {
					k += count(sc, depth+1, stack)
				}
			}
		}
		return k
	}
	var best *ssa.Function
	n := 0
	for _, fn := range p.Funcs {
		if !p.InPkgs(fn, "builtInFunctions") {
			continue
		}
		k := count(fn, 0, map[*ssa.Function]bool{})
		if k > n || k == n && k > 0 && best != nil && isExportedAPI(fn) && !isExportedAPI(best) {
			n, best = k, fn
		}
	}
	factoryCache = best
	return best
}

var factoryCache *ssa.Function

func traceCtor(v ssa.Value) *ssa.Call {
	for i := 0; i < 8; i++ {
		switch x := v.(type) {
		case *ssa.MakeInterface:
			v = x.X
		case *ssa.ChangeInterface:
			v = x.X
		case *ssa.Extract:
			v = x.Tuple
		case *ssa.Call:
			return x
		case *ssa.UnOp:
			// a variable that lives in a cell because a function literal captures it (`pauseFunc, err := NewESDTPauseFunc(…)`
			// used by a creator closure further down): the one value stored into the cell
			al, ok := x.X.(*ssa.Alloc)
			if !ok || x.Op != token.MUL || al.Referrers() == nil {
				return nil
			}
			var stored ssa.Value
			for _, r := range *al.Referrers() {
				if st, ok := r.(*ssa.Store); ok && st.Addr == ssa.Value(al) {
					if stored != nil {
						return nil
					}
					stored = st.Val
				}
			}
			if stored == nil {
				return nil
			}
			v = stored
		default:
			return nil
		}
	}
	return nil
}

var regCache []Registration

func (p *Prog) Registrations() []Registration {
	if regCache != nil {
		return regCache
	}
	fn := p.FactoryFunc()
	if fn == nil {
		return nil
	}
	var out []Registration
	var collect func(e *Env, above []callLevel, depth int)
	collect = func(e *Env, above []callLevel, depth int) {
		for _, b := range e.Fn.Blocks {
			for _, in := range b.Instrs {
				c, ok := in.(ssa.CallInstruction)
				if !ok {
					continue
				}
				if InvokeName(c) != "BuiltInFunctionContainer.Add" {
					// registrations moved into a helper of the factory
					if sc := c.Common().StaticCallee(); sc != nil && len(sc.Blocks) > 0 && p.InPkgs(sc, "builtInFunctions") && depth < 4 && sc != fn {
						collect(e.Sub(c, sc), append(append([]callLevel{}, above...), callLevel{e, c}), depth+1)
					}
					continue
				}
				if _, isConst := c.Common().Args[0].(*ssa.Const); !isConst {
					// table-driven registration: Add(entry.name, entry.create()) in a loop over a literal table
					if rs := p.tableRegistrations(e, c, append(append([]callLevel{}, above...), callLevel{e, c})); len(rs) > 0 {
						out = append(out, rs...)
						continue
					}
					if rs := p.rowRegistrations(e, c, append(append([]callLevel{}, above...), callLevel{e, c})); len(rs) > 0 {
						out = append(out, rs...)
						continue
					}
				}
				r := Registration{Add: c, Env: e, Chain: append(append([]callLevel{}, above...), callLevel{e, c})}
				if k, ok := c.Common().Args[0].(*ssa.Const); ok && k.Value != nil && k.Value.Kind() == constant.String {
					r.Key = constant.StringVal(k.Value)
				}
				if call := traceCtor(c.Common().Args[1]); call != nil {
					r.CtorCall = call
					r.Ctor = call.Call.StaticCallee()
					for _, a := range call.Call.Args {
						r.ArgTerms = append(r.ArgTerms, e.Term(a))
						if bv, ok := boolConst(a); ok {
							r.Flags = append(r.Flags, bv)
						}
					}
					if r.Ctor != nil && r.Ctor.Signature.Results().Len() > 0 {
						r.Type = r.Ctor.Signature.Results().At(0).Type()
						ms := p.SSA.MethodSets.MethodSet(r.Type)
						if sel := ms.Lookup(nil, "ProcessBuiltinFunction"); sel != nil {
							r.Entry = unwrapSynthetic(p.SSA.MethodValue(sel))
						}
					}
				}
				out = append(out, r)
			}
		}
	}
	collect(p.Env(fn), nil, 0)
	sort.Slice(out, func(i, j int) bool { return out[i].Key < out[j].Key })
	regCache = out
	return out
}

// tableRegistrations resolves `for _, x := range table { f, err := x.create(); …; Add(x.name, f) }` where table is a slice
// literal (built in place or returned by a helper) whose elements pair a constant name with a function literal that
// returns the result of a constructor call. One Registration per element; Table marks them for the spine rule.
func (p *Prog) tableRegistrations(e *Env, add ssa.CallInstruction, chain []callLevel) []Registration {
	// the element the key is read from: a load of field `name` of *elemPtr, elemPtr = &table[i]
	keyLoad, ok := add.Common().Args[0].(*ssa.UnOp)
	if !ok {
		return nil
	}
	nameFA, ok := keyLoad.X.(*ssa.FieldAddr)
	if !ok {
		return nil
	}
	var tbl ssa.Value
	switch ep := nameFA.X.(type) {
	case *ssa.IndexAddr:
		tbl = ep.X
	case *ssa.Alloc:
		// `for _, x := range table`: x is a copy of table[i] stored into a local
		if ep.Referrers() != nil {
			for _, r := range *ep.Referrers() {
				if st, ok := r.(*ssa.Store); ok && st.Addr == ssa.Value(ep) {
					if ld, ok := st.Val.(*ssa.UnOp); ok {
						if ia, ok := ld.X.(*ssa.IndexAddr); ok {
							tbl = ia.X
						}
					}
				}
			}
		}
	}
	if tbl == nil {
		return nil
	}
	// resolve the table to its literal: through parameters and helper results
	te := e
	var lit *ssa.Alloc
	for d := 0; d < 6 && lit == nil; d++ {
		switch x := tbl.(type) {
		case *ssa.Parameter:
			a, pe := te.actual(x)
			if a == nil {
				return nil
			}
			tbl, te = a, pe
		case *ssa.Call:
			sc := x.Call.StaticCallee()
			if sc == nil || len(sc.Blocks) == 0 {
				return nil
			}
			rets := returnsOf(sc)
			if len(rets) != 1 || len(rets[0].Results) != 1 {
				return nil
			}
			te = te.Sub(x, sc)
			tbl = rets[0].Results[0]
		case *ssa.Slice:
			al, ok := x.X.(*ssa.Alloc)
			if !ok {
				return nil
			}
			lit = al
		default:
			return nil
		}
	}
	if lit == nil || lit.Referrers() == nil {
		return nil
	}
	at, ok := lit.Type().(*types.Pointer).Elem().Underlying().(*types.Array)
	if !ok {
		return nil
	}
	names := map[int64]string{}
	creators := map[int64]ssa.Value{}
	for _, r := range *lit.Referrers() {
		ia, ok := r.(*ssa.IndexAddr)
		if !ok || ia.Referrers() == nil {
			continue
		}
		i, ok := constInt(ia.Index)
		if !ok {
			return nil // an element filled at a computed index: not a literal table
		}
		for _, r2 := range *ia.Referrers() {
			fa, ok := r2.(*ssa.FieldAddr)
			if !ok || fa.Referrers() == nil {
				continue
			}
			for _, r3 := range *fa.Referrers() {
				st, ok := r3.(*ssa.Store)
				if !ok || st.Addr != ssa.Value(fa) {
					continue
				}
				if k, ok := st.Val.(*ssa.Const); ok && k.Value != nil && k.Value.Kind() == constant.String && fa.Field == nameFA.Field {
					names[i] = constant.StringVal(k.Value)
				} else if _, isFn := st.Val.Type().Underlying().(*types.Signature); isFn {
					creators[i] = st.Val
				}
			}
		}
	}
	if int64(len(names)) != at.Len() || int64(len(creators)) != at.Len() {
		return nil
	}
	var out []Registration
	for i := int64(0); i < at.Len(); i++ {
		r := Registration{Add: add, Key: names[i], Chain: chain, Table: true, Env: e}
		var ce *Env
		var cf *ssa.Function
		switch cv := creators[i].(type) {
		case *ssa.MakeClosure:
			ce = te.SubClosure(cv)
			cf, _ = cv.Fn.(*ssa.Function)
		case *ssa.Function:
			cf = cv
			ce = &Env{P: p, Fn: cv, Parent: te, depth: te.depth + 1, ctx: te.ctx + "/" + cv.Name()}
		}
		if cf != nil && ce != nil {
			r.Env = ce
			// the constructor call whose result the literal returns
			for _, ret := range returnsOf(cf) {
				if len(ret.Results) == 0 {
					continue
				}
				v := retval(ret, 0)
				for d := 0; d < 3; d++ {
					switch y := v.(type) {
					case *ssa.MakeInterface:
						v = y.X
					case *ssa.ChangeInterface:
						v = y.X
					}
				}
				// `x, err = NewX(…); return x, err` with x a captured variable: look at the value stored
				if ld, ok := v.(*ssa.UnOp); ok {
					if fv, ok := ld.X.(*ssa.FreeVar); ok && fv.Referrers() != nil {
						for _, r2 := range *fv.Referrers() {
							if st, ok := r2.(*ssa.Store); ok && st.Addr == ssa.Value(fv) {
								v = st.Val
							}
						}
					}
				}
				if call := traceCtor(v); call != nil && call.Call.StaticCallee() != nil {
					r.CtorCall = call
					r.Ctor = call.Call.StaticCallee()
				}
			}
			if r.CtorCall != nil {
				for _, a := range r.CtorCall.Call.Args {
					r.ArgTerms = append(r.ArgTerms, ce.Term(a))
					if bv, ok := boolConst(a); ok {
						r.Flags = append(r.Flags, bv)
					}
				}
				if r.Ctor.Signature.Results().Len() > 0 {
					r.Type = r.Ctor.Signature.Results().At(0).Type()
					ms := p.SSA.MethodSets.MethodSet(r.Type)
					if sel := ms.Lookup(nil, "ProcessBuiltinFunction"); sel != nil {
						r.Entry = unwrapSynthetic(p.SSA.MethodValue(sel))
					}
				}
			}
		}
		out = append(out, r)
	}
	return out
}

// rowRegistrations: `for _, row := range rows { f, err := NewX(…, row.flag, …) | row.create(); …; Add(row.name, f) }` over a
// literal table in any of the shapes structAlts understands (array or slice literal, rows built in place or through a
// temporary, the loop variable spilled): one Registration per row, with the row's own name, constructor and arguments.
func (p *Prog) rowRegistrations(e *Env, add ssa.CallInstruction, chain []callLevel) []Registration {
	nameAlts := e.tableFieldAlts(add.Common().Args[0])
	if len(nameAlts) < 2 {
		return nil
	}
	call := traceCtor(add.Common().Args[1])
	if call == nil {
		return nil
	}
	var creatorAlts []structAlt
	if call.Call.StaticCallee() == nil && !call.Call.IsInvoke() {
		creatorAlts = e.tableFieldAlts(call.Call.Value)
		if len(creatorAlts) != len(nameAlts) {
			return nil
		}
	}
	var out []Registration
	for k, na := range nameAlts {
		kc, ok := na.val.(*ssa.Const)
		if !ok || kc.Value == nil || kc.Value.Kind() != constant.String {
			return nil
		}
		r := Registration{Add: add, Key: constant.StringVal(kc.Value), Chain: chain, Table: true, Env: e}
		fill := func(ctor *ssa.Call, ce *Env, rowArgs bool) {
			r.CtorCall = ctor
			r.Ctor = ctor.Call.StaticCallee()
			for _, a := range ctor.Call.Args {
				av, ae := a, ce
				if rowArgs {
					if alts := ce.tableFieldAlts(a); len(alts) == len(nameAlts) {
						av, ae = alts[k].val, alts[k].env
					}
				}
				r.ArgTerms = append(r.ArgTerms, ae.Term(av))
				r.ArgVals = append(r.ArgVals, av)
				if bv, ok := boolConst(av); ok {
					r.Flags = append(r.Flags, bv)
				}
			}
			if r.Ctor != nil && r.Ctor.Signature.Results().Len() > 0 {
				r.Type = r.Ctor.Signature.Results().At(0).Type()
				ms := p.SSA.MethodSets.MethodSet(r.Type)
				if sel := ms.Lookup(nil, "ProcessBuiltinFunction"); sel != nil {
					r.Entry = unwrapSynthetic(p.SSA.MethodValue(sel))
				}
			}
		}
		if creatorAlts == nil {
			if call.Call.StaticCallee() == nil {
				return nil
			}
			fill(call, e, true)
		} else {
			var ce *Env
			var cf *ssa.Function
			switch cv := creatorAlts[k].val.(type) {
			case *ssa.MakeClosure:
				ce = creatorAlts[k].env.SubClosure(cv)
				cf, _ = cv.Fn.(*ssa.Function)
			case *ssa.Function:
				cf = cv
				te := creatorAlts[k].env
				ce = &Env{P: p, Fn: cv, Parent: te, depth: te.depth + 1, ctx: te.ctx + "/" + cv.Name()}
			}
			if cf == nil || ce == nil {
				return nil
			}
			r.Env = ce
			for _, ret := range returnsOf(cf) {
				if len(ret.Results) == 0 {
					continue
				}
				if c2 := traceCtor(retval(ret, 0)); c2 != nil && c2.Call.StaticCallee() != nil {
					fill(c2, ce, false)
				}
			}
		}
		out = append(out, r)
	}
	return out
}

// RegByName joins spec rows with the extracted registrations; missing joins are reported by the caller.
func (p *Prog) RegByName() map[string]Registration {
	m := map[string]Registration{}
	for _, r := range p.Registrations() {
		m[r.Key] = r
	}
	return m
}

func (r Registration) String() string {
	ctor := "?"
	if r.Ctor != nil {
		ctor = r.Ctor.Name()
	}
	return fmt.Sprintf("%s -> %s(%s)", r.Key, ctor, strings.Join(r.ArgTerms, ", "))
}
