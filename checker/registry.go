package main

// T-REG: the oracle table keyed by protocol name (embedded from spec/registry.json) and the registrations
// extracted from the factory (constant key of each Add call, constructor, constant flags, cost arguments).

import (
	_ "embed"
	"encoding/json"
	"fmt"
	"go/constant"
	"go/types"
	"sort"
	"strings"

	"golang.org/x/tools/go/ssa"
)

//go:embed spec/registry.json
var registryJSON []byte

type RegSpec struct {
	Name      string   `json:"name"`
	Ctor      string   `json:"ctor"`
	Flags     []bool   `json:"flags"`
	Cost      *string  `json:"cost"`
	PerByte   []string `json:"perByte"`
	Authority struct {
		Kind               string   `json:"kind"`
		Roles              []string `json:"roles"`
		IfQuantityAboveOne string   `json:"ifQuantityAboveOne"`
	} `json:"authority"`
	Supply string `json:"supply"`
	Active string `json:"active"`
}

func loadRegSpec() []RegSpec {
	var rs []RegSpec
	if err := json.Unmarshal(registryJSON, &rs); err != nil {
		panic("spec/registry.json: " + err.Error())
	}
	return rs
}

// Registration is one Add call of the factory.
type Registration struct {
	Key      string
	KeyConst string // name of the constant used, if any (informational)
	Add      ssa.CallInstruction
	Ctor     *ssa.Function
	CtorCall *ssa.Call
	Flags    []bool   // constant bool arguments of the constructor, in order
	ArgTerms []string // terms of all constructor arguments
	Type     types.Type
	Entry    *ssa.Function // ProcessBuiltinFunction of the registered type
	Env      *Env          // the function containing the Add, in its calling context below the factory method
	Chain    []callLevel   // the calls leading from the factory method down to the Add (the Add itself last)
}

// FactoryFunc: the method of the factory type that builds the container (role: the function from which the most Add
// calls on a BuiltInFunctionContainer are reached, directly or through helpers of the same package; among equals the
// outermost one).
func (p *Prog) FactoryFunc() *ssa.Function {
	if factoryCache != nil {
		return factoryCache
	}
	var count func(fn *ssa.Function, depth int, stack map[*ssa.Function]bool) int
	count = func(fn *ssa.Function, depth int, stack map[*ssa.Function]bool) int {
		if depth > 4 || stack[fn] {
			return 0
		}
		stack[fn] = true
		defer delete(stack, fn)
		k := 0
		for _, b := range fn.Blocks {
			for _, in := range b.Instrs {
				c, ok := in.(ssa.CallInstruction)
				if !ok {
					continue
				}
				if InvokeName(c) == "BuiltInFunctionContainer.Add" {
					k++
				} else if sc := c.Common().StaticCallee(); sc != nil && len(sc.Blocks) > 0 && p.InPkgs(sc, "builtInFunctions") {
					k += count(sc, depth+1, stack)
				}
			}
		}
		return k
	}
	var best *ssa.Function
	n := 0
	for _, fn := range p.Funcs {
		if !p.InPkgs(fn, "builtInFunctions") {
			continue
		}
		k := count(fn, 0, map[*ssa.Function]bool{})
		if k > n || k == n && k > 0 && best != nil && isExportedAPI(fn) && !isExportedAPI(best) {
			n, best = k, fn
		}
	}
	factoryCache = best
	return best
}

var factoryCache *ssa.Function

func traceCtor(v ssa.Value) *ssa.Call {
	for i := 0; i < 8; i++ {
		switch x := v.(type) {
		case *ssa.MakeInterface:
			v = x.X
		case *ssa.ChangeInterface:
			v = x.X
		case *ssa.Extract:
			v = x.Tuple
		case *ssa.Call:
			return x
		default:
			return nil
		}
	}
	return nil
}

var regCache []Registration

func (p *Prog) Registrations() []Registration {
	if regCache != nil {
		return regCache
	}
	fn := p.FactoryFunc()
	if fn == nil {
		return nil
	}
	var out []Registration
	var collect func(e *Env, above []callLevel, depth int)
	collect = func(e *Env, above []callLevel, depth int) {
		for _, b := range e.Fn.Blocks {
			for _, in := range b.Instrs {
				c, ok := in.(ssa.CallInstruction)
				if !ok {
					continue
				}
				if InvokeName(c) != "BuiltInFunctionContainer.Add" {
					// registrations moved into a helper of the factory
					if sc := c.Common().StaticCallee(); sc != nil && len(sc.Blocks) > 0 && p.InPkgs(sc, "builtInFunctions") && depth < 4 && sc != fn {
						collect(e.Sub(c, sc), append(append([]callLevel{}, above...), callLevel{e, c}), depth+1)
					}
					continue
				}
				r := Registration{Add: c, Env: e, Chain: append(append([]callLevel{}, above...), callLevel{e, c})}
				if k, ok := c.Common().Args[0].(*ssa.Const); ok && k.Value != nil && k.Value.Kind() == constant.String {
					r.Key = constant.StringVal(k.Value)
				}
				if call := traceCtor(c.Common().Args[1]); call != nil {
					r.CtorCall = call
					r.Ctor = call.Call.StaticCallee()
					for _, a := range call.Call.Args {
						r.ArgTerms = append(r.ArgTerms, e.Term(a))
						if bv, ok := boolConst(a); ok {
							r.Flags = append(r.Flags, bv)
						}
					}
					if r.Ctor != nil && r.Ctor.Signature.Results().Len() > 0 {
						r.Type = r.Ctor.Signature.Results().At(0).Type()
						ms := p.SSA.MethodSets.MethodSet(r.Type)
						if sel := ms.Lookup(nil, "ProcessBuiltinFunction"); sel != nil {
							r.Entry = unwrapSynthetic(p.SSA.MethodValue(sel))
						}
					}
				}
				out = append(out, r)
			}
		}
	}
	collect(p.Env(fn), nil, 0)
	sort.Slice(out, func(i, j int) bool { return out[i].Key < out[j].Key })
	regCache = out
	return out
}

// RegByName joins spec rows with the extracted registrations; missing joins are reported by the caller.
func (p *Prog) RegByName() map[string]Registration {
	m := map[string]Registration{}
	for _, r := range p.Registrations() {
		m[r.Key] = r
	}
	return m
}

func (r Registration) String() string {
	ctor := "?"
	if r.Ctor != nil {
		ctor = r.Ctor.Name()
	}
	return fmt.Sprintf("%s -> %s(%s)", r.Key, ctor, strings.Join(r.ArgTerms, ", "))
}
