package main

// Obligations, rule bookkeeping (instance floors, positive controls), evidence files, violation/replay
// files and the known-findings filter.

import (
	"encoding/json"
	"fmt"
	"os"
	"path/filepath"
	"sort"
	"strings"
	"time"
)

// Oblig is one decided (or undecidable) instance of a rule.
type Oblig struct {
	Property  string   `json:"property"`
	Rule      string   `json:"rule"`
	Func      string   `json:"function"`
	Construct string   `json:"construct"`
	Pos       string   `json:"position"`
	Kind      string   `json:"kind"` // ok | violation | undecided | floor | anchor | control
	By        string   `json:"by,omitempty"`
	Detail    string   `json:"detail,omitempty"`
	Facts     []string `json:"facts_available,omitempty"`
	Path      []string `json:"witness_path,omitempty"`
	Expected  string   `json:"expected,omitempty"`
	Trivial   bool     `json:"trivial,omitempty"`
	Known     bool     `json:"known_finding,omitempty"`
}

func (o Oblig) key() string { return o.Rule + "|" + o.Func + "|" + o.Construct }

type RuleInfo struct {
	ID      string `json:"id"`
	Doc     string `json:"doc"`
	Sites   int    `json:"sites"`
	Floor   int    `json:"floor"`
	OK      int    `json:"discharged"`
	Failed  int    `json:"failed"`
	Control string `json:"positive_control,omitempty"`
}

type Ctx struct {
	P        *Prog
	Property string
	Tier     string
	obs      []Oblig
	rules    map[string]*RuleInfo
	order    []string
	axioms   map[string]bool
	notes    []string
	analysed map[string]int
	control  bool // true while analysing the positive-control package
	extras   map[string]interface{}
}

func NewCtx(p *Prog, prop, tier string) *Ctx {
	return &Ctx{P: p, Property: prop, Tier: tier, rules: map[string]*RuleInfo{}, axioms: map[string]bool{}, analysed: map[string]int{}}
}

// Rule declares a rule with its documentation and instance floor (hand-confirmed minimum number of instances).
func (c *Ctx) Rule(id, doc string, floor int) {
	if _, ok := c.rules[id]; !ok {
		// The declared number is the instance count confirmed by hand on the reference tree. The armed floor is a
		// non-vacuity check only (40 % of it, at least 1): behaviour-preserving refactorings merge duplicated sites, so
		// the disappearance of a specific instance is caught by named anchors (per entry point / per role), not by counts.
		if floor > 12 {
			floor = floor * 2 / 5
		} else if floor > 1 {
			floor = 1
		}
		c.rules[id] = &RuleInfo{ID: id, Doc: doc, Floor: floor}
		c.order = append(c.order, id)
	}
}

func (c *Ctx) Axiom(ids ...string) {
	for _, a := range ids {
		c.axioms[a] = true
	}
}
func (c *Ctx) Note(format string, a ...interface{}) {
	c.notes = append(c.notes, fmt.Sprintf(format, a...))
}
func (c *Ctx) Count(what string, n int) { c.analysed[what] += n }

func (c *Ctx) add(o Oblig) {
	o.Property = c.Property
	if _, ok := c.rules[o.Rule]; !ok {
		c.Rule(o.Rule, "", 0)
	}
	c.obs = append(c.obs, o)
}

// OK records a discharged obligation.
func (c *Ctx) OK(rule, fn, construct, pos, by string) {
	c.add(Oblig{Rule: rule, Func: fn, Construct: construct, Pos: pos, Kind: "ok", By: by})
}

// Triv records a discharged obligation that needed no guard (counted, but not as non-trivial).
func (c *Ctx) Triv(rule, fn, construct, pos, by string) {
	c.add(Oblig{Rule: rule, Func: fn, Construct: construct, Pos: pos, Kind: "ok", By: by, Trivial: true})
}

// Fail records a failed obligation of the given kind (violation | undecided | anchor).
func (c *Ctx) Fail(rule, kind, fn, construct, pos, detail string, facts ...string) {
	c.add(Oblig{Rule: rule, Func: fn, Construct: construct, Pos: pos, Kind: kind, Detail: detail, Facts: facts})
}

func (c *Ctx) FailX(o Oblig) { c.add(o) }

// shareRule runs a rule of a sibling property and reports its obligations under this property with rule id `to`:
// properties overlap (a stale hand-over counter breaks C07, the fresh-nonce clause of C02 and the counter invariant of
// C15 alike), and each property's check must stand on its own. keep filters the obligations taken over (nil = all).
func (c *Ctx) shareRule(fn func(*Ctx), from, to, doc string, keep func(Oblig) bool) {
	c.Rule(to, doc, 1)
	sub := NewCtx(c.P, c.Property, c.Tier)
	fn(sub)
	for _, o := range sub.obs {
		if o.Rule == from && (keep == nil || keep(o)) {
			o.Rule = to
			c.add(o)
		}
	}
}

// Anchor failure: a role the rule needs could not be resolved in the source.
func (c *Ctx) Anchor(rule, what string) {
	c.add(Oblig{Rule: rule, Func: "-", Construct: what, Pos: "-", Kind: "anchor", Detail: "anchor could not be resolved: " + what})
}

type knownFinding struct {
	Status    string `json:"status"`
	Property  string `json:"property"`
	Rule      string `json:"rule"`
	Function  string `json:"function"`
	Construct string `json:"construct"`
	What      string `json:"what"`
	Commit    string `json:"commit,omitempty"`
}

var knownPath string

func loadKnown(verifDir string) []knownFinding {
	path := knownPath
	if path == "" {
		path = filepath.Join(verifDir, "known_findings.json")
	}
	b, err := os.ReadFile(path)
	if err != nil {
		return nil
	}
	var ks []knownFinding
	if err := json.Unmarshal(b, &ks); err != nil {
		fmt.Fprintf(os.Stderr, "known_findings.json unreadable: %v\n", err)
		return nil
	}
	return ks
}

// Finish applies floors and known findings, writes evidence and violation files, prints the report and returns the exit code.
func (c *Ctx) Finish(verifDir string, start time.Time, level string, explanation string, trusted []string, checkerCmd string) int {
	// floors
	for _, id := range c.order {
		r := c.rules[id]
		for _, o := range c.obs {
			if o.Rule == id && o.Kind != "control" {
				r.Sites++
			}
		}
		if r.Sites < r.Floor {
			c.obs = append(c.obs, Oblig{Property: c.Property, Rule: id, Func: "-", Construct: "instance-floor", Pos: "-", Kind: "floor",
				Detail: fmt.Sprintf("rule matched %d instances, fewer than the %d confirmed by hand on the reference tree: the anchors it depends on have moved or disappeared", r.Sites, r.Floor)})
		}
	}
	known := loadKnown(verifDir)
	var viol []Oblig
	knownLines := []string{}
	okN, total, nontriv := 0, 0, 0
	distinct := map[string]bool{}
	for i := range c.obs {
		o := &c.obs[i]
		if o.Kind == "control" {
			continue
		}
		total++
		switch o.Kind {
		case "ok":
			okN++
			c.rules[o.Rule].OK++
			if !o.Trivial && !distinct[o.key()] {
				distinct[o.key()] = true
				nontriv++
			}
		default:
			if os.Getenv("VERIF_UNDECIDED_OK") != "" && (o.Kind == "undecided" || o.Kind == "anchor" || o.Kind == "floor") {
				continue // experiment switch (tools only): which detections rest on "cannot decide" alone
			}
			matched := false
			for _, k := range known {
				if k.Status == "known" && k.Property == c.Property && k.Rule == o.Rule && k.Function == o.Func && k.Construct == o.Construct {
					matched = true
					o.Known = true
					knownLines = append(knownLines, fmt.Sprintf("KNOWN-FINDING: property=%s %s: %s", c.Property, o.Rule, k.What))
				}
			}
			if !matched {
				c.rules[o.Rule].Failed++
				viol = append(viol, *o)
			}
		}
	}
	if verbose {
		for _, o := range c.obs {
			fmt.Printf("  . %-8s %-9s %s | %s | %s | %s\n", o.Rule, o.Kind, o.Pos, o.Func, o.Construct, o.By)
		}
	}
	// report
	fmt.Printf("== %s  tier=%s  goarch=%s  repo=%s\n", c.Property, c.Tier, c.P.GOARCH, c.P.Dir)
	for _, id := range c.order {
		r := c.rules[id]
		fmt.Printf("  %-8s sites=%-4d floor=%-4d discharged=%-4d failed=%-3d %s\n", r.ID, r.Sites, r.Floor, r.OK, r.Failed, r.Doc)
	}
	for _, l := range uniq(knownLines) {
		fmt.Println(l)
	}
	outDir := filepath.Join(verifDir, "out", c.Property)
	_ = os.RemoveAll(outDir)
	if len(viol) > 0 {
		_ = os.MkdirAll(outDir, 0o755)
	}
	for i, o := range viol {
		path := filepath.Join(outDir, fmt.Sprintf("%s-%d.json", o.Rule, i+1))
		b, _ := json.MarshalIndent(o, "", " ")
		_ = os.WriteFile(path, b, 0o644)
		fmt.Printf("  [%s] %s %s\n      function:  %s\n      construct: %s\n      %s\n", o.Kind, o.Rule, o.Pos, o.Func, o.Construct, o.Detail)
		for _, f := range o.Facts {
			fmt.Printf("      fact: %s\n", f)
		}
		fmt.Printf("VIOLATION property=%s replay=%s\n", c.Property, path)
	}
	// evidence
	type sample struct {
		Rule      string `json:"rule"`
		Function  string `json:"function"`
		Construct string `json:"construct"`
		Position  string `json:"position"`
		By        string `json:"by"`
	}
	samples := []sample{}
	perRule := map[string]int{}
	for _, o := range c.obs {
		if o.Kind == "ok" && !o.Trivial && perRule[o.Rule] < 3 {
			perRule[o.Rule]++
			samples = append(samples, sample{o.Rule, o.Func, o.Construct, o.Pos, o.By})
		}
	}
	if len(samples) == 0 {
		for _, o := range c.obs {
			if o.Kind == "ok" && perRule[o.Rule] < 2 {
				perRule[o.Rule]++
				samples = append(samples, sample{o.Rule, o.Func, o.Construct, o.Pos, o.By})
			}
		}
	}
	rules := []*RuleInfo{}
	for _, id := range c.order {
		rules = append(rules, c.rules[id])
	}
	axioms := []string{}
	for a := range c.axioms {
		axioms = append(axioms, a)
	}
	sort.Strings(axioms)
	type openItem struct {
		Rule, Function, Construct, Position, Kind, Detail string
		Known                                             bool
	}
	open := []openItem{}
	for _, o := range c.obs {
		if o.Kind != "ok" && o.Kind != "control" {
			open = append(open, openItem{o.Rule, o.Func, o.Construct, o.Pos, o.Kind, o.Detail, o.Known})
		}
	}
	seed := 0
	fmt.Sscanf(os.Getenv("VERIF_SEED"), "%d", &seed)
	ev := map[string]interface{}{
		"property_id": c.Property,
		"tier":        c.Tier,
		"seed":        seed,
		"level":       level,
		"wall_s":      time.Since(start).Seconds(),
		"violations":  len(viol),
		"assumptions": axioms,
		"coverage": map[string]interface{}{
			"explanation":         explanation,
			"obligations":         total,
			"discharged":          okN,
			"evaluations":         total,
			"distinct_nontrivial": nontriv,
			"rule":                "one obligation per (rule, function, construct) instance found in the source of /repo; non-trivial = its discharge needed at least one guard edge, summary, table lookup or dataflow fact (not a constant)",
			"rules":               rules,
			"samples":             samples,
			"open":                open,
			"analysed":            c.analysedMap(),
			"notes":               append([]string{}, c.notes...),
			"checker_cmd":         checkerCmd,
			"trusted_base":        trusted,
			"exhaustive":          true,
			"thorough_extras":     c.extras,
		},
	}
	_ = os.MkdirAll(filepath.Join(verifDir, "evidence"), 0o755)
	b, _ := json.MarshalIndent(ev, "", " ")
	if err := os.WriteFile(filepath.Join(verifDir, "evidence", c.Property+".json"), b, 0o644); err != nil {
		fmt.Fprintf(os.Stderr, "cannot write evidence: %v\n", err)
		return 2
	}
	fmt.Printf("  obligations=%d discharged=%d violations=%d known=%d (%.1fs)\n", total, okN, len(viol), len(uniq(knownLines)), time.Since(start).Seconds())
	if len(viol) > 0 {
		return 1
	}
	return 0
}

func (c *Ctx) analysedMap() map[string]interface{} {
	m := map[string]interface{}{}
	for k, v := range c.analysed {
		m[k] = v
	}
	m["goarch"] = c.P.GOARCH
	m["packages"] = len(c.P.Pkg)
	m["functions"] = len(c.P.Funcs)
	return m
}

func uniq(s []string) []string {
	seen := map[string]bool{}
	var out []string
	for _, x := range s {
		if !seen[x] {
			seen[x] = true
			out = append(out, x)
		}
	}
	return out
}

func joinSorted(m map[string]bool) string {
	var s []string
	for k := range m {
		s = append(s, k)
	}
	sort.Strings(s)
	return strings.Join(s, ", ")
}
