package main

// Literal tables: `for _, row := range [...]T{…}` / `[]T{…}` — a value read from the row selected by a non-constant index is
// one of the values the literal puts into that field, one alternative per row. Used for constant ranges of such values
// (index safety) and by the table rules that compare a writer's rows with a reader's.

import (
	"go/token"
	"go/types"

	"golang.org/x/tools/go/ssa"
)

// structAlt: one way a struct value may have been built — a struct-typed SSA value, or the address of the place a literal
// fills field by field.
type structAlt struct {
	val  ssa.Value
	addr ssa.Value
	env  *Env
}

// arrayRows: the elements of a local array built as a literal (`new [n]T` / `local [n]T`), in index order; nil if the array is
// written in any other way, if an element is missing, or if its address escapes.
func arrayRows(arr *ssa.Alloc) []structAlt {
	pt, ok := arr.Type().Underlying().(*types.Pointer)
	if !ok || arr.Referrers() == nil {
		return nil
	}
	at, ok := pt.Elem().Underlying().(*types.Array)
	if !ok || at.Len() == 0 || at.Len() > 64 {
		return nil
	}
	rows := make([]structAlt, at.Len())
	for _, r := range *arr.Referrers() {
		switch x := r.(type) {
		case *ssa.IndexAddr:
			k, isConst := constInt(x.Index)
			if x.Referrers() == nil {
				continue
			}
			for _, rr := range *x.Referrers() {
				switch y := rr.(type) {
				case *ssa.UnOp: // a load of the element
				case *ssa.Store:
					if y.Addr != ssa.Value(x) || !isConst || k < 0 || k >= at.Len() || rows[k].val != nil || rows[k].addr != nil {
						return nil
					}
					rows[k] = structAlt{val: y.Val}
				case *ssa.FieldAddr:
					if !isConst || k < 0 || k >= at.Len() || rows[k].val != nil {
						// a field of the element selected by the loop index: only loads
						if y.Referrers() != nil {
							for _, r3 := range *y.Referrers() {
								if _, isLoad := r3.(*ssa.UnOp); !isLoad {
									return nil
								}
							}
						}
						continue
					}
					rows[k] = structAlt{addr: x}
				case *ssa.DebugRef:
				default:
					return nil
				}
			}
		case *ssa.UnOp, *ssa.Slice, *ssa.DebugRef:
		default:
			return nil
		}
	}
	for _, r := range rows {
		if r.val == nil && r.addr == nil {
			return nil
		}
	}
	return rows
}

// tableOf: the array behind an indexable value (array value loaded from it, pointer to it, a full slice of it): a local
// built as a literal, or a package-level array that only its initialiser writes.
func tableOf(v ssa.Value) ssa.Value {
	switch x := v.(type) {
	case *ssa.Alloc:
		return x
	case *ssa.Global:
		return x
	case *ssa.UnOp:
		if x.Op == token.MUL {
			switch a := x.X.(type) {
			case *ssa.Alloc:
				return a
			case *ssa.Global:
				return a
			}
		}
	case *ssa.Slice:
		if x.Low == nil && x.High == nil {
			switch a := x.X.(type) {
			case *ssa.Alloc:
				return a
			case *ssa.Global:
				return a
			}
		}
	}
	return nil
}

// rowsOf: arrayRows for a local literal, globalRows for a package-level table.
func (e *Env) rowsOf(tbl ssa.Value) []structAlt {
	switch x := tbl.(type) {
	case *ssa.Alloc:
		return arrayRows(x)
	case *ssa.Global:
		return e.P.globalRows(x)
	}
	return nil
}

var globalRowsCache = map[*ssa.Global][]structAlt{}
var globalRowsDone = map[*ssa.Global]bool{}

// globalRows: the elements of a package-level array whose initialiser (in the package's init function) fills every element
// at a constant index and which nothing else in the module writes or hands out by address other than element by element for
// reading.
func (p *Prog) globalRows(g *ssa.Global) []structAlt {
	if globalRowsDone[g] {
		return globalRowsCache[g]
	}
	globalRowsDone[g] = true
	pt, ok := g.Type().Underlying().(*types.Pointer)
	if !ok {
		return nil
	}
	at, ok := pt.Elem().Underlying().(*types.Array)
	if !ok || at.Len() == 0 || at.Len() > 64 {
		return nil
	}
	rows := make([]structAlt, at.Len())
	for _, fn := range p.allFuncsIncludingInit() {
		isInit := fn.Name() == "init" && fn.Pkg == g.Pkg
		for _, b := range fn.Blocks {
			for _, in := range b.Instrs {
				uses := false
				for _, op := range in.Operands(nil) {
					if *op == ssa.Value(g) {
						uses = true
					}
				}
				if !uses {
					continue
				}
				switch x := in.(type) {
				case *ssa.UnOp: // the array value as a whole, for reading
				case *ssa.IndexAddr:
					if x.X != ssa.Value(g) || x.Referrers() == nil {
						return nil
					}
					k, isConst := constInt(x.Index)
					for _, rr := range *x.Referrers() {
						switch y := rr.(type) {
						case *ssa.UnOp, *ssa.DebugRef:
						case *ssa.Store:
							if y.Addr != ssa.Value(x) || !isInit || !isConst || k < 0 || k >= at.Len() || rows[k].val != nil || rows[k].addr != nil {
								return nil
							}
							rows[k] = structAlt{val: y.Val}
						case *ssa.FieldAddr:
							stores := false
							if y.Referrers() != nil {
								for _, r3 := range *y.Referrers() {
									switch r3.(type) {
									case *ssa.UnOp, *ssa.DebugRef:
									case *ssa.Store:
										stores = true
									default:
										if _, isCall := r3.(ssa.CallInstruction); !isCall {
											return nil
										}
									}
								}
							}
							if stores {
								if !isInit || !isConst || k < 0 || k >= at.Len() || rows[k].val != nil {
									return nil
								}
								rows[k] = structAlt{addr: x}
							}
						default:
							return nil
						}
					}
				default:
					return nil // stored as a whole, sliced, or its address handed on
				}
			}
		}
	}
	for _, r := range rows {
		if r.val == nil && r.addr == nil {
			return nil
		}
	}
	globalRowsCache[g] = rows
	return rows
}

// soleWholeStore: the value of the only store into a local struct variable that is written as a whole exactly once and
// otherwise only read (the spilled loop variable `row`, a spilled value receiver).
func soleWholeStore(al *ssa.Alloc) ssa.Value {
	if al.Referrers() == nil {
		return nil
	}
	var val ssa.Value
	for _, r := range *al.Referrers() {
		switch x := r.(type) {
		case *ssa.Store:
			if x.Addr != ssa.Value(al) || val != nil {
				return nil
			}
			val = x.Val
		case *ssa.FieldAddr:
			if x.Referrers() != nil {
				for _, rr := range *x.Referrers() {
					switch rr.(type) {
					case *ssa.UnOp, *ssa.FieldAddr, *ssa.DebugRef:
					default:
						if _, isCall := rr.(ssa.CallInstruction); !isCall {
							return nil
						}
					}
				}
			}
		case *ssa.UnOp, *ssa.DebugRef:
		default:
			return nil
		}
	}
	return val
}

// structAlts: the ways the struct value sv (or the struct at address sv) may have been built; a single alternative {sv} when
// sv is not read from a literal table.
func (e *Env) structAlts(sv ssa.Value, depth int) []structAlt {
	if depth > 8 || sv == nil {
		return nil
	}
	switch x := sv.(type) {
	case *ssa.Parameter:
		if a, pe := e.actual(x); a != nil {
			return pe.structAlts(a, depth+1)
		}
	case *ssa.Alloc:
		// the address of a spilled copy
		if v := soleWholeStore(x); v != nil {
			return e.structAlts(v, depth+1)
		}
		return []structAlt{{addr: x, env: e}}
	case *ssa.Index:
		if _, isConst := constInt(x.Index); !isConst {
			if al := tableOf(x.X); al != nil {
				if rows := e.rowsOf(al); rows != nil {
					return e.expandRows(rows, depth)
				}
			}
		}
	case *ssa.IndexAddr:
		// a pointer to the row: flag := &table[i]
		if _, isConst := constInt(x.Index); !isConst {
			if al := tableOf(x.X); al != nil {
				if rows := e.rowsOf(al); rows != nil {
					return e.expandRows(rows, depth)
				}
			}
		}
	case *ssa.Field:
		return e.nestedAlts(e.structAlts(x.X, depth+1), x.Field, depth)
	case *ssa.UnOp:
		if x.Op != token.MUL {
			break
		}
		switch a := x.X.(type) {
		case *ssa.Alloc:
			if v := soleWholeStore(a); v != nil {
				return e.structAlts(v, depth+1)
			}
		case *ssa.IndexAddr:
			if _, isConst := constInt(a.Index); !isConst {
				if al := tableOf(a.X); al != nil {
					if rows := e.rowsOf(al); rows != nil {
						return e.expandRows(rows, depth)
					}
				}
			}
		case *ssa.FieldAddr:
			return e.nestedAlts(e.structAlts(a.X, depth+1), a.Field, depth)
		}
	}
	return []structAlt{{val: sv, env: e}}
}

func (e *Env) expandRows(rows []structAlt, depth int) []structAlt {
	var out []structAlt
	for _, r := range rows {
		if r.addr != nil {
			out = append(out, structAlt{addr: r.addr, env: e})
			continue
		}
		sub := e.structAlts(r.val, depth+1)
		if sub == nil {
			return nil
		}
		out = append(out, sub...)
	}
	return out
}

func (e *Env) nestedAlts(outer []structAlt, field int, depth int) []structAlt {
	if outer == nil {
		return nil
	}
	var out []structAlt
	for _, a := range outer {
		w, we := a.field(field)
		if w == nil {
			return nil
		}
		sub := we.structAlts(w, depth+1)
		if sub == nil {
			return nil
		}
		out = append(out, sub...)
	}
	return out
}

// field: the value the alternative has in field idx.
func (a structAlt) field(idx int) (ssa.Value, *Env) {
	if a.addr != nil {
		if a.addr.Referrers() == nil {
			return nil, nil
		}
		var val ssa.Value
		n := 0
		for _, r := range *a.addr.Referrers() {
			fa, ok := r.(*ssa.FieldAddr)
			if !ok || fa.Field != idx || fa.Referrers() == nil {
				continue
			}
			for _, rr := range *fa.Referrers() {
				if st, ok := rr.(*ssa.Store); ok && st.Addr == ssa.Value(fa) {
					n++
					val = st.Val
				}
			}
		}
		if n == 1 {
			return val, a.env
		}
		return nil, nil
	}
	return a.env.structField(a.val, idx, 0)
}

// tableFieldAlts: for a value read from field f of a row of a literal table (through the spilled loop variable, a by-value
// parameter, a nested struct), the value of that field in every row; nil when v is not of that kind or a row cannot be read.
func (e *Env) tableFieldAlts(v ssa.Value) []structAlt {
	var holder ssa.Value
	var field int
	switch x := v.(type) {
	case *ssa.Field:
		holder, field = x.X, x.Field
	case *ssa.UnOp:
		fa, ok := x.X.(*ssa.FieldAddr)
		if !ok || x.Op != token.MUL {
			return nil
		}
		holder, field = fa.X, fa.Field
	default:
		return nil
	}
	alts := e.structAlts(holder, 0)
	if len(alts) < 2 {
		return nil
	}
	var out []structAlt
	for _, a := range alts {
		w, we := a.field(field)
		if w == nil {
			return nil
		}
		out = append(out, structAlt{val: w, env: we})
	}
	return out
}

// tableConstRange: v is read from a literal table and every row holds an integer constant there: the range of those constants.
func (e *Env) tableConstRange(v ssa.Value) (lo, hi int64, ok bool) {
	alts := e.tableFieldAlts(v)
	if alts == nil {
		return 0, 0, false
	}
	for i, a := range alts {
		k, isConst := constInt(a.val)
		if !isConst {
			if l := a.env.LE(a.val); l.isConst() {
				k, isConst = l.k, true
			}
		}
		if !isConst {
			return 0, 0, false
		}
		if i == 0 || k < lo {
			lo = k
		}
		if i == 0 || k > hi {
			hi = k
		}
	}
	return lo, hi, true
}
