package main

// Taint of decoded counts (DESIGN A.7): a value produced by (*big.Int).Uint64() on argument bytes is an attacker-chosen
// 64-bit number. Before it takes part in arithmetic, a signed conversion, an index, a slice bound or an allocation
// size it must be bounded by a length-derived term or a constant on every path. Used by C06-R4, C11-R2, C12-R1.

import (
	"go/token"
	"go/types"
	"strings"

	"golang.org/x/tools/go/ssa"
)

type taintMode int

const (
	taintAll taintMode = iota
	taintGas           // only sinks whose other operand is a price / gas quantity
)

// argDerived: the term reads caller-supplied argument bytes.
func argDerived(term string) bool {
	return strings.Contains(term, ".Arguments") || strings.Contains(term, "P:args") || strings.Contains(term, "P:") && strings.Contains(term, "[")
}

// argDerivedValue: v denotes argument bytes — by its term, or as a φ all of whose alternatives do (`b := args[0]; if … { b = args[1] }`).
func argDerivedValue(e *Env, v ssa.Value, depth int) bool {
	if argDerived(e.Term(v)) {
		return true
	}
	if ph, ok := v.(*ssa.Phi); ok && depth < 4 && len(ph.Edges) > 0 {
		for _, ed := range ph.Edges {
			if ed != ssa.Value(ph) && !argDerivedValue(e, ed, depth+1) {
				return false
			}
		}
		return true
	}
	return false
}

// taintSources walks back from v through conversions and φ's to Uint64() sources (and parameters of helpers).
type taintSrc struct {
	call *ssa.Call
	env  *Env
}

func taintSources(e *Env, v ssa.Value, seen map[ssa.Value]bool, out *[]taintSrc, params *[]*ssa.Parameter) {
	if seen[v] {
		return
	}
	seen[v] = true
	switch x := v.(type) {
	case *ssa.Call:
		if CalleeName(x) == "(*math/big.Int).Uint64" || CalleeName(x) == "(*math/big.Int).Int64" {
			*out = append(*out, taintSrc{x, e})
			return
		}
		// single-result module helper returning a decoded number
		if sc := x.Call.StaticCallee(); sc != nil && len(sc.Blocks) > 0 && isInteger(x.Type()) && sc.Pkg != nil && strings.HasPrefix(sc.Pkg.Pkg.Path(), modPath) && e.depth < maxDepth {
			se := e.Sub(x, sc)
			for _, r := range returnsOf(sc) {
				if len(r.Results) == 1 {
					taintSources(se, retval(r, 0), seen, out, params)
				}
			}
		}
	case *ssa.Convert:
		taintSources(e, x.X, seen, out, params)
	case *ssa.ChangeType:
		taintSources(e, x.X, seen, out, params)
	case *ssa.Phi:
		for _, ed := range x.Edges {
			taintSources(e, ed, seen, out, params)
		}
	case *ssa.UnOp:
		if x.Op == token.MUL {
			if f := forwarded(x); f != nil {
				taintSources(e, f, seen, out, params)
			}
		}
	case *ssa.Parameter:
		if a, pe := e.actual(x); a != nil && x.Parent() == e.Fn && e.Parent != nil {
			taintSources(pe, a, seen, out, params)
			return
		}
		if isInteger(x.Type()) {
			*params = append(*params, x)
		}
	case *ssa.Extract:
		// result of a module helper that returns a decoded number (e.g. a nonce reader): follow its returns
		if call, ok := x.Tuple.(*ssa.Call); ok {
			if sc := call.Call.StaticCallee(); sc != nil && len(sc.Blocks) > 0 && isInteger(x.Type()) && e.depth < maxDepth {
				se := e.Sub(call, sc)
				for _, r := range returnsOf(sc) {
					if x.Index < len(r.Results) {
						taintSources(se, retval(r, x.Index), seen, out, params)
					}
				}
			}
		}
	}
}

// boundedAt: linear facts at `at` bound the atom from above by lengths and constants only.
func boundedBy(facts []Fact, atom string) (string, bool) {
	for _, f := range facts {
		if !f.Lin || f.arith || f.LE.c[atom] >= 0 {
			continue // facts obtained from arithmetic on the value presume it did not wrap: circular
		}
		ok := true
		for a, k := range f.LE.c {
			if a == atom {
				continue
			}
			if k > 0 && !strings.HasPrefix(a, "len(") {
				ok = false
			}
		}
		if ok {
			return f.String(), true
		}
	}
	return "", false
}

func isGasQuantity(e *Env, v ssa.Value) bool {
	t := e.Term(v)
	if strings.Contains(t, "GasProvided") || strings.Contains(t, "GasRemaining") || strings.Contains(t, "GasLocked") {
		return true
	}
	// a uint64 field of the receiver: a price copied from the schedule
	if bt, ok := v.Type().Underlying().(*types.Basic); len(e.Fn.Params) > 0 && e.Fn.Signature.Recv() != nil && ok && bt.Kind() == types.Uint64 {
		if strings.HasPrefix(t, "*P:"+e.Fn.Params[0].Name()+".") {
			return true
		}
	}
	return false
}

type taintSink struct {
	in   ssa.Instruction
	v    ssa.Value
	what string
}

func sinksOf(e *Env, in ssa.Instruction, mode taintMode) []taintSink {
	var out []taintSink
	switch x := in.(type) {
	case *ssa.BinOp:
		switch x.Op {
		case token.ADD, token.SUB, token.MUL, token.SHL:
			if !isInteger(x.Type()) {
				return nil
			}
			if mode == taintGas && !(isGasQuantity(e, x.X) || isGasQuantity(e, x.Y)) {
				return nil
			}
			// a result that wrapped matters where it is consumed: the obligation is placed at every use of the result
			// (through further arithmetic and φ's), so that `m := 3*n + s; if n > len || len < m` — product computed
			// early, consulted only behind the bound — is accepted, and a product consulted before any bound is not
			for _, use := range consumingUses(x, 0, map[ssa.Value]bool{}) {
				out = append(out, taintSink{use, x.X, "operand of " + x.Op.String()}, taintSink{use, x.Y, "operand of " + x.Op.String()})
			}
		}
	case *ssa.Convert:
		if mode == taintAll && isInteger(x.Type()) && isInteger(x.X.Type()) {
			dst, src := x.Type().Underlying().(*types.Basic), x.X.Type().Underlying().(*types.Basic)
			if dst.Info()&types.IsUnsigned == 0 && src.Info()&types.IsUnsigned != 0 && usedAsSizeOrIndex(x) {
				out = append(out, taintSink{in, x.X, "conversion to signed " + dst.Name()})
			}
		}
	case *ssa.MakeSlice:
		if mode == taintAll {
			out = append(out, taintSink{in, x.Len, "size of make"}, taintSink{in, x.Cap, "capacity of make"})
		}
	case *ssa.MakeMap:
		if mode == taintAll && x.Reserve != nil {
			out = append(out, taintSink{in, x.Reserve, "size of make(map)"})
		}
	case *ssa.IndexAddr:
		if mode == taintAll {
			out = append(out, taintSink{in, x.Index, "index"})
		}
	case *ssa.Slice:
		if mode == taintAll {
			for _, b := range []ssa.Value{x.Low, x.High, x.Max} {
				if b != nil {
					out = append(out, taintSink{in, b, "slice bound"})
				}
			}
		}
	}
	return out
}

// consumingUses: the instructions that consult the value of an arithmetic result: everything but further arithmetic,
// conversions and φ's, which are followed.
func consumingUses(v ssa.Value, depth int, seen map[ssa.Value]bool) []ssa.Instruction {
	if seen[v] || depth > 4 || v.Referrers() == nil {
		return nil
	}
	seen[v] = true
	var out []ssa.Instruction
	for _, r := range *v.Referrers() {
		switch u := r.(type) {
		case *ssa.DebugRef:
		case *ssa.Convert:
			out = append(out, consumingUses(u, depth+1, seen)...)
		case *ssa.ChangeType:
			out = append(out, consumingUses(u, depth+1, seen)...)
		case *ssa.Phi:
			out = append(out, consumingUses(u, depth+1, seen)...)
		case *ssa.BinOp:
			switch u.Op {
			case token.ADD, token.SUB, token.MUL, token.SHL:
				out = append(out, consumingUses(u, depth+1, seen)...)
			default:
				// a comparison: it is consulted where its result decides a branch (or flows on)
				cu := consumingUses(u, depth+1, seen)
				if len(cu) == 0 {
					out = append(out, u)
				}
				out = append(out, cu...)
			}
		default:
			out = append(out, r)
		}
	}
	return out
}

// usedAsSizeOrIndex: the converted value reaches a comparison, index, slice bound or allocation size.
func usedAsSizeOrIndex(v ssa.Value) bool { return usedAsSizeOrIndexRec(v, map[ssa.Value]bool{}) }

func usedAsSizeOrIndexRec(v ssa.Value, seen map[ssa.Value]bool) bool {
	refs := v.Referrers()
	if refs == nil || seen[v] {
		return false
	}
	seen[v] = true
	for _, r := range *refs {
		switch r := r.(type) {
		case *ssa.BinOp, *ssa.IndexAddr, *ssa.Slice, *ssa.MakeSlice, *ssa.MakeMap:
			return true
		case ssa.CallInstruction:
			_ = r
			return true
		case *ssa.Phi:
			if usedAsSizeOrIndexRec(r, seen) {
				return true
			}
		}
	}
	return false
}

func taintRule(c *Ctx, rule, doc string, scope func(*Prog, *ssa.Function) bool, mode taintMode, floor int) {
	c.Rule(rule, doc, floor)
	c.Axiom("A-len", "A-argbytes")
	nsrc := 0
	for _, fn := range c.P.Funcs {
		if !scope(c.P, fn) || c.P.Generated(fn) {
			continue
		}
		for _, b := range fn.Blocks {
			for _, in := range b.Instrs {
				if call, ok := in.(*ssa.Call); ok && CalleeName(call) == "(*math/big.Int).Uint64" {
					nsrc++
				}
				e := c.P.Env(fn)
				for _, sk := range sinksOf(e, in, mode) {
					checkTaintSink(c, rule, e, sk, 0)
				}
			}
		}
	}
	c.Count(rule+" Uint64() sources seen", nsrc)
}

func checkTaintSink(c *Ctx, rule string, e *Env, sk taintSink, depth int) {
	var srcs []taintSrc
	var params []*ssa.Parameter
	taintSources(e, sk.v, map[ssa.Value]bool{}, &srcs, &params)
	fn := sk.in.Parent()
	for _, s := range srcs {
		// env in which the source lives (it may sit in a helper whose return value we followed); whether it is
		// argument-derived is decided there, with the helper's parameters replaced by the caller's terms
		call, se := s.call, s.env
		recvTerm := se.Term(call.Call.Args[0])
		derived := argDerived(recvTerm)
		for _, d := range se.bigReachingDefs(call.Call.Args[0], call) {
			if bigMethod(d) == "SetBytes" && len(d.Call.Args) == 2 && argDerivedValue(se, d.Call.Args[1], 0) {
				derived = true
			}
		}
		if !derived {
			continue
		}
		atom := se.Term(call)
		construct := sk.what + ": " + atom
		facts := e.LinFactsAt(sk.in, nil)
		for x := e; x.Parent != nil; x = x.Parent {
			if x.Call == nil {
				continue
			}
			if ci, ok := x.Call.(ssa.Instruction); ok && ci.Parent() == x.Parent.Fn {
				facts = append(facts, x.Parent.LinFactsAt(x.Call, nil)...)
			}
		}
		if by, ok := boundedBy(facts, atom); ok {
			c.OK(rule, FuncName(fn), construct, c.P.InstrPos(sk.in), "bounded before use: "+by)
		} else {
			c.FailX(Oblig{Rule: rule, Func: FuncName(fn), Construct: construct, Pos: c.P.InstrPos(sk.in), Kind: "violation",
				Detail:   "an attacker-chosen 64-bit number decoded from the arguments is used as " + sk.what + " without being bounded by a length or a constant first: the arithmetic can wrap / the allocation is unbounded",
				Facts:    factStrings(facts),
				Expected: "a guard such as `if n > uint64(len(args)) { return error }` on every path before this use"})
		}
	}
	// parameters of unexported helpers: every call site must pass a bounded value
	if depth < 2 {
		for _, par := range params {
			if par.Parent() != e.Fn || isExportedAPI(e.Fn) {
				continue
			}
			if e.Parent != nil {
				if a, pe := e.actual(par); a != nil {
					checkTaintSink(c, rule, pe, taintSink{e.Call, a, sk.what + " (via parameter " + par.Name() + " of " + e.Fn.Name() + ")"}, depth+1)
				}
				continue
			}
			for _, cs := range c.P.Callers[e.Fn] {
				if !c.P.Src(cs.Parent()) {
					continue
				}
				sub := c.P.Env(cs.Parent()).Sub(cs, e.Fn)
				if a, pe := sub.actual(par); a != nil {
					// evaluate boundedness at the sink inside the callee, with the caller's facts available
					var s2 []taintSrc
					var p2 []*ssa.Parameter
					taintSources(pe, a, map[ssa.Value]bool{}, &s2, &p2)
					for _, s := range s2 {
						call := s.call
						if !argDerived(s.env.Term(call.Call.Args[0])) {
							continue
						}
						atom := s.env.Term(call)
						construct := sk.what + " (via parameter " + par.Name() + "): " + atom
						facts := sub.LinFactsAt(sk.in, nil)
						facts = append(facts, pe.LinFactsAt(cs, nil)...)
						if by, ok := boundedBy(facts, atom); ok {
							c.OK(rule, FuncName(e.Fn), construct, c.P.InstrPos(sk.in), "bounded at the call site in "+cs.Parent().Name()+": "+by)
						} else {
							c.FailX(Oblig{Rule: rule, Func: FuncName(e.Fn), Construct: construct, Pos: c.P.InstrPos(sk.in), Kind: "violation",
								Detail: "decoded 64-bit number passed by " + FuncName(cs.Parent()) + " reaches " + sk.what + " unbounded",
								Facts:  factStrings(facts)})
						}
					}
				}
			}
		}
	}
}
