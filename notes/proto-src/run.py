import subprocess, shutil, os, sys, json
sys.path.insert(0,'/tmp/mut')
from mutants import M
env=dict(os.environ, GOFLAGS='-mod=mod', GOPROXY='off', GOSUMDB='off', GOTOOLCHAIN='local')
res=[]
only=set(sys.argv[1:])
for (mid,prop,f,old,new,note) in M:
    if only and mid not in only: continue
    d='/tmp/mut/w'
    shutil.rmtree(d,ignore_errors=True)
    shutil.copytree('/repo',d,ignore=shutil.ignore_patterns('.git'))
    p=os.path.join(d,f)
    s=open(p).read()
    if s.count(old)!=1:
        res.append((mid,prop,'NOAPPLY(%d)'%s.count(old),note)); print(res[-1]); continue
    open(p,'w').write(s.replace(old,new))
    b=subprocess.run(['go','build','./...'],cwd=d,env=env,capture_output=True,text=True)
    if b.returncode!=0:
        res.append((mid,prop,'NOBUILD',b.stderr.strip().splitlines()[-1] if b.stderr.strip() else '')); print(res[-1]); continue
    v=subprocess.run(['go','vet','./...'],cwd=d,env=env,capture_output=True,text=True)
    t=subprocess.run(['go','test','-vet=off','-count=1','./...'],cwd=d,env=env,capture_output=True,text=True)
    failed=[l for l in t.stdout.splitlines() if l.startswith('--- FAIL')]
    st='SURVIVES' if t.returncode==0 else 'killed(%d)'%len(failed)
    if v.returncode!=0: st+='+vet'
    res.append((mid,prop,st,note)); print(res[-1]); sys.stdout.flush()
shutil.rmtree('/tmp/mut/w',ignore_errors=True)
json.dump(res,open('/tmp/mut/results.json','w'),indent=1)
print('survivors',sum(1 for r in res if r[2].startswith('SURVIVES')),'of',len(res))
